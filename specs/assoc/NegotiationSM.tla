---------------------------- MODULE NegotiationSM ----------------------------
(***************************************************************************)
(* C29 as a state machine: a dicom-rs requestor associates with a dicom-rs *)
(* acceptor (one step per code point: create_a_associate_req, the          *)
(* acceptor's establish, process_a_association_resp), then either side     *)
(* sends PDUs of sizes around the limits.  TLC explores every case of the  *)
(* Gen_Negotiation29 universe and checks the sentences of the property as  *)
(* invariants; it also checks that this step-by-step machine agrees with   *)
(* the one-shot operator Negotiation!Scenario used for case generation and *)
(* trace validation.                                                       *)
(***************************************************************************)
EXTENDS Gen_Negotiation29

VARIABLES phase,   \* "start" | "rqsent" | "answered" | "open" | "failed"
          req,     \* the A-ASSOCIATE-RQ on the wire
          ans,     \* the acceptor's answer: [kind |-> "AC", results, maxlen] | [kind |-> "RJ"] | [kind |-> "none"]
          rqv,     \* requestor's view  [est, acc, peer]
          acv,     \* acceptor's view   [est, acc, peer]
          wire     \* set of <<side, n>>: PDUs of n bytes that went out after establishment
smvars == <<c, phase, req, ans, rqv, acv, wire>>

NC == Norm(c)
NoView == [est |-> FALSE, acc |-> <<>>, peer |-> <<0, 0>>]

SInit == /\ c \in Cases /\ phase = "start" /\ req = <<>> /\ ans = [kind |-> "none"]
         /\ rqv = NoView /\ acv = NoView /\ wire = {}

RqConnect == /\ phase = "start"
             /\ req' = N!BuildRq(NC.opts) /\ phase' = "rqsent"
             /\ UNCHANGED <<c, ans, rqv, acv, wire>>

(* the acceptor cannot even read the request with an unusable local maximum *)
AcRefuse == /\ phase = "rqsent" /\ N!LocallyRefused(NC.cfg.maxpdu)
            /\ phase' = "failed" /\ UNCHANGED <<c, req, ans, rqv, acv, wire>>

AcAnswer == /\ phase = "rqsent" /\ ~N!LocallyRefused(NC.cfg.maxpdu)
            /\ LET a == N!Accept(req, NC.cfg) IN
               IF a.acOk
                 THEN /\ ans' = [kind |-> "AC", results |-> a.results, maxlen |-> NC.cfg.maxpdu]
                      /\ \E pm \in a.peermax :
                           acv' = [est |-> TRUE, acc |-> N!AcceptedTriples(a.results), peer |-> N!MinU(pm, N!Largest)]
                 ELSE ans' = [kind |-> "RJ"] /\ acv' = NoView
            /\ phase' = "answered" /\ UNCHANGED <<c, req, rqv, wire>>

(* process_a_association_resp: keep accepted results whose identifier was  *)
(* proposed, abstract syntax from the own proposal                         *)
Proposed(id) == CHOOSE i \in 1..Len(req.pcs) : req.pcs[i].id = id
RqAccepted == LET ok == SelectSeq(ans.results, LAMBDA r : r.ok /\ \E i \in 1..Len(req.pcs) : req.pcs[i].id = r.id)
              IN [i \in 1..Len(ok) |-> [id |-> ok[i].id, abs |-> N!Sig(req.pcs[Proposed(ok[i].id)].abs), ts |-> ok[i].ts]]

RqProcess == /\ phase = "answered"
             /\ IF N!LocallyRefused(NC.opts.maxpdu) \/ ans.kind = "RJ" \/ RqAccepted = <<>>
                  THEN phase' = "failed" /\ rqv' = NoView
                  ELSE phase' = "open" /\ rqv' = [est |-> TRUE, acc |-> RqAccepted, peer |-> N!Eff(ans.maxlen)]
             /\ UNCHANGED <<c, req, ans, acv, wire>>

(* encoded sizes tried: single-PDV PDUs around the limit and multi-PDV PDUs *)
(* (2, 3, 8 PDVs) up to one byte beyond limit + 6 per additional PDV       *)
Sizes(P) == IF Small(P) THEN {N!AddSmall(P, d) : d \in {5, 6, 7, 12, 13, 18, 19, 48, 49}} ELSE {<<0, 1000>>, <<1, 7>>}
SendPdu == /\ phase = "open"
           /\ \E side \in {"rq", "ac"} :
                LET P == IF side = "rq" THEN rqv.peer ELSE acv.peer IN
                \E n \in Sizes(P) :
                   wire' = IF N!SendAllowed(n, P) THEN wire \cup {<<side, n>>} ELSE wire
           /\ UNCHANGED <<c, phase, req, ans, rqv, acv>>

SNext == RqConnect \/ AcRefuse \/ AcAnswer \/ RqProcess \/ SendPdu
SSpec == SInit /\ [][SNext]_smvars

---------------------------------------------------------------------------
IdsDistinctOdd == req # <<>> => N!IdsOk([i \in 1..Len(req.pcs) |-> req.pcs[i].id])
SameContexts   == phase = "open" => rqv.acc = acv.acc /\ rqv.acc # <<>>
EachOthersMax  == phase = "open" => rqv.peer = N!Eff(NC.cfg.maxpdu) /\ acv.peer = N!Eff(NC.opts.maxpdu)
FailsIffNothing == phase = "failed" /\ ans.kind = "AC" /\ ~N!LocallyRefused(NC.opts.maxpdu)
                     => \A i \in 1..Len(ans.results) : ~ans.results[i].ok
EstablishedHasContext == phase = "open" => \E i \in 1..Len(ans.results) : ans.results[i].ok
(* nothing longer than the receiver's maximum ever goes out *)
WithinReceiverMax == \A w \in wire :
                       LET rcv == IF w[1] = "rq" THEN NC.cfg.maxpdu ELSE NC.opts.maxpdu IN
                       N!Leq(w[2], N!AddSmall(N!Eff(rcv), 6))
(* the machine and the one-shot operator agree *)
AgreesWithScenario ==
  LET e == N!Scenario(NC.opts, NC.cfg) IN
  /\ phase = "open" => e.est /\ rqv.acc = e.accepted /\ rqv.peer = e.rqPeer /\ acv.peer = e.acPeer
  /\ phase = "failed" => ~e.est
=============================================================================
