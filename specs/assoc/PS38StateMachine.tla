-------------------------- MODULE PS38StateMachine --------------------------
(***************************************************************************)
(* The DICOM Upper Layer state machine of PS3.8 section 9.2 (Table 9-10),  *)
(* restricted to the phase after association establishment: Sta6 ... Sta13 *)
(* and Sta1 (idle, transport closed), for two peers over one transport     *)
(* connection.  Action names are those of PS3.8 (DT-x, AR-x, AA-x).        *)
(*                                                                         *)
(*   sta[p]  state of peer p's upper layer machine (6..13, 1)              *)
(*   net[p]  PDUs in flight towards p (FIFO; TCP)                          *)
(*   up[p]   p's end of the transport connection is open                   *)
(*                                                                         *)
(* The transport may be taken down at either end at any time by the        *)
(* environment (TransportFail: process exit, network failure); PS3.8       *)
(* covers the survivor with AA-4 / AR-5.  The ARTIM timer has no model     *)
(* value: its expiry (AA-2) may happen at any time in Sta13.               *)
(***************************************************************************)
EXTENDS Naturals, Sequences

CONSTANT Peers
VARIABLES sta, net, up
psvars == <<sta, net, up>>

Oth(p) == CHOOSE q \in Peers : q # p

PInit == /\ sta = [p \in Peers |-> 6]
         /\ net = [p \in Peers |-> <<>>]
         /\ up  = [p \in Peers |-> TRUE]

(* p hands PDU m to the transport *)
Snd(p, m) == net' = [net EXCEPT ![Oth(p)] = IF up[Oth(p)] THEN Append(@, m) ELSE @]
(* p takes the next PDU *)
Pop(p) == net' = [net EXCEPT ![p] = Tail(@)]
(* p closes its end: what it has not read is discarded; what it wrote and  *)
(* the peer has not yet read may be cut short by a reset                   *)
Cls(p) == /\ up' = [up EXCEPT ![p] = FALSE]
          /\ \E k \in 0..Len(net[Oth(p)]) :
               net' = [net EXCEPT ![p] = <<>>, ![Oth(p)] = SubSeq(@, 1, k)]
To(p, s) == sta' = [sta EXCEPT ![p] = s]

Got(p, m) == up[p] /\ net[p] # <<>> /\ Head(net[p]) = m

(* service-user requests *)
DT1(p) == sta[p] = 6 /\ up[p] /\ Snd(p, "PData") /\ UNCHANGED <<sta, up>>         \* P-DATA request
AR7(p) == sta[p] = 8 /\ up[p] /\ Snd(p, "PData") /\ UNCHANGED <<sta, up>>         \* P-DATA request in Sta8
AR1(p) == sta[p] = 6 /\ up[p] /\ Snd(p, "ReleaseRQ") /\ To(p, 7) /\ UNCHANGED up  \* A-RELEASE request
AR4(p) == sta[p] \in {8, 12} /\ up[p] /\ Snd(p, "ReleaseRP") /\ To(p, 13) /\ UNCHANGED up  \* A-RELEASE response
AR9(p) == sta[p] = 9 /\ up[p] /\ Snd(p, "ReleaseRP") /\ To(p, 11) /\ UNCHANGED up \* collision, requestor side
AA1(p) == sta[p] \in 6..12 /\ up[p] /\ Snd(p, "Abort") /\ To(p, 13) /\ UNCHANGED up        \* A-ABORT request

(* PDUs received *)
DT2(p) == sta[p] = 6 /\ Got(p, "PData") /\ Pop(p) /\ UNCHANGED <<sta, up>>
AR6(p) == sta[p] = 7 /\ Got(p, "PData") /\ Pop(p) /\ UNCHANGED <<sta, up>>
AR2(p) == sta[p] = 6 /\ Got(p, "ReleaseRQ") /\ Pop(p) /\ To(p, 8) /\ UNCHANGED up
AR3(p) == sta[p] \in {7, 11} /\ Got(p, "ReleaseRP") /\ Cls(p) /\ To(p, 1)         \* confirmation, close
AR8(p, isRq) == sta[p] = 7 /\ Got(p, "ReleaseRQ") /\ Pop(p) /\ To(p, IF isRq THEN 9 ELSE 10) /\ UNCHANGED up
AR10(p) == sta[p] = 10 /\ Got(p, "ReleaseRP") /\ Pop(p) /\ To(p, 12) /\ UNCHANGED up
AA3(p) == sta[p] \in 6..12 /\ Got(p, "Abort") /\ Cls(p) /\ To(p, 1)               \* A-ABORT PDU: close
AA8(p) == /\ sta[p] \in 6..12 /\ up[p] /\ net[p] # <<>>                           \* unexpected PDU
          /\ LET m == Head(net[p]) IN
               \/ sta[p] = 6 /\ m \in {"ReleaseRP", "Other"}
               \/ sta[p] = 7 /\ m = "Other"
               \/ sta[p] \in {8, 9, 12} /\ m \in {"PData", "ReleaseRQ", "ReleaseRP", "Other"}
               \/ sta[p] = 10 /\ m \in {"PData", "ReleaseRQ", "Other"}
               \/ sta[p] = 11 /\ m \in {"PData", "ReleaseRQ", "Other"}
          /\ net' = [net EXCEPT ![p] = Tail(@), ![Oth(p)] = IF up[Oth(p)] THEN Append(@, "Abort") ELSE @]
          /\ To(p, 13) /\ UNCHANGED up
AA2(p) == sta[p] = 13 /\ (Got(p, "Abort") \/ TRUE) /\ up[p] /\ Cls(p) /\ To(p, 1) \* abort PDU or ARTIM expiry
AA6(p) == sta[p] = 13 /\ up[p] /\ net[p] # <<>> /\ Head(net[p]) # "Abort" /\ Pop(p) /\ UNCHANGED <<sta, up>>
(* transport connection closed indication *)
AA4(p) == sta[p] \in 6..12 /\ up[p] /\ ~up[Oth(p)] /\ net[p] = <<>> /\ Cls(p) /\ To(p, 1)
AR5(p) == sta[p] = 13 /\ up[p] /\ ~up[Oth(p)] /\ net[p] = <<>> /\ Cls(p) /\ To(p, 1)
(* environment *)
TransportFail(p) == up[p] /\ Cls(p) /\ To(p, 1)

(* the protocol proper, without the environment *)
PProtocolNext == \E p \in Peers :
           \/ DT1(p) \/ AR7(p) \/ AR1(p) \/ AR4(p) \/ AR9(p) \/ AA1(p)
           \/ DT2(p) \/ AR6(p) \/ AR2(p) \/ AR3(p) \/ AR8(p, TRUE) \/ AR8(p, FALSE) \/ AR10(p)
           \/ AA3(p) \/ AA8(p) \/ AA2(p) \/ AA6(p) \/ AA4(p) \/ AR5(p)

PNext == \E p \in Peers :
           \/ DT1(p) \/ AR7(p) \/ AR1(p) \/ AR4(p) \/ AR9(p) \/ AA1(p)
           \/ DT2(p) \/ AR6(p) \/ AR2(p) \/ AR3(p) \/ AR8(p, TRUE) \/ AR8(p, FALSE) \/ AR10(p)
           \/ AA3(p) \/ AA8(p) \/ AA2(p) \/ AA6(p) \/ AA4(p) \/ AR5(p)
           \/ TransportFail(p)

PSpec == PInit /\ [][PNext]_psvars

---------------------------------------------------------------------------
(* Establishment phase (Sta1 - Sta5 of Table 9-10), added for the whole    *)
(* life cycle; the definitions above are unchanged.  Either peer may       *)
(* request; the transport connection is opened by TConn (AE-1's connect    *)
(* request meeting the other side's AE-5).  A-ASSOCIATE-AC carries at      *)
(* least one accepted presentation context ("AssocAC") or none             *)
(* ("AssocAC0"); the upper layer does not distinguish them.                *)
IsAC(m) == m \in {"AssocAC", "AssocAC0"}

PFullInit == /\ sta = [p \in Peers |-> 1]
             /\ net = [p \in Peers |-> <<>>]
             /\ up  = [p \in Peers |-> FALSE]

AE1(p)  == sta[p] = 1 /\ ~up[p] /\ To(p, 4) /\ UNCHANGED <<net, up>>            \* A-ASSOCIATE request: connect
TConn(p) == /\ sta[p] = 4 /\ sta[Oth(p)] = 1 /\ ~up[p] /\ ~up[Oth(p)]            \* connection opens; AE-5 at the acceptor
            /\ up' = [q \in Peers |-> TRUE] /\ sta' = [sta EXCEPT ![Oth(p)] = 2] /\ UNCHANGED net
AE2(p)  == sta[p] = 4 /\ up[p] /\ Snd(p, "AssocRQ") /\ To(p, 5) /\ UNCHANGED up    \* confirmation: send A-ASSOCIATE-RQ
AE3(p)  == sta[p] = 5 /\ up[p] /\ net[p] # <<>> /\ IsAC(Head(net[p])) /\ Pop(p) /\ To(p, 6) /\ UNCHANGED up
AE4(p)  == sta[p] = 5 /\ Got(p, "AssocRJ") /\ Cls(p) /\ To(p, 1)                  \* rejected: close
AE6a(p) == sta[p] = 2 /\ Got(p, "AssocRQ") /\ Pop(p) /\ To(p, 3) /\ UNCHANGED up   \* acceptable: indication
AE6r(p) == /\ sta[p] = 2 /\ Got(p, "AssocRQ")                                     \* not acceptable: reject
           /\ net' = [net EXCEPT ![p] = Tail(@), ![Oth(p)] = IF up[Oth(p)] THEN Append(@, "AssocRJ") ELSE @]
           /\ To(p, 13) /\ UNCHANGED up
AE7(p)  == sta[p] = 3 /\ up[p] /\ \E m \in {"AssocAC", "AssocAC0"} : Snd(p, m) /\ To(p, 6) /\ UNCHANGED up
AE8(p)  == sta[p] = 3 /\ up[p] /\ Snd(p, "AssocRJ") /\ To(p, 13) /\ UNCHANGED up
AA1e(p) == sta[p] \in {3, 5} /\ up[p] /\ Snd(p, "Abort") /\ To(p, 13) /\ UNCHANGED up   \* A-ABORT request
AA2s4(p) == sta[p] = 4 /\ ~up[p] /\ To(p, 1) /\ UNCHANGED <<net, up>>               \* abort while connecting
(* Sta2: anything but A-ASSOCIATE-RQ / A-ABORT is answered with A-ABORT (AA-1) *)
AA1s2(p) == /\ sta[p] = 2 /\ up[p] /\ net[p] # <<>> /\ Head(net[p]) \notin {"AssocRQ", "Abort"}
            /\ net' = [net EXCEPT ![p] = Tail(@), ![Oth(p)] = IF up[Oth(p)] THEN Append(@, "Abort") ELSE @]
            /\ To(p, 13) /\ UNCHANGED up
AA2s2(p) == sta[p] = 2 /\ up[p] /\ Cls(p) /\ To(p, 1)            \* A-ABORT PDU received, or ARTIM expired
AA3e(p) == sta[p] \in {3, 5} /\ Got(p, "Abort") /\ Cls(p) /\ To(p, 1)
AA4e(p) == sta[p] \in {3, 5} /\ up[p] /\ ~up[Oth(p)] /\ net[p] = <<>> /\ Cls(p) /\ To(p, 1)
AA5(p)  == sta[p] = 2 /\ up[p] /\ ~up[Oth(p)] /\ net[p] = <<>> /\ Cls(p) /\ To(p, 1)
AA8e(p) == /\ sta[p] \in {3, 5} /\ up[p] /\ net[p] # <<>>
           /\ LET m == Head(net[p]) IN
                \/ sta[p] = 5 /\ ~IsAC(m) /\ m \notin {"AssocRJ", "Abort"}
                \/ sta[p] = 3 /\ m # "Abort"
           /\ net' = [net EXCEPT ![p] = Tail(@), ![Oth(p)] = IF up[Oth(p)] THEN Append(@, "Abort") ELSE @]
           /\ To(p, 13) /\ UNCHANGED up

PEstablishNext == \E p \in Peers :
           \/ AE1(p) \/ TConn(p) \/ AE2(p) \/ AE3(p) \/ AE4(p) \/ AE6a(p) \/ AE6r(p) \/ AE7(p) \/ AE8(p)
           \/ AA1e(p) \/ AA2s4(p) \/ AA1s2(p) \/ AA2s2(p) \/ AA3e(p) \/ AA4e(p) \/ AA5(p) \/ AA8e(p)
(* whole life cycle, protocol proper / with the environment *)
PFullProtocolNext == PEstablishNext \/ PProtocolNext
PFullNext == PEstablishNext \/ PNext
PFullSpec == PFullInit /\ [][PFullNext]_psvars
=============================================================================
