-------------------------- MODULE PS38StateMachine --------------------------
(***************************************************************************)
(* The DICOM Upper Layer state machine of PS3.8 section 9.2 (Table 9-10),  *)
(* restricted to the phase after association establishment: Sta6 ... Sta13 *)
(* and Sta1 (idle, transport closed), for two peers over one transport     *)
(* connection.  Action names are those of PS3.8 (DT-x, AR-x, AA-x).        *)
(*                                                                         *)
(*   sta[p]  state of peer p's upper layer machine (6..13, 1)              *)
(*   net[p]  PDUs in flight towards p (FIFO; TCP)                          *)
(*   up[p]   p's end of the transport connection is open                   *)
(*                                                                         *)
(* The transport may be taken down at either end at any time by the        *)
(* environment (TransportFail: process exit, network failure); PS3.8       *)
(* covers the survivor with AA-4 / AR-5.  The ARTIM timer has no model     *)
(* value: its expiry (AA-2) may happen at any time in Sta13.               *)
(***************************************************************************)
EXTENDS Naturals, Sequences

CONSTANT Peers
VARIABLES sta, net, up
psvars == <<sta, net, up>>

Oth(p) == CHOOSE q \in Peers : q # p

PInit == /\ sta = [p \in Peers |-> 6]
         /\ net = [p \in Peers |-> <<>>]
         /\ up  = [p \in Peers |-> TRUE]

(* p hands PDU m to the transport *)
Snd(p, m) == net' = [net EXCEPT ![Oth(p)] = IF up[Oth(p)] THEN Append(@, m) ELSE @]
(* p takes the next PDU *)
Pop(p) == net' = [net EXCEPT ![p] = Tail(@)]
(* p closes its end: what it has not read is discarded; what it wrote and  *)
(* the peer has not yet read may be cut short by a reset                   *)
Cls(p) == /\ up' = [up EXCEPT ![p] = FALSE]
          /\ \E k \in 0..Len(net[Oth(p)]) :
               net' = [net EXCEPT ![p] = <<>>, ![Oth(p)] = SubSeq(@, 1, k)]
To(p, s) == sta' = [sta EXCEPT ![p] = s]

Got(p, m) == up[p] /\ net[p] # <<>> /\ Head(net[p]) = m

(* service-user requests *)
DT1(p) == sta[p] = 6 /\ up[p] /\ Snd(p, "PData") /\ UNCHANGED <<sta, up>>         \* P-DATA request
AR7(p) == sta[p] = 8 /\ up[p] /\ Snd(p, "PData") /\ UNCHANGED <<sta, up>>         \* P-DATA request in Sta8
AR1(p) == sta[p] = 6 /\ up[p] /\ Snd(p, "ReleaseRQ") /\ To(p, 7) /\ UNCHANGED up  \* A-RELEASE request
AR4(p) == sta[p] \in {8, 12} /\ up[p] /\ Snd(p, "ReleaseRP") /\ To(p, 13) /\ UNCHANGED up  \* A-RELEASE response
AR9(p) == sta[p] = 9 /\ up[p] /\ Snd(p, "ReleaseRP") /\ To(p, 11) /\ UNCHANGED up \* collision, requestor side
AA1(p) == sta[p] \in 6..12 /\ up[p] /\ Snd(p, "Abort") /\ To(p, 13) /\ UNCHANGED up        \* A-ABORT request

(* PDUs received *)
DT2(p) == sta[p] = 6 /\ Got(p, "PData") /\ Pop(p) /\ UNCHANGED <<sta, up>>
AR6(p) == sta[p] = 7 /\ Got(p, "PData") /\ Pop(p) /\ UNCHANGED <<sta, up>>
AR2(p) == sta[p] = 6 /\ Got(p, "ReleaseRQ") /\ Pop(p) /\ To(p, 8) /\ UNCHANGED up
AR3(p) == sta[p] \in {7, 11} /\ Got(p, "ReleaseRP") /\ Cls(p) /\ To(p, 1)         \* confirmation, close
AR8(p, isRq) == sta[p] = 7 /\ Got(p, "ReleaseRQ") /\ Pop(p) /\ To(p, IF isRq THEN 9 ELSE 10) /\ UNCHANGED up
AR10(p) == sta[p] = 10 /\ Got(p, "ReleaseRP") /\ Pop(p) /\ To(p, 12) /\ UNCHANGED up
AA3(p) == sta[p] \in 6..12 /\ Got(p, "Abort") /\ Cls(p) /\ To(p, 1)               \* A-ABORT PDU: close
AA8(p) == /\ sta[p] \in 6..12 /\ up[p] /\ net[p] # <<>>                           \* unexpected PDU
          /\ LET m == Head(net[p]) IN
               \/ sta[p] = 6 /\ m \in {"ReleaseRP", "Other"}
               \/ sta[p] = 7 /\ m = "Other"
               \/ sta[p] \in {8, 9, 12} /\ m \in {"PData", "ReleaseRQ", "ReleaseRP", "Other"}
               \/ sta[p] = 10 /\ m \in {"PData", "ReleaseRQ", "Other"}
               \/ sta[p] = 11 /\ m \in {"PData", "ReleaseRQ", "Other"}
          /\ net' = [net EXCEPT ![p] = Tail(@), ![Oth(p)] = IF up[Oth(p)] THEN Append(@, "Abort") ELSE @]
          /\ To(p, 13) /\ UNCHANGED up
AA2(p) == sta[p] = 13 /\ (Got(p, "Abort") \/ TRUE) /\ up[p] /\ Cls(p) /\ To(p, 1) \* abort PDU or ARTIM expiry
AA6(p) == sta[p] = 13 /\ up[p] /\ net[p] # <<>> /\ Head(net[p]) # "Abort" /\ Pop(p) /\ UNCHANGED <<sta, up>>
(* transport connection closed indication *)
AA4(p) == sta[p] \in 6..12 /\ up[p] /\ ~up[Oth(p)] /\ net[p] = <<>> /\ Cls(p) /\ To(p, 1)
AR5(p) == sta[p] = 13 /\ up[p] /\ ~up[Oth(p)] /\ net[p] = <<>> /\ Cls(p) /\ To(p, 1)
(* environment *)
TransportFail(p) == up[p] /\ Cls(p) /\ To(p, 1)

(* the protocol proper, without the environment *)
PProtocolNext == \E p \in Peers :
           \/ DT1(p) \/ AR7(p) \/ AR1(p) \/ AR4(p) \/ AR9(p) \/ AA1(p)
           \/ DT2(p) \/ AR6(p) \/ AR2(p) \/ AR3(p) \/ AR8(p, TRUE) \/ AR8(p, FALSE) \/ AR10(p)
           \/ AA3(p) \/ AA8(p) \/ AA2(p) \/ AA6(p) \/ AA4(p) \/ AR5(p)

PNext == \E p \in Peers :
           \/ DT1(p) \/ AR7(p) \/ AR1(p) \/ AR4(p) \/ AR9(p) \/ AA1(p)
           \/ DT2(p) \/ AR6(p) \/ AR2(p) \/ AR3(p) \/ AR8(p, TRUE) \/ AR8(p, FALSE) \/ AR10(p)
           \/ AA3(p) \/ AA8(p) \/ AA2(p) \/ AA6(p) \/ AA4(p) \/ AR5(p)
           \/ TransportFail(p)

PSpec == PInit /\ [][PNext]_psvars
=============================================================================
