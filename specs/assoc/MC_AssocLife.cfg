CONSTANTS MaxData = 1 Scripted = {}
SPECIFICATION LFairSpec
INVARIANTS LTypeOK LEndClosed
PROPERTIES RQFirstAndOnce OneAnswer NothingAfterRJ NoDataBeforeEstablished EstablishmentEnds LifeRefinesPS38 LifeDeviationsAreNamed ReleaseOnlyAfterRP DataOnlyWhenEstablished RPOnlyFromGotRQ
CHECK_DEADLOCK FALSE
