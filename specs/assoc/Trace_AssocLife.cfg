CONSTANTS MaxData = 100000 Scripted = {}
SPECIFICATION TSpec
CONSTRAINT Track
POSTCONDITION Accepted
CHECK_DEADLOCK FALSE
