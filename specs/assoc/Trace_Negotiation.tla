-------------------------- MODULE Trace_Negotiation --------------------------
(***************************************************************************)
(* Trace validator for C28 / C29.  Every recorded event is judged with the *)
(* operators of Negotiation.tla.                                           *)
(*                                                                         *)
(* C28 (seeded larger requests):                                           *)
(*   {ev:"c28", req, cfg, obs, view}   obs = answer on the wire, view =    *)
(*   the acceptor's own view after establish                               *)
(* C29 (real requestor against real acceptor through a recording proxy):   *)
(*   {ev:"c29", opts, cfg}             start of a case                     *)
(*   {ev:"rqpdu", req}                 A-ASSOCIATE-RQ seen on the wire     *)
(*   {ev:"anspdu", obs}                the acceptor's answer on the wire   *)
(*   {ev:"est", rq, ac}                both ends' results of establish     *)
(*   {ev:"send", side, via, n, pdvs, ret, wire}  one send / send_pdata call and *)
(*                                     the PDUs it put on the wire         *)
(* Registry facts: IOEnv.FACTS.                                            *)
(***************************************************************************)
EXTENDS Naturals, Sequences, FiniteSets, TLC, Json, IOUtils

Rec   == ndJsonDeserialize(IOEnv.TRACE)
Facts == ndJsonDeserialize(IOEnv.FACTS)[1]
SupportedSet == {Facts.supported[i] : i \in DOMAIN Facts.supported}
N == INSTANCE Negotiation WITH Supported <- SupportedSet

VARIABLES l,      \* next line
          sc,     \* current C29 case: [opts, cfg, exp] or <<>>
          rqseen  \* the request seen on the wire in the current case (or <<>>)
tvars == <<l, sc, rqseen>>

SetOf(s) == {s[i] : i \in DOMAIN s}
CfgOf(c) == [c EXCEPT !.abs = SetOf(c.abs), !.tss = SetOf(c.tss)]
(* options as the builders document them: values above the largest         *)
(* supported are truncated                                                 *)
Opt(m) == N!MinU(m, N!Largest)
OptsOf(o) == [o EXCEPT !.maxpdu = Opt(o.maxpdu)]

TInit == l = 1 /\ sc = <<>> /\ rqseen = <<>> /\ TLCSet(1, 1)
Ev(e) == l <= Len(Rec) /\ Rec[l].ev = e /\ l' = l + 1
R == Rec[l]

T28 == /\ Ev("c28")
       /\ LET exp == N!Accept(R.req, CfgOf(R.cfg)) IN
            /\ N!AnswerConforms(exp, R.obs)
            /\ N!ViewConforms(exp, R.obs, R.view)
       /\ UNCHANGED <<sc, rqseen>>

T29 == /\ Ev("c29")
       /\ LET o == OptsOf(R.opts)  c == [CfgOf(R.cfg) EXCEPT !.maxpdu = Opt(R.cfg.maxpdu)] IN
            sc' = [opts |-> o, cfg |-> c, exp |-> N!Scenario(o, c)]
       /\ rqseen' = <<>>

(* the request on the wire: distinct odd identifiers, the proposed         *)
(* contexts in the order given, the local maximum as Maximum Length        *)
TRq == /\ Ev("rqpdu") /\ sc # <<>>
       /\ LET q == R.req  b == N!BuildRq(sc.opts) IN
            /\ N!IdsOk([i \in 1..Len(q.pcs) |-> q.pcs[i].id])
            /\ Len(q.pcs) = Len(b.pcs)
            /\ \A i \in 1..Len(b.pcs) :
                 /\ N!Sig(q.pcs[i].abs) = N!Sig(b.pcs[i].abs)
                 /\ [k \in 1..Len(q.pcs[i].tss) |-> N!Sig(q.pcs[i].tss[k])]
                      = [k \in 1..Len(b.pcs[i].tss) |-> N!Sig(b.pcs[i].tss[k])]
            /\ q.maxlen = b.maxlen
            /\ q.pv = 1 /\ q.appctx = b.appctx /\ q.called = b.called
       /\ rqseen' = R.req
       /\ UNCHANGED sc

(* the answer to the request that was really sent *)
TAns == /\ Ev("anspdu") /\ sc # <<>> /\ rqseen # <<>>
        /\ N!AnswerConforms(N!Accept(rqseen, sc.cfg), R.obs)
        /\ (R.obs.type = "AC" => R.obs.maxlen = sc.cfg.maxpdu)
        /\ UNCHANGED <<sc, rqseen>>

Triples(pcs) == {[id |-> pcs[i].id, abs |-> N!Sig(pcs[i].abs), ts |-> N!Sig(pcs[i].ts)] : i \in DOMAIN pcs}

TEst == /\ Ev("est") /\ sc # <<>>
        /\ LET e == sc.exp IN
             /\ R.rq.est = e.est
             /\ e.rejected => ~R.ac.est
             /\ e.est =>
                  /\ R.ac.est
                  /\ Triples(R.rq.pcs) = SetOf(e.accepted)
                  /\ Cardinality(Triples(R.rq.pcs)) = Len(R.rq.pcs)
                  /\ Triples(R.ac.pcs) = SetOf(e.accepted)
                  /\ Cardinality(Triples(R.ac.pcs)) = Len(R.ac.pcs)
                  /\ R.rq.peer = e.rqPeer /\ R.ac.peer = e.acPeer
                  /\ R.rq.local = sc.opts.maxpdu /\ R.ac.local = sc.cfg.maxpdu
        /\ UNCHANGED <<sc, rqseen>>

RECURSIVE SumData(_, _)
(* payload carried by a list of single-PDV P-DATA PDUs: PDU-length - 6 each *)
SumData(w, i) == IF i > Len(w) THEN 0 ELSE (w[i][2] - 6) + SumData(w, i + 1)

TSend == /\ Ev("send") /\ sc # <<>> /\ sc.exp.est
         /\ LET peer == IF R.side = "rq" THEN sc.exp.rqPeer ELSE sc.exp.acPeer IN
            IF R.via = "send"
              THEN (* n = size of the encoded PDU, header included; for a PDU of   *)
                   (* several PDVs it is what the spec computes from the fragments *)
                   /\ (R.pdvs # <<>> => (R.n[1] = 0 /\ R.n[2] = N!EncodedLen(R.pdvs)))
                   /\ IF N!SendAllowed(R.n, peer)
                     THEN R.ret = "ok" /\ Len(R.wire) = 1 /\ N!AddSmall(R.wire[1], 6) = R.n
                     ELSE R.ret = "toolong" /\ R.wire = <<>>
              ELSE (* send_pdata of n payload bytes (n < 65536 here) *)
                   /\ R.ret = "ok"
                   /\ Len(R.wire) >= 1
                   /\ \A i \in 1..Len(R.wire) : N!Leq(R.wire[i], peer) /\ R.wire[i][1] = 0 /\ R.wire[i][2] >= 6
                   /\ SumData(R.wire, 1) = R.n[2] /\ R.n[1] = 0
         /\ UNCHANGED <<sc, rqseen>>

TNext == T28 \/ T29 \/ TRq \/ TAns \/ TEst \/ TSend
TSpec == TInit /\ [][TNext]_tvars

Track == TLCSet(1, IF l > TLCGet(1) THEN l ELSE TLCGet(1))
Accepted == IF TLCGet(1) = Len(Rec) + 1 THEN TRUE
            ELSE Print(<<"REJECTED", TLCGet(1), ToJson(Rec[TLCGet(1)])>>, FALSE)
=============================================================================
