--------------------------- MODULE Gen_Negotiation ---------------------------
(***************************************************************************)
(* Case generator for C28: TLC enumerates the bounded universe of the      *)
(* property and prints every request/configuration together with the       *)
(* answer demanded by Negotiation!Accept.  Registry facts come from        *)
(* IOEnv.FACTS (one JSON line {"supported":[uid...]}).                     *)
(***************************************************************************)
EXTENDS Naturals, Sequences, FiniteSets, TLC, Json, IOUtils

CONSTANTS Mode,     \* "single" | "multi" | "header" | "maxlen" | "all"
          Big       \* TRUE: thorough universe

Facts == ndJsonDeserialize(IOEnv.FACTS)[1]
SupportedSet == {Facts.supported[i] : i \in DOMAIN Facts.supported}
N == INSTANCE Negotiation WITH Supported <- SupportedSet

(* abstract syntaxes: A, B configured; C not configured *)
A == "1.2.840.10008.1.1"
B == "1.2.840.10008.5.1.4.1.1.7"
C == "1.2.840.10008.5.1.4.1.1.2"
(* transfer syntaxes *)
IVR  == "1.2.840.10008.1.2"
EVR  == "1.2.840.10008.1.2.1"
UNK  == "1.2.840.10008.1.2.4.999"     \* not registered
STUB == "1.2.840.10008.1.2.4.90"      \* registered; no pixel data codec in the harness build
AppCtx == "1.2.840.10008.3.1.1.1"

ASSUME IVR \in SupportedSet /\ EVR \in SupportedSet /\ UNK \notin SupportedSet

U(u)  == [u |-> u, pad |-> 0]
UN(u) == [u |-> u, pad |-> 1]

AbsU == {U(A), U(B), U(C), UN(A)}
TsU  == {U(IVR), U(EVR), U(UNK), UN(IVR), U(STUB)}

CfgTs == {{}, {IVR}, {EVR}, {IVR, EVR}, {UNK}, {STUB}}

(* maxpdu: the acceptor's OWN maximum PDU length (<<>> : left at the library default); *)
(* it must not influence what is recorded for the requestor                       *)
CfgM(abs, tss, prom, access, own) ==
  [abs |-> abs, tss |-> tss, promiscuous |-> prom, aet |-> "THIS-SCP", access |-> access,
   appctx |-> AppCtx, pv |-> 1, maxpdu |-> own]
Cfg(abs, tss, prom, access) == CfgM(abs, tss, prom, access, <<>>)

Cfgs == {Cfg({A, B}, t, p, "any") : t \in CfgTs, p \in BOOLEAN} \cup {Cfg({}, {}, TRUE, "any")}
FewCfgs == {Cfg({A, B}, t, p, "any") : t \in {{}, {EVR}}, p \in BOOLEAN}

Req(pv, appctx, called, pcs, maxlen) ==
  [pv |-> pv, appctx |-> appctx, called |-> called, pcs |-> pcs, maxlen |-> maxlen]
StdReq(pcs) == Req(1, AppCtx, "THIS-SCP", pcs, <<0, 16384>>)

SeqsOf(S, lo, hi) == UNION {[1..k -> S] : k \in lo..hi}

Single == {[kind |-> "single", cfg |-> cf,
            req |-> StdReq(<<[id |-> 1, abs |-> a, tss |-> t]>>)] :
              cf \in Cfgs, a \in AbsU, t \in SeqsOf(TsU, 1, 3)}

(* multi-context requests: identifiers distinct, odd, not in order *)
Pool == {[abs |-> U(A), tss |-> <<U(IVR)>>], [abs |-> U(C), tss |-> <<U(IVR)>>],
         [abs |-> U(B), tss |-> <<U(UNK)>>], [abs |-> UN(A), tss |-> <<U(UNK), U(EVR), UN(IVR)>>],
         [abs |-> U(C), tss |-> <<U(UNK)>>], [abs |-> U(B), tss |-> <<UN(IVR), U(EVR)>>]}
SmallPool == {p \in Pool : p.abs \in {U(A), U(C)} \/ Len(p.tss) = 3}
Ids(k) == CASE k = 2 -> <<3, 1>> [] k = 3 -> <<5, 1, 255>> [] k = 4 -> <<7, 3, 1, 9>>
Pcs(f) == [i \in DOMAIN f |-> [id |-> Ids(Len(f))[i], abs |-> f[i].abs, tss |-> f[i].tss]]
Multi == {[kind |-> "multi", cfg |-> cf, req |-> StdReq(Pcs(f))] :
            cf \in FewCfgs,
            f \in SeqsOf(Pool, 2, 3) \cup [1..4 -> IF Big THEN Pool ELSE SmallPool]}

(* protocol version, application context name, access control *)
Header == {[kind |-> "header", cfg |-> Cfg({A, B}, {}, FALSE, acc),
            req |-> Req(pv, ac, called, <<[id |-> 1, abs |-> U(A), tss |-> <<U(IVR)>>]>>, <<0, 16384>>)] :
              acc \in {"any", "called"}, pv \in {1, 2, 3, 0, 65534, 65535},
              ac \in {AppCtx, "1.2.840.10008.3.1.1.2"}, called \in {"THIS-SCP", "OTHER-SCP"}}

MaxLens == {<<>>, <<0, 0>>, <<0, 1>>, <<0, 1018>>, <<0, 4096>>, <<0, 16384>>, <<0, 32762>>, <<1, 0>>,
            <<32768, 0>>, <<65535, 65528>>, <<65535, 65529>>, <<65535, 65535>>}
OwnMax == {<<>>, <<0, 1018>>, <<0, 4096>>, <<0, 32762>>, <<16, 0>>, <<65535, 65528>>}
MaxLen == {[kind |-> "maxlen", cfg |-> CfgM({A, B}, {}, FALSE, "any", own),
            req |-> Req(1, AppCtx, "THIS-SCP", <<[id |-> 1, abs |-> U(A), tss |-> <<U(IVR)>>]>>, m)] :
              m \in MaxLens, own \in OwnMax}

Cases == CASE Mode = "single" -> Single [] Mode = "multi" -> Multi
           [] Mode = "header" -> Header [] Mode = "maxlen" -> MaxLen
           [] Mode = "all" -> Single \cup Multi \cup Header \cup MaxLen

VARIABLE c
Init == c \in Cases
Next == UNCHANGED c
Spec == Init /\ [][Next]_c

(* the property's sentence, stated declaratively, must agree with the      *)
(* recursive operator (a check of the specification against itself)        *)
Declarative ==
  LET exp == N!Accept(c.req, c.cfg) IN
  \A i \in 1..Len(c.req.pcs) :
    LET pc == c.req.pcs[i]  r == exp.results[i]
        good == {k \in 1..Len(pc.tss) : N!TsOk(pc.tss[k], c.cfg)} IN
    /\ r.id = pc.id
    /\ r.ok <=> (N!AbsOk(pc.abs, c.cfg) /\ good # {})
    /\ r.ok => \E k \in good : r.ts = pc.tss[k].u /\ \A j \in good : k <= j
    /\ ~r.ok => r.reasons # {} /\ r.reasons \subseteq {3, 4}

Emit == PrintT(<<"CASE", ToJson([kind |-> c.kind, req |-> c.req, cfg |-> c.cfg, exp |-> N!Accept(c.req, c.cfg)])>>)
=============================================================================
