CONSTANTS Mode = "all" Big = FALSE
SPECIFICATION Spec
INVARIANTS Declarative Emit
CHECK_DEADLOCK FALSE
