---------------------------- MODULE Gen_AssocImpl ----------------------------
(* Schedule generator for C30: every behaviour of AssocImpl, projected to   *)
(* the sequence of API calls the two applications *initiate* (send,         *)
(* release, abort, drop, one turn of the receive loop).  Internal steps     *)
(* (the second half of release/abort, the reply of the loop) are not part   *)
(* of a schedule: the real code performs them on its own.                   *)
EXTENDS AssocImpl, TLC, Json

CONSTANT MaxLen
VARIABLE h

GInit == Init /\ h = <<>>
Call(p, c) == h' = Append(h, [peer |-> p, call |-> c])

GNext == \E p \in Peers :
  \/ SendData(p) /\ Call(p, "send")
  \/ (ReleaseCall(p) \/ ReleaseSendFail(p)) /\ Call(p, "release")
  \/ AbortSend(p) /\ Call(p, "abort")
  \/ (pc[p] = "Est" /\ DropAny(p)) /\ Call(p, "drop")
  \/ (AppRecvData(p) \/ AppRecvRQ(p) \/ AppRecvAbort(p) \/ AppEof(p)) /\ Call(p, "recv")
  \/ /\ \/ ReleaseRecvRP(p) \/ ReleaseRecvAbort(p) \/ PDataWhileAwaitRPIsError(p)
        \/ ReleaseCollisionIsError(p) \/ ReleaseEof(p) \/ AbortClose(p)
        \/ AppReplyRP(p) \/ AppCloseAfterRP(p)
     /\ UNCHANGED h

GSpec == GInit /\ [][GNext]_<<vars, h>>
GBound == Len(h) <= MaxLen
Emit == (\A p \in Peers : pc[p] \in Closed) => PrintT(<<"CASE", ToJson([sched |-> h])>>)
=============================================================================
