CONSTANTS MaxData = 100000
SPECIFICATION TSpec
CONSTRAINT Track
POSTCONDITION Accepted
CHECK_DEADLOCK FALSE
