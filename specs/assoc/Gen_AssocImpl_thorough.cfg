CONSTANTS MaxData = 2 MaxLen = 8
SPECIFICATION GSpec
INVARIANT Emit
CONSTRAINT GBound
CHECK_DEADLOCK FALSE
