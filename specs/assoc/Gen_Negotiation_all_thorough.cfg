CONSTANTS Mode = "all" Big = TRUE
SPECIFICATION Spec
INVARIANTS Declarative Emit
CHECK_DEADLOCK FALSE
