------------------------------ MODULE AssocLife ------------------------------
(***************************************************************************)
(* Whole life cycle of a dicom-rs association: AssocImpl (data, release,   *)
(* abort, drop) preceded by the establishment phase, one action per code   *)
(* point of                                                                *)
(*   ClientAssociationOptions::establish_impl (connect, send RQ, read ONE  *)
(*     PDU, process_a_association_resp; on any processing error write an   *)
(*     A-ABORT and drop the socket; on a read error just drop it), and     *)
(*   ServerAssociationOptions::establish (read ONE PDU,                    *)
(*     process_a_association_rq, write the AC / RJ / A-ABORT (or the       *)
(*     A-RELEASE-RP) it returns; drop the socket unless accepted).         *)
(* "rq" requests, "ac" accepts.  Peers in the constant set Scripted are    *)
(* not dicom-rs: test scripts that may write any PDU while the other side  *)
(* is still establishing, read, and close (used to reach the branches a    *)
(* dicom-rs peer never triggers).                                          *)
(*                                                                         *)
(* Named deviations from PS3.8 in this phase (each its own action):        *)
(*   RejectAnsweredWithAbort      after A-ASSOCIATE-RJ the requestor still *)
(*                                writes an A-ABORT (PS3.8 AE-4: close)    *)
(*   AbortAnsweredWithAbort       an A-ABORT received while establishing   *)
(*                                is answered with an A-ABORT (AA-2/AA-3:  *)
(*                                close without sending)                   *)
(*   EarlyReleaseAnsweredWithRP   an A-RELEASE-RQ as first PDU is answered *)
(*                                with A-RELEASE-RP (AA-1: A-ABORT)        *)
(***************************************************************************)
EXTENDS AssocImpl

CONSTANT Scripted          \* subset of Peers played by a script

Lib(p) == p \notin Scripted
EstPhase == {"Idle", "Listening", "Connecting", "AwaitAC", "AwaitRQ", "GotAssocRQ"}
LClosed == Closed \cup {"EstFailed", "RejectedPeer", "Rejected", "RawClosed"}
AllPdus == {"AssocRQ", "AssocAC", "AssocAC0", "AssocRJ", "PData", "ReleaseRQ", "ReleaseRP", "Abort", "Other"}
IsACk(m) == m \in {"AssocAC", "AssocAC0"}

LInit == /\ pc = [p \in Peers |-> IF p \in Scripted THEN "Raw" ELSE IF p = "rq" THEN "Idle" ELSE "Listening"]
         /\ chan = [p \in Peers |-> <<>>]
         /\ open = [p \in Peers |-> FALSE]
         /\ nd = [p \in Peers |-> 0]

(* p reads the next PDU and answers it with m in one go (read + write of   *)
(* the same sequential code path)                                          *)
Answer(p, m) == chan' = [chan EXCEPT ![p] = Tail(@),
                                     ![Other(p)] = IF open[Other(p)] THEN Append(@, m) ELSE @]

---------------------------------------------------------------------------
(* requestor: establish_impl *)
RqStart == /\ Lib("rq") /\ pc["rq"] = "Idle" /\ Goto("rq", "Connecting") /\ UNCHANGED <<chan, open, nd>>
(* the TCP connection opens (connect / accept) *)
TcpConnect == /\ ~open["rq"] /\ ~open["ac"]
              /\ pc["rq"] \in {"Connecting", "Raw"} /\ pc["ac"] \in {"Listening", "Raw"}
              /\ open' = [p \in Peers |-> TRUE]
              /\ pc' = [pc EXCEPT !["ac"] = IF @ = "Listening" THEN "AwaitRQ" ELSE @]
              /\ UNCHANGED <<chan, nd>>
RqSendRQ == /\ pc["rq"] = "Connecting" /\ open["rq"]
            /\ Push("rq", "AssocRQ") /\ Goto("rq", "AwaitAC") /\ UNCHANGED <<open, nd>>
RqRecvAC == /\ pc["rq"] = "AwaitAC" /\ Next1("rq", "AssocAC")
            /\ Pop("rq") /\ Goto("rq", "Est") /\ UNCHANGED <<open, nd>>
(* nothing accepted (or another protocol version): error, A-ABORT, drop *)
RqRecvAC0 == /\ pc["rq"] = "AwaitAC" /\ Next1("rq", "AssocAC0")
             /\ Pop("rq") /\ Goto("rq", "EstRefused") /\ UNCHANGED <<open, nd>>
RqAbortAfterAC0 == /\ pc["rq"] = "EstRefused" /\ open["rq"]
                   /\ Push("rq", "Abort") /\ Goto("rq", "Aborting") /\ UNCHANGED <<open, nd>>
RejectAnsweredWithAbort == /\ pc["rq"] = "AwaitAC" /\ Next1("rq", "AssocRJ")
                           /\ Answer("rq", "Abort") /\ Goto("rq", "Aborting") /\ UNCHANGED <<open, nd>>
RqUnexpectedAnswered == /\ pc["rq"] = "AwaitAC" /\ open["rq"] /\ chan["rq"] # <<>>
                        /\ Head(chan["rq"]) \in {"AssocRQ", "PData", "ReleaseRQ", "ReleaseRP", "Other"}
                        /\ Answer("rq", "Abort") /\ Goto("rq", "Aborting") /\ UNCHANGED <<open, nd>>
RqEstEof == /\ pc["rq"] = "AwaitAC" /\ open["rq"] /\ chan["rq"] = <<>> /\ ~open["ac"]
            /\ CloseSock("rq") /\ Goto("rq", "EstFailed") /\ UNCHANGED nd

(* read error or read timeout while waiting for the answer: drop the socket *)
RqGiveUp == /\ pc["rq"] \in {"Connecting", "AwaitAC"} /\ open["rq"]
            /\ CloseSock("rq") /\ Goto("rq", "EstFailed") /\ UNCHANGED nd

(* acceptor: establish *)
AcRecvRQ == /\ pc["ac"] = "AwaitRQ" /\ Next1("ac", "AssocRQ")
            /\ Pop("ac") /\ Goto("ac", "GotAssocRQ") /\ UNCHANGED <<open, nd>>
AcReplyAC == /\ pc["ac"] = "GotAssocRQ" /\ open["ac"]
             /\ \E m \in {"AssocAC", "AssocAC0"} : Push("ac", m)
             /\ Goto("ac", "Est") /\ UNCHANGED <<open, nd>>
AcReplyRJ == /\ pc["ac"] = "GotAssocRQ" /\ open["ac"]
             /\ Push("ac", "AssocRJ") /\ Goto("ac", "SentRJ") /\ UNCHANGED <<open, nd>>
AcCloseAfterRJ == /\ pc["ac"] = "SentRJ" /\ CloseSock("ac") /\ Goto("ac", "RejectedPeer") /\ UNCHANGED nd
EarlyReleaseAnsweredWithRP == /\ pc["ac"] = "AwaitRQ" /\ Next1("ac", "ReleaseRQ")
                              /\ Answer("ac", "ReleaseRP") /\ Goto("ac", "Aborting") /\ UNCHANGED <<open, nd>>
AcUnexpectedAnswered == /\ pc["ac"] = "AwaitRQ" /\ open["ac"] /\ chan["ac"] # <<>>
                        /\ Head(chan["ac"]) \in {"AssocAC", "AssocAC0", "AssocRJ", "PData", "ReleaseRP", "Other"}
                        /\ Answer("ac", "Abort") /\ Goto("ac", "Aborting") /\ UNCHANGED <<open, nd>>
AcEstEof == /\ pc["ac"] = "AwaitRQ" /\ open["ac"] /\ chan["ac"] = <<>> /\ ~open["rq"]
            /\ CloseSock("ac") /\ Goto("ac", "EstFailed") /\ UNCHANGED nd
(* read error, over-long PDU in strict mode, read timeout: drop the socket *)
AcGiveUp == /\ pc["ac"] = "AwaitRQ" /\ open["ac"]
            /\ CloseSock("ac") /\ Goto("ac", "EstFailed") /\ UNCHANGED nd

(* either side while establishing *)
AbortAnsweredWithAbort(p) == /\ pc[p] = (IF p = "rq" THEN "AwaitAC" ELSE "AwaitRQ") /\ Next1(p, "Abort")
                             /\ Answer(p, "Abort") /\ Goto(p, "Aborting") /\ UNCHANGED <<open, nd>>

(* scripted peer *)
RawSend(p) == /\ p \in Scripted /\ open[p] /\ nd[p] < MaxData
              /\ pc[Other(p)] \in EstPhase \/ ~Lib(Other(p))
              /\ \E m \in AllPdus : Push(p, m)
              /\ nd' = [nd EXCEPT ![p] = @ + 1] /\ UNCHANGED <<pc, open>>
RawRecv(p) == /\ p \in Scripted /\ open[p] /\ chan[p] # <<>> /\ Pop(p) /\ UNCHANGED <<pc, open, nd>>
RawClose(p) == /\ p \in Scripted /\ open[p] /\ CloseSock(p) /\ Goto(p, "RawClosed") /\ UNCHANGED nd
ScriptedStep == (\E p \in Scripted : RawSend(p) \/ RawRecv(p) \/ RawClose(p))
                \/ (Scripted # {} /\ TcpConnect)

Establish == \/ RqStart \/ TcpConnect \/ RqSendRQ \/ RqRecvAC \/ RqRecvAC0 \/ RqAbortAfterAC0
             \/ RejectAnsweredWithAbort \/ RqUnexpectedAnswered \/ RqEstEof \/ RqGiveUp
             \/ AcRecvRQ \/ AcReplyAC \/ AcReplyRJ \/ AcCloseAfterRJ
             \/ EarlyReleaseAnsweredWithRP \/ AcUnexpectedAnswered \/ AcEstEof \/ AcGiveUp
             \/ \E p \in Peers : AbortAnsweredWithAbort(p)
(* the established phase of AssocImpl, for library peers *)
LNext == Establish \/ ScriptedStep \/ (\E p \in Peers : Lib(p) /\ Act(p))
LSpec == LInit /\ [][LNext]_vars
LProgress(p) == Progress(p) \/ (Lib(p) /\ (\/ (p = "rq" /\ (RqSendRQ \/ RqRecvAC \/ RqRecvAC0 \/ RqAbortAfterAC0
                                                             \/ RejectAnsweredWithAbort \/ RqUnexpectedAnswered \/ RqEstEof))
                                           \/ (p = "ac" /\ (AcRecvRQ \/ AcReplyAC \/ AcReplyRJ \/ AcCloseAfterRJ
                                                             \/ EarlyReleaseAnsweredWithRP \/ AcUnexpectedAnswered \/ AcEstEof))
                                           \/ AbortAnsweredWithAbort(p)))
LFairSpec == LSpec /\ \A p \in Peers : WF_vars(LProgress(p))

LStates == States \cup EstPhase \cup LClosed \cup {"EstRefused", "SentRJ", "Raw"}
LTypeOK == /\ pc \in [Peers -> LStates] /\ open \in [Peers -> BOOLEAN]
           /\ \A p \in Peers : chan[p] \in Seq(AllPdus)

---------------------------------------------------------------------------
(* properties of the establishment phase on the model *)
(* the first PDU a library requestor writes is the A-ASSOCIATE-RQ, and it  *)
(* writes exactly one                                                      *)
RQFirstAndOnce ==
  [][(Lib("rq") /\ Len(chan'["ac"]) = Len(chan["ac"]) + 1 /\ chan'["ac"][Len(chan'["ac"])] = "AssocRQ")
        => pc["rq"] = "Connecting"]_vars
(* a library acceptor answers an A-ASSOCIATE-RQ with exactly one AC or RJ; *)
(* after an RJ it writes nothing more and closes                           *)
OneAnswer ==
  [][(Lib("ac") /\ Len(chan'["rq"]) = Len(chan["rq"]) + 1
        /\ chan'["rq"][Len(chan'["rq"])] \in {"AssocAC", "AssocAC0", "AssocRJ"}) => pc["ac"] = "GotAssocRQ"]_vars
NothingAfterRJ ==
  [][(Lib("ac") /\ pc["ac"] = "SentRJ") => (chan'["rq"] = chan["rq"] \/ ~open'["ac"] \/ Len(chan'["rq"]) <= Len(chan["rq"]))]_vars
(* data, release and abort PDUs of a library peer only after it is established *)
NoDataBeforeEstablished ==
  [][\A p \in Peers : (Lib(p) /\ Len(chan'[Other(p)]) = Len(chan[Other(p)]) + 1
                        /\ chan'[Other(p)][Len(chan'[Other(p)])] \in {"PData", "ReleaseRQ"})
        => pc[p] = "Est"]_vars
(* an A-RELEASE-RP of a library peer answers an A-RELEASE-RQ it has just taken *)
LRPOnlyAsAnswer ==
  [][\A p \in Peers : (Lib(p) /\ Len(chan'[Other(p)]) = Len(chan[Other(p)]) + 1
                        /\ chan'[Other(p)][Len(chan'[Other(p)])] = "ReleaseRP")
        => (pc[p] = "GotRQ" \/ (pc[p] = "AwaitRQ" /\ chan[p] # <<>> /\ Head(chan[p]) = "ReleaseRQ"))]_vars
LEndClosed == \A p \in Peers : pc[p] \in LClosed => ~open[p]
(* liveness: establishment terminates (established or closed) once the connection is open *)
EstablishmentEnds == \A p \in Peers :
   (Lib(p) /\ pc[p] \in {"AwaitAC", "GotAssocRQ", "EstRefused", "SentRJ"}) ~> (pc[p] \in {"Est"} \cup LClosed \cup States)

---------------------------------------------------------------------------
(* refinement of the whole-life-cycle PS3.8 machine *)
LStaOf(s) == CASE s \in {"Idle", "Listening"} -> 1
               [] s = "Connecting" -> 4 [] s = "AwaitAC" -> 5
               [] s = "AwaitRQ" -> 2 [] s = "GotAssocRQ" -> 3
               [] s \in {"Est", "EstRefused"} -> 6
               [] s = "AwaitRP" -> 7 [] s = "GotRQ" -> 8
               [] s \in {"Aborting", "SentRP", "SentRJ"} -> 13
               [] s = "Raw" -> 0
               [] OTHER -> 1
PSL == INSTANCE PS38StateMachine WITH
          sta <- [p \in Peers |-> LStaOf(pc[p])], net <- chan, up <- open
(* RqStart is AE-1; TcpConnect between two library peers is TConn; every    *)
(* other step of a library peer is a step of the PS3.8 machine (with the    *)
(* environment able to take the transport down), a named deviation, or a    *)
(* step of the script                                                       *)
NamedDeviation == \/ RejectAnsweredWithAbort \/ EarlyReleaseAnsweredWithRP
                  \/ \E p \in Peers : AbortAnsweredWithAbort(p)
LifeRefinesPS38 == [][PSL!PFullNext \/ NamedDeviation \/ ScriptedStep]_vars
(* sharper: without the environment, the only other steps are the named     *)
(* deviations of both phases and an application going away                  *)
LifeDeviationsAreNamed ==
  [][PSL!PFullProtocolNext \/ NamedDeviation \/ ScriptedStep
     \/ \E p \in Peers : \/ PDataWhileAwaitRPIsError(p) \/ ReleaseCollisionIsError(p)
                         \/ ReleaseSendFail(p) \/ DropAny(p)
     \/ RqGiveUp \/ AcGiveUp]_vars
=============================================================================
