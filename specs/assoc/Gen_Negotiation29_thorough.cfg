CONSTANTS Big = TRUE
SPECIFICATION Spec
INVARIANTS Agreement Emit
CHECK_DEADLOCK FALSE
