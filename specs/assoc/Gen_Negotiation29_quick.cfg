CONSTANTS Big = FALSE
SPECIFICATION Spec
INVARIANTS Agreement Emit
CHECK_DEADLOCK FALSE
