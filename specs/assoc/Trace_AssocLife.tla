--------------------------- MODULE Trace_AssocLife ---------------------------
(***************************************************************************)
(* Trace validator for whole association life cycles (TCP connect to       *)
(* close) recorded by the proxy: they must be behaviours of AssocLife.     *)
(*                                                                         *)
(*   {ev:"reset", scripted:[peers]}  a new TCP connection through the      *)
(*                                   proxy; the peers listed are test      *)
(*                                   scripts (any PDU, any time), the      *)
(*                                   others are dicom-rs code (library     *)
(*                                   API, or one of the tools)             *)
(*   {ev:"pdu", from, kind}          kind: AssocRQ AssocAC AssocRJ PData   *)
(*                                   ReleaseRQ ReleaseRP Abort Other       *)
(*   {ev:"closed", by}                                                     *)
(*   {ev:"end", peer, state}         final outcome of a library peer       *)
(* Unlogged reads that close nothing are silent steps.                     *)
(***************************************************************************)
EXTENDS AssocLife, TLC, Json, IOUtils

Rec == ndJsonDeserialize(IOEnv.TRACE)
VARIABLE l
tvars == <<vars, l>>

TInit == LInit /\ l = 1 /\ TLCSet(1, 1)
Ev(e) == l <= Len(Rec) /\ Rec[l].ev = e /\ l' = l + 1
R == Rec[l]
IsScr(p) == pc[p] = "Raw"
Scr(r) == {r.scripted[i] : i \in DOMAIN r.scripted}

(* the proxy has accepted the requestor's connection and connected on *)
TReset == /\ Ev("reset")
          /\ pc' = [p \in Peers |-> IF p \in Scr(R) THEN "Raw" ELSE IF p = "rq" THEN "Connecting" ELSE "AwaitRQ"]
          /\ chan' = [p \in Peers |-> <<>>]
          /\ open' = [p \in Peers |-> TRUE]
          /\ nd'   = [p \in Peers |-> 0]

Kinds == {"AssocRQ", "AssocAC", "AssocRJ", "PData", "ReleaseRQ", "ReleaseRP", "Abort", "Other"}
TPdu == /\ Ev("pdu") /\ R.kind \in Kinds
        /\ LET p == R.from  k == R.kind IN
           IF IsScr(p)
             THEN /\ open[p]
                  /\ \/ k # "AssocAC" /\ Push(p, k)
                     \/ k = "AssocAC" /\ \E m \in {"AssocAC", "AssocAC0"} : Push(p, m)
                  /\ UNCHANGED <<pc, open, nd>>
             ELSE CASE k = "AssocRQ"   -> p = "rq" /\ RqSendRQ
                    [] k = "AssocAC"   -> p = "ac" /\ AcReplyAC
                    [] k = "AssocRJ"   -> p = "ac" /\ AcReplyRJ
                    [] k = "PData"     -> SendData(p)
                    [] k = "ReleaseRQ" -> ReleaseCall(p)
                    [] k = "ReleaseRP" -> AppReplyRP(p) \/ (p = "ac" /\ EarlyReleaseAnsweredWithRP)
                    [] k = "Abort"     -> \/ AbortSend(p) \/ AbortAnsweredWithAbort(p)
                                          \/ (p = "rq" /\ (RqAbortAfterAC0 \/ RejectAnsweredWithAbort \/ RqUnexpectedAnswered))
                                          \/ (p = "ac" /\ AcUnexpectedAnswered)
                    [] OTHER           -> FALSE

TClosed == /\ Ev("closed")
           /\ LET p == R.by IN
              IF IsScr(p)
                THEN open[p] /\ CloseSock(p) /\ Goto(p, "RawClosed") /\ UNCHANGED nd
                ELSE \/ ReleaseRecvRP(p) \/ ReleaseRecvAbort(p) \/ PDataWhileAwaitRPIsError(p)
                     \/ ReleaseCollisionIsError(p) \/ ReleaseEof(p) \/ ReleaseSendFail(p)
                     \/ AbortClose(p) \/ DropAny(p)
                     \/ AppCloseAfterRP(p) \/ AppRecvAbort(p) \/ AppEof(p)
                     \/ (p = "rq" /\ (RqEstEof \/ RqGiveUp))
                     \/ (p = "ac" /\ (AcCloseAfterRJ \/ AcEstEof \/ AcGiveUp))

TEnd == /\ Ev("end") /\ (pc[R.peer] \in {"Raw", "RawClosed"} \/ pc[R.peer] = R.state) /\ UNCHANGED vars

TSilent == /\ UNCHANGED l
           /\ \/ \E p \in Peers : AppRecvData(p) \/ AppRecvRQ(p)
              \/ RqRecvAC \/ RqRecvAC0 \/ AcRecvRQ
              \/ \E p \in Peers : IsScr(p) /\ open[p] /\ chan[p] # <<>> /\ Pop(p) /\ UNCHANGED <<pc, open, nd>>

TNext == TReset \/ TPdu \/ TClosed \/ TEnd \/ TSilent
TSpec == TInit /\ [][TNext]_tvars

Track == TLCSet(1, IF l > TLCGet(1) THEN l ELSE TLCGet(1))
Accepted == IF TLCGet(1) = Len(Rec) + 1 THEN TRUE
            ELSE Print(<<"REJECTED", TLCGet(1), ToJson(Rec[TLCGet(1)])>>, FALSE)
=============================================================================
