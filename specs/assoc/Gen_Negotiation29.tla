-------------------------- MODULE Gen_Negotiation29 --------------------------
(***************************************************************************)
(* Case generator for C29: requestor option sets x acceptor configurations *)
(* with the outcome demanded by Negotiation!Scenario and a list of send /  *)
(* send_pdata calls of sizes around the negotiated limits.                 *)
(***************************************************************************)
EXTENDS Naturals, Sequences, FiniteSets, TLC, Json, IOUtils

CONSTANT Big

Facts == ndJsonDeserialize(IOEnv.FACTS)[1]
SupportedSet == {Facts.supported[i] : i \in DOMAIN Facts.supported}
N == INSTANCE Negotiation WITH Supported <- SupportedSet

A == "1.2.840.10008.1.1"
B == "1.2.840.10008.5.1.4.1.1.7"
C == "1.2.840.10008.5.1.4.1.1.2"
IVR  == "1.2.840.10008.1.2"
EVR  == "1.2.840.10008.1.2.1"
UNK  == "1.2.840.10008.1.2.4.999"
AppCtx == "1.2.840.10008.3.1.1.1"
U(u)  == [u |-> u, pad |-> 0]
UN(u) == [u |-> u, pad |-> 1]

Pool == {[abs |-> U(A), tss |-> <<U(EVR), U(IVR)>>], [abs |-> U(B), tss |-> <<U(IVR)>>],
         [abs |-> U(C), tss |-> <<U(IVR)>>], [abs |-> UN(A), tss |-> <<U(UNK), UN(IVR)>>],
         [abs |-> U(B), tss |-> <<U(UNK)>>]}
SeqsOf(S, lo, hi) == UNION {[1..k -> S] : k \in lo..hi}
Four == {<<a, b, c, d>> : a \in {p \in Pool : p.abs = U(C)}, b \in Pool, c \in {p \in Pool : Len(p.tss) = 2}, d \in Pool}

Max == {<<0, 0>>, <<0, 1017>>, <<0, 1018>>, <<0, 4096>>, <<0, 16384>>, <<65535, 65528>>, <<65535, 65535>>}
Dflt == <<0, 16378>>

Opts(pcs, m, called, ext, role) ==
  [appctx |-> AppCtx, called |-> called, pcs |-> pcs, maxpdu |-> m, ext |-> ext, role |-> role]
Cfg(tss, prom, access, m) ==
  [abs |-> {A, B}, tss |-> tss, promiscuous |-> prom, aet |-> "THIS-SCP", access |-> access,
   appctx |-> AppCtx, pv |-> 1, maxpdu |-> m]

CtxFamily == {[kind |-> "contexts", opts |-> Opts(f, Dflt, "THIS-SCP", FALSE, FALSE), cfg |-> Cfg(t, p, "any", <<0, 4096>>)] :
                f \in SeqsOf(Pool, 1, IF Big THEN 3 ELSE 2) \cup Four, t \in {{}, {EVR}}, p \in BOOLEAN}
MaxFamily == {[kind |-> "maxpdu", opts |-> Opts(f, mr, "THIS-SCP", FALSE, FALSE), cfg |-> Cfg({}, FALSE, "any", ma)] :
                f \in {<<[abs |-> U(A), tss |-> <<U(EVR), U(IVR)>>]>>,
                       <<[abs |-> U(C), tss |-> <<U(IVR)>>], [abs |-> UN(A), tss |-> <<U(UNK), UN(IVR)>>]>>},
                mr \in Max, ma \in Max}
MiscFamily == {[kind |-> "misc", opts |-> Opts(<<[abs |-> U(A), tss |-> <<U(IVR)>>], [abs |-> U(C), tss |-> <<U(IVR)>>]>>,
                                               <<0, 1018>>, called, ext, role),
                cfg |-> Cfg({IVR}, FALSE, acc, <<0, 16384>>)] :
                called \in {"THIS-SCP", "OTHER-SCP"}, ext \in BOOLEAN, role \in BOOLEAN, acc \in {"any", "called"}}
Cases == CtxFamily \cup MaxFamily \cup MiscFamily

(* send / send_pdata calls around the limit of the sender's peer *)
Small(P) == P[1] = 0 /\ P[2] <= 32762
(* a P-DATA PDU with k PDVs (command / data fragments as DIMSE traffic has   *)
(* them) whose encoding is `total` bytes long: k-1 fragments of 10 bytes and *)
(* one that takes the rest                                                   *)
Multi(side, k, total) ==
  LET pdvs == [i \in 1..k |-> IF i < k THEN 10 ELSE total - 6 - 6 * k - 10 * (k - 1)] IN
  [side |-> side, via |-> "send", n |-> <<0, N!EncodedLen(pdvs)>>, pdvs |-> pdvs]
One(side, via, n) == [side |-> side, via |-> via, n |-> n, pdvs |-> <<>>]   \* <<>> : a single PDV
StepsFor(side, P) ==
  IF Small(P)
    THEN LET L == P[2] + 6 IN      \* the longest encoding the peer accepts
         <<One(side, "send", N!AddSmall(P, 5)), One(side, "send", N!AddSmall(P, 6)), One(side, "send", N!AddSmall(P, 7)),
           One(side, "pdata", <<0, 1>>), One(side, "pdata", <<0, P[2] - 6>>),
           One(side, "pdata", <<0, P[2] - 5>>), One(side, "pdata", <<0, 2 * P[2] + 3>>),
           Multi(side, 2, L - 1), Multi(side, 2, L), Multi(side, 2, L + 1), Multi(side, 2, L + 6), Multi(side, 2, L + 7),
           Multi(side, 3, L), Multi(side, 3, L + 1), Multi(side, 3, L + 12), Multi(side, 3, L + 13),
           Multi(side, 8, L), Multi(side, 8, L + 1), Multi(side, 8, L + 42), Multi(side, 8, L + 43)>>
    ELSE <<One(side, "send", <<0, 1000>>), One(side, "send", <<1, 7>>), One(side, "pdata", <<0, 50000>>),
           Multi(side, 2, 2000), Multi(side, 8, 60000)>>
WithExp(steps, P) == [i \in DOMAIN steps |->
                        [steps[i] EXCEPT !.n = @] @@ [allowed |-> steps[i].via = "pdata" \/ N!SendAllowed(steps[i].n, P)]]
Steps(e) == IF e.est THEN WithExp(StepsFor("rq", e.rqPeer), e.rqPeer) \o WithExp(StepsFor("ac", e.acPeer), e.acPeer) ELSE <<>>

Norm(c) == [c EXCEPT !.opts.maxpdu = N!MinU(@, N!Largest), !.cfg.maxpdu = N!MinU(@, N!Largest)]

VARIABLE c
Init == c \in Cases
Next == UNCHANGED c
Spec == Init /\ [][Next]_c

(* model-level statement of C29 on every case: what the requestor holds is *)
(* what the acceptor granted, identifiers are distinct and odd             *)
Agreement ==
  LET n == Norm(c)  rq == N!BuildRq(n.opts)  e == N!Scenario(n.opts, n.cfg) IN
  /\ N!IdsOk([i \in 1..Len(rq.pcs) |-> rq.pcs[i].id])
  /\ e.est => e.accepted # <<>>
  /\ \A i \in 1..Len(e.accepted) : \E j \in 1..Len(rq.pcs) :
        rq.pcs[j].id = e.accepted[i].id /\ N!Sig(rq.pcs[j].abs) = e.accepted[i].abs
        /\ \E k \in 1..Len(rq.pcs[j].tss) : N!Sig(rq.pcs[j].tss[k]) = e.accepted[i].ts

Emit == LET n == Norm(c)  e == N!Scenario(n.opts, n.cfg) IN
        PrintT(<<"CASE", ToJson([kind |-> c.kind, opts |-> c.opts, cfg |-> c.cfg, exp |-> e, steps |-> Steps(e)])>>)
=============================================================================
