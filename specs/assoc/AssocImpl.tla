------------------------------ MODULE AssocImpl ------------------------------
(***************************************************************************)
(* Implementation-shaped model of an established dicom-rs association      *)
(* (C30): two peers ("rq" = requestor, "ac" = acceptor), one FIFO channel  *)
(* per direction, sockets that can be closed or dropped.  One action per   *)
(* code point of                                                           *)
(*   SyncAssociationSealed::release / abort (ul/src/association/mod.rs),   *)
(*   send, drop of the association object, and                             *)
(*   the application loop of an SCP (storescp `inner`): receive, answer    *)
(*   A-RELEASE-RQ with A-RELEASE-RP, stop on A-ABORT / error.              *)
(* Either peer may run either part (the library API is symmetric).         *)
(*                                                                         *)
(* Deviations from PS3.8 that the implementation makes knowingly are named *)
(* actions: PDataWhileAwaitRPIsError (PS3.8 AR-6 would deliver the data    *)
(* and keep waiting), ReleaseCollisionIsError (PS3.8 AR-8, Sta9-12),       *)
(* and the failing side drops the socket without sending A-ABORT.  Under   *)
(* the refinement mapping they are the environment's TransportFail.        *)
(***************************************************************************)
EXTENDS Naturals, Sequences, FiniteSets

CONSTANT MaxData        \* bound on P-DATA PDUs sent per peer

Peers == {"rq", "ac"}
Other(p) == IF p = "rq" THEN "ac" ELSE "rq"

VARIABLES pc,     \* [Peers -> control state]
          chan,   \* [Peers -> Seq(PDU)]  in flight *towards* p
          open,   \* [Peers -> BOOLEAN]   p's socket is open
          nd      \* [Peers -> Nat]       P-DATA PDUs sent (bound only)
vars == <<pc, chan, open, nd>>

Closed == {"Released", "Failed", "Aborted", "PeerAborted", "ReleasedByPeer", "PeerClosed", "Dropped"}
States == {"Est", "AwaitRP", "GotRQ", "Aborting", "SentRP"} \cup Closed
(* "ReleasedOpen" / "ReleasedLate" occur only with the scripted misuse below *)

TypeOK == /\ pc \in [Peers -> States]
          /\ open \in [Peers -> BOOLEAN]
          /\ \A p \in Peers : chan[p] \in Seq({"PData", "ReleaseRQ", "ReleaseRP", "Abort"})

Init == /\ pc   = [p \in Peers |-> "Est"]
        /\ chan = [p \in Peers |-> <<>>]
        /\ open = [p \in Peers |-> TRUE]
        /\ nd   = [p \in Peers |-> 0]

(* p writes m to its socket; bytes written to a connection whose other end *)
(* is closed go nowhere                                                    *)
Push(p, m) == chan' = [chan EXCEPT ![Other(p)] = IF open[Other(p)] THEN Append(@, m) ELSE @]
Pop(p)     == chan' = [chan EXCEPT ![p] = Tail(@)]
(* p closes or drops its socket: what p has not read is discarded, and a   *)
(* TCP reset may discard what p wrote and the peer has not read yet        *)
CloseSock(p) == /\ open' = [open EXCEPT ![p] = FALSE]
                /\ \E k \in 0..Len(chan[Other(p)]) :
                     chan' = [chan EXCEPT ![p] = <<>>, ![Other(p)] = SubSeq(@, 1, k)]
Goto(p, s) == pc' = [pc EXCEPT ![p] = s]
Next1(p, m) == open[p] /\ chan[p] # <<>> /\ Head(chan[p]) = m

---------------------------------------------------------------------------
(* calls of the association API *)
SendData(p) == /\ pc[p] = "Est" /\ open[p] /\ nd[p] < MaxData
               /\ Push(p, "PData") /\ nd' = [nd EXCEPT ![p] = @ + 1]
               /\ UNCHANGED <<pc, open>>

(* release(): send A-RELEASE-RQ ... *)
ReleaseCall(p) == /\ pc[p] = "Est" /\ open[p]
                  /\ Push(p, "ReleaseRQ") /\ Goto(p, "AwaitRP") /\ UNCHANGED <<open, nd>>
(* ... or the write already fails because the peer is gone *)
ReleaseSendFail(p) == /\ pc[p] = "Est" /\ open[p] /\ ~open[Other(p)]
                      /\ CloseSock(p) /\ Goto(p, "Failed") /\ UNCHANGED nd
(* ... then receive ONE PDU: *)
ReleaseRecvRP(p) == /\ pc[p] = "AwaitRP" /\ Next1(p, "ReleaseRP")
                    /\ CloseSock(p) /\ Goto(p, "Released") /\ UNCHANGED nd
ReleaseRecvAbort(p) == /\ pc[p] = "AwaitRP" /\ Next1(p, "Abort")
                       /\ CloseSock(p) /\ Goto(p, "Failed") /\ UNCHANGED nd
PDataWhileAwaitRPIsError(p) == /\ pc[p] = "AwaitRP" /\ Next1(p, "PData")
                               /\ CloseSock(p) /\ Goto(p, "Failed") /\ UNCHANGED nd
ReleaseCollisionIsError(p) == /\ pc[p] = "AwaitRP" /\ Next1(p, "ReleaseRQ")
                              /\ CloseSock(p) /\ Goto(p, "Failed") /\ UNCHANGED nd
ReleaseEof(p) == /\ pc[p] = "AwaitRP" /\ open[p] /\ chan[p] = <<>> /\ ~open[Other(p)]
                 /\ CloseSock(p) /\ Goto(p, "Failed") /\ UNCHANGED nd

(* abort(): send A-ABORT, then close *)
AbortSend(p)  == /\ pc[p] = "Est" /\ open[p]
                 /\ Push(p, "Abort") /\ Goto(p, "Aborting") /\ UNCHANGED <<open, nd>>
AbortClose(p) == /\ pc[p] = "Aborting" /\ CloseSock(p) /\ Goto(p, "Aborted") /\ UNCHANGED nd

(* the association object is dropped / the process exits *)
DropAny(p) == /\ pc[p] \in {"Est", "GotRQ"} /\ open[p]
              /\ CloseSock(p) /\ Goto(p, "Dropped") /\ UNCHANGED nd

(* application loop of an SCP: receive() and react *)
AppRecvData(p)  == /\ pc[p] = "Est" /\ Next1(p, "PData") /\ Pop(p) /\ UNCHANGED <<pc, open, nd>>
AppRecvRQ(p)    == /\ pc[p] = "Est" /\ Next1(p, "ReleaseRQ") /\ Pop(p) /\ Goto(p, "GotRQ") /\ UNCHANGED <<open, nd>>
AppReplyRP(p)   == /\ pc[p] = "GotRQ" /\ open[p]
                   /\ Push(p, "ReleaseRP") /\ Goto(p, "SentRP") /\ UNCHANGED <<open, nd>>
AppCloseAfterRP(p) == /\ pc[p] = "SentRP" /\ CloseSock(p) /\ Goto(p, "ReleasedByPeer") /\ UNCHANGED nd
AppRecvAbort(p) == /\ pc[p] = "Est" /\ Next1(p, "Abort")
                   /\ CloseSock(p) /\ Goto(p, "PeerAborted") /\ UNCHANGED nd
AppEof(p)       == /\ pc[p] = "Est" /\ open[p] /\ chan[p] = <<>> /\ ~open[Other(p)]
                   /\ CloseSock(p) /\ Goto(p, "PeerClosed") /\ UNCHANGED nd

(* Misuse by a scripted (non-library) requestor, NOT part of Next: it reads  *)
(* the A-RELEASE-RP but keeps its socket open (the library's release()      *)
(* closes it), then writes P-DATA on the released association and closes     *)
(* late.  Used by the trace validator only, for runs that are flagged as     *)
(* scripted, to show what a correct ACCEPTOR does with such a peer: it has   *)
(* no action that writes P-DATA after its own A-RELEASE-RP.                  *)
RawRecvRPKeepOpen(p) == /\ pc[p] = "AwaitRP" /\ Next1(p, "ReleaseRP")
                        /\ Pop(p) /\ Goto(p, "ReleasedOpen") /\ UNCHANGED <<open, nd>>
DataAfterReleaseMisuse(p) == /\ pc[p] = "ReleasedOpen" /\ open[p]
                             /\ Push(p, "PData") /\ UNCHANGED <<pc, open, nd>>
MisuseClose(p) == /\ pc[p] = "ReleasedOpen" /\ CloseSock(p) /\ Goto(p, "ReleasedLate") /\ UNCHANGED nd

Act(p) == \/ SendData(p) \/ ReleaseCall(p) \/ ReleaseSendFail(p)
          \/ ReleaseRecvRP(p) \/ ReleaseRecvAbort(p) \/ PDataWhileAwaitRPIsError(p)
          \/ ReleaseCollisionIsError(p) \/ ReleaseEof(p)
          \/ AbortSend(p) \/ AbortClose(p) \/ DropAny(p)
          \/ AppRecvData(p) \/ AppRecvRQ(p) \/ AppReplyRP(p) \/ AppCloseAfterRP(p)
          \/ AppRecvAbort(p) \/ AppEof(p)
Next == \E p \in Peers : Act(p)
Spec == Init /\ [][Next]_vars

(* the calls in progress finish, the application loop keeps running *)
Progress(p) == \/ ReleaseRecvRP(p) \/ ReleaseRecvAbort(p) \/ PDataWhileAwaitRPIsError(p)
               \/ ReleaseCollisionIsError(p) \/ ReleaseEof(p) \/ AbortClose(p)
               \/ AppRecvData(p) \/ AppRecvRQ(p) \/ AppReplyRP(p) \/ AppCloseAfterRP(p)
               \/ AppRecvAbort(p) \/ AppEof(p)
FairSpec == Spec /\ \A p \in Peers : WF_vars(Progress(p))

---------------------------------------------------------------------------
(* The property (C30) on the model *)

(* a release completes (Ok) only by receiving an A-RELEASE-RP while waiting *)
ReleaseOnlyAfterRP ==
  [][\A p \in Peers : (pc'[p] = "Released" /\ pc[p] # "Released")
        => (pc[p] = "AwaitRP" /\ chan[p] # <<>> /\ Head(chan[p]) = "ReleaseRP")]_vars
(* an abort or unexpected PDU (or the end of the stream) while awaiting the *)
(* reply ends the call with an error and the connection closed              *)
BadReplyFails ==
  [][\A p \in Peers : (pc[p] = "AwaitRP" /\ pc'[p] # "AwaitRP" /\
                       ~(chan[p] # <<>> /\ Head(chan[p]) = "ReleaseRP"))
        => (pc'[p] = "Failed" /\ ~open'[p])]_vars
(* every terminal state has the socket closed *)
EndClosed == \A p \in Peers : pc[p] \in Closed => ~open[p]
(* P-DATA is only ever written in the established state: nothing after a   *)
(* release was requested, answered or completed                            *)
DataOnlyWhenEstablished ==
  [][\A p \in Peers : (Len(chan'[Other(p)]) = Len(chan[Other(p)]) + 1
                       /\ chan'[Other(p)][Len(chan'[Other(p)])] = "PData")
        => pc[p] = "Est" /\ pc'[p] = "Est"]_vars
(* an A-RELEASE-RP is only written by a peer that has just taken an        *)
(* A-RELEASE-RQ, and such a peer writes nothing else                       *)
RQAnsweredWithRP ==
  [][\A p \in Peers : (pc[p] = "GotRQ" /\ pc'[p] # "GotRQ")
        => \/ (pc'[p] = "SentRP" /\ (open[Other(p)] =>
                 chan'[Other(p)] = Append(chan[Other(p)], "ReleaseRP")))
           \/ (pc'[p] = "Dropped" /\ ~open'[p])]_vars
RPOnlyFromGotRQ ==
  [][\A p \in Peers : (Len(chan'[Other(p)]) = Len(chan[Other(p)]) + 1
                       /\ chan'[Other(p)][Len(chan'[Other(p)])] = "ReleaseRP")
        => pc[p] = "GotRQ"]_vars
(* liveness (under FairSpec): a pending release call returns; a received   *)
(* release request is answered                                             *)
ReleaseReturns == \A p \in Peers : (pc[p] = "AwaitRP") ~> (pc[p] \in {"Released", "Failed"})
RQGetsAnswer   == \A p \in Peers : (pc[p] = "GotRQ") ~> (pc[p] \in {"SentRP", "ReleasedByPeer", "Dropped"})

---------------------------------------------------------------------------
(* Refinement: the implementation-shaped model is a behaviour of the PS3.8 *)
(* state machine under this mapping                                        *)
StaOf(s) == CASE s = "Est" -> 6 [] s = "AwaitRP" -> 7 [] s = "GotRQ" -> 8
              [] s \in {"Aborting", "SentRP"} -> 13 [] OTHER -> 1
PS38 == INSTANCE PS38StateMachine WITH
          sta <- [p \in Peers |-> StaOf(pc[p])], net <- chan, up <- open
RefinesPS38 == PS38!PSpec
(* sharper: every step is a step of the PS3.8 protocol proper, except the  *)
(* named deviations and the two ways an application can simply go away     *)
DeviationsAreNamed ==
  [][PS38!PProtocolNext \/ \E p \in Peers : \/ PDataWhileAwaitRPIsError(p) \/ ReleaseCollisionIsError(p)
                                            \/ ReleaseSendFail(p) \/ DropAny(p)]_vars

Bound == \A p \in Peers : nd[p] <= MaxData
=============================================================================
