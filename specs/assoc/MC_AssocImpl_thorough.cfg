CONSTANTS MaxData = 4
SPECIFICATION FairSpec
INVARIANTS TypeOK EndClosed
PROPERTIES ReleaseOnlyAfterRP BadReplyFails DataOnlyWhenEstablished RQAnsweredWithRP RPOnlyFromGotRQ ReleaseReturns RQGetsAnswer RefinesPS38 DeviationsAreNamed
CHECK_DEADLOCK FALSE
