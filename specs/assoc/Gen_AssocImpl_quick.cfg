CONSTANTS MaxData = 1 MaxLen = 6
SPECIFICATION GSpec
INVARIANT Emit
CONSTRAINT GBound
CHECK_DEADLOCK FALSE
