CONSTANTS MaxData = 2 Scripted = {"ac"}
SPECIFICATION LSpec
INVARIANTS LTypeOK LEndClosed
PROPERTIES RQFirstAndOnce OneAnswer NothingAfterRJ NoDataBeforeEstablished LifeRefinesPS38 LifeDeviationsAreNamed ReleaseOnlyAfterRP LRPOnlyAsAnswer
CHECK_DEADLOCK FALSE
