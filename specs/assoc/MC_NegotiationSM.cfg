CONSTANTS Big = FALSE
SPECIFICATION SSpec
INVARIANTS IdsDistinctOdd SameContexts EachOthersMax FailsIffNothing EstablishedHasContext WithinReceiverMax AgreesWithScenario
CHECK_DEADLOCK FALSE
