----------------------------- MODULE Negotiation -----------------------------
(***************************************************************************)
(* Association negotiation (C28, C29), written from the property text and  *)
(* PS3.8 (sections 7.1.1, 9.3.2 - 9.3.4, Annex D), not from the code.      *)
(*                                                                         *)
(* Values                                                                  *)
(*   UID field     [u |-> significant text, pad |-> number of trailing NUL *)
(*                 padding bytes]; padding is not significant (PS3.5 9.1). *)
(*   32-bit length <<hi, lo>> 16-bit halves (TLC integers are 32-bit).     *)
(*   request       [pv, appctx, called, pcs, maxlen]; pcs is a sequence of *)
(*                 [id, abs, tss]; maxlen is <<>> (no Maximum Length       *)
(*                 sub-item) or <<hi, lo>>.                                *)
(*   acceptor cfg  [abs, tss, promiscuous, aet, access, appctx, pv]: abs   *)
(*                 and tss are SETS of UID texts (tss = {} : no transfer   *)
(*                 syntax configured = any), access \in {"any","called"}.  *)
(*                                                                         *)
(* Supported is the set of transfer syntax UIDs the transfer syntax        *)
(* registry of the build can decode data sets of (a fact about the build,  *)
(* dumped through the registry's public API; C16 is about the registry).   *)
(***************************************************************************)
EXTENDS Naturals, Sequences, FiniteSets

CONSTANT Supported

---------------------------------------------------------------------------
(* 32-bit arithmetic on halves *)
Leq(a, b)  == a[1] < b[1] \/ (a[1] = b[1] /\ a[2] <= b[2])
MinU(a, b) == IF Leq(a, b) THEN a ELSE b
AddSmall(a, k) == LET s == a[2] + k IN IF s < 65536 THEN <<a[1], s>> ELSE <<a[1] + 1, s - 65536>>
Zero       == <<0, 0>>
(* documented constants of the library (dicom_ul::pdu): DEFAULT_MAX_PDU,   *)
(* MINIMUM_PDU_SIZE, MAXIMUM_PDU_SIZE                                      *)
DefaultMax == <<0, 32762>>          \* 32768 - 6
MinMax     == <<0, 1018>>           \* 1024 - 6
Largest    == <<65535, 65528>>      \* (2^32 - 2) - 6

Sig(uid) == uid.u                   \* trailing padding trimmed
Range(s) == {s[i] : i \in DOMAIN s}

---------------------------------------------------------------------------
(* Presentation contexts (PS3.8 7.1.1.13, 9.3.3.2, Table 9-18)             *)
(* result/reason codes: 0 acceptance, 3 abstract-syntax-not-supported,     *)
(* 4 transfer-syntaxes-not-supported                                       *)

AbsOk(abs, cfg) == cfg.promiscuous \/ Sig(abs) \in cfg.abs
TsOk(ts, cfg)   == /\ (cfg.tss = {} \/ Sig(ts) \in cfg.tss)
                   /\ Sig(ts) \in Supported

RECURSIVE FirstOk(_, _, _)
FirstOk(tss, cfg, i) == IF i > Len(tss) THEN 0
                        ELSE IF TsOk(tss[i], cfg) THEN i ELSE FirstOk(tss, cfg, i + 1)

(* one result per proposed context, same id.  When accepted: the first     *)
(* acceptable proposed transfer syntax.  When not: the set of reasons that *)
(* name a condition that really fails (both may fail; either is correct).  *)
PcResult(pc, cfg) ==
  LET a == AbsOk(pc.abs, cfg)
      i == FirstOk(pc.tss, cfg, 1)
  IN IF a /\ i > 0
       THEN [id |-> pc.id, ok |-> TRUE, reasons |-> {0}, abs |-> Sig(pc.abs), ts |-> Sig(pc.tss[i])]
       ELSE [id |-> pc.id, ok |-> FALSE,
             reasons |-> (IF a THEN {} ELSE {3}) \cup (IF i > 0 THEN {} ELSE {4}),
             abs |-> Sig(pc.abs), ts |-> ""]

---------------------------------------------------------------------------
(* Rejection of the whole request (PS3.8 9.3.4, Table 9-21).  Reasons are  *)
(* <<source, reason>>: source 1 service-user (1 no-reason-given, 2         *)
(* application-context-name-not-supported, 3 calling-AE-title-not-         *)
(* recognized, 7 called-AE-title-not-recognized), source 2 service-        *)
(* provider ACSE (1 no-reason-given, 2 protocol-version-not-supported).    *)
(*                                                                         *)
(* Decision recorded here: for a protocol-version mismatch PS3.8 has the   *)
(* dedicated provider-level reason <<2,2>>; the property text only asks    *)
(* for "the matching reason", and a reason that gives no reason does not   *)
(* name a *different* condition, so no-reason-given (either source) is     *)
(* accepted too.  For the two conditions that have a dedicated service-    *)
(* user reason the dedicated reason is demanded.                           *)
MatchingReasons(cond) ==
  CASE cond = "pv"     -> {<<2, 2>>, <<2, 1>>, <<1, 1>>}
    [] cond = "appctx" -> {<<1, 2>>}
    [] cond = "access" -> {<<1, 7>>}

(* PS3.8 9.3.2: a receiver implementing version 1 "shall only test that    *)
(* bit 0 is set".  A request without bit 0 is certainly "another protocol  *)
(* version"; a request with bit 0 and other bits (e.g. 3) is compatible by *)
(* PS3.8 but literally another value: both answers are tolerated.          *)
PvCertainlyOther(req, cfg) == req.pv % 2 = 0
PvUnclear(req, cfg)        == req.pv % 2 = 1 /\ req.pv # cfg.pv

FailingConds(req, cfg) ==
     (IF PvCertainlyOther(req, cfg) THEN {"pv"} ELSE {})
  \cup (IF req.appctx # cfg.appctx THEN {"appctx"} ELSE {})
  \cup (IF cfg.access = "called" /\ req.called # cfg.aet THEN {"access"} ELSE {})

(* requestor's maximum PDU length as the acceptor must record it: absent   *)
(* -> the default, 0 -> the largest supported, otherwise the value (a      *)
(* value beyond the largest supported may be kept or clamped)              *)
PeerMaxAllowed(maxlen) ==
  IF maxlen = <<>> THEN {DefaultMax}
  ELSE IF maxlen = Zero THEN {Largest}
  ELSE IF Leq(maxlen, Largest) THEN {maxlen} ELSE {maxlen, Largest}

(* The acceptor's answer, as the set of allowed observations:              *)
(*   acOk     an A-ASSOCIATE-AC is a correct answer                        *)
(*   rj       reasons allowed on an A-ASSOCIATE-RJ ({} : must not reject)  *)
Accept(req, cfg) ==
  LET F  == FailingConds(req, cfg)
      rj == UNION {MatchingReasons(c) : c \in F}
              \cup (IF PvUnclear(req, cfg) THEN MatchingReasons("pv") ELSE {})
  IN [acOk    |-> F = {},
      rj      |-> rj,
      results |-> [i \in 1..Len(req.pcs) |-> PcResult(req.pcs[i], cfg)],
      peermax |-> PeerMaxAllowed(req.maxlen)]

(* Does an observed answer conform?  obs is                                *)
(*  [type |-> "RJ", source, reason]  or                                    *)
(*  [type |-> "AC", results |-> Seq([id, reason, ts])]                     *)
ResultConforms(e, o) == /\ o.id = e.id
                        /\ o.reason \in e.reasons
                        /\ (e.ok => Sig(o.ts) = e.ts)
AnswerConforms(exp, obs) ==
  CASE obs.type = "RJ" -> <<obs.source, obs.reason>> \in exp.rj
    [] obs.type = "AC" -> /\ exp.acOk
                          /\ Len(obs.results) = Len(exp.results)
                          /\ \A i \in 1..Len(exp.results) :
                               /\ Cardinality({j \in 1..Len(obs.results) : obs.results[j].id = exp.results[i].id}) = 1
                               /\ \E j \in 1..Len(obs.results) : ResultConforms(exp.results[i], obs.results[j])
    [] OTHER -> FALSE

(* the acceptor's own view after establish: est, its context list          *)
(* (id, reason, abs, ts) and the recorded requestor maximum                *)
ViewConforms(exp, obs, view) ==
  IF obs.type = "AC"
    THEN /\ view.est
         /\ view.peermax \in exp.peermax
         /\ Len(view.pcs) = Len(exp.results)
         /\ \A i \in 1..Len(exp.results) :
              \E j \in 1..Len(view.pcs) :
                 /\ ResultConforms(exp.results[i], view.pcs[j])
                 /\ Sig(view.pcs[j].abs) = exp.results[i].abs
    ELSE ~view.est

---------------------------------------------------------------------------
(* Requestor side (C29): PS3.8 7.1.1.13: odd identifiers 1..255, distinct  *)
BuildRq(opts) ==
  [pv |-> 1, appctx |-> opts.appctx, called |-> opts.called,
   pcs |-> [i \in 1..Len(opts.pcs) |-> [id |-> 2 * i - 1, abs |-> opts.pcs[i].abs, tss |-> opts.pcs[i].tss]],
   maxlen |-> opts.maxpdu]

IdsOk(ids) == /\ \A i \in 1..Len(ids) : ids[i] % 2 = 1 /\ ids[i] \in 1..255
              /\ \A i, j \in 1..Len(ids) : i # j => ids[i] # ids[j]

(* a maximum PDU length as a peer must understand it *)
Eff(m) == IF m = Zero THEN Largest ELSE MinU(m, Largest)

(* the library refuses to run with a local maximum outside its documented  *)
(* range (receiving is impossible): such an end never establishes          *)
LocallyRefused(m) == ~(Leq(MinMax, m) /\ Leq(m, Largest))

AcceptedOf(results) == SelectSeq(results, LAMBDA r : r.ok)
AcceptedTriples(results) == LET a == AcceptedOf(results)
                            IN [i \in 1..Len(a) |-> [id |-> a[i].id, abs |-> a[i].abs, ts |-> a[i].ts]]

(* expected outcome of requestor opts against acceptor cfg *)
Scenario(opts, cfg) ==
  LET rq  == BuildRq(opts)
      ans == Accept(rq, cfg)
      acc == AcceptedTriples(ans.results)
      refused == LocallyRefused(opts.maxpdu) \/ LocallyRefused(cfg.maxpdu)
  IN [refused  |-> refused,
      rejected |-> ~ans.acOk,
      est      |-> ~refused /\ ans.acOk /\ acc # <<>>,
      accepted |-> acc,
      rqPeer   |-> Eff(cfg.maxpdu),     \* what the requestor must hold as the acceptor's maximum
      acPeer   |-> Eff(opts.maxpdu)]    \* what the acceptor must hold as the requestor's maximum

(* size of an encoded P-DATA-TF PDU (PS3.8 9.3.5): 6 bytes PDU header, and *)
(* per PDV 4 bytes item length + 1 context id + 1 message control header   *)
(* + the fragment; pdvs is the sequence of fragment lengths                *)
RECURSIVE EncodedLenFrom(_, _)
EncodedLenFrom(pdvs, i) == IF i > Len(pdvs) THEN 0 ELSE 6 + pdvs[i] + EncodedLenFrom(pdvs, i + 1)
EncodedLen(pdvs) == 6 + EncodedLenFrom(pdvs, 1)

(* send guard: a PDU of n bytes in total (6-byte header included) may go   *)
(* out iff its PDU-length field n - 6 does not exceed the peer's maximum   *)
SendAllowed(n, peer) == Leq(n, AddSmall(peer, 6))
=============================================================================
