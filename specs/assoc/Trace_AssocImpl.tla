--------------------------- MODULE Trace_AssocImpl ---------------------------
(***************************************************************************)
(* Trace validator for C30: the PDU exchange recorded by the proxy between *)
(* a real requestor and a real acceptor (after establishment), plus each   *)
(* peer's final API outcome, must be a behaviour of AssocImpl.             *)
(*                                                                         *)
(*   {ev:"reset", raw}                 a new, established association; raw *)
(*                                     = TRUE: the requestor is a script   *)
(*                                     that may keep its socket open after *)
(*                                     the A-RELEASE-RP and write P-DATA   *)
(*                                     (named misuse actions of AssocImpl, *)
(*                                     requestor side only)                *)
(*   {ev:"pdu", from, kind}            the proxy took a PDU from `from`    *)
(*                                     (logged before it is forwarded)     *)
(*   {ev:"closed", by}                 the proxy saw `by`'s end close      *)
(*   {ev:"end", peer, state}           final outcome of that peer's calls  *)
(*                                     (Released, Failed, Aborted, ...)    *)
(* Socket reads that do not close anything are not logged: TLC inserts     *)
(* them as silent steps (AppRecvData, AppRecvRQ).  Every action that       *)
(* closes p's socket is bound to the `closed` event of p.                  *)
(***************************************************************************)
EXTENDS AssocImpl, TLC, Json, IOUtils

Rec == ndJsonDeserialize(IOEnv.TRACE)
VARIABLES l, raw
tvars == <<vars, l, raw>>

TInit == Init /\ l = 1 /\ raw = FALSE /\ TLCSet(1, 1)
Ev(e) == l <= Len(Rec) /\ Rec[l].ev = e /\ l' = l + 1
R == Rec[l]

TReset == /\ Ev("reset")
          /\ pc'   = [p \in Peers |-> "Est"]
          /\ chan' = [p \in Peers |-> <<>>]
          /\ open' = [p \in Peers |-> TRUE]
          /\ nd'   = [p \in Peers |-> 0]
          /\ raw'  = ("raw" \in DOMAIN R /\ R.raw)

TPdu == /\ Ev("pdu")
        /\ LET p == R.from IN
           CASE R.kind = "PData"     -> SendData(p) \/ (raw /\ p = "rq" /\ DataAfterReleaseMisuse(p))
             [] R.kind = "ReleaseRQ" -> ReleaseCall(p)
             [] R.kind = "ReleaseRP" -> AppReplyRP(p)
             [] R.kind = "Abort"     -> AbortSend(p)
             [] OTHER                -> FALSE
        /\ UNCHANGED raw

TClosed == /\ Ev("closed")
           /\ LET p == R.by IN
              \/ ReleaseRecvRP(p) \/ ReleaseRecvAbort(p) \/ PDataWhileAwaitRPIsError(p)
              \/ ReleaseCollisionIsError(p) \/ ReleaseEof(p) \/ ReleaseSendFail(p)
              \/ AbortClose(p) \/ DropAny(p)
              \/ AppCloseAfterRP(p) \/ AppRecvAbort(p) \/ AppEof(p)
              \/ (raw /\ p = "rq" /\ MisuseClose(p))
           /\ UNCHANGED raw

TEnd == /\ Ev("end") /\ pc[R.peer] = R.state /\ UNCHANGED <<vars, raw>>

TSilent == /\ UNCHANGED <<l, raw>>
           /\ \/ \E p \in Peers : AppRecvData(p) \/ AppRecvRQ(p)
              \/ (raw /\ RawRecvRPKeepOpen("rq"))

TNext == TReset \/ TPdu \/ TClosed \/ TEnd \/ TSilent
TSpec == TInit /\ [][TNext]_tvars

Track == TLCSet(1, IF l > TLCGet(1) THEN l ELSE TLCGet(1))
Accepted == IF TLCGet(1) = Len(Rec) + 1 THEN TRUE
            ELSE Print(<<"REJECTED", TLCGet(1), ToJson(Rec[TLCGet(1)])>>, FALSE)
=============================================================================
