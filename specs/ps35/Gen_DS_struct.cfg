CONSTANT Sweep = "struct"
SPECIFICATION Spec
INVARIANT Premise
INVARIANT ParseInvertsWire
INVARIANT NormStable
INVARIANT Emit
CHECK_DEADLOCK FALSE
