-------------------------------- MODULE PS35 --------------------------------
(***************************************************************************)
(* The DICOM PS3.5 data-set wire layout, written from the standard          *)
(* (PS3.5 sections 6.2, 7.1, 7.5, 7.8, A.1, A.2, A.4): the independent      *)
(* reference encoder (Wire) and the independent structural parser (Parse)   *)
(* used by C01-C04, C31.  Nothing in this module is derived from dicom-rs.  *)
(*                                                                         *)
(* Conventions                                                             *)
(*  * a byte string is a sequence over 0..255;                             *)
(*  * every multi-byte number is written MOST SIGNIFICANT BYTE FIRST as a   *)
(*    byte tuple (TLC integers are 32-bit; 32-bit lengths and 64-bit        *)
(*    values never become integers unless they are < 2^31);                 *)
(*  * a tag is <<group, element>>;                                          *)
(*  * transfer syntax ts \in {"IVRLE","EVRLE","EVRBE"};                     *)
(*  * an abstract data set is a sequence of element records                 *)
(*      [k |-> "P", tag, vr, v]          primitive, v = sequence of items,  *)
(*                                       each item a byte tuple: the text   *)
(*                                       of one value (text VRs) or one     *)
(*                                       number MSB first (binary VRs; AT = *)
(*                                       4 bytes = two 16-bit words)        *)
(*      [k |-> "S", tag, lm, items]      sequence, lm \in {"U","E"} is the  *)
(*                                       recorded length mode, items =      *)
(*                                       sequence of [lm, ds]               *)
(*      [k |-> "X", tag, bot, frags]     encapsulated pixel data (OB,       *)
(*                                       undefined length): basic offset    *)
(*                                       table (4-byte tuples) + fragments  *)
(*  * writer strategy: "U" every sequence/item gets undefined length,       *)
(*    "K" keep the recorded length mode (explicit lengths are the exact     *)
(*    byte counts).                                                         *)
(***************************************************************************)
EXTENDS Integers, Sequences, FiniteSets, TLC

TSs == {"IVRLE", "EVRLE", "EVRBE"}
IsExplicit(ts) == ts # "IVRLE"
IsBig(ts) == ts = "EVRBE"

(* PS3.5 6.2: the value representations and their two-letter codes *)
VRTab == <<
    <<"AE", 65, 69>>, <<"AS", 65, 83>>, <<"AT", 65, 84>>, <<"CS", 67, 83>>,
    <<"DA", 68, 65>>, <<"DS", 68, 83>>, <<"DT", 68, 84>>, <<"FL", 70, 76>>,
    <<"FD", 70, 68>>, <<"IS", 73, 83>>, <<"LO", 76, 79>>, <<"LT", 76, 84>>,
    <<"OB", 79, 66>>, <<"OD", 79, 68>>, <<"OF", 79, 70>>, <<"OL", 79, 76>>,
    <<"OV", 79, 86>>, <<"OW", 79, 87>>, <<"PN", 80, 78>>, <<"SH", 83, 72>>,
    <<"SL", 83, 76>>, <<"SQ", 83, 81>>, <<"SS", 83, 83>>, <<"ST", 83, 84>>,
    <<"SV", 83, 86>>, <<"TM", 84, 77>>, <<"UC", 85, 67>>, <<"UI", 85, 73>>,
    <<"UL", 85, 76>>, <<"UN", 85, 78>>, <<"UR", 85, 82>>, <<"US", 85, 83>>,
    <<"UT", 85, 84>>, <<"UV", 85, 86>> >>

VRs == {VRTab[i][1] : i \in 1..Len(VRTab)}
VRCodeOf(v) == LET i == CHOOSE j \in 1..Len(VRTab) : VRTab[j][1] = v
               IN <<VRTab[i][2], VRTab[i][3]>>
VRCodes == {<<VRTab[i][2], VRTab[i][3]>> : i \in 1..Len(VRTab)}
VRByCode(c) == VRTab[CHOOSE j \in 1..Len(VRTab) : <<VRTab[j][2], VRTab[j][3]>> = c][1]

(* PS3.5 7.1.2: VRs whose explicit-VR header has a 16-bit value length *)
ShortVR == {"AE", "AS", "AT", "CS", "DA", "DS", "DT", "FL", "FD", "IS", "LO", "LT",
            "PN", "SH", "SL", "SS", "ST", "TM", "UI", "UL", "US"}

(* value classes (PS3.5 6.2, 6.4) *)
TextMulti  == {"AE", "AS", "CS", "DA", "DS", "DT", "IS", "LO", "PN", "SH", "TM", "UI", "UC"}
TextSingle == {"LT", "ST", "UT", "UR"}     \* backslash is not a delimiter
TextVR     == TextMulti \cup TextSingle
BinVR      == VRs \ (TextVR \cup {"SQ"})
(* width of the unit that is byte-swapped *)
UnitW(vr) == CASE vr \in {"OB", "UN"} -> 1
               [] vr \in {"US", "SS", "OW", "AT"} -> 2
               [] vr \in {"UL", "SL", "FL", "OL", "OF"} -> 4
               [] vr \in {"FD", "OD", "UV", "SV", "OV"} -> 8
(* width of one value *)
ItemW(vr) == IF vr = "AT" THEN 4 ELSE UnitW(vr)
(* PS3.5 6.2: UI is padded with NUL, other text with SPACE; binary (OB, UN) with NUL *)
PadByte(vr) == IF vr \in TextVR /\ vr # "UI" THEN 32 ELSE 0

---------------------------------------------------------------------------
(* bytes *)
Even(n) == n % 2 = 0
EvenUp(n) == IF Even(n) THEN n ELSE n + 1
W16(n) == <<n \div 256, n % 256>>
U32(n) == <<n \div 16777216, (n \div 65536) % 256, (n \div 256) % 256, n % 256>>   \* 0 <= n < 2^31
Undef4 == <<255, 255, 255, 255>>
Zero4 == <<0, 0, 0, 0>>
IsInt4(l) == l[1] < 128
ToInt4(l) == ((l[1] * 256 + l[2]) * 256 + l[3]) * 256 + l[4]                          \* requires IsInt4
Fits16(l) == l[1] = 0 /\ l[2] = 0
Rev(s) == [i \in 1..Len(s) |-> s[Len(s) + 1 - i]]
Ord(ts, msb) == IF IsBig(ts) THEN msb ELSE Rev(msb)
RECURSIVE Flat(_)
Flat(ss) == IF Len(ss) = 0 THEN <<>> ELSE Head(ss) \o Flat(Tail(ss))
RECURSIVE JoinBS(_)
JoinBS(ss) == IF Len(ss) = 0 THEN <<>>
              ELSE IF Len(ss) = 1 THEN ss[1] ELSE ss[1] \o <<92>> \o JoinBS(Tail(ss))
(* swap every w-byte unit of an MSB-first byte string *)
RECURSIVE Units(_, _, _)
Units(ts, s, w) == IF Len(s) = 0 THEN <<>>
                   ELSE Ord(ts, SubSeq(s, 1, w)) \o Units(ts, SubSeq(s, w + 1, Len(s)), w)

TagLt(a, b) == a[1] < b[1] \/ (a[1] = b[1] /\ a[2] < b[2])
ItemTag == <<65534, 57344>>       \* (FFFE,E000)
ItemDelimTag == <<65534, 57357>>  \* (FFFE,E00D)
SeqDelimTag == <<65534, 57565>>   \* (FFFE,E0DD)
PixelDataTag == <<32736, 16>>     \* (7FE0,0010)

---------------------------------------------------------------------------
(* PS3.5 7.1: data element header.  len4 = 32-bit value length, MSB first.  *)
TagBytes(ts, tag) == Ord(ts, W16(tag[1])) \o Ord(ts, W16(tag[2]))
HeaderLen(ts, vr) == IF IsExplicit(ts) /\ vr \notin ShortVR THEN 12 ELSE 8
(* a 16-bit length field cannot hold the length (this includes "undefined") *)
HeaderFits(ts, vr, len4) == ~(IsExplicit(ts) /\ vr \in ShortVR) \/ Fits16(len4)
HeaderBytes(ts, tag, vr, len4) ==
    IF ~IsExplicit(ts) THEN TagBytes(ts, tag) \o Ord(ts, len4)
    ELSE IF vr \in ShortVR THEN TagBytes(ts, tag) \o VRCodeOf(vr) \o Ord(ts, <<len4[3], len4[4]>>)
    ELSE TagBytes(ts, tag) \o VRCodeOf(vr) \o <<0, 0>> \o Ord(ts, len4)
(* PS3.5 7.5: items and delimiters are tag + 32-bit length, no VR *)
ItemHeader(ts, len4) == TagBytes(ts, ItemTag) \o Ord(ts, len4)
ItemDelim(ts) == TagBytes(ts, ItemDelimTag) \o Zero4
SeqDelim(ts) == TagBytes(ts, SeqDelimTag) \o Zero4

(* value field without padding *)
ValueRaw(ts, vr, v) ==
    IF vr \in TextMulti THEN JoinBS(v)
    ELSE IF vr \in TextSingle THEN Flat(v)
    ELSE Units(ts, Flat(v), UnitW(vr))
Padded(vr, b) == IF Even(Len(b)) THEN b ELSE b \o <<PadByte(vr)>>
ValueBytes(ts, vr, v) == Padded(vr, ValueRaw(ts, vr, v))
ElementBytes(ts, tag, vr, v) ==
    LET vb == ValueBytes(ts, vr, v) IN HeaderBytes(ts, tag, vr, U32(Len(vb))) \o vb

(* encapsulated pixel data (PS3.5 A.4): fragments have even length *)
FragBytes(ts, f) == LET p == IF Even(Len(f)) THEN f ELSE f \o <<0>>
                    IN ItemHeader(ts, U32(Len(p))) \o p
BotBytes(ts, bot) == ItemHeader(ts, U32(4 * Len(bot))) \o Flat([i \in 1..Len(bot) |-> Ord(ts, bot[i])])

RECURSIVE Wire(_, _, _)
ItemWire(it, ts, st) ==
    LET body == Wire(it.ds, ts, st)
        m == IF st = "U" THEN "U" ELSE it.lm
    IN IF m = "U" THEN ItemHeader(ts, Undef4) \o body \o ItemDelim(ts)
       ELSE ItemHeader(ts, U32(Len(body))) \o body
ElemWire(e, ts, st) ==
    CASE e.k = "P" -> ElementBytes(ts, e.tag, e.vr, e.v)
      [] e.k = "S" ->
           LET body == Flat([i \in 1..Len(e.items) |-> ItemWire(e.items[i], ts, st)])
               m == IF st = "U" THEN "U" ELSE e.lm
           IN IF m = "U" THEN HeaderBytes(ts, e.tag, "SQ", Undef4) \o body \o SeqDelim(ts)
              ELSE HeaderBytes(ts, e.tag, "SQ", U32(Len(body))) \o body
      [] e.k = "X" ->
           HeaderBytes(ts, e.tag, "OB", Undef4) \o BotBytes(ts, e.bot)
             \o Flat([i \in 1..Len(e.frags) |-> FragBytes(ts, e.frags[i])]) \o SeqDelim(ts)
Wire(ds, ts, st) == Flat([i \in 1..Len(ds) |-> ElemWire(ds[i], ts, st)])

(* The same data set with the explicit byte counts that strategy "K" writes   *)
(* recorded in the nodes (len = -1: undefined).                               *)
RECURSIVE Annot(_, _)
AnnotItem(it, ts) == [lm |-> it.lm, ds |-> Annot(it.ds, ts),
                      len |-> IF it.lm = "U" THEN -1 ELSE Len(Wire(it.ds, ts, "K"))]
AnnotElem(e, ts) ==
    IF e.k = "S"
    THEN [k |-> "S", tag |-> e.tag, lm |-> e.lm,
          items |-> [i \in 1..Len(e.items) |-> AnnotItem(e.items[i], ts)],
          len |-> IF e.lm = "U" THEN -1
                  ELSE Len(Flat([i \in 1..Len(e.items) |-> ItemWire(e.items[i], ts, "K")]))]
    ELSE e
Annot(ds, ts) == [i \in 1..Len(ds) |-> AnnotElem(ds[i], ts)]

RECURSIVE AllUndef(_)
AllUndef(ds) == \A i \in 1..Len(ds) :
                  ds[i].k = "S" => /\ ds[i].lm = "U"
                                   /\ \A j \in 1..Len(ds[i].items) :
                                        ds[i].items[j].lm = "U" /\ AllUndef(ds[i].items[j].ds)

---------------------------------------------------------------------------
(* dict: a sequence of <<tag, vr>> pairs (dictionary facts); unknown tags are UN *)
DictVR(dict, tag) == IF \E i \in 1..Len(dict) : dict[i][1] = tag
                     THEN dict[CHOOSE i \in 1..Len(dict) : dict[i][1] = tag][2]
                     ELSE "UN"

(* The structural content of a stream: what any PS3.5 parser sees.  Primitive *)
(* elements carry their (padded) value field; length modes are kept in lm.    *)
RECURSIVE RawTree(_, _, _, _)
RawElem(e, ts, st, dict) ==
    CASE e.k = "P" -> [k |-> "P", tag |-> e.tag, vr |-> IF IsExplicit(ts) THEN e.vr ELSE DictVR(dict, e.tag),
                       val |-> ValueBytes(ts, e.vr, e.v)]
      [] e.k = "S" -> [k |-> "S", tag |-> e.tag, lm |-> IF st = "U" THEN "U" ELSE e.lm,
                       items |-> [i \in 1..Len(e.items) |->
                                    [lm |-> IF st = "U" THEN "U" ELSE e.items[i].lm,
                                     ds |-> RawTree(e.items[i].ds, ts, st, dict)]]]
      [] e.k = "X" -> [k |-> "X", tag |-> e.tag, bot |-> e.bot,
                       frags |-> [i \in 1..Len(e.frags) |->
                                    IF Even(Len(e.frags[i])) THEN e.frags[i] ELSE e.frags[i] \o <<0>>]]
RawTree(ds, ts, st, dict) == [i \in 1..Len(ds) |-> RawElem(ds[i], ts, st, dict)]

(* forget the length modes *)
RECURSIVE StripLm(_)
StripElem(e) == IF e.k = "S"
                THEN [k |-> "S", tag |-> e.tag,
                      items |-> [i \in 1..Len(e.items) |-> StripLm(e.items[i].ds)]]
                ELSE e
StripLm(ds) == [i \in 1..Len(ds) |-> StripElem(ds[i])]

---------------------------------------------------------------------------
(* Independent recursive-descent parser.  dict is a sequence of <<tag, vr>>  *)
(* pairs used only for Implicit VR (unknown tags are UN).  Positions are      *)
(* 1-based; end is one past the last byte of the enclosing construct.         *)
(* Checks made (PS3.5 7.1, 7.5, A.4): every header complete; explicit VR code *)
(* defined, reserved bytes zero; defined lengths even, a multiple of the      *)
(* value width, and inside the enclosing construct; explicit-length items     *)
(* and sequences end exactly where they say; undefined-length ones are closed *)
(* by the matching delimiter with zero length; undefined length only for SQ,  *)
(* UN and encapsulated pixel data; tags strictly ascending in each data set;  *)
(* fragments and offset table have defined even lengths.                      *)
Fail == [ok |-> FALSE, pos |-> 0, ds |-> <<>>]

Parse(b, ts, dict) ==
  LET n == Len(b)
      RdTag(p) == LET g == Ord(ts, <<b[p], b[p + 1]>>)
                      e == Ord(ts, <<b[p + 2], b[p + 3]>>)
                  IN <<g[1] * 256 + g[2], e[1] * 256 + e[2]>>
      Rd32(p) == Ord(ts, <<b[p], b[p + 1], b[p + 2], b[p + 3]>>)
      Rd16as32(p) == <<0, 0>> \o Ord(ts, <<b[p], b[p + 1]>>)
      (* element header at p (p + 8 <= end known): [ok, tag, vr, len4, h] *)
      RdHeader(p, end) ==
          LET tag == RdTag(p) IN
          IF ~IsExplicit(ts)
          THEN [ok |-> TRUE, tag |-> tag, vr |-> DictVR(dict, tag), len4 |-> Rd32(p + 4), h |-> 8]
          ELSE IF <<b[p + 4], b[p + 5]>> \notin VRCodes
          THEN [ok |-> FALSE, tag |-> tag, vr |-> "UN", len4 |-> Zero4, h |-> 0]
          ELSE LET vr == VRByCode(<<b[p + 4], b[p + 5]>>) IN
               IF vr \in ShortVR
               THEN [ok |-> TRUE, tag |-> tag, vr |-> vr, len4 |-> Rd16as32(p + 6), h |-> 8]
               ELSE IF p + 12 > end \/ b[p + 6] # 0 \/ b[p + 7] # 0
               THEN [ok |-> FALSE, tag |-> tag, vr |-> vr, len4 |-> Zero4, h |-> 0]
               ELSE [ok |-> TRUE, tag |-> tag, vr |-> vr, len4 |-> Rd32(p + 8), h |-> 12]
      RECURSIVE PElems(_, _, _, _), PItems(_, _, _, _), PFrags(_, _, _)
      (* elements from p until end or until a tag of group FFFE *)
      PElems(p, end, last, acc) ==
          IF p = end THEN [ok |-> TRUE, pos |-> p, ds |-> acc]
          ELSE IF p + 8 > end THEN Fail
          ELSE IF RdTag(p)[1] = 65534 THEN [ok |-> TRUE, pos |-> p, ds |-> acc]
          ELSE LET H == RdHeader(p, end) IN
               IF ~H.ok \/ ~(Len(last) = 0 \/ TagLt(last, H.tag)) THEN Fail
               ELSE LET q == p + H.h IN
                    IF H.len4 = Undef4
                    THEN IF H.tag = PixelDataTag /\ H.vr \in {"OB", "OW"}
                         THEN (* encapsulated pixel data: first item is the offset table *)
                              IF q + 8 > end \/ RdTag(q) # ItemTag \/ ~IsInt4(Rd32(q + 4)) THEN Fail
                              ELSE LET bl == ToInt4(Rd32(q + 4)) IN
                                   IF bl % 4 # 0 \/ q + 8 + bl > end THEN Fail
                                   ELSE LET bot == [i \in 1..(bl \div 4) |-> Rd32(q + 8 + 4 * (i - 1))]
                                            F == PFrags(q + 8 + bl, end, <<>>)
                                        IN IF ~F.ok THEN Fail
                                           ELSE PElems(F.pos, end, H.tag,
                                                       Append(acc, [k |-> "X", tag |-> H.tag, bot |-> bot,
                                                                    frags |-> F.ds]))
                         ELSE IF H.vr \in {"SQ", "UN"}
                         THEN LET I == PItems(q, end, TRUE, <<>>) IN
                              IF ~I.ok THEN Fail
                              ELSE PElems(I.pos, end, H.tag,
                                          Append(acc, [k |-> "S", tag |-> H.tag, lm |-> "U", items |-> I.ds]))
                         ELSE Fail
                    ELSE IF ~IsInt4(H.len4) THEN Fail
                    ELSE LET l == ToInt4(H.len4) IN
                         IF ~Even(l) \/ q + l > end THEN Fail
                         ELSE IF H.vr = "SQ"
                         THEN LET I == PItems(q, q + l, FALSE, <<>>) IN
                              IF ~I.ok \/ I.pos # q + l THEN Fail
                              ELSE PElems(q + l, end, H.tag,
                                          Append(acc, [k |-> "S", tag |-> H.tag, lm |-> "E", items |-> I.ds]))
                         ELSE IF H.vr \in BinVR /\ l % ItemW(H.vr) # 0 THEN Fail
                         ELSE PElems(q + l, end, H.tag,
                                     Append(acc, [k |-> "P", tag |-> H.tag, vr |-> H.vr,
                                                  val |-> SubSeq(b, q, q + l - 1)]))
      (* items from p; undef: until the sequence delimiter, else until end *)
      PItems(p, end, undef, acc) ==
          IF ~undef /\ p = end THEN [ok |-> TRUE, pos |-> p, ds |-> acc]
          ELSE IF p + 8 > end THEN Fail
          ELSE LET tag == RdTag(p)
                   l4 == Rd32(p + 4) IN
               IF tag = SeqDelimTag
               THEN IF undef /\ l4 = Zero4 THEN [ok |-> TRUE, pos |-> p + 8, ds |-> acc] ELSE Fail
               ELSE IF tag # ItemTag THEN Fail
               ELSE IF l4 = Undef4
               THEN LET E == PElems(p + 8, end, <<>>, <<>>) IN
                    IF ~E.ok \/ E.pos + 8 > end THEN Fail
                    ELSE IF RdTag(E.pos) # ItemDelimTag \/ Rd32(E.pos + 4) # Zero4 THEN Fail
                    ELSE PItems(E.pos + 8, end, undef, Append(acc, [lm |-> "U", ds |-> E.ds]))
               ELSE IF ~IsInt4(l4) THEN Fail
               ELSE LET l == ToInt4(l4) IN
                    IF ~Even(l) \/ p + 8 + l > end THEN Fail
                    ELSE LET E == PElems(p + 8, p + 8 + l, <<>>, <<>>) IN
                         IF ~E.ok \/ E.pos # p + 8 + l THEN Fail
                         ELSE PItems(p + 8 + l, end, undef, Append(acc, [lm |-> "E", ds |-> E.ds]))
      (* pixel data fragments until the sequence delimiter *)
      PFrags(p, end, acc) ==
          IF p + 8 > end THEN Fail
          ELSE LET tag == RdTag(p)
                   l4 == Rd32(p + 4) IN
               IF tag = SeqDelimTag
               THEN IF l4 = Zero4 THEN [ok |-> TRUE, pos |-> p + 8, ds |-> acc] ELSE Fail
               ELSE IF tag # ItemTag \/ ~IsInt4(l4) THEN Fail
               ELSE LET l == ToInt4(l4) IN
                    IF ~Even(l) \/ p + 8 + l > end THEN Fail
                    ELSE PFrags(p + 8 + l, end, Append(acc, SubSeq(b, p + 8, p + 7 + l)))
      R == PElems(1, n + 1, <<>>, <<>>)
  IN IF R.ok /\ R.pos = n + 1 THEN R ELSE Fail

WellFormed(b, ts, dict) == Parse(b, ts, dict).ok

(* header decoding alone (C03): <<tag, vr, len4, bytes occupied>> *)
DecodeHeader(b, ts, dict) ==
  LET tag == LET g == Ord(ts, <<b[1], b[2]>>)
                 e == Ord(ts, <<b[3], b[4]>>)
             IN <<g[1] * 256 + g[2], e[1] * 256 + e[2]>>
  IN IF ~IsExplicit(ts)
     THEN <<tag, DictVR(dict, tag), Ord(ts, SubSeq(b, 5, 8)), 8>>
     ELSE LET vr == VRByCode(<<b[5], b[6]>>) IN
          IF vr \in ShortVR THEN <<tag, vr, <<0, 0>> \o Ord(ts, SubSeq(b, 7, 8)), 8>>
          ELSE <<tag, vr, Ord(ts, SubSeq(b, 9, 12)), 12>>

---------------------------------------------------------------------------
(* PS3.5 6.2, DA / TM / DT: the text of a value is determined by the components *)
(* that are present.  A value is a record [y, mo, d, h, mi, s, f, tz] with -1   *)
(* for an absent number, f = the fraction digits (0..6 of them), tz = <<>> or   *)
(* <<sign code (43 "+" / 45 "-"), hours, minutes>>.                             *)
(*   DA  YYYY[MM[DD]]        TM  HH[MM[SS[.F{1,6}]]]                            *)
(*   DT  YYYY[MM[DD[HH[MM[SS[.F{1,6}]]]]]][&ZZXX]                               *)
RECURSIVE Pow10(_)
Pow10(k) == IF k = 0 THEN 1 ELSE 10 * Pow10(k - 1)
Dig(n, w) == [i \in 1..w |-> 48 + ((n \div Pow10(w - i)) % 10)]
DAText(p) == Dig(p.y, 4) \o (IF p.mo < 0 THEN <<>> ELSE Dig(p.mo, 2) \o (IF p.d < 0 THEN <<>> ELSE Dig(p.d, 2)))
TMText(p) == Dig(p.h, 2) \o
             (IF p.mi < 0 THEN <<>> ELSE Dig(p.mi, 2) \o
               (IF p.s < 0 THEN <<>> ELSE Dig(p.s, 2) \o
                 (IF Len(p.f) = 0 THEN <<>> ELSE <<46>> \o [i \in 1..Len(p.f) |-> 48 + p.f[i]])))
DTText(p) == DAText(p) \o (IF p.h < 0 THEN <<>> ELSE TMText(p))
               \o (IF Len(p.tz) = 0 THEN <<>> ELSE <<p.tz[1]>> \o Dig(p.tz[2], 2) \o Dig(p.tz[3], 2))
TypedText(vr, p) == CASE vr = "DA" -> DAText(p) [] vr = "TM" -> TMText(p) [] vr = "DT" -> DTText(p)

(* PS3.5 6.1 / PS3.3 C.12.1.1.2: character repertoires selected by (0008,0005). *)
(* Text is a sequence of code points; ISO_IR 100 (Latin-1) encodes a code point *)
(* <= 255 as that byte, ISO_IR 192 is UTF-8.                                    *)
Utf8(c) == IF c < 128 THEN <<c>>
           ELSE IF c < 2048 THEN <<192 + (c \div 64), 128 + (c % 64)>>
           ELSE <<224 + (c \div 4096), 128 + ((c \div 64) % 64), 128 + (c % 64)>>
EncText(cs, cps) == IF cs = "ISO_IR 192" THEN Flat([i \in 1..Len(cps) |-> Utf8(cps[i])]) ELSE cps
CsCode(cs) == (* "ISO_IR 100" / "ISO_IR 192" as characters *)
    <<73, 83, 79, 95, 73, 82, 32, 49>> \o (IF cs = "ISO_IR 192" THEN <<57, 50>> ELSE <<48, 48>>)

---------------------------------------------------------------------------
(* The documented normalisations of a write/read round trip:                 *)
(*  * trailing padding is not part of a text value; a value field of length   *)
(*    zero is the empty value;                                                *)
(*  * OB/UN values and pixel fragments of odd length come back padded to even *)
(*    (the pad byte of a byte string cannot be told from content);            *)
(*  * Implicit VR: the VR is the dictionary's for a known tag, UN otherwise;  *)
(*    a value read as UN is its value field, byte by byte;                    *)
(*  * length modes are not part of the comparison (StripLm);                  *)
(*  * an element may carry cp = its text as code points (non-default           *)
(*    repertoire; v is then the encoded form): text reads back as code points. *)
Bytes1(b) == [i \in 1..Len(b) |-> <<b[i]>>]
NormVal(ts, vr, v) ==
    IF Len(ValueRaw(ts, vr, v)) = 0 THEN <<>>
    ELSE IF vr \in {"OB", "UN"} /\ ~Even(Len(v)) THEN Append(v, <<0>>)
    ELSE v
RECURSIVE Norm(_, _, _)
NormElem(e, ts, dict) ==
    CASE e.k = "P" ->
           LET rvr == IF IsExplicit(ts) THEN e.vr ELSE DictVR(dict, e.tag) IN
           IF rvr = e.vr
           THEN [k |-> "P", tag |-> e.tag, vr |-> e.vr,
                 v |-> IF "cp" \in DOMAIN e /\ Len(ValueRaw(ts, e.vr, e.v)) > 0 THEN e.cp ELSE NormVal(ts, e.vr, e.v)]
           ELSE [k |-> "P", tag |-> e.tag, vr |-> rvr, v |-> Bytes1(ValueBytes(ts, e.vr, e.v))]
      [] e.k = "S" -> [k |-> "S", tag |-> e.tag,
                       items |-> [i \in 1..Len(e.items) |-> Norm(e.items[i].ds, ts, dict)]]
      [] e.k = "X" -> [k |-> "X", tag |-> e.tag, bot |-> e.bot,
                       frags |-> [i \in 1..Len(e.frags) |->
                                    IF Even(Len(e.frags[i])) THEN e.frags[i] ELSE e.frags[i] \o <<0>>]]
Norm(ds, ts, dict) == [i \in 1..Len(ds) |-> NormElem(ds[i], ts, dict)]

(* well-formed abstract data sets (premises of C01): ascending unique tags at *)
(* every level, values of the right width, encapsulated pixel data only as    *)
(* (7FE0,0010), even fragments                                                *)
RECURSIVE WfDs(_)
WfDs(ds) ==
    /\ \A i \in 1..(Len(ds) - 1) : TagLt(ds[i].tag, ds[i + 1].tag)
    /\ \A i \in 1..Len(ds) :
         LET e == ds[i] IN
         CASE e.k = "P" -> /\ e.vr \in VRs \ {"SQ"}
                           /\ e.vr \in BinVR => \A j \in 1..Len(e.v) : Len(e.v[j]) = ItemW(e.vr)
                           /\ e.vr \in TextSingle => Len(e.v) <= 1
                           /\ e.vr \in TextMulti => \A j \in 1..Len(e.v) : \A c \in 1..Len(e.v[j]) : e.v[j][c] # 92
           [] e.k = "S" -> \A j \in 1..Len(e.items) : WfDs(e.items[j].ds)
           [] e.k = "X" -> e.tag = PixelDataTag
=============================================================================
