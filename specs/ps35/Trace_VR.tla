------------------------------ MODULE Trace_VR ------------------------------
(***************************************************************************)
(* C03, VR code space.  The driver calls VR::from_binary on all 65 536      *)
(* two-byte codes and logs, per first byte a, the second bytes b it          *)
(* recognised (rec), those whose VR prints back to the same code (back) and *)
(* those recognised by the textual entry point (strs).  The trace is        *)
(* accepted iff  recognised <=> <<a,b>> \in PS35!VRCodes  for every code.    *)
(***************************************************************************)
EXTENDS PS35, Json, IOUtils

Rec == ndJsonDeserialize(IOEnv.TRACE)
VARIABLE l

ToSet(s) == {s[i] : i \in 1..Len(s)}
Expected(a) == {b \in 0..255 : <<a, b>> \in VRCodes}

TInit == l = 1 /\ TLCSet(1, 1)
TRow == /\ l <= Len(Rec) /\ Rec[l].ev = "vrrow"
        /\ Rec[l].a = l - 1                       \* every first byte exactly once, in order
        /\ ToSet(Rec[l].rec) = Expected(Rec[l].a)
        /\ ToSet(Rec[l].back) = Expected(Rec[l].a)
        /\ ToSet(Rec[l].strs) = Expected(Rec[l].a)
        /\ l' = l + 1
TSpec == TInit /\ [][TRow]_l

Track == TLCSet(1, IF l > TLCGet(1) THEN l ELSE TLCGet(1))
Accepted == IF TLCGet(1) = Len(Rec) + 1 /\ Len(Rec) = 256 THEN TRUE
            ELSE Print(<<"REJECTED", TLCGet(1), ToJson(Rec[TLCGet(1)])>>, FALSE)
=============================================================================
