------------------------------ MODULE PS35Dict ------------------------------
(***************************************************************************)
(* Dictionary facts (PS3.6) for the tags the generators use.  They matter   *)
(* only for Implicit VR, where the VR is not on the wire.  The drivers      *)
(* check every fact against the dictionary dicom-rs ships before using the  *)
(* cases (a disagreement is a tool error, not a violation).                 *)
(***************************************************************************)
EXTENDS Integers, Sequences

(* (0072,xxxx) Selector <VR> Value attributes: one standard tag per VR *)
StdTagTab == <<
  <<"AE", <<114, 94>>>>,  <<"AS", <<114, 95>>>>,  <<"AT", <<114, 96>>>>,  <<"DA", <<114, 97>>>>,
  <<"CS", <<114, 98>>>>,  <<"DT", <<114, 99>>>>,  <<"IS", <<114, 100>>>>, <<"OB", <<114, 101>>>>,
  <<"LO", <<114, 102>>>>, <<"OF", <<114, 103>>>>, <<"LT", <<114, 104>>>>, <<"OW", <<114, 105>>>>,
  <<"PN", <<114, 106>>>>, <<"TM", <<114, 107>>>>, <<"SH", <<114, 108>>>>, <<"UN", <<114, 109>>>>,
  <<"ST", <<114, 110>>>>, <<"UC", <<114, 111>>>>, <<"UT", <<114, 112>>>>, <<"UR", <<114, 113>>>>,
  <<"DS", <<114, 114>>>>, <<"OD", <<114, 115>>>>, <<"FD", <<114, 116>>>>, <<"OL", <<114, 117>>>>,
  <<"FL", <<114, 118>>>>, <<"UL", <<114, 120>>>>, <<"US", <<114, 122>>>>, <<"SL", <<114, 124>>>>,
  <<"SS", <<114, 126>>>>, <<"UI", <<114, 127>>>>, <<"SQ", <<114, 128>>>>, <<"OV", <<114, 129>>>>,
  <<"SV", <<114, 130>>>>, <<"UV", <<114, 131>>>> >>
StdTag(vr) == StdTagTab[CHOOSE i \in 1..Len(StdTagTab) : StdTagTab[i][1] = vr][2]

(* other standard tags used by the structure sweep and the header sweep *)
OtherTab == <<
  <<"UL", <<0, 0>>>>,          \* (0000,0000) Command Group Length
  <<"CS", <<8, 5>>>>,          \* (0008,0005) Specific Character Set
  <<"SH", <<8, 80>>>>,         \* (0008,0050) Accession Number
  <<"SQ", <<8, 4373>>>>,       \* (0008,1115) Referenced Series Sequence
  <<"SQ", <<8, 4416>>>>,       \* (0008,1140) Referenced Image Sequence
  <<"LO", <<16, 32>>>>,        \* (0010,0020) Patient ID
  <<"US", <<40, 16>>>>,        \* (0028,0010) Rows
  <<"US", <<40, 17>>>>,        \* (0028,0011) Columns
  <<"SQ", <<64, 629>>>>,       \* (0040,0275) Request Attributes Sequence
  <<"SQ", <<136, 512>>>>,      \* (0088,0200) Icon Image Sequence
  <<"OW", <<32736, 16>>>> >>   \* (7FE0,0010) Pixel Data: OW in Implicit VR (PS3.5 A.1)

(* the dictionary as the <<tag, vr>> list PS35!DictVR expects *)
Dict == [i \in 1..Len(StdTagTab) |-> <<StdTagTab[i][2], StdTagTab[i][1]>>]
        \o [i \in 1..Len(OtherTab) |-> <<OtherTab[i][2], OtherTab[i][1]>>]
=============================================================================
