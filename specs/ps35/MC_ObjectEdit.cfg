CONSTANT WSweep = "tiny"
SPECIFICATION ESpec
INVARIANT Accounting
INVARIANT NeverKept
INVARIANT Balanced
INVARIANT FullInvalidationIsSafe
INVARIANT DefaultSafeWithoutPixel
INVARIANT InvalidOnlyIfStaleWritten
INVARIANT EmitEdit
CHECK_DEADLOCK TRUE
