CONSTANT WSweep = "struct"
SPECIFICATION Spec
INVARIANT Accounting
INVARIANT NeverKept
INVARIANT Balanced
INVARIANT OutIsWire
INVARIANT OutIsValid
INVARIANT KeptOnlyAfterPixel
CHECK_DEADLOCK TRUE
