SPECIFICATION Spec
INVARIANT RoundTrip
INVARIANT ShortForm
INVARIANT Emit
CHECK_DEADLOCK FALSE
