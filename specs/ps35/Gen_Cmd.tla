------------------------------- MODULE Gen_Cmd -------------------------------
(***************************************************************************)
(* C31 case generator: command element sets over VRs UI, US, UL, AE, LO, AT *)
(* with text value lengths {0,1,2,3,max}, multiplicity 1..3, 1..6 elements; *)
(* each case carries the expected Command Group Length and the expected     *)
(* Implicit VR LE bytes (CommandSet!GroupLength / CommandWire).  Each       *)
(* element also carries a declared header length (exact, 0, value + 3, 16,  *)
(* undefined) that the driver realises with DataElement::new_with_len; the  *)
(* expectation depends on the values only.                                  *)
(***************************************************************************)
EXTENDS CommandSet, Json, FiniteSets

(* slots: standard command attributes (PS3.7 E.1) *)
Slots == << [tag |-> <<0, 1>>,    vr |-> "UL"],   \* (0000,0001) Command Length to End (retired)
            [tag |-> <<0, 2>>,    vr |-> "UI"],   \* (0000,0002) Affected SOP Class UID
            [tag |-> <<0, 256>>,  vr |-> "US"],   \* (0000,0100) Command Field
            [tag |-> <<0, 1536>>, vr |-> "AE"],   \* (0000,0600) Move Destination
            [tag |-> <<0, 2305>>, vr |-> "AT"],   \* (0000,0901) Offending Element
            [tag |-> <<0, 2306>>, vr |-> "LO"],   \* (0000,0902) Error Comment
            [tag |-> <<0, 4096>>, vr |-> "UI"] >> \* (0000,1000) Affected SOP Instance UID

(* a text value of exactly n characters valid for the VR *)
Text(vr, n) == IF vr = "UI" THEN [i \in 1..n |-> IF i % 2 = 1 \/ i = n THEN 49 + (i % 9) ELSE 46]
               ELSE [i \in 1..n |-> 65 + (i % 26)]
MaxLen(vr) == IF vr = "AE" THEN 16 ELSE 64
TextLens(vr) == <<0, 1, 2, 3, MaxLen(vr)>>
Num(vr, j) == CASE vr = "US" -> <<j, 255 - j>>
                [] vr = "UL" -> <<255, j, 0, 255 - j>>
                [] vr = "AT" -> <<0, j, 16, 255 - j>>
(* option o of a slot: 15 options for text (multiplicity x length), 3 for binary *)
NOpts(vr) == IF vr \in TextVR THEN 15 ELSE 3
Value(vr, o) ==
    IF vr \in TextVR
    THEN LET m == (o % 3) + 1
             n == TextLens(vr)[(o \div 3) + 1]
         IN (* keep the whole multi-valued UI within reason; every item has length n *)
            [k \in 1..m |-> Text(vr, n)]
    ELSE [k \in 1..((o % 3) + 1) |-> Num(vr, k)]

(* the length DECLARED in the element header handed to the constructor (DataElement::new_with_len): *)
(* it may disagree with the value; the group length is about the bytes actually written            *)
Decls == <<"exact", "zero", "plus", "pad16", "undef">>
DeclLen(d, vr, v) == CASE d = "exact" -> Len(ValueRaw("IVRLE", vr, v))
                       [] d = "zero"  -> 0
                       [] d = "plus"  -> Len(ValueRaw("IVRLE", vr, v)) + 3
                       [] d = "pad16" -> 16
                       [] d = "undef" -> -1

Subsets == {S \in SUBSET (1..Len(Slots)) : Cardinality(S) \in 1..6}
RECURSIVE Pick(_, _, _)
Pick(S, j, i) == IF i > Len(Slots) THEN <<>>
                 ELSE IF i \in S
                 THEN LET v == Value(Slots[i].vr, (j + 4 * i) % NOpts(Slots[i].vr))
                          d == Decls[((j + 2 * i) % 5) + 1]
                      IN << [tag |-> Slots[i].tag, vr |-> Slots[i].vr, v |-> v,
                             decl |-> d, dlen |-> DeclLen(d, Slots[i].vr, v),
                             form |-> IF Slots[i].vr \in TextVR /\ Len(v) = 1 /\ (j + i) % 2 = 0 THEN "str" ELSE "plain"] >>
                           \o Pick(S, j, i + 1)
                 ELSE Pick(S, j, i + 1)

(* parity family: every text element is one single string (built as PrimitiveValue::Str, whose *)
(* in-memory length is the raw, possibly odd, character count); bit (rank of the text slot)    *)
(* of the mask j decides odd or even length, so the number of odd-length values ranges over    *)
(* 0 .. all for every element set                                                             *)
OddLens(vr) == IF vr = "AE" THEN <<1, 3, 5, 15>> ELSE <<1, 3, 5, 63>>
EvenLens(vr) == IF vr = "AE" THEN <<2, 4, 6, 16>> ELSE <<2, 4, 6, 64>>
TextRank(i) == Cardinality({k \in 1..i : Slots[k].vr \in TextVR})        \* 1..4 for the text slots
RECURSIVE PickParity(_, _, _)
PickParity(S, j, i) ==
    IF i > Len(Slots) THEN <<>>
    ELSE IF i \in S
    THEN LET vr == Slots[i].vr
             r == TextRank(i)
             odd == (j \div (2 ^ (r - 1))) % 2 = 1
             v == IF vr \in TextVR
                  THEN << Text(vr, IF odd THEN OddLens(vr)[((j + i) % 4) + 1] ELSE EvenLens(vr)[((j + i) % 4) + 1]) >>
                  ELSE << Num(vr, 1) >>
         IN << [tag |-> Slots[i].tag, vr |-> vr, v |-> v, decl |-> "exact", dlen |-> DeclLen("exact", vr, v),
                form |-> IF vr \in TextVR THEN "str" ELSE "plain"] >> \o PickParity(S, j, i + 1)
    ELSE PickParity(S, j, i + 1)

VARIABLES S, j, fam
Init == /\ fam \in {"diag", "parity"}
        /\ S \in Subsets /\ (fam = "parity" => Cardinality(S) >= 2)
        /\ j \in 0..(IF fam = "parity" THEN 15 ELSE 14)
Next == UNCHANGED <<S, j, fam>>
Spec == Init /\ [][Next]_<<S, j, fam>>

elems == IF fam = "parity" THEN PickParity(S, j, 1) ELSE Pick(S, j, 1)
(* the reference is self-consistent: the written set parses and its group length is its size - 12 *)
RefConsistent == LET w == CommandWire(elems) IN SelfConsistent(w) /\ Len(w) = 12 + GroupLength(elems)
Emit == PrintT(<<"CASE", ToJson([kind |-> "cmd", elems |-> elems, gl |-> GroupLength(elems),
                                 bytes |-> CommandWire(elems)])>>)
=============================================================================
