------------------------------ MODULE ObjectEdit ------------------------------
(***************************************************************************)
(* Growth beyond the listed properties: writing an object that was READ     *)
(* with explicit (recorded) lengths and then EDITED in memory.              *)
(*                                                                         *)
(* object/src/tokens.rs + parser/src/dataset/mod.rs forward the recorded    *)
(* element/item lengths in the start tokens unless they were invalidated;   *)
(* the writer machine of DataSetWriter.tla (reused unchanged: this module   *)
(* EXTENDS it and only supplies another initial state) then writes them     *)
(* under strategy "K" (NoChange), and under "U" for an item that follows a   *)
(* pixel sequence.  Which recorded lengths an edit invalidates depends on   *)
(* the API used (object/src/mem.rs, core/src/header.rs):                    *)
(*                                                                         *)
(*   "apply"  InMemDicomObject::apply(AttributeOp) with a nested selector:  *)
(*            every sequence on the path (items_mut) and the object holding *)
(*            the leaf attribute are reset; items passed on the way are not *)
(*   "at"     update_value_at(selector, f): every sequence on the path is   *)
(*            reset, no item is (only the root object)                      *)
(*   "chain"  nested update_value(tag, |v| v.items_mut()[i]. ...) closures  *)
(*            ending in put / remove_element: everything on the path reset  *)
(*                                                                         *)
(* The tree is the annotated data set of PS35!Annot (len = recorded byte    *)
(* count, -1 undefined).  A recorded length that no longer equals the       *)
(* content is simply kept as the old number (stale).                        *)
(*                                                                         *)
(* TLC checks, for every base shape x transfer syntax x edit x position x    *)
(* API x strategy:                                                          *)
(*   Accounting, Balanced            (as in DataSetWriter)                  *)
(*   FullInvalidationIsSafe          api = "chain" => output valid           *)
(*   DefaultSafeWithoutPixel         strategy "U" and no pixel sequence      *)
(*                                   before the edited item => output valid *)
(*   InvalidOnlyIfStaleWritten       an invalid output implies a stale       *)
(*                                   recorded item length was written        *)
(* and prints every run (edit, predicted bytes, predicted validity) for the  *)
(* conformance driver, which applies the same edit through the real API.     *)
(***************************************************************************)
EXTENDS DataSetWriter

VARIABLE meta       \* the edit case (constant during a run)

---------------------------------------------------------------------------
(* tokens of an annotated tree: recorded lengths are forwarded as they are *)
RECURSIVE TokensRec(_)
RecLen(n) == IF n.lm = "U" THEN Undef4 ELSE U32(n.len)
ItemTokensRec(it) ==
    << [t |-> "ItemStart", len |-> RecLen(it), pix |-> FALSE] >> \o TokensRec(it.ds) \o << [t |-> "ItemEnd"] >>
ElemTokensRec(e) ==
    CASE e.k = "P" -> << [t |-> "Header", tag |-> e.tag, vr |-> e.vr], [t |-> "Value", v |-> e.v] >>
      [] e.k = "S" -> << [t |-> "SeqStart", tag |-> e.tag, len |-> RecLen(e)] >>
                        \o Flat([q \in 1..Len(e.items) |-> ItemTokensRec(e.items[q])])
                        \o << [t |-> "SeqEnd"] >>
      [] e.k = "X" -> ElemTokens(e, "EVRLE")          \* fragments carry their own sizes
TokensRec(d) == Flat([q \in 1..Len(d) |-> ElemTokensRec(d[q])])

---------------------------------------------------------------------------
(* base objects: two nested levels below the root, every length mode; and   *)
(* the same below an item that follows a pixel sequence                     *)
NewC == [k |-> "P", tag |-> <<40, 17>>, vr |-> "US", v |-> << <<3, 4>> >>]        \* (0028,0011) Columns
LongC == [k |-> "P", tag |-> TagC, vr |-> "US", v |-> << <<1, 2>>, <<3, 4>> >>]
Inner(m2, i2) == <<SQ(TagB, m2, <<It(i2, <<ElC>>)>>), ElC>>
Bases ==
    {[ds |-> <<SQ(TagB, m1, <<It(i1, Inner(m2, i2))>>), ElC>>,
      pos |-> << <<>>, << <<TagB, 1>> >>, << <<TagB, 1>>, <<TagB, 1>> >> >>,
      pix |-> FALSE] : m1 \in Modes, i1 \in Modes, m2 \in Modes, i2 \in Modes}
    \cup
    {[ds |-> <<ElC, SQ(TagIcon, "E", <<It("E", <<x>>), It(im2, Inner(m2, i2))>>)>>,
      pos |-> << <<>>, << <<TagIcon, 2>> >>, << <<TagIcon, 2>>, <<TagB, 1>> >> >>,
      pix |-> TRUE] : im2 \in Modes, m2 \in Modes, i2 \in Modes, x \in {CHOOSE y \in PixSmall : TRUE}}

(* edits of the object at position p (1 root, 2 depth 1, 3 depth 2):            *)
(*   "set-new" add (0028,0011); "set-longer" give (0028,0010) two values;       *)
(*   "remove" remove (0028,0010); on the sequence (0008,1115) held by the object *)
(*   at p in {1,2}: "add-item" append an item holding (0028,0010), "truncate"    *)
(*   remove all its items                                                        *)
EditCases ==
    [b : Bases, p : 1..3, edit : {"set-new", "set-longer", "remove"}, api : {"apply", "chain"}]
      \cup [b : Bases, p : 1..3, edit : {"set-longer"}, api : {"at"}]
      \cup {c \in [b : Bases, p : 1..2, edit : {"add-item", "truncate"}, api : {"apply", "chain"}] :
               c.b.pix => c.p = 2}

IndexOf(d, tag) == CHOOSE q \in 1..Len(d) : d[q].tag = tag
RECURSIVE SortedInsert(_, _)
SortedInsert(d, e) == IF Len(d) = 0 THEN <<e>>
                      ELSE IF TagLt(e.tag, d[1].tag) THEN <<e>> \o d
                      ELSE <<d[1]>> \o SortedInsert(Tail(d), e)
RemoveTag(d, tag) == SelectSeq(d, LAMBDA e : e.tag # tag)

(* the edit on the object d that holds the attribute *)
LeafEdit(d, c) ==
    CASE c.edit = "set-new"    -> SortedInsert(d, NewC)
      [] c.edit = "set-longer" -> [d EXCEPT ![IndexOf(d, TagC)] = LongC]
      [] c.edit = "remove"     -> RemoveTag(d, TagC)
      [] c.edit = "add-item"   -> LET q == IndexOf(d, TagB) IN
                                  [d EXCEPT ![q] = [@ EXCEPT !.lm = "U", !.len = -1,
                                                             !.items = Append(@, [lm |-> "U", len |-> -1, ds |-> <<ElC>>])]]
      [] c.edit = "truncate"   -> LET q == IndexOf(d, TagB) IN
                                  [d EXCEPT ![q] = [@ EXCEPT !.lm = "U", !.len = -1, !.items = <<>>]]
(* does the API reset the recorded length of an item on the path?  last = the item is *)
(* the object holding the edited attribute                                            *)
ItemReset(c, last) ==
    CASE c.api = "chain" -> TRUE
      [] c.api = "at"    -> FALSE
      [] c.api = "apply" -> last /\ c.edit # "add-item"   \* the new item is reached through items_mut of an object passed on the way
RECURSIVE EditTree(_, _, _)
EditTree(d, hops, c) ==
    IF Len(hops) = 0 THEN LeafEdit(d, c)
    ELSE LET h == hops[1]
             q == IndexOf(d, h[1])
             it == d[q].items[h[2]]
             reset == ItemReset(c, Len(hops) = 1)
             nit == [lm |-> IF reset THEN "U" ELSE it.lm, len |-> IF reset THEN -1 ELSE it.len,
                     ds |-> EditTree(it.ds, Tail(hops), c)]
         IN [d EXCEPT ![q] = [@ EXCEPT !.lm = "U", !.len = -1, !.items = [@ EXCEPT ![h[2]] = nit]]]

Edited(c, t) == EditTree(Annot(c.b.ds, t), c.b.pos[c.p], c)

---------------------------------------------------------------------------
evars == <<vars, meta>>
EInit == /\ meta \in EditCases /\ ts \in TSs /\ strat \in {"U", "K"}
         /\ ds = Edited(meta, ts)
         /\ toks = TokensRec(ds)
         /\ i = 1 /\ stack = <<>> /\ lastDe = NoDe /\ out = <<>> /\ written = 0 /\ kept = FALSE
ENext == Next /\ UNCHANGED meta
ESpec == EInit /\ [][ENext]_evars

(* an item of the edited tree whose recorded length is not its content's size *)
RECURSIVE HasStale(_, _)
HasStale(d, t) == \E j \in 1..Len(d) :
                    d[j].k = "S" /\ \E n \in 1..Len(d[j].items) :
                        LET it == d[j].items[n] IN
                        \/ (it.lm = "E" /\ it.len # Len(Wire(it.ds, t, "K")))
                        \/ HasStale(it.ds, t)
OutValid == LET p == Parse(out, ts, Dict)
            IN p.ok /\ StripLm(p.ds) = StripLm(RawTree(ds, ts, "K", Dict))

FullInvalidationIsSafe == (Done /\ meta.api = "chain") => OutValid
DefaultSafeWithoutPixel == (Done /\ strat = "U" /\ ~meta.b.pix) => OutValid
InvalidOnlyIfStaleWritten == (Done /\ ~OutValid) => (HasStale(ds, ts) /\ (strat = "K" \/ kept))

EmitEdit == Done => PrintT(<<"CASE", ToJson([kind |-> "edit", ts |-> ts, strat |-> strat,
                                             base |-> Annot(meta.b.ds, ts), wire |-> Wire(meta.b.ds, ts, "K"),
                                             hops |-> meta.b.pos[meta.p], edit |-> meta.edit, api |-> meta.api,
                                             pix |-> meta.b.pix, after |-> ds, out |-> out, valid |-> OutValid,
                                             stale |-> HasStale(ds, ts), rb |-> Norm(ds, ts, Dict)])>>)
=============================================================================
