CONSTANT Sweep = "struct3"
SPECIFICATION Spec
INVARIANT Premise
INVARIANT Emit
CHECK_DEADLOCK FALSE
