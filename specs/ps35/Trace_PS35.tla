----------------------------- MODULE Trace_PS35 -----------------------------
(***************************************************************************)
(* Trace validator for C01 / C04 (code -> spec).  Every event is one        *)
(* observation of dicom-rs, judged with the PS3.5 operators of PS35.tla:    *)
(*                                                                         *)
(*  stream  a byte stream dicom-rs wrote for data set ds: the independent   *)
(*          parser accepts it (lengths even and exact, delimiters, ...) and *)
(*          its content is exactly ds, value fields padded with the         *)
(*          VR-specific byte (length modes are free)                        *)
(*  rt      a seeded random data set: writing succeeded, stream as above,   *)
(*          and the read-back equals Norm(ds)                               *)
(*  prim    Encode::encode_primitive: reported count = bytes written =      *)
(*          Len(ValueRaw), bytes = ValueRaw; calculate_byte_len agrees      *)
(*  elem    StatefulEncoder::encode_primitive_element: bytes_written =      *)
(*          bytes written, bytes = ElementBytes (header, value, padding)    *)
(*  file    FileDicomObject::write_all: preamble, DICM, meta group in       *)
(*          Explicit VR LE with exact group length, then the data set       *)
(***************************************************************************)
EXTENDS PS35, PS35Dict, Json, IOUtils

Rec == ndJsonDeserialize(IOEnv.TRACE)
VARIABLE l
R == Rec[l]

StreamOK(b, ts, ds) ==
    LET p == Parse(b, ts, Dict)
    IN p.ok /\ StripLm(p.ds) = StripLm(RawTree(ds, ts, "K", Dict))

(* Transfer Syntax UID values (PS3.5 Annex A / PS3.6), as written in (0002,0010) *)
UidBase == <<49, 46, 50, 46, 56, 52, 48, 46, 49, 48, 48, 48, 56, 46, 49, 46, 50>>   \* 1.2.840.10008.1.2
UidOf(ts) == CASE ts = "IVRLE" -> UidBase
               [] ts = "EVRLE" -> UidBase \o <<46, 49>>
               [] ts = "EVRBE" -> UidBase \o <<46, 50>>
               [] ts = "DEFL"  -> UidBase \o <<46, 49, 46, 57, 57>>

FileOK(b, ts, realTs, ds) ==
    /\ Len(b) >= 144
    /\ SubSeq(b, 129, 132) = <<68, 73, 67, 77>>                    \* DICM after a 128-byte preamble
    /\ SubSeq(b, 133, 140) = <<2, 0, 0, 0, 85, 76, 4, 0>>          \* (0002,0000) UL length 4
    /\ LET g4 == <<b[144], b[143], b[142], b[141]>> IN
       /\ IsInt4(g4)
       /\ LET gl == ToInt4(g4) IN
          /\ 144 + gl <= Len(b)
          /\ LET m == Parse(SubSeq(b, 145, 144 + gl), "EVRLE", <<>>) IN
             /\ m.ok
             /\ \A i \in 1..Len(m.ds) : m.ds[i].k = "P" /\ m.ds[i].tag[1] = 2
             /\ \E i \in 1..Len(m.ds) : /\ m.ds[i].tag = <<2, 16>> /\ m.ds[i].vr = "UI"
                                        /\ m.ds[i].val = Padded("UI", UidOf(realTs))
          /\ StreamOK(SubSeq(b, 145 + gl, Len(b)), ts, ds)

TInit == l = 1 /\ TLCSet(1, 1)
Ev(e) == l <= Len(Rec) /\ R.ev = e /\ l' = l + 1

TStream == Ev("stream") /\ StreamOK(R.bytes, R.ts, R.ds)

TRt == /\ Ev("rt")
       /\ R.write = "ok"                                 \* writing never fails and never panics
       /\ StreamOK(R.bytes, R.ts, R.ds)
       /\ "ok" \in DOMAIN R.rb
       /\ R.rb.ok = Norm(R.ds, R.ts, Dict)

TPrim == /\ Ev("prim")
         /\ R.res = "ok"
         /\ LET raw == ValueRaw(R.ts, R.vr, R.v) IN
            /\ R.bytes = raw
            /\ R.written = Len(raw)
            /\ R.reported = R.written
            /\ EvenUp(R.calclen) = EvenUp(Len(raw))

TElem == /\ Ev("elem")
         /\ R.res = "ok"
         /\ R.bytes = ElementBytes(R.ts, R.tag, R.vr, R.v)
         /\ R.written = Len(R.bytes)
         /\ R.counted = R.written

TFile == /\ Ev("file")
         /\ R.res = "ok"
         /\ FileOK(R.bytes, R.ts, R.real_ts, R.ds)

TNext == TStream \/ TRt \/ TPrim \/ TElem \/ TFile
TSpec == TInit /\ [][TNext]_l

Track == TLCSet(1, IF l > TLCGet(1) THEN l ELSE TLCGet(1))
Accepted == IF TLCGet(1) = Len(Rec) + 1 THEN TRUE
            ELSE Print(<<"REJECTED", TLCGet(1), ToJson(Rec[TLCGet(1)])>>, FALSE)
=============================================================================
