------------------------------- MODULE Gen_DS -------------------------------
(***************************************************************************)
(* Case generator for C01 / C02 / C04: abstract data sets (premise: WfDs,   *)
(* values valid for their VR, default repertoire) crossed with the three    *)
(* uncompressed transfer syntaxes.  Each case carries the data set, the     *)
(* exact PS3.5 byte stream for both writer strategies (PS35!Wire) and the   *)
(* expected read-back (PS35!Norm).  TLC also checks for every case that the *)
(* independent parser inverts the reference encoder (ParseInvertsWire).     *)
(*                                                                         *)
(*   Sweep = "vr"      every VR x multiplicity 0..3 x odd/even items x      *)
(*                     {standard tag, private tag}                          *)
(*   Sweep = "struct"  nesting depth <= 2 exhaustively over the shape       *)
(*                     grammar below + depth-3 chains, explicit/undefined   *)
(*                     length modes at every level, empty sequences/items,  *)
(*                     element before/after a sequence, two sequences,      *)
(*                     encapsulated pixel data (top level and nested)       *)
(*   Sweep = "struct3" thorough: depth 3 over the full grammar              *)
(***************************************************************************)
EXTENDS DSGrammar, Json

CONSTANT Sweep

---------------------------------------------------------------------------
VARIABLES ds, ts
vars == <<ds, ts>>
Init == ds \in DataSetsOf(Sweep) /\ ts \in TSs
Next == UNCHANGED vars
Spec == Init /\ [][Next]_vars

(* can the object be built in memory with the recorded length modes?  Only  *)
(* sequences can record an explicit length in memory; items cannot.          *)
RECURSIVE ItemsUndef(_)
ItemsUndef(d) == \A i \in 1..Len(d) :
                   d[i].k = "S" => \A j \in 1..Len(d[i].items) :
                                      d[i].items[j].lm = "U" /\ ItemsUndef(d[i].items[j].ds)

Premise == WfDs(ds)
ParseInvertsWire ==
    \A st \in {"U", "K"} :
       LET w == Wire(ds, ts, st)
           p == Parse(w, ts, Dict)
       IN /\ Even(Len(w))
          /\ p.ok
          /\ p.ds = RawTree(ds, ts, st, Dict)
NormStable == StripLm(RawTree(ds, ts, "U", Dict)) = StripLm(RawTree(ds, ts, "K", Dict))

Emit == PrintT(<<"CASE", ToJson([kind |-> "ds", sweep |-> Sweep, ts |-> ts, ds |-> Annot(ds, ts),
                                 allu |-> AllUndef(ds), mem |-> ItemsUndef(ds),
                                 wireU |-> Wire(ds, ts, "U"), wireK |-> Wire(ds, ts, "K"),
                                 rb |-> Norm(ds, ts, Dict)])>>)
=============================================================================
