------------------------------ MODULE DSGrammar ------------------------------
(***************************************************************************)
(* The abstract data sets the generators and the writer model range over    *)
(* (premise of C01/C02/C04: well-formed, values valid for their VR, default *)
(* repertoire, ascending unique tags).                                      *)
(*                                                                         *)
(*   "vr"      every VR x multiplicity 0..3 x odd/even items x              *)
(*             {standard tag, private tag}; typed DA/TM/DT values at every  *)
(*             precision shape (x zone for DT), multiplicity 1..3 mixed;    *)
(*             ISO_IR 100 / ISO_IR 192 text with odd/even non-ASCII counts  *)
(*   "struct"  nesting depth <= 2 exhaustively over the shape grammar below *)
(*             + depth-3 chains, explicit/undefined length modes at every   *)
(*             level, empty sequences/items, element before/after a         *)
(*             sequence, two sequences, encapsulated pixel data (top level  *)
(*             and nested, empty/non-empty offset table, empty fragment);   *)
(*             an element of every VR inside explicit/undefined-length      *)
(*             items and sequences at depth 1 and 2                         *)
(*   "struct3" thorough: depth 3 over the full grammar                      *)
(*   "small"   subset of "struct" for model checking the writer machine     *)
(*   "tiny"    a few shapes touching every writer action (coverage run)     *)
(***************************************************************************)
EXTENDS PS35, PS35Dict

---------------------------------------------------------------------------
(* values valid for each VR: <<even-length item, odd-length item>> (text) or *)
(* <<low, high>> (binary, MSB first); one item where the VR has a fixed size *)
ItemsOf(vr) ==
  CASE vr = "AE" -> << <<65, 66>>, <<65, 66, 67>> >>                                  \* AB  ABC
    [] vr = "AS" -> << <<48, 52, 53, 89>> >>                                          \* 045Y
    [] vr = "CS" -> << <<65, 66>>, <<65, 66, 67>> >>
    [] vr = "DA" -> << <<50, 48, 50, 48, 48, 50, 50, 57>> >>                          \* 20200229
    [] vr = "DS" -> << <<49, 46, 50, 53>>, <<49, 46, 53>> >>                          \* 1.25  1.5
    [] vr = "DT" -> << <<50, 48, 50, 48, 48, 50, 50, 57, 49, 51>>,                    \* 2020022913
                       <<50, 48, 50, 48, 48, 50, 50, 57, 49, 51, 49, 52, 49, 53, 46, 50, 53>> >>  \* 20200229131415.25
    [] vr = "IS" -> << <<49, 50>>, <<45, 49, 50>> >>                                  \* 12  -12
    [] vr = "LO" -> << <<65, 66>>, <<65, 32, 66>> >>                                  \* AB  "A B"
    [] vr = "PN" -> << <<68, 111, 101, 94, 74, 111, 104, 110>>, <<68, 111, 101, 94, 74, 111, 110>> >>  \* Doe^John Doe^Jon
    [] vr = "SH" -> << <<65, 66>>, <<65, 66, 67>> >>
    [] vr = "TM" -> << <<49, 51, 49, 52>>, <<49, 51, 49, 52, 49, 53, 46, 50, 53>> >>  \* 1314  131415.25
    [] vr = "UI" -> << <<49, 46, 50, 50>>, <<49, 46, 50, 46, 51>> >>                  \* 1.22  1.2.3
    [] vr = "UC" -> << <<65, 66>>, <<65, 66, 67>> >>
    [] vr \in {"LT", "ST", "UT"} -> << <<65, 66>>, <<65, 92, 66>> >>                  \* AB  A\B (one value)
    [] vr = "UR" -> << <<97, 58, 98, 99>>, <<97, 58, 98>> >>                          \* a:bc  a:b
    [] vr \in {"US", "OW"} -> << <<1, 2>>, <<255, 254>> >>
    [] vr = "SS" -> << <<0, 1>>, <<255, 254>> >>
    [] vr \in {"UL", "OL"} -> << <<1, 2, 3, 4>>, <<255, 254, 253, 252>> >>
    [] vr = "SL" -> << <<0, 0, 0, 1>>, <<255, 254, 253, 252>> >>
    [] vr \in {"FL", "OF"} -> << <<63, 192, 0, 0>>, <<192, 73, 15, 219>> >>           \* 1.5  -3.1415927
    [] vr \in {"FD", "OD"} -> << <<63, 248, 0, 0, 0, 0, 0, 0>>, <<192, 9, 33, 251, 84, 68, 45, 24>> >>
    [] vr \in {"UV", "OV", "SV"} -> << <<1, 2, 3, 4, 5, 6, 7, 8>>, <<255, 254, 253, 252, 251, 250, 249, 248>> >>
    [] vr = "AT" -> << <<0, 8, 0, 5>>, <<127, 224, 0, 16>> >>
    [] vr \in {"OB", "UN"} -> << <<1>>, <<254>> >>

ToSet(s) == {s[i] : i \in 1..Len(s)}
Tuples(S, n) == [1..n -> S]
ValuesOf(vr) ==
  LET I == ToSet(ItemsOf(vr)) IN
  IF vr \in TextSingle THEN {<<>>} \cup {<<i>> : i \in I}
  ELSE UNION {Tuples(I, n) : n \in 0..3}
         \cup (IF vr \in TextMulti THEN { <<<<>>>>, << <<>>, ItemsOf(vr)[1] >>, << ItemsOf(vr)[1], <<>> >> } ELSE {})

PrivTag(vr) == <<9, 4096 + (CHOOSE i \in 1..Len(VRTab) : VRTab[i][1] = vr)>>
VRCasesOf(vr) == { << [k |-> "P", tag |-> t, vr |-> vr, v |-> v] >> :
                     t \in {StdTag(vr), PrivTag(vr)}, v \in ValuesOf(vr) }
VRCases == UNION {VRCasesOf(vr) : vr \in VRs \ {"SQ"}}

---------------------------------------------------------------------------
(* structure grammar *)
TagA == <<8, 80>>       \* (0008,0050) SH
TagB == <<8, 4373>>     \* (0008,1115) SQ
TagC == <<40, 16>>      \* (0028,0010) US
TagD == <<64, 629>>     \* (0040,0275) SQ
TagIcon == <<136, 512>> \* (0088,0200) SQ
ElA == [k |-> "P", tag |-> TagA, vr |-> "SH", v |-> << <<65, 66, 67>> >>]   \* odd-length text
ElC == [k |-> "P", tag |-> TagC, vr |-> "US", v |-> << <<1, 2>> >>]
Leaf == {<<>>, <<ElC>>, <<ElA, ElC>>}
Modes == {"U", "E"}
SQ(tag, lm, items) == [k |-> "S", tag |-> tag, lm |-> lm, items |-> items]
It(lm, ds) == [lm |-> lm, ds |-> ds]
Second == {It("U", <<>>), It("E", <<ElC>>)}

(* sequence variants: empty; one item with content from C; two items *)
SeqVars(tag, C, C2) ==
    {SQ(tag, m, <<>>) : m \in Modes}
      \cup {SQ(tag, m, <<It(im, c)>>) : m \in Modes, im \in Modes, c \in C}
      \cup {SQ(tag, m, <<It(im, c), j>>) : m \in Modes, im \in Modes, c \in C2, j \in Second}
(* contents made of one sequence, alone or followed by an element *)
With(V) == {<<s>> : s \in V} \cup {<<s, ElC>> : s \in V}
Ctx4(V) == With(V) \cup {<<ElA, s>> : s \in V} \cup {<<ElA, s, ElC>> : s \in V}

V1 == SeqVars(TagB, Leaf, Leaf)
C1 == Leaf \cup With(V1)
V2 == SeqVars(TagB, C1, Leaf)
C2 == Leaf \cup With(V2)
V3 == SeqVars(TagB, C2, Leaf)
(* depth-3 chains for the quick tier: all 64 length-mode combinations *)
V1s(tag) == {SQ(tag, m, <<>>) : m \in Modes}
              \cup {SQ(tag, m, <<It(im, c)>>) : m \in Modes, im \in Modes, c \in {<<>>, <<ElC>>}}
Chain2 == {SQ(TagB, m, <<It(im, <<s>>)>>) : m \in Modes, im \in Modes, s \in V1s(TagB)}
Chain3 == {SQ(TagB, m, <<It(im, <<s>>)>>) : m \in Modes, im \in Modes, s \in Chain2}
TwoSeq == {<<b, d>> : b \in V1s(TagB), d \in V1s(TagD)}

(* encapsulated pixel data *)
F4 == <<1, 2, 3, 4>>
F2 == <<9, 8>>
PixVars == {[k |-> "X", tag |-> PixelDataTag, bot |-> bot, frags |-> fr] :
               bot \in {<<>>, <<Zero4>>, <<Zero4, U32(12)>>},
               fr \in {<<>>, <<F4>>, <<F4, F2>>, <<F4, <<>>, F2>>}}
PixSmall == {[k |-> "X", tag |-> PixelDataTag, bot |-> bot, frags |-> <<F4, F2>>] : bot \in {<<>>, <<Zero4, U32(12)>>}}
PixCases == {<<x>> : x \in PixVars} \cup {<<ElC, x>> : x \in PixVars}
              \cup {<<SQ(TagIcon, m, <<It(im, <<ElC, x>>)>>)>> : m \in Modes, im \in Modes, x \in PixSmall}
              \cup {<<SQ(TagIcon, m, <<It(im, <<x>>), It(im2, <<ElC>>)>>), x>> :
                       m \in Modes, im \in Modes, im2 \in Modes, x \in PixSmall}
              \cup {<<SQ(TagIcon, m, <<It(im, <<x>>), It(im2, <<SQ(TagB, m2, <<It(m2, <<ElC>>)>>), ElC>>)>>)>> :
                       m \in Modes, im \in Modes, im2 \in Modes, m2 \in Modes, x \in PixSmall}

---------------------------------------------------------------------------
(* typed in-memory dates and times: every precision shape (PS35!TypedText gives  *)
(* the text; the driver builds DicomDate / DicomTime / DicomDateTime from parts) *)
NoT == [h |-> -1, mi |-> -1, s |-> -1, f |-> <<>>]
Part(y, mo, d, t, tz) == [y |-> y, mo |-> mo, d |-> d, h |-> t.h, mi |-> t.mi, s |-> t.s, f |-> t.f, tz |-> tz]
DateShapes == << [y |-> 2018, mo |-> -1, d |-> -1], [y |-> 2018, mo |-> 12, d |-> -1], [y |-> 2018, mo |-> 12, d |-> 24] >>
Frac == <<2, 5, 0, 7, 1, 9>>
TimeShapes == << [h |-> 13, mi |-> -1, s |-> -1, f |-> <<>>], [h |-> 13, mi |-> 4, s |-> -1, f |-> <<>>],
                 [h |-> 13, mi |-> 4, s |-> 59, f |-> <<>>] >>
                \o [k \in 1..6 |-> [h |-> 13, mi |-> 4, s |-> 59, f |-> SubSeq(Frac, 1, k)]]
Zones == << <<>>, <<43, 1, 0>>, <<45, 5, 30>> >>           \* none, +0100, -0530
DAParts == [i \in 1..3 |-> Part(DateShapes[i].y, DateShapes[i].mo, DateShapes[i].d, NoT, <<>>)]
TMParts == [i \in 1..9 |-> Part(-1, -1, -1, TimeShapes[i], <<>>)]
(* date-time: each date precision without time, the full date with each time precision; x each zone *)
DTBase == [i \in 1..3 |-> [dt |-> DateShapes[i], t |-> NoT]] \o [i \in 1..9 |-> [dt |-> DateShapes[3], t |-> TimeShapes[i]]]
DTParts == Flat([z \in 1..3 |-> [i \in 1..12 |-> Part(DTBase[i].dt.y, DTBase[i].dt.mo, DTBase[i].dt.d, DTBase[i].t, Zones[z])]])
PartsOf(vr) == CASE vr = "DA" -> DAParts [] vr = "TM" -> TMParts [] vr = "DT" -> DTParts
(* multiplicity 1, 2, 3: every shape alone, with its successor, and with its two successors (mixed shapes) *)
TypedValues(vr) == LET P == PartsOf(vr)
                       n == Len(P)
                       At(i) == P[((i - 1) % n) + 1]
                   IN {<<At(i)>> : i \in 1..n} \cup {<<At(i), At(i + 5)>> : i \in 1..n}
                        \cup {<<At(i), At(i + 1), At(i + 7)>> : i \in 1..n}
TypedElem(vr, ps) == [k |-> "P", tag |-> StdTag(vr), vr |-> vr, typed |-> ps,
                      v |-> [i \in 1..Len(ps) |-> TypedText(vr, ps[i])]]
TypedCasesOf(vr) == { <<TypedElem(vr, ps)>> : ps \in TypedValues(vr) }
                      \cup { <<TypedElem(vr, ps), [k |-> "P", tag |-> StdTag("US"), vr |-> "US", v |-> << <<1, 2>> >>]>> :
                               ps \in {<<PartsOf(vr)[i]>> : i \in 1..Len(PartsOf(vr))} }
TypedCases == UNION {TypedCasesOf(vr) : vr \in {"DA", "TM", "DT"}}

(* non-default character repertoires: (0008,0005) + one text element (as code    *)
(* points) + a following element; odd/even numbers of non-ASCII characters       *)
Words == << <<196, 110, 101, 97, 115>>,        \* "Äneas"   5 chars, 1 non-ASCII
            <<103, 114, 246, 223, 101, 114>>,  \* "größer"  6 chars, 2 non-ASCII
            <<77, 252, 108, 108>>,             \* "Müll"    4 chars, 1 non-ASCII
            <<228, 246, 252>>,                 \* "äöü"     3 chars, 3 non-ASCII
            <<65, 66, 67>> >>                  \* "ABC"
CsElem(cs) == [k |-> "P", tag |-> <<8, 5>>, vr |-> "CS", v |-> <<CsCode(cs)>>]
CpElem(vr, cs, cps) == [k |-> "P", tag |-> StdTag(vr), vr |-> vr, cs |-> cs, cp |-> cps,
                        v |-> [i \in 1..Len(cps) |-> EncText(cs, cps[i])]]
After == [k |-> "P", tag |-> StdTag("US"), vr |-> "US", v |-> << <<1, 2>> >>]
CpValues(vr) == {<<Words[i]>> : i \in 1..Len(Words)}
                  \cup (IF vr \in TextMulti THEN {<<Words[1], Words[3]>>, <<Words[3], Words[2], Words[4]>>} ELSE {})
CharsetCases ==
    UNION { { <<CsElem(cs), CpElem(vr, cs, w), After>> : w \in CpValues(vr) } :
              cs \in {"ISO_IR 100", "ISO_IR 192"}, vr \in {"PN", "LO", "SH", "LT", "ST", "UT"} }
      \cup { <<CsElem(cs), SQ(TagB, m, <<It(m, <<CpElem(vr, cs, <<Words[1]>>), After>>)>>), ElC>> :
                cs \in {"ISO_IR 100", "ISO_IR 192"}, vr \in {"PN", "LT"}, m \in Modes }

(* an element of every VR inside explicit/undefined-length items and sequences, depth 1 and 2, *)
(* followed by further elements (reading must stay aligned with the recorded lengths)         *)
NestValue(vr) == LET I == ItemsOf(vr) IN
                 IF vr \in TextSingle THEN <<I[Len(I)]>> ELSE IF Len(I) = 1 THEN <<I[1], I[1]>> ELSE <<I[1], I[2], I[1]>>
NestElem(vr) == [k |-> "P", tag |-> StdTag(vr), vr |-> vr, v |-> NestValue(vr)]
VRNestCases ==
    UNION { { <<SQ(TagB, m, <<It(im, <<NestElem(vr)>>)>>), ElC>> : m \in Modes, im \in Modes }
              \cup { <<SQ(TagB, m, <<It(m, <<SQ(TagB, im, <<It(im, <<ElC, NestElem(vr)>>), It(im, <<ElC>>)>>), NestElem(vr)>>)>>), ElC>> :
                        m \in Modes, im \in Modes } : vr \in VRs \ {"SQ"} }

StructCases == Ctx4(V2) \cup With(Chain3) \cup TwoSeq \cup PixCases \cup VRNestCases
Struct3Cases == Ctx4(V3)

(* a smaller structural set for model checking the writer machine *)
StructSmall == With(V1) \cup With(Chain3) \cup TwoSeq \cup PixCases

StructTiny == With(V1s(TagB)) \cup {<<x>> : x \in PixSmall}
                \cup {<<SQ(TagIcon, "E", <<It("E", <<x>>), It("E", <<ElC>>)>>), x>> : x \in PixSmall}

DataSetsOf(sweep) == CASE sweep = "vr" -> VRCases \cup TypedCases \cup CharsetCases
                       [] sweep = "struct" -> StructCases
                       [] sweep = "struct3" -> Struct3Cases
                       [] sweep = "small" -> StructSmall
                       [] sweep = "tiny" -> StructTiny

=============================================================================
