------------------------------- MODULE Gen_Hdr -------------------------------
(***************************************************************************)
(* C03 case generator: every VR x transfer syntax x boundary length x       *)
(* boundary tag, plus item and delimiter headers, each with the bytes       *)
(* PS3.5 7.1/7.5 prescribe (PS35!HeaderBytes) and the result an independent *)
(* decoder must report (PS35!DecodeHeader).  TLC also checks, per case,      *)
(* that the reference decoder inverts the reference encoder.                *)
(***************************************************************************)
EXTENDS PS35, PS35Dict, Json

Lens == { <<0, 0, 0, 0>>, <<0, 0, 0, 1>>, <<0, 0, 0, 2>>, <<0, 0, 255, 254>>, <<0, 0, 255, 255>>,
          <<0, 1, 0, 0>>, <<255, 255, 255, 254>>, Undef4, <<128, 0, 0, 0>>, <<0, 0, 1, 0>> }
BoundaryTags == { <<0, 0>>, <<8, 5>>, PixelDataTag, <<65535, 65535>>, <<9, 4097>>, <<32737, 4112>> }

VARIABLE c
HdrCases == [kind : {"hdr"}, ts : TSs, vr : VRs, len : Lens, tag : BoundaryTags]
              \cup {[kind |-> "hdr", ts |-> ts, vr |-> vr, len |-> l, tag |-> StdTag(vr)] :
                       ts \in TSs, vr \in VRs, l \in Lens}
ItemCases == [kind : {"item"}, ts : TSs, len : Lens]
               \cup [kind : {"itemdelim", "seqdelim"}, ts : TSs]
Init == c \in HdrCases \cup ItemCases
Next == UNCHANGED c
Spec == Init /\ [][Next]_c

Out(x) ==
  CASE x.kind = "hdr" ->
         IF HeaderFits(x.ts, x.vr, x.len)
         THEN LET b == HeaderBytes(x.ts, x.tag, x.vr, x.len)
                  d == DecodeHeader(b, x.ts, Dict)
              IN [kind |-> "hdr", ts |-> x.ts, vr |-> x.vr, len |-> x.len, tag |-> x.tag, fits |-> TRUE,
                  bytes |-> b, n |-> HeaderLen(x.ts, x.vr),
                  dtag |-> d[1], dvr |-> d[2], dlen |-> d[3], dn |-> d[4]]
         ELSE [kind |-> "hdr", ts |-> x.ts, vr |-> x.vr, len |-> x.len, tag |-> x.tag, fits |-> FALSE]
    [] x.kind = "item" -> [kind |-> "item", ts |-> x.ts, len |-> x.len, bytes |-> ItemHeader(x.ts, x.len)]
    [] x.kind = "itemdelim" -> [kind |-> "itemdelim", ts |-> x.ts, bytes |-> ItemDelim(x.ts)]
    [] x.kind = "seqdelim" -> [kind |-> "seqdelim", ts |-> x.ts, bytes |-> SeqDelim(x.ts)]

(* model-level obligations on the reference itself *)
RoundTrip ==
  c.kind = "hdr" /\ HeaderFits(c.ts, c.vr, c.len) =>
    LET b == HeaderBytes(c.ts, c.tag, c.vr, c.len)
        d == DecodeHeader(b, c.ts, Dict)
    IN /\ Len(b) = HeaderLen(c.ts, c.vr)
       /\ d[1] = c.tag /\ d[3] = c.len /\ d[4] = Len(b)
       /\ d[2] = IF IsExplicit(c.ts) THEN c.vr ELSE DictVR(Dict, c.tag)
(* the 16-bit form is used exactly for ShortVR and never truncates *)
ShortForm ==
  c.kind = "hdr" /\ IsExplicit(c.ts) =>
    /\ (HeaderLen(c.ts, c.vr) = 8) = (c.vr \in ShortVR)
    /\ (c.vr \in ShortVR /\ ~Fits16(c.len)) => ~HeaderFits(c.ts, c.vr, c.len)
    /\ Cardinality(ShortVR) = 21 /\ Cardinality(VRs) = 34 /\ Cardinality(VRCodes) = 34

Emit == PrintT(<<"CASE", ToJson(Out(c))>>)
=============================================================================
