------------------------------ MODULE Trace_Dump ------------------------------
(***************************************************************************)
(* Growth beyond the listed properties: dicom_dump as a consumer of the     *)
(* objects of the generators (DSGrammar).  Event "dump": the driver dumped  *)
(* the object built from ds and projected the output to an outline:         *)
(*   text   one entry <<indent, tag>> per line of the text format           *)
(*   json   the tree of attribute tags of the DICOM JSON format             *)
(*   same   every other option combination (width, no_text_limit, no_limit, *)
(*          dump_element directly) gave the same text outline               *)
(* Two judgements, both computed by TLC from ds:                            *)
(*   PropertyLevel  every element exactly once, in data set order, deeper   *)
(*                  nesting levels indented further; JSON has the same tree *)
(*   ModelLevel     the outline is exactly the one of dump/src/lib.rs       *)
(*                  (dump, dump_element, dump_item): element at depth d is   *)
(*                  indented 2d, items of its sequence 2(d+2), their content *)
(*                  depth d+3; offset table and fragment lines of a pixel    *)
(*                  sequence are indented 2 whatever the depth               *)
(* The event also says which of the two failed first (field "level" chosen  *)
(* by the driver: the trace is validated once per level).                   *)
(***************************************************************************)
EXTENDS PS35, Json, IOUtils

Rec == ndJsonDeserialize(IOEnv.TRACE)
VARIABLE l
R == Rec[l]

RECURSIVE TextOutline(_, _), PreTags(_), PreLevels(_, _), JsonOutline(_)
ItemOutline(it, d) == << <<2 * (d + 2), ItemTag>> >> \o TextOutline(it.ds, d + 3) \o << <<2 * (d + 2), ItemDelimTag>> >>
ElemOutline(e, d) ==
    CASE e.k = "P" -> << <<2 * d, e.tag>> >>
      [] e.k = "S" -> << <<2 * d, e.tag>> >> \o Flat([j \in 1..Len(e.items) |-> ItemOutline(e.items[j], d)])
                        \o << <<2 * d, SeqDelimTag>> >>
      [] e.k = "X" -> << <<2 * d, e.tag>>, <<2, ItemTag>> >> \o [j \in 1..Len(e.frags) |-> <<2, ItemTag>>]
TextOutline(ds, d) == Flat([j \in 1..Len(ds) |-> ElemOutline(ds[j], d)])

PreTags(ds) == Flat([j \in 1..Len(ds) |->
                 IF ds[j].k = "S" THEN <<ds[j].tag>> \o Flat([n \in 1..Len(ds[j].items) |-> PreTags(ds[j].items[n].ds)])
                 ELSE <<ds[j].tag>>])
PreLevels(ds, lv) == Flat([j \in 1..Len(ds) |->
                 IF ds[j].k = "S" THEN <<lv>> \o Flat([n \in 1..Len(ds[j].items) |-> PreLevels(ds[j].items[n].ds, lv + 1)])
                 ELSE <<lv>>])
JsonOutline(ds) == [j \in 1..Len(ds) |->
                      [tag |-> ds[j].tag,
                       items |-> IF ds[j].k = "S" THEN [n \in 1..Len(ds[j].items) |-> JsonOutline(ds[j].items[n].ds)] ELSE <<>>]]

ElemLines(o) == SelectSeq(o, LAMBDA x : x[2][1] # 65534)
PropertyLevel(r) ==
    LET el == ElemLines(r.text)
        lv == PreLevels(r.ds, 0)
    IN /\ [j \in 1..Len(el) |-> el[j][2]] = PreTags(r.ds)
       /\ \A a \in 1..Len(el), b \in 1..Len(el) : lv[a] < lv[b] => el[a][1] < el[b][1]
       /\ r.jsonok /\ r.json = JsonOutline(r.ds)
ModelLevel(r) == r.text = TextOutline(r.ds, 0) /\ r.same

TInit == l = 1 /\ TLCSet(1, 1)
TDump == /\ l <= Len(Rec) /\ R.ev = "dump" /\ l' = l + 1
         /\ R.res = "ok"
         /\ IF R.level = "property" THEN PropertyLevel(R) ELSE ModelLevel(R)
TSpec == TInit /\ [][TDump]_l

Track == TLCSet(1, IF l > TLCGet(1) THEN l ELSE TLCGet(1))
Accepted == IF TLCGet(1) = Len(Rec) + 1 THEN TRUE
            ELSE Print(<<"REJECTED", TLCGet(1), ToJson(Rec[TLCGet(1)])>>, FALSE)
=============================================================================
