------------------------------ MODULE CommandSet ------------------------------
(***************************************************************************)
(* C31.  A command set (PS3.7 6.3, 9.3 / E.1) is the group-0000 data set    *)
(* encoded in Implicit VR Little Endian.  Command Group Length (0000,0000)  *)
(* UL holds the number of bytes from the end of its own value field to the  *)
(* end of the command set, i.e. the sum of the encoded sizes of the other   *)
(* group-0000 elements.  Everything is defined with the PS3.5 operators.    *)
(*   elems: sequence of [tag, vr, v] (primitive, ascending unique tags,     *)
(*          group 0000, element # 0000)                                     *)
(***************************************************************************)
EXTENDS PS35

GroupLengthTag == <<0, 0>>
RECURSIVE SumLen(_)
SumLen(elems) == IF Len(elems) = 0 THEN 0
                 ELSE Len(ElementBytes("IVRLE", elems[1].tag, elems[1].vr, elems[1].v)) + SumLen(Tail(elems))
GroupLength(elems) == SumLen(elems)
CommandWire(elems) ==
    ElementBytes("IVRLE", GroupLengthTag, "UL", << U32(GroupLength(elems)) >>)
      \o Flat([i \in 1..Len(elems) |-> ElementBytes("IVRLE", elems[i].tag, elems[i].vr, elems[i].v)])
(* self-consistency of a written command set: parse it back *)
SelfConsistent(b) ==
    LET p == Parse(b, "IVRLE", <<>>) IN
    /\ p.ok /\ Len(p.ds) >= 1
    /\ p.ds[1].tag = GroupLengthTag /\ Len(p.ds[1].val) = 4
    /\ LET v == p.ds[1].val IN IsInt4(<<v[4], v[3], v[2], v[1]>>) /\ ToInt4(<<v[4], v[3], v[2], v[1]>>) = Len(b) - 12
=============================================================================
