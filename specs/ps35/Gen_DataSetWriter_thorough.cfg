CONSTANT WSweep = "struct"
SPECIFICATION Spec
INVARIANT Accounting
INVARIANT NeverKept
INVARIANT Balanced
INVARIANT OutIsWire
INVARIANT OutIsValid
INVARIANT KeptOnlyAfterPixel
INVARIANT EmitRun
CHECK_DEADLOCK TRUE
