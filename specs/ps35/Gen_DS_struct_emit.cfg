CONSTANT Sweep = "struct"
SPECIFICATION Spec
INVARIANT Premise
INVARIANT Emit
CHECK_DEADLOCK FALSE
