------------------------------ MODULE Trace_Cmd ------------------------------
(***************************************************************************)
(* C31 trace validator: seeded random command element sets built with       *)
(* InMemDicomObject::command_from_element_iter.  Event "cmd":               *)
(*   elems   abstract elements handed to the constructor (group 0000)       *)
(*   gl      value of (0000,0000) in the built object (two 16-bit halves)   *)
(*   bytes   the command set written in Implicit VR Little Endian           *)
(* accepted iff gl = CommandSet!GroupLength(elems), the bytes are the       *)
(* PS3.5 encoding and the written set is self-consistent.                   *)
(***************************************************************************)
EXTENDS CommandSet, Json, IOUtils

Rec == ndJsonDeserialize(IOEnv.TRACE)
VARIABLE l
R == Rec[l]

TInit == l = 1 /\ TLCSet(1, 1)
TCmd == /\ l <= Len(Rec) /\ R.ev = "cmd" /\ l' = l + 1
        /\ R.res = "ok"
        /\ R.gl_hi = 0 /\ R.gl_lo + 0 = GroupLength(R.elems)      \* sets here stay below 65 536 bytes
        /\ Len(R.bytes) = 12 + GroupLength(R.elems)
        /\ R.bytes = CommandWire(R.elems)
        /\ SelfConsistent(R.bytes)
TSpec == TInit /\ [][TCmd]_l

Track == TLCSet(1, IF l > TLCGet(1) THEN l ELSE TLCGet(1))
Accepted == IF TLCGet(1) = Len(Rec) + 1 THEN TRUE
            ELSE Print(<<"REJECTED", TLCGet(1), ToJson(Rec[TLCGet(1)])>>, FALSE)
=============================================================================
