---------------------------- MODULE DataSetWriter ----------------------------
(***************************************************************************)
(* Implementation-shaped model of the token writer                          *)
(*   parser/src/dataset/write.rs  DataSetWriter::write / write_impl         *)
(* fed with the token stream of an object                                   *)
(*   object/src/tokens.rs, parser/src/dataset/mod.rs  DataElementTokens,    *)
(*   ItemTokens, ItemValueTokens, OffsetTableItemTokens                     *)
(* (recorded sequence/item lengths are forwarded in the start tokens), on   *)
(* top of the byte-count accounting of parser/src/stateful/encode.rs.       *)
(*                                                                         *)
(* One action per token kind.  The sequence stack remembers whether the     *)
(* start was written with undefined length; the matching end token emits a  *)
(* delimiter iff it was.  Element headers are deferred until the value.      *)
(* Under strategy "U" an item start keeps its recorded length while the      *)
(* last saved header is an encapsulated pixel data header (the code's way   *)
(* of telling fragments from data set items); the saved header is dropped   *)
(* at the sequence end (fix 'forget the pixel data header at the end of its *)
(* sequence'; before it, a data set item following a pixel sequence kept a  *)
(* recorded explicit length that strategy "U" had made stale).  The flag    *)
(* `kept` records an explicit data set item length surviving strategy "U";  *)
(* NeverKept states it cannot happen any more.                              *)
(*                                                                         *)
(* Checked by TLC against the PS3.5 reference (PS35!Wire / Parse):          *)
(*   Accounting   bytes_written = Len(out) after every token                *)
(*   Balanced     the stack is empty exactly at the end                     *)
(*   OutIsWire    at the end out = Wire(ds, ts, strategy) unless `kept`     *)
(*   OutIsValid   at the end out parses and its content is ds (property     *)
(*                level of C04: holds in every case)                        *)
(***************************************************************************)
EXTENDS DSGrammar, Json

CONSTANT WSweep

(* ---- the object's token stream (lengths as 4-byte tuples, MSB first) ---- *)
RECURSIVE Tokens(_, _)
ItemTokens(it, ts) ==
    << [t |-> "ItemStart", len |-> IF it.lm = "U" THEN Undef4 ELSE U32(Len(Wire(it.ds, ts, "K"))), pix |-> FALSE] >>
      \o Tokens(it.ds, ts) \o << [t |-> "ItemEnd"] >>
FragTokens(f) ==
    << [t |-> "ItemStart", len |-> U32(Len(f)), pix |-> TRUE] >>
      \o (IF Len(f) = 0 THEN <<>> ELSE << [t |-> "ItemValue", data |-> f] >>)
      \o << [t |-> "ItemEnd"] >>
ElemTokens(e, ts) ==
    CASE e.k = "P" -> << [t |-> "Header", tag |-> e.tag, vr |-> e.vr], [t |-> "Value", v |-> e.v] >>
      [] e.k = "S" ->
           << [t |-> "SeqStart", tag |-> e.tag,
               len |-> IF e.lm = "U" THEN Undef4
                       ELSE U32(Len(Flat([i \in 1..Len(e.items) |-> ItemWire(e.items[i], ts, "K")])))] >>
             \o Flat([i \in 1..Len(e.items) |-> ItemTokens(e.items[i], ts)])
             \o << [t |-> "SeqEnd"] >>
      [] e.k = "X" ->
           << [t |-> "PixStart"], [t |-> "ItemStart", len |-> U32(4 * Len(e.bot)), pix |-> TRUE] >>
             \o (IF Len(e.bot) = 0 THEN <<>> ELSE << [t |-> "OffsetTable", bot |-> e.bot] >>)
             \o << [t |-> "ItemEnd"] >>
             \o Flat([i \in 1..Len(e.frags) |-> FragTokens(e.frags[i])])
             \o << [t |-> "SeqEnd"] >>
Tokens(ds, ts) == Flat([i \in 1..Len(ds) |-> ElemTokens(ds[i], ts)])

---------------------------------------------------------------------------
VARIABLES ds, ts, strat,      \* the case (chosen in Init)
          toks,               \* the object's token stream (constant during a run)
          i,                  \* next token
          stack,              \* seq_tokens: <<[typ, undef]>>
          lastDe,             \* last_de: [set, pix, tag, vr]
          out,                \* bytes written
          written,            \* StatefulEncoder::bytes_written
          kept                \* an explicit data set item length survived strategy "U"
vars == <<ds, ts, strat, toks, i, stack, lastDe, out, written, kept>>

NoDe == [set |-> FALSE, pix |-> FALSE, tag |-> <<0, 0>>, vr |-> "UN"]
EvenLen4(l4) == IF l4 = Undef4 \/ Even(l4[4]) THEN l4 ELSE U32(ToInt4(l4) + 1)

Init == /\ ds \in DataSetsOf(WSweep) /\ ts \in TSs /\ strat \in {"U", "K"}
        /\ toks = Tokens(ds, ts)
        /\ i = 1 /\ stack = <<>> /\ lastDe = NoDe /\ out = <<>> /\ written = 0 /\ kept = FALSE

Tok == toks[i]
Is(k) == i <= Len(toks) /\ Tok.t = k
Emit(bytes, counted) == out' = out \o bytes /\ written' = written + counted
Push(typ, undef) == stack' = Append(stack, [typ |-> typ, undef |-> undef])
Pop == stack' = SubSeq(stack, 1, Len(stack) - 1)
Top == stack[Len(stack)]

WSeqStart ==
    /\ Is("SeqStart")
    /\ LET l4 == IF strat = "U" THEN Undef4 ELSE Tok.len IN
       /\ Push("Seq", l4 = Undef4)
       /\ Emit(HeaderBytes(ts, Tok.tag, "SQ", EvenLen4(l4)), HeaderLen(ts, "SQ"))
    /\ i' = i + 1 /\ UNCHANGED <<ds, ts, strat, toks, lastDe, kept>>

WItemStart ==
    /\ Is("ItemStart")
    /\ LET l4 == IF strat = "U" /\ ~(lastDe.set /\ lastDe.pix) THEN Undef4 ELSE Tok.len IN
       /\ Push("Item", l4 = Undef4)
       /\ Emit(ItemHeader(ts, EvenLen4(l4)), 8)
       /\ kept' = (kept \/ (strat = "U" /\ ~Tok.pix /\ l4 # Undef4))
    /\ i' = i + 1 /\ UNCHANGED <<ds, ts, strat, toks, lastDe>>

WItemEnd ==
    /\ Is("ItemEnd")
    /\ IF Len(stack) > 0
       THEN /\ Pop
            /\ IF Top.typ = "Item" /\ Top.undef THEN Emit(ItemDelim(ts), 8) ELSE UNCHANGED <<out, written>>
       ELSE UNCHANGED <<stack, out, written>>
    /\ i' = i + 1 /\ UNCHANGED <<ds, ts, strat, toks, lastDe, kept>>

WSeqEnd ==
    /\ Is("SeqEnd")
    /\ lastDe' = NoDe          \* the end of a sequence ends an encapsulated pixel data element too
    /\ IF Len(stack) > 0
       THEN /\ Pop
            /\ IF Top.typ = "Seq" /\ Top.undef THEN Emit(SeqDelim(ts), 8) ELSE UNCHANGED <<out, written>>
       ELSE UNCHANGED <<stack, out, written>>
    /\ i' = i + 1 /\ UNCHANGED <<ds, ts, strat, toks, kept>>

WHeader ==
    /\ Is("Header")
    /\ lastDe' = [set |-> TRUE, pix |-> FALSE, tag |-> Tok.tag, vr |-> Tok.vr]   \* deferred
    /\ i' = i + 1 /\ UNCHANGED <<ds, ts, strat, toks, stack, out, written, kept>>

WPixStart ==
    /\ Is("PixStart")
    /\ lastDe' = [set |-> TRUE, pix |-> TRUE, tag |-> PixelDataTag, vr |-> "OB"]
    /\ Push("Seq", TRUE)
    /\ Emit(HeaderBytes(ts, PixelDataTag, "OB", Undef4), HeaderLen(ts, "OB"))
    /\ i' = i + 1 /\ UNCHANGED <<ds, ts, strat, toks, kept>>

WValue ==
    /\ Is("Value")
    /\ lastDe.set                                     \* otherwise UnexpectedToken
    /\ LET vb == ValueBytes(ts, lastDe.vr, Tok.v) IN
       Emit(HeaderBytes(ts, lastDe.tag, lastDe.vr, U32(Len(vb))) \o vb, HeaderLen(ts, lastDe.vr) + Len(vb))
    /\ lastDe' = NoDe
    /\ i' = i + 1 /\ UNCHANGED <<ds, ts, strat, toks, stack, kept>>

WOffsetTable ==
    /\ Is("OffsetTable")
    /\ Emit(Flat([j \in 1..Len(Tok.bot) |-> Ord(ts, Tok.bot[j])]), 4 * Len(Tok.bot))
    /\ i' = i + 1 /\ UNCHANGED <<ds, ts, strat, toks, stack, lastDe, kept>>

WItemValue ==
    /\ Is("ItemValue")
    /\ LET p == IF Even(Len(Tok.data)) THEN Tok.data ELSE Tok.data \o <<0>> IN Emit(p, Len(p))
    /\ i' = i + 1 /\ UNCHANGED <<ds, ts, strat, toks, stack, lastDe, kept>>

Finished == i = Len(toks) + 1 /\ UNCHANGED vars
Next == WSeqStart \/ WItemStart \/ WItemEnd \/ WSeqEnd \/ WHeader \/ WPixStart \/ WValue
          \/ WOffsetTable \/ WItemValue \/ Finished
Spec == Init /\ [][Next]_vars

Done == i = Len(toks) + 1
Accounting == written = Len(out)
Balanced == Done => Len(stack) = 0
OutIsWire == (Done /\ ~kept) => out = Wire(ds, ts, strat)
OutIsValid == Done => LET p == Parse(out, ts, Dict)
                      IN p.ok /\ StripLm(p.ds) = StripLm(RawTree(ds, ts, "K", Dict))
(* the writer deviates from Wire only in the documented situation *)
NeverKept == ~kept
KeptOnlyAfterPixel == kept => \E j \in 1..(i - 1) : toks[j].t = "PixStart"

(* generator: each finished run as a case for the real DataSetWriter *)
EmitRun == Done => PrintT(<<"CASE", ToJson([kind |-> "tokens", ts |-> ts, strat |-> strat, toks |-> toks,
                                            out |-> out, kept |-> kept, ds |-> ds])>>)
=============================================================================
