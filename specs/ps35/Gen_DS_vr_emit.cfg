CONSTANT Sweep = "vr"
SPECIFICATION Spec
INVARIANT Premise
INVARIANT Emit
CHECK_DEADLOCK FALSE
