SPECIFICATION Spec
INVARIANT RefConsistent
INVARIANT Emit
CHECK_DEADLOCK FALSE
