CONSTANT Sweep = "vr"
SPECIFICATION Spec
INVARIANT Premise
INVARIANT ParseInvertsWire
INVARIANT NormStable
INVARIANT Emit
CHECK_DEADLOCK FALSE
