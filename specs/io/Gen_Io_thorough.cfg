CONSTANT Offsets = "sampled" Shapes = {"large"}
SPECIFICATION Spec
CHECK_DEADLOCK FALSE
