CONSTANTS Kind = "direct" Total = 6 Trailer = 2 BufCap = 3 MaxChunk = 4 NoFail = 99
SPECIFICATION Spec
INVARIANTS ReportedOrComplete NoSpuriousError
CHECK_DEADLOCK FALSE
