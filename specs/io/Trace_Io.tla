------------------------------- MODULE Trace_Io -------------------------------
(***************************************************************************)
(* Property-level trace validator for C34.  One case = one public I/O      *)
(* operation of dicom-rs run over an instrumented sink (writes) or source  *)
(* (reads) with an injected failure.  Events:                              *)
(*   case    {dir: "w"|"r", pipe, total}   total = bytes of the fault-free *)
(*                                         run (what a complete output is) *)
(*   io      {k}        the sink accepted / the source delivered k bytes   *)
(*   iofail  {kind}     the sink/source returned a failure to its caller   *)
(*                      ("error", or "zero" = Ok(0) for a non-empty write) *)
(*   ret     {res}      the public operation returned "ok" | "err"         *)
(*                      ("panic" has no matching action: never acceptable) *)
(*   end     {}         the operation's objects have been dropped          *)
(* A case that violates the property is not a dead end: its case line is     *)
(* appended to `bad`, so one run reports every violating case.  A trace with *)
(* a malformed event structure is still REJECTED (tool error).               *)
(* The property: res = "ok" only if no failure was returned to the         *)
(* operation and, for writes, the sink holds the complete output once      *)
(* everything is dropped (so an error swallowed in a destructor counts).   *)
(***************************************************************************)
EXTENDS Naturals, Sequences, TLC, Json, IOUtils

Rec == ndJsonDeserialize(IOEnv.TRACE)

VARIABLES l, dir, total, moved, failed, res, phase,
          cl,    \* line of the current case event
          bad    \* lines of the case events whose case violates the property (all are reported)
tvars == <<l, dir, total, moved, failed, res, phase, cl, bad>>
(* at most 3 violating cases are listed per operation (cases of one operation are consecutive) *)
SamePipe(i) == Rec[bad[i]].pipe = Rec[cl].pipe
NSame == IF Len(bad) >= 3 /\ SamePipe(Len(bad)) /\ SamePipe(Len(bad) - 1) /\ SamePipe(Len(bad) - 2) THEN 3 ELSE 0
Mark(ok) == bad' = IF ok \/ (bad # <<>> /\ bad[Len(bad)] = cl) \/ NSame = 3 \/ Len(bad) >= 2000 THEN bad ELSE Append(bad, cl)

TInit == l = 1 /\ dir = "w" /\ total = 0 /\ moved = 0 /\ failed = FALSE /\ res = "none"
         /\ phase = "idle" /\ cl = 0 /\ bad = <<>> /\ TLCSet(1, 1) /\ TLCSet(2, <<>>)

Ev(e) == l <= Len(Rec) /\ Rec[l].ev = e /\ l' = l + 1
R == Rec[l]

TCase == /\ Ev("case") /\ dir' = R.dir /\ total' = R.total
         /\ moved' = 0 /\ failed' = FALSE /\ res' = "none" /\ phase' = "run"
         /\ cl' = l /\ UNCHANGED bad

TIo == /\ Ev("io") /\ phase \in {"run", "ret"}
       /\ moved' = moved + R.k
       /\ UNCHANGED <<dir, total, failed, res, phase, cl, bad>>

TIoFail == /\ Ev("iofail") /\ phase \in {"run", "ret"}
           /\ failed' = TRUE
           /\ UNCHANGED <<dir, total, moved, res, phase, cl, bad>>

(* the public operation returned: success is not acceptable after a failure *)
TRet == /\ Ev("ret") /\ phase = "run"
        /\ Mark(R.res \in {"ok", "err"} /\ ((R.res = "ok") => ~failed))
        /\ res' = R.res /\ phase' = "ret"
        /\ UNCHANGED <<dir, total, moved, failed, cl>>

(* everything dropped: a reported success must have produced complete output *)
TEnd == /\ Ev("end") /\ phase = "ret"
        /\ Mark((res = "ok") => (~failed /\ (dir = "w" => moved = total)))
        /\ phase' = "idle"
        /\ UNCHANGED <<dir, total, moved, failed, res, cl>>

TNext == TCase \/ TIo \/ TIoFail \/ TRet \/ TEnd
TSpec == TInit /\ [][TNext]_tvars

Track == /\ TLCSet(1, IF l > TLCGet(1) THEN l ELSE TLCGet(1))
         /\ (l = Len(Rec) + 1 => TLCSet(2, bad))
Accepted == IF TLCGet(1) = Len(Rec) + 1
            THEN PrintT(<<"BADCASES", ToJson(TLCGet(2))>>)
            ELSE Print(<<"REJECTED", TLCGet(1), ToJson(Rec[TLCGet(1)])>>, FALSE)
=============================================================================
