CONSTANT Offsets = "all" Shapes = {"small", "nested", "pixel", "encaps"}
SPECIFICATION Spec
CHECK_DEADLOCK FALSE
