CONSTANT Offsets = "all" Shapes = {"small", "nested", "pixel"}
SPECIFICATION Spec
CHECK_DEADLOCK FALSE
