CONSTANT Offsets = "all"
SPECIFICATION Spec
CHECK_DEADLOCK FALSE
