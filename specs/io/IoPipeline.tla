----------------------------- MODULE IoPipeline -----------------------------
(***************************************************************************)
(* C34: I/O failures are always reported.                                  *)
(*                                                                         *)
(* A public write operation is a producer (token writer, PDU encoder,      *)
(* P-DATA writer) that pushes bytes through an optional buffering adapter  *)
(* (BufWriter, deflate encoder) into a sink that fails once FailAt bytes   *)
(* have been accepted.  The model is implementation-shaped: Kind selects   *)
(* how the operation treats its adapter before returning:                  *)
(*   "direct"           no adapter, every write goes to the sink           *)
(*   "buffered_flush"   adapter flushed (errors seen) before returning     *)
(*   "buffered_noflush" adapter never flushed by the operation; whatever   *)
(*                      it still holds is written when it is dropped,      *)
(*                      where errors cannot be reported                    *)
(*   "trailer_at_drop"  flushed before returning, but the adapter emits a  *)
(*                      trailer (deflate final block) only when dropped    *)
(* TLC shows that the first two satisfy ReportedOrComplete for every       *)
(* failing offset and every chunking, and produces a counterexample for    *)
(* the last two (a design-level finding: finishing on drop loses errors).  *)
(***************************************************************************)
EXTENDS Naturals, TLC

CONSTANTS Kind, Total, Trailer, BufCap, MaxChunk, NoFail

VARIABLES failAt,     \* sink accepts this many bytes, then fails (NoFail: never)
          produced,   \* bytes the producer has generated
          abuf,       \* bytes held by the adapter
          delivered,  \* bytes accepted by the sink
          sinkFailed, \* the sink returned a failure at least once
          seenErr,    \* a failure was returned to the operation's control flow
          flushed,    \* the operation has flushed its adapter
          phase,      \* "Run" | "Ret" | "Dropped"
          result      \* "none" | "ok" | "err"

vars == <<failAt, produced, abuf, delivered, sinkFailed, seenErr, flushed, phase, result>>

Buffered == Kind # "direct"
Expected == Total + (IF Kind = "trailer_at_drop" THEN Trailer ELSE 0)

Init == /\ failAt \in (0..(Total + Trailer)) \cup {NoFail}
        /\ produced = 0 /\ abuf = 0 /\ delivered = 0 /\ sinkFailed = FALSE /\ seenErr = FALSE
        /\ flushed = FALSE /\ phase = "Run" /\ result = "none"

(* write_all of n bytes into the sink: accepted up to the limit, then failure *)
Room == IF failAt = NoFail THEN Total + Trailer + 1 ELSE failAt - delivered
PushOk(n)   == n <= Room
Pushed(n)   == IF PushOk(n) THEN n ELSE Room

(* the producer writes k more bytes *)
Produce(k) ==
  /\ phase = "Run" /\ ~seenErr /\ ~flushed /\ k \in 1..MaxChunk /\ produced + k <= Total
  /\ produced' = produced + k
  /\ IF ~Buffered
       THEN /\ delivered' = delivered + Pushed(k)
            /\ sinkFailed' = (sinkFailed \/ ~PushOk(k)) /\ seenErr' = ~PushOk(k)
            /\ UNCHANGED abuf
       ELSE IF abuf + k <= BufCap
              THEN abuf' = abuf + k /\ UNCHANGED <<delivered, sinkFailed, seenErr>>
              ELSE \* adapter spills what it holds, keeps the new bytes
                   /\ delivered' = delivered + Pushed(abuf)
                   /\ sinkFailed' = (sinkFailed \/ ~PushOk(abuf)) /\ seenErr' = ~PushOk(abuf)
                   /\ abuf' = IF PushOk(abuf) THEN k ELSE abuf - Pushed(abuf) + k
  /\ UNCHANGED <<failAt, flushed, phase, result>>

(* explicit flush by the operation, once everything was produced *)
Flush ==
  /\ phase = "Run" /\ ~seenErr /\ ~flushed /\ produced = Total
  /\ Kind \in {"buffered_flush", "trailer_at_drop"}
  /\ delivered' = delivered + Pushed(abuf)
  /\ sinkFailed' = (sinkFailed \/ ~PushOk(abuf)) /\ seenErr' = ~PushOk(abuf)
  /\ abuf' = abuf - Pushed(abuf) /\ flushed' = TRUE
  /\ UNCHANGED <<failAt, produced, phase, result>>

(* the public call returns *)
Return ==
  /\ phase = "Run"
  /\ \/ seenErr /\ result' = "err"
     \/ /\ ~seenErr /\ produced = Total
        /\ (Kind \in {"buffered_flush", "trailer_at_drop"} => flushed)
        /\ result' = "ok"
  /\ phase' = "Ret"
  /\ UNCHANGED <<failAt, produced, abuf, delivered, sinkFailed, seenErr, flushed>>

(* the adapter is dropped: it writes what it holds plus its trailer; errors  *)
(* have nowhere to go                                                        *)
Drop ==
  /\ phase = "Ret"
  /\ LET n == abuf + (IF Kind = "trailer_at_drop" /\ ~seenErr THEN Trailer ELSE 0) IN
       /\ delivered' = delivered + Pushed(n)
       /\ sinkFailed' = (sinkFailed \/ ~PushOk(n))
       /\ abuf' = 0
  /\ phase' = "Dropped"
  /\ UNCHANGED <<failAt, produced, seenErr, flushed, result>>

ProduceAny == \E k \in 1..MaxChunk : Produce(k)
Next == ProduceAny \/ Flush \/ Return \/ Drop
Spec == Init /\ [][Next]_vars

(* the property: success is only reported if nothing failed and the sink     *)
(* holds the complete output once the operation's objects are gone           *)
ReportedOrComplete ==
  (phase = "Dropped" /\ result = "ok") => (~sinkFailed /\ delivered = Expected)
(* an error is reported only if something failed *)
NoSpuriousError == (result = "err") => sinkFailed
=============================================================================
