-------------------------------- MODULE Gen_Io --------------------------------
(* Case matrix for C34: which public operation, over which object shape, with *)
(* which failure kind; the failing byte offset ranges over 0..total (the      *)
(* driver learns `total` from a fault-free run and expands "all" / samples).  *)
(* `kind` is the pipeline kind of IoPipeline.tla the operation is expected to *)
(* follow (used only to report drift, never for the verdict).                 *)
EXTENDS Naturals, Sequences, TLC, Json

CONSTANTS Offsets,  \* "all" | "sampled"
          Shapes    \* object shapes: "small", "nested", "pixel" (quick), "large" (thorough, sampled offsets)

TS == {"ivrle", "evrle", "evrbe", "deflated"}
FailKinds == {"error", "zero"}

WriteOps == {"ds", "file_all", "file_ds"}
KindOf(op, ts) ==
  IF ts = "deflated" THEN (IF op = "ds" THEN "buffered_noflush" ELSE "trailer_at_drop")
  ELSE IF op = "ds" THEN "direct" ELSE "buffered_flush"

Cases ==
  { [dir |-> "w", op |-> op, ts |-> ts, shape |-> s, fail |-> f, kind |-> KindOf(op, ts), offsets |-> Offsets]
      : op \in WriteOps, ts \in TS, s \in Shapes, f \in FailKinds }
  \cup { [dir |-> "w", op |-> "meta", ts |-> "evrle", shape |-> s, fail |-> f, kind |-> "direct", offsets |-> Offsets]
      : s \in {"small"}, f \in FailKinds }
  \cup { [dir |-> "w", op |-> "pdu", ts |-> "none", shape |-> s, fail |-> f, kind |-> "direct", offsets |-> Offsets]
      : s \in {"rq", "ac", "rj", "pdata", "relrq", "relrp", "abort"}, f \in FailKinds }
  \cup { [dir |-> "w", op |-> "pdata_writer", ts |-> "none", shape |-> s, fail |-> f, kind |-> "buffered_flush", offsets |-> Offsets]
      : s \in {"one_pdu", "three_pdus"}, f \in FailKinds }
  \cup { [dir |-> "w", op |-> "file_path_devfull", ts |-> ts, shape |-> "small", fail |-> "error", kind |-> "buffered_flush", offsets |-> "none"]
      : ts \in TS }
  \cup { [dir |-> "r", op |-> op, ts |-> ts, shape |-> s, fail |-> "error", kind |-> "direct", offsets |-> Offsets]
      : op \in {"open", "read_ds"}, ts \in TS, s \in Shapes }
  \cup { [dir |-> "r", op |-> op, ts |-> "none", shape |-> s, fail |-> "error", kind |-> "direct", offsets |-> Offsets]
      : op \in {"meta_read"}, s \in {"small"} }
  \cup { [dir |-> "r", op |-> op, ts |-> "none", shape |-> s, fail |-> "error", kind |-> "direct", offsets |-> Offsets]
      : op \in {"rx_pdu", "rx_pdu_async", "pdata_read"}, s \in {"one_pdu", "three_pdus"} }

VARIABLE done
Init == done = FALSE
Next == ~done /\ done' = TRUE /\ \A c \in Cases : PrintT(<<"CASE", ToJson(c)>>)
Spec == Init /\ [][Next]_done
=============================================================================
