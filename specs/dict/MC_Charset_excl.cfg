CONSTANTS Charsets = {"D", "A", "B"} Texts = {"ascii", "tA", "tB"} MaxLen = 4 MaxSwitch = 2
CONSTANT RepIn <- RepExclusive
SPECIFICATION Spec
INVARIANT TypeOK Sync Faithful Strict EndAgree
CHECK_DEADLOCK FALSE
