----------------------------- MODULE Gen_Charset -----------------------------
(* Case generator for C10 part (a): every element sequence the encoder side of *)
(* Charset.tla can attempt (<= MaxLen elements, <= MaxSwitch switches, one     *)
(* nesting level), with the expected outcome and character set after every     *)
(* element computed by Charset!Run.                                            *)
EXTENDS Charset, Json
RepExclusive == [t \in Texts |-> IF t = "ascii" THEN Charsets ELSE IF t = "tA" THEN {"A"} ELSE {"B"}]
RepNested == [t \in Texts |-> IF t = "ascii" THEN Charsets ELSE IF t = "tA" THEN {"A"} ELSE {"A", "B"}]

VARIABLE refused       \* <<>> or <<el>>: the element whose writing was refused
GInit == Init /\ refused = <<>>
GNext == \/ (\/ \E c \in Charsets \cup {Unknown} : WriteScs(c)
             \/ \E el \in TxtEls : WriteText(el)
             \/ WriteOpen \/ WriteClose \/ WriteEnd) /\ UNCHANGED refused
         \/ \E el \in TxtEls : WriteRefused(el) /\ refused' = <<el>>
GSpec == GInit /\ [][GNext]_<<vars, refused>>

Flat(el) == [k |-> el.k,
             to |-> IF el.k = "scs" THEN el.to ELSE "",
             vr |-> IF el.k = "txt" THEN el.vr ELSE "",
             t |-> IF el.k = "txt" THEN el.t ELSE ""]
Els == [j \in 1..Len(wire) |-> wire[j].el] \o refused
Emit == (estate # "run" /\ Len(Els) > 0) =>
          PrintT(<<"CASE", ToJson([rep |-> IF RepIn["tB"] = {"B"} THEN "exclusive" ELSE "nested",
                                   els |-> [j \in 1..Len(Els) |-> Flat(Els[j])],
                                   expect |-> Run(Els, "D", FALSE)])>>)
=============================================================================
