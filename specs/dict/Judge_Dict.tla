----------------------------- MODULE Judge_Dict -----------------------------
(***************************************************************************)
(* Judges the answers recorded from the real dictionaries (drv_dict) with  *)
(* Dict!Lookup over the published table.  Steps first through the rows of  *)
(* the table (row consistency), then through the recorded events; prints   *)
(* one line per FAILING item:                                              *)
(*   <<"CASE", ToJson([line, what, failed, expected])>>                    *)
(* line = row index (what = "row") or event index (what = "event").        *)
(***************************************************************************)
EXTENDS Dict

Rec == ndJsonDeserialize(IOEnv.TRACE)
Table == Tab
SopTab == ndJsonDeserialize(IOEnv.SOPTABLE)
JudgeRows == IOEnv.JUDGEROWS = "1"

NRows == IF JudgeRows THEN Len(Table) ELSE 0
N == NRows + Len(Rec)

VARIABLE i
JInit == i = 0
JNext == i < N /\ i' = i + 1
JSpec == JInit /\ [][JNext]_i

Fail(cond, name) == IF cond THEN {} ELSE {name}

(* ---- table rows -------------------------------------------------------- *)
FailedRow(k) ==
  LET r == Table[k] IN
     Fail(r.dalias = r.alias, "table row: keyword of the published line differs from the entry alias")
\cup Fail(RowShapeOK(r), "table row: tag (range) of the published line, constant and entry disagree")
\cup Fail(DocVr(r.dvr) = r.vr, "table row: VR of the published line differs from the entry VR")
\cup Fail(Kind(r) # "single" \/ k = 1 \/ k > NSingle
          \/ TagLess(Table[k - 1].g, Table[k - 1].e, r.g, r.e),
          "table row: two entries for one tag")

(* ---- by_tag ------------------------------------------------------------ *)
FailedTag(ev) == Fail(Answer(ev) \in Lookup(ev.g, ev.e),
                      "by_tag: rule " \o Rule(ev.g, ev.e) \o " decides, answer is " \o
                      (IF ev.found THEN ev.kind ELSE "none"))

(* ---- by_name: keyword -> an entry with that keyword and the same tag --- *)
(* the row (or generic entry) with keyword q, found through the answer's   *)
(* own tag: the answer must be what the table prescribes for its base tag  *)
(* and must carry the keyword asked for                                    *)
FailedName(ev) ==
  IF ev.q = "GenericGroupLength" THEN Fail(Answer(ev) = GroupLengthEntry, "by_name: generic group length keyword")
  ELSE IF ev.q = "PrivateCreator" THEN Fail(Answer(ev) = PrivateCreatorEntry, "by_name: private creator keyword is not resolved")
  ELSE
     Fail(ev.found /\ ev.alias = ev.q, "by_name: keyword of an entry is not resolved to an entry with that keyword")
\cup Fail(~ev.found \/ (Table[ev.row].alias = ev.q /\ Answer(ev) = RowEntry(Table[ev.row])),
          "by_name: answer is not the table row with that keyword (same tag, VR)")
\cup Fail(~ev.found \/ Answer(ev) \in Lookup(ev.bg, ev.be),
          "by_name: entry found by keyword is not the entry found by its tag")

(* ---- compiled constants: equal to the tag of the entry that names them - *)
FailedConst(ev) ==
  Fail(\E k \in 1..Len(Table) : Table[k].cname = ev.cname /\ Table[k].g = ev.g /\ Table[k].e = ev.e
                               /\ Kind(Table[k]) = ev.kind /\ Table[k].glo = ev.g /\ Table[k].elo = ev.e,
       "tag constant differs from its entry's tag")

(* ---- SOP class dictionary ---------------------------------------------- *)
SopRows == {k \in 1..Len(SopTab) : SopTab[k].block = "SOP_CLASSES"}
SopAnswer(r) == [found |-> TRUE, uid |-> r.uid, alias |-> r.alias, name |-> r.name, retired |-> r.retired, type |-> r.type]
SopNone == [found |-> FALSE, uid |-> "", alias |-> "", name |-> "", retired |-> FALSE, type |-> ""]
SopGot(ev) == [found |-> ev.found, uid |-> ev.uid, alias |-> ev.alias, name |-> ev.name, retired |-> ev.retired, type |-> ev.type]
SopExpected(field, q) ==
  LET hits == {k \in SopRows : IF field = "uid" THEN SopTab[k].uid = q ELSE SopTab[k].alias = q} IN
  IF hits = {} THEN {SopNone} ELSE {SopAnswer(SopTab[k]) : k \in hits}
FailedSop(ev) ==
  LET field == IF ev.ev = "uid" THEN "uid" ELSE "alias"
      isSop == \E k \in SopRows : IF field = "uid" THEN SopTab[k].uid = ev.q ELSE SopTab[k].alias = ev.q IN
  IF isSop
  THEN Fail(SopGot(ev) \in SopExpected(field, ev.q) /\ Cardinality(SopExpected(field, ev.q)) = 1,
            "SOP class dictionary: " \o field \o " does not map to its entry")
  ELSE Fail(~ev.found, "drift SOP class dictionary resolves a UID/keyword that is not in the SOP class table")

FailedEvent(ev) == CASE ev.ev = "tag" -> FailedTag(ev)
                     [] ev.ev = "name" -> FailedName(ev)
                     [] ev.ev = "const" -> FailedConst(ev)
                     [] ev.ev \in {"uid", "kw"} -> FailedSop(ev)
                     [] OTHER -> {"unknown event"}

Failed(j) == IF j <= NRows THEN FailedRow(j) ELSE FailedEvent(Rec[j - NRows])
Expected(j) == IF j > NRows /\ Rec[j - NRows].ev = "tag"
               THEN Lookup(Rec[j - NRows].g, Rec[j - NRows].e) ELSE {}

Emit == (i > 0 /\ Failed(i) # {}) =>
          PrintT(<<"CASE", ToJson([line |-> IF i <= NRows THEN i ELSE i - NRows,
                                   what |-> IF i <= NRows THEN "row" ELSE "event",
                                   failed |-> Failed(i), expected |-> Expected(i)])>>)
=============================================================================
