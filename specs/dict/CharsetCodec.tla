---------------------------- MODULE CharsetCodec ----------------------------
(***************************************************************************)
(* C10 parts (b) and (c): what encoding and decoding of text in one        *)
(* character set has to do.  Text is a sequence of Unicode scalar values,  *)
(* encoded text a sequence of bytes.                                       *)
(*                                                                         *)
(* (b) single-byte sets: the code tables are DATA (ndjson in IOEnv.TABLES, *)
(*     one row per set: cs, cps[], bytes[] -- generated at check time by   *)
(*     python3's own codecs, only pairs that round-trip there, graphic     *)
(*     bytes only).  Enc/Dec are table look-ups.  ISO_IR 192 (UTF-8) is    *)
(*     defined arithmetically (RFC 3629).                                  *)
(* (c) multi-byte table sets (ISO_IR 87, ISO_IR 149, GBK, GB18030): no     *)
(*     byte oracle; only: text of the core repertoire is accepted and      *)
(*     round-trips, clearly foreign characters are refused.                *)
(*                                                                         *)
(* Three classes of text with respect to a set:                            *)
(*   InRep      every character is in the agreed repertoire                *)
(*   Outside    some character is CLEARLY outside (a script that neither   *)
(*              the standard behind the defined term nor the vendor code   *)
(*              page an implementation may use for it contains)            *)
(*   otherwise  grey: nothing is demanded except "no silent substitution"  *)
(***************************************************************************)
EXTENDS Integers, Sequences, FiniteSets, TLC, Json, IOUtils

Tables == ndJsonDeserialize(IOEnv.TABLES)

AllSets == {"ISO_IR 6", "ISO_IR 13", "ISO_IR 87", "ISO_IR 100", "ISO_IR 101", "ISO_IR 109", "ISO_IR 110",
            "ISO_IR 126", "ISO_IR 127", "ISO_IR 138", "ISO_IR 144", "ISO_IR 149", "ISO_IR 166", "ISO_IR 192",
            "GB18030", "GBK"}
TableSets == {Tables[k].cs : k \in 1..Len(Tables)}
RowOf(cs) == CHOOSE k \in 1..Len(Tables) : Tables[k].cs = cs

(* cp -> byte and byte -> cp of every table, built once                    *)
EncMap == [cs \in TableSets |->
             LET r == Tables[RowOf(cs)] IN
             [cp \in {r.cps[j] : j \in 1..Len(r.cps)} |-> r.bytes[CHOOSE j \in 1..Len(r.cps) : r.cps[j] = cp]]]
DecMap == [cs \in TableSets |->
             LET r == Tables[RowOf(cs)] IN
             [b \in {r.bytes[j] : j \in 1..Len(r.bytes)} |-> r.cps[CHOOSE j \in 1..Len(r.bytes) : r.bytes[j] = b]]]
(* the tables are one-to-one                                               *)
TablesOK == \A cs \in TableSets : LET r == Tables[RowOf(cs)] IN
               /\ Len(r.cps) = Len(r.bytes)
               /\ Cardinality(DOMAIN EncMap[cs]) = Len(r.cps)
               /\ Cardinality(DOMAIN DecMap[cs]) = Len(r.cps)

(* ---- UTF-8 (RFC 3629) -------------------------------------------------- *)
IsScalar(cp) == (0 <= cp /\ cp < 55296) \/ (57343 < cp /\ cp <= 1114111)
Utf8Char(cp) ==
    IF cp < 128 THEN <<cp>>
    ELSE IF cp < 2048 THEN <<192 + (cp \div 64), 128 + (cp % 64)>>
    ELSE IF cp < 65536 THEN <<224 + (cp \div 4096), 128 + ((cp \div 64) % 64), 128 + (cp % 64)>>
    ELSE <<240 + (cp \div 262144), 128 + ((cp \div 4096) % 64), 128 + ((cp \div 64) % 64), 128 + (cp % 64)>>
RECURSIVE Utf8Enc(_)
Utf8Enc(cps) == IF cps = <<>> THEN <<>> ELSE Utf8Char(Head(cps)) \o Utf8Enc(Tail(cps))

Cont(b) == 128 <= b /\ b < 192
(* strict decoder: shortest form, no surrogates, <= 10FFFF; <<-1>> = error *)
RECURSIVE Utf8Dec(_)
Utf8Dec(bs) ==
    IF bs = <<>> THEN <<>>
    ELSE LET b == bs[1]
             n == IF b < 128 THEN 1 ELSE IF 194 <= b /\ b < 224 THEN 2
                  ELSE IF 224 <= b /\ b < 240 THEN 3 ELSE IF 240 <= b /\ b < 245 THEN 4 ELSE 0 IN
         IF n = 0 \/ Len(bs) < n \/ (\E j \in 2..n : ~Cont(bs[j])) THEN <<-1>>
         ELSE LET cp == IF n = 1 THEN b
                        ELSE IF n = 2 THEN (b - 192) * 64 + (bs[2] - 128)
                        ELSE IF n = 3 THEN (b - 224) * 4096 + (bs[2] - 128) * 64 + (bs[3] - 128)
                        ELSE (b - 240) * 262144 + (bs[2] - 128) * 4096 + (bs[3] - 128) * 64 + (bs[4] - 128)
                  rest == Utf8Dec(SubSeq(bs, n + 1, Len(bs))) IN
              IF ~IsScalar(cp) \/ Utf8Char(cp) # SubSeq(bs, 1, n) \/ (rest # <<>> /\ rest[Len(rest)] = -1)
              THEN <<-1>> ELSE <<cp>> \o rest

(* ---- blocks of scripts used to classify text --------------------------- *)
Block(name) == CASE name = "ascii" -> 32..126
                 [] name = "latin1sym" -> 160..191
                 [] name = "punct" -> 8208..8254
                 [] name = "latin1sup" -> 192..255
                 [] name = "latinexta" -> 256..383
                 [] name = "greek" -> 945..969
                 [] name = "cyrillic" -> 1040..1103
                 [] name = "hebrew" -> 1488..1514
                 [] name = "arabic" -> 1569..1594
                 [] name = "devanagari" -> 2309..2361
                 [] name = "thai" -> 3585..3642
                 [] name = "hiragana" -> 12353..12435
                 [] name = "katakana" -> 12449..12534
                 [] name = "cjk" -> 19968..40869
                 [] name = "hangul" -> 44032..55203
                 [] name = "emoji" -> 128512..128591
InBlocks(cp, names) == \E n \in names : cp \in Block(n)

(* scripts clearly outside each set (conservative: a script is listed only  *)
(* if neither the standard nor the usual vendor superset -- Latin-1 for the *)
(* default repertoire, windows-125x for the ISO 8859 parts, windows-31j /   *)
(* JIS X 0212/0213 / ISO-2022-JP-2 for the Japanese sets, windows-874 for   *)
(* ISO_IR 166, windows-949 for ISO_IR 149 -- contains any of its            *)
(* characters; checked at design time against python3's codecs)             *)
Far == {"arabic", "hebrew", "thai", "cyrillic", "greek", "hangul", "cjk", "hiragana", "katakana", "emoji",
        "devanagari"}
OutsideBlocks(cs) ==
    CASE cs \in {"ISO_IR 6", "ISO_IR 100"} -> Far
      [] cs \in {"ISO_IR 101", "ISO_IR 109", "ISO_IR 110"} -> Far
      [] cs = "ISO_IR 126" -> Far \ {"greek"}
      [] cs = "ISO_IR 127" -> Far \ {"arabic"}
      [] cs = "ISO_IR 138" -> Far \ {"hebrew"}
      [] cs = "ISO_IR 144" -> Far \ {"cyrillic"}
      [] cs = "ISO_IR 166" -> Far \ {"thai"}
      [] cs = "ISO_IR 13" -> {"arabic", "hebrew", "thai", "hangul", "emoji", "devanagari"}
      [] cs = "ISO_IR 87" -> {"arabic", "hebrew", "thai", "emoji", "devanagari"}
      [] cs = "ISO_IR 149" -> {"arabic", "hebrew", "thai", "emoji", "devanagari"}
      [] cs = "GBK" -> {"arabic", "hebrew", "thai", "hangul", "emoji", "devanagari"}
      [] OTHER -> {}          \* ISO_IR 192 and GB18030 cover all of Unicode
(* core repertoire of the sets without a table                             *)
CoreBlocks(cs) ==
    CASE cs = "ISO_IR 87" -> {"ascii", "hiragana", "katakana"}      \* ISO 646 + JIS X 0208 kana
      [] cs = "ISO_IR 149" -> {"ascii", "hangul"}                   \* KS X 1001 + all Hangul syllables
      [] cs = "GBK" -> {"ascii", "cjk"}                             \* all URO ideographs
      [] OTHER -> {}

HasOracle(cs) == cs \in TableSets \/ cs = "ISO_IR 192"
CharInRep(cs, cp) ==
    IF cs \in TableSets THEN cp \in DOMAIN EncMap[cs]
    ELSE IF cs \in {"ISO_IR 192", "GB18030"} THEN IsScalar(cp) /\ cp >= 32
    ELSE InBlocks(cp, CoreBlocks(cs))
InRep(cs, cps) == \A j \in 1..Len(cps) : CharInRep(cs, cps[j])
Outside(cs, cps) == \E j \in 1..Len(cps) : InBlocks(cps[j], OutsideBlocks(cs))

(* JIS X 0201 Roman differs from ISO 646 in two positions: 05/12 is YEN SIGN  *)
(* and 07/14 is OVERLINE.  For the two sets built on JIS X 0201 (ISO_IR 13,    *)
(* ISO_IR 87 via ISO-2022-JP) an implementation may identify U+00A5 with the   *)
(* byte 5C and U+203E with 7E; reading them back as REVERSE SOLIDUS and TILDE  *)
(* is the same identification and is not counted as a substitution.            *)
JisRoman(cs, cps) == IF cs \in {"ISO_IR 13", "ISO_IR 87"}
                     THEN [j \in 1..Len(cps) |-> IF cps[j] = 165 THEN 92 ELSE IF cps[j] = 8254 THEN 126 ELSE cps[j]]
                     ELSE cps

(* byte oracle (only where HasOracle and InRep)                            *)
Enc(cs, cps) == IF cs = "ISO_IR 192" THEN Utf8Enc(cps) ELSE [j \in 1..Len(cps) |-> EncMap[cs][cps[j]]]
BytesInTable(cs, bs) == IF cs = "ISO_IR 192" THEN TRUE ELSE \A j \in 1..Len(bs) : bs[j] \in DOMAIN DecMap[cs]
Dec(cs, bs) == IF cs = "ISO_IR 192" THEN Utf8Dec(bs) ELSE [j \in 1..Len(bs) |-> DecMap[cs][bs[j]]]

(* ---- defined terms (PS3.3 C.12.1.1.2) ---------------------------------- *)
(* the term of a set; "ISO 2022 IR n" (with code extensions) designates    *)
(* the same set as "ISO_IR n"; CS values may carry trailing spaces          *)
RECURSIVE StripSpaces(_)
StripSpaces(s) == IF Len(s) > 0 /\ SubSeq(s, Len(s), Len(s)) = " " THEN StripSpaces(SubSeq(s, 1, Len(s) - 1)) ELSE s
Canon(term) == LET t == StripSpaces(term) IN
               IF Len(t) > 12 /\ SubSeq(t, 1, 12) = "ISO 2022 IR " THEN "ISO_IR " \o SubSeq(t, 13, Len(t)) ELSE t

(* ---- values read back from a data set ---------------------------------- *)
(* equal up to the padding the encoding adds to reach even length           *)
EqualUpToPad(vals, back) ==
    /\ Len(vals) = Len(back)
    /\ \A j \in 1..Len(vals) : back[j] = vals[j] \/ (j = Len(vals) /\ (back[j] = vals[j] \o <<32>> \/ back[j] = vals[j] \o <<0>>))
=============================================================================
