-------------------------------- MODULE Dict --------------------------------
(***************************************************************************)
(* C15  The standard data dictionary answers consistently for every tag    *)
(* and keyword.                                                            *)
(*                                                                         *)
(* The published table is DATA: a sequence of rows (one per generated      *)
(* entry), each row joining the three textual sources of the generated     *)
(* file dictionary-std/src/tags.rs:                                        *)
(*   doc  : the dicom.dic line  "Keyword (gggg[-gggg],eeee[-eeee]) vr vm"  *)
(*          -> dalias, glo, ghi, elo, ehi, dvr                             *)
(*   decl : the constant  NAME: Tag|TagRange = [Group100|Element100](Tag)  *)
(*          -> cname, ctype, ctor, g, e                                    *)
(*   entry: the ENTRIES line  E { tag: [Single(]NAME[)], alias, vr }       *)
(*          -> wrap, alias, vr                                             *)
(* Rows of single tags come first, in ascending tag order.                 *)
(*                                                                         *)
(* The lookup rule is the SPEC: Lookup(g, e) with the five-rule precedence *)
(* of the property text.  A tag is a pair of 16-bit halves (TLC integers   *)
(* are 32-bit).                                                            *)
(***************************************************************************)
EXTENDS Naturals, Sequences, FiniteSets, TLC, Json, IOUtils

(* the table: sequence of rows, loaded once (a constant of the model)       *)
Tab == ndJsonDeserialize(IOEnv.TABLE)

Kind(r) == IF r.wrap = "Single" THEN "single"
           ELSE IF r.ctor = "Group100" THEN "group100"
           ELSE IF r.ctor = "Element100" THEN "element100" ELSE "invalid"

NTab == Len(Tab)
(* rows of single tags are Tab[1..NSingle]                                 *)
RECURSIVE CountSingles(_)
CountSingles(k) == IF k > NTab \/ Kind(Tab[k]) # "single" THEN k - 1 ELSE CountSingles(k + 1)
NSingle == CountSingles(1)
RangeRows == {k \in (NSingle + 1)..NTab : TRUE}

TagLess(g1, e1, g2, e2) == g1 < g2 \/ (g1 = g2 /\ e1 < e2)

(* rule 1: the row of the exact (single) entry for (g,e), 0 if none:       *)
(* binary search over the ordered single rows                              *)
RECURSIVE Find(_, _, _, _)
Find(g, e, lo, hi) ==
    IF lo > hi THEN 0
    ELSE LET m == (lo + hi) \div 2
             r == Tab[m] IN
         IF r.g = g /\ r.e = e THEN m
         ELSE IF TagLess(r.g, r.e, g, e) THEN Find(g, e, m + 1, hi) ELSE Find(g, e, lo, m - 1)
Exact(g, e) == Find(g, e, 1, NSingle)

(* rule 2: the repeating-group / repeating-element rows covering (g,e):    *)
(* the published range of the row                                          *)
Covers(r, g, e) == r.glo <= g /\ g <= r.ghi /\ r.elo <= e /\ e <= r.ehi
(* (groups touched by some repeating row, computed once: a shortcut that    *)
(* does not change the meaning of Covering)                                *)
CoverGroups == UNION {Tab[k].glo .. Tab[k].ghi : k \in RangeRows}
Covering(g, e) == IF g \in CoverGroups THEN {k \in RangeRows : Covers(Tab[k], g, e)} ELSE {}

(* rules 3 and 4: the two generic entries (PS3.5 7.8.1 private creator,    *)
(* 7.2 group length)                                                       *)
IsPrivateCreator(g, e) == g % 2 = 1 /\ 16 <= e /\ e <= 255
IsGroupLength(g, e) == e = 0
PrivateCreatorEntry == [found |-> TRUE, kind |-> "private_creator", bg |-> 0, be |-> 0,
                        alias |-> "PrivateCreator", vr |-> "LO"]
GroupLengthEntry == [found |-> TRUE, kind |-> "group_length", bg |-> 0, be |-> 0,
                     alias |-> "GenericGroupLength", vr |-> "UL"]
NoEntry == [found |-> FALSE, kind |-> "", bg |-> 0, be |-> 0, alias |-> "", vr |-> ""]

(* the answer a row stands for                                             *)
RowEntry(r) == [found |-> TRUE, kind |-> Kind(r), bg |-> r.g, be |-> r.e, alias |-> r.alias, vr |-> r.vr]

(* which rule decides (g,e)                                                *)
Rule(g, e) == IF Exact(g, e) # 0 THEN "exact"
              ELSE IF Covering(g, e) # {} THEN "range"
              ELSE IF IsPrivateCreator(g, e) THEN "private_creator"
              ELSE IF IsGroupLength(g, e) THEN "group_length" ELSE "none"

(* the set of answers the table prescribes for (g,e) (a singleton unless   *)
(* two repeating rows cover the same tag)                                  *)
Lookup(g, e) ==
    LET x == Exact(g, e) IN
    IF x # 0 THEN {RowEntry(Tab[x])}
    ELSE LET c == Covering(g, e) IN
         IF c # {} THEN {RowEntry(Tab[k]) : k \in c}
         ELSE IF IsPrivateCreator(g, e) THEN {PrivateCreatorEntry}
         ELSE IF IsGroupLength(g, e) THEN {GroupLengthEntry}
         ELSE {NoEntry}

Answer(ev) == [found |-> ev.found, kind |-> ev.kind, bg |-> ev.bg, be |-> ev.be, alias |-> ev.alias, vr |-> ev.vr]

(* ---- consistency of one table row (doc line / constant / entry) ------- *)
DocVr(v) == IF v = "up" THEN "UL" ELSE v     \* dicom.dic "up" (pointer) is UL
RowShapeOK(r) ==
    CASE Kind(r) = "single"     -> r.ctype = "Tag" /\ r.glo = r.g /\ r.ghi = r.g /\ r.elo = r.e /\ r.ehi = r.e
      [] Kind(r) = "group100"   -> r.ctype = "TagRange" /\ r.g % 256 = 0 /\ r.glo = r.g /\ r.ghi = r.g + 255
                                   /\ r.elo = r.e /\ r.ehi = r.e
      [] Kind(r) = "element100" -> r.ctype = "TagRange" /\ r.e % 256 = 0 /\ r.glo = r.g /\ r.ghi = r.g
                                   /\ r.elo = r.e /\ r.ehi = r.e + 255
      [] OTHER -> FALSE
=============================================================================
