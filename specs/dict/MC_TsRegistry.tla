---------------------------- MODULE MC_TsRegistry ----------------------------
(* exhaustive check of the registry state machine over a small UID universe *)
EXTENDS TsRegistry
CONSTANTS UIDs
RNext == \E u \in UIDs, s \in Shapes : Register(u, s)
RSpec == RInit /\ [][RNext]_reg
RTypeOK == DOMAIN reg \subseteq UIDs /\ \A u \in DOMAIN reg : reg[u] \in Shapes
(* lookup ignores trailing NULs and spaces and finds exactly the registered *)
LookupOK == \A u \in UIDs, pad \in {<<>>, <<0>>, <<32>>, <<0, 32>>, <<32, 0, 0>>} :
              LookupOp(reg, u, pad)[1] = (u \in DOMAIN reg)
              /\ (u \in DOMAIN reg => LookupOp(reg, u, pad)[2] = reg[u])
=============================================================================
