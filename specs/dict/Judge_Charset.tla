---------------------------- MODULE Judge_Charset ----------------------------
(* Judges the events recorded by drv_charset (codec and datasets modes) with   *)
(* the operators of CharsetCodec.  One CASE line per FAILING event.            *)
EXTENDS CharsetCodec

Rec == ndJsonDeserialize(IOEnv.TRACE)
N == Len(Rec)
VARIABLE i
JInit == i = 0
JNext == i < N /\ i' = i + 1
JSpec == JInit /\ [][JNext]_i

Fail(cond, name) == IF cond THEN {} ELSE {name}

Class(cs, cps) == IF InRep(cs, cps) THEN "inrep" ELSE IF Outside(cs, cps) THEN "outside" ELSE "grey"

FailedEnc(e) ==
  LET c == Class(e.cs, e.cps) IN
     Fail(~e.panic, "encode panics")
\cup Fail(c = "inrep" => (e.ok /\ e.dok /\ e.dec = e.cps), "text of the repertoire does not encode and decode back")
\cup Fail((c = "inrep" /\ HasOracle(e.cs) /\ e.ok) => e.bytes = Enc(e.cs, e.cps), "encoded bytes differ from the code table")
\cup Fail(c = "outside" => ~e.ok, "character outside the set is accepted by encode")
\cup Fail(e.ok => (e.dok /\ e.dec = JisRoman(e.cs, e.cps)), "silent substitution: accepted text decodes to other text")

FailedDec(e) ==
  Fail(BytesInTable(e.cs, e.bytes) => (e.ok /\ e.cps = Dec(e.cs, e.bytes)), "decoded text differs from the code table")

FailedTerm(e) ==
     Fail(Canon(e.term) \in AllSets => (e.found /\ e.name = Canon(e.term)), "defined term does not select its character set")
\cup Fail(e.found => (e.back = e.name /\ e.same), "name of a character set does not map back to the same set")

(* (codec_rt: every value is accepted by the character set codec itself and    *)
(* decoded back unchanged by it -- then the data set has to preserve it too,    *)
(* also for characters outside the agreed tables / core blocks)                 *)
(* data set element: text of the repertoire of the set in force reads back     *)
(* unchanged; default-repertoire VRs read back unchanged under any set         *)
DefaultVRs == {"AE", "AS", "CS", "DA", "DS", "DT", "IS", "TM", "UI"}
AllAscii(vals) == \A j \in 1..Len(vals) : \A k \in 1..Len(vals[j]) : vals[j][k] \in 32..126
AllInRep(cs, vals) == \A j \in 1..Len(vals) : InRep(cs, vals[j])
(* how the values read back differ (for the report only)                       *)
HowChanged(vals, back) ==
    IF Len(back) # Len(vals) THEN "number of values changes"
    ELSE IF \A j \in 1..(Len(vals) - 1) : back[j] = vals[j] THEN "end of the last value changes"
    ELSE "content changes"
FailedDs(e) ==
  IF e.vr \in DefaultVRs
  THEN Fail(AllAscii(e.vals) => (e.wok /\ e.rok /\ EqualUpToPad(e.vals, e.back)),
            "default-repertoire VR does not read back unchanged under " \o
            (IF e.cs \in {"ISO_IR 6"} THEN "the default set" ELSE "a specific character set"))
  ELSE Fail((AllInRep(e.cs, e.vals) \/ e.codec_rt \/ (e.where = "after-ascii" /\ AllAscii(e.vals)))
                => (e.wok /\ e.rok /\ EqualUpToPad(e.vals, e.back)),
            "text written after Specific Character Set " \o e.cs \o " does not read back unchanged: " \o
            (IF ~e.wok THEN "write fails" ELSE IF ~e.rok THEN "read fails" ELSE HowChanged(e.vals, e.back)))

Failed(e) == CASE e.ev = "enc" -> FailedEnc(e)
               [] e.ev = "dec" -> FailedDec(e)
               [] e.ev = "term" -> FailedTerm(e)
               [] e.ev = "ds" -> FailedDs(e)
               [] OTHER -> {"unknown event"}

Emit == (i > 0 /\ Failed(Rec[i]) # {}) =>
          PrintT(<<"CASE", ToJson([line |-> i, failed |-> Failed(Rec[i]),
                                   class |-> IF Rec[i].ev = "enc" THEN Class(Rec[i].cs, Rec[i].cps) ELSE ""])>>)
(* statistics of the classes judged (vacuity), printed once at the end         *)
EncIdx == {j \in 1..N : Rec[j].ev = "enc"}
Stats == (i = N) =>
          PrintT(<<"CASE", ToJson([line |-> 0, failed |-> {},
              stats |-> [c \in {"inrep", "outside", "grey"} |->
                           Cardinality({j \in EncIdx : Class(Rec[j].cs, Rec[j].cps) = c})],
              outside_sets |-> {Rec[j].cs : j \in {k \in EncIdx : Class(Rec[k].cs, Rec[k].cps) = "outside"}}])>>)
ASSUME TablesOK
=============================================================================
