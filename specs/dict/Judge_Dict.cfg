SPECIFICATION JSpec
INVARIANT Emit
CHECK_DEADLOCK FALSE
