--------------------------- MODULE Gen_CharsetEdit ---------------------------
(* Cases for the real InMemDicomObject: the byte stream to read (PS3.5 layout  *)
(* computed here), the route and target of the Specific Character Set change,  *)
(* the writer strategy, and the expected text values after write + read back.  *)
EXTENDS CharsetEdit, Json

Ascii == <<83, 109, 105, 116, 104, 94, 74, 111, 104, 110>>          \* Smith^John
Joao == <<83, 105, 109, 245, 101, 115, 94, 74, 111, 227, 111>>     \* Simoes^Joao with o-tilde, a-tilde
Req == <<82, 233, 113, 45, 48, 49>>                                \* Req-01 with e-acute
Odd == <<77, 252, 108, 108, 101, 114>>                             \* Mueller with u-umlaut (even length)
NameLists == {<<Joao>>, <<Ascii>>, <<Joao, Odd>>, <<Ascii, Joao>>}
Afters == {Req, <<73, 68>>}

VARIABLES names, after, strat
gvars == <<evars, names, after, strat>>
GInit == EInit /\ names \in NameLists /\ after \in Afters /\ strat = "-"
GNext == \/ ((\E r \in Routes, t \in Targets : Change(r, t)) \/ NoEdit \/ Reread) /\ UNCHANGED <<names, after, strat>>
         \/ \E s \in Strategies : Write(s) /\ strat' = s /\ UNCHANGED <<names, after>>
GSpec == GInit /\ [][GNext]_gvars

Emit == (phase = "reread") =>
          PrintT(<<"CASE", ToJson([source |-> src, bytes |-> Stream(src, Odd, names, after, seqMode, itemMode),
                                   seqMode |-> seqMode, itemMode |-> itemMode,
                                   route |-> route, target |-> scs, strategy |-> strat,
                                   before |-> Odd, names |-> names, after |-> after,
                                   expect |-> result])>>)
=============================================================================
