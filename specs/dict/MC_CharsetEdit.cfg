CONSTANTS Routes = {"put", "update_value", "update_value_at", "apply_set", "apply_setstr", "convert_to_utf8"}
          Targets = {"ISO_IR 192", "GB18030", "ISO_IR 100"}
          Sources = {"ISO_IR 100", "none"}
SPECIFICATION ESpec
INVARIANT ReadsBackUnchanged KeepsLengths
CHECK_DEADLOCK FALSE
