----------------------------- MODULE MC_Charset -----------------------------
EXTENDS Charset
(* exclusive repertoires: tA only in A, tB only in B *)
RepExclusive == [t \in Texts |-> IF t = "ascii" THEN Charsets ELSE IF t = "tA" THEN {"A"} ELSE {"B"}]
(* nested repertoires: A (e.g. UTF-8, GB18030) also represents tB *)
RepNested == [t \in Texts |-> IF t = "ascii" THEN Charsets ELSE IF t = "tA" THEN {"A"} ELSE {"A", "B"}]
=============================================================================
