CONSTANTS UIDs = {"u1", "u2"}
SPECIFICATION RSpec
INVARIANT RTypeOK QueriesCoherent LookupOK
PROPERTY Monotone
