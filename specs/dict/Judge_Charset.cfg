SPECIFICATION JSpec
INVARIANT Emit Stats
CHECK_DEADLOCK FALSE
