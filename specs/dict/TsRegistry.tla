----------------------------- MODULE TsRegistry -----------------------------
(***************************************************************************)
(* C16  Every registered transfer syntax is described consistently.        *)
(*                                                                         *)
(* Part 1 (state machine): the registry as a map UID -> description that   *)
(* is filled by Register (one action per arm of `register` in              *)
(* transfer-syntax-registry/src/lib.rs) and queried by Lookup with         *)
(* trailing padding.  Invariants / action properties: one description per  *)
(* UID, the codec kind of a UID never changes, support never shrinks,      *)
(* lookup ignores trailing NULs and spaces.                                *)
(*                                                                         *)
(* Part 2 (operators over one description): what each capability query has *)
(* to answer, defined from the codecs the description actually offers      *)
(* (doc comments of encoding/src/transfer_syntax/mod.rs, PS3.5 section 10  *)
(* and annex A for the three uncompressed syntaxes).  Judge_TsRegistry     *)
(* applies these to a snapshot of the real registry.                       *)
(***************************************************************************)
EXTENDS Naturals, Sequences, FiniteSets, TLC

IVRLE == "1.2.840.10008.1.2"
EVRLE == "1.2.840.10008.1.2.1"
EVRBE == "1.2.840.10008.1.2.2"

(* codec shape: kind in {"none","encaps","dataset"}; r/w = pixel data      *)
(* reader/writer offered (encaps only); a = data set adapter offered       *)
(* (dataset only)                                                          *)
Shapes == {[kind |-> "none", r |-> FALSE, w |-> FALSE, a |-> FALSE]}
          \cup {[kind |-> "encaps", r |-> r, w |-> w, a |-> FALSE] : r \in BOOLEAN, w \in BOOLEAN}
          \cup {[kind |-> "dataset", r |-> FALSE, w |-> FALSE, a |-> a] : a \in BOOLEAN}

ShapeOf(t) == [kind |-> t.kind, r |-> t.r, w |-> t.w, a |-> t.a]

(* ---- what a description offers ---------------------------------------- *)
(* data sets readable and writable: no data set codec needed, or the       *)
(* needed adapter is there                                                 *)
DsOK(s)   == s.kind # "dataset" \/ s.a
(* pixel data decodable to native form                                     *)
PixDec(s) == DsOK(s) /\ (s.kind = "encaps" => s.r)
(* native pixel data encodable into this syntax                            *)
PixEnc(s) == DsOK(s) /\ (s.kind = "encaps" => s.w)
Support(s) == (IF DsOK(s) THEN {"ds"} ELSE {}) \cup (IF PixDec(s) THEN {"pixdec"} ELSE {})
              \cup (IF PixEnc(s) THEN {"pixenc"} ELSE {})

(* ---- the capability queries, as documented ---------------------------- *)
Q_fully(s)       == DsOK(s) /\ PixDec(s) /\ PixEnc(s)   \* "can both decode and encode"
Q_codec_free(s)  == s.kind = "none"                      \* "no codecs are required"
Q_unsupported(s) == ~DsOK(s)                             \* "neither reading nor writing of data sets"
Q_encaps(s)      == s.kind = "encaps"                    \* "expects pixel data to be encapsulated"
Q_unsup_pix(s)   == ~PixDec(s) /\ ~PixEnc(s)             \* "reading and writing the pixel data is unsupported"
Q_can_all(s)     == DsOK(s) /\ PixDec(s)                 \* "fully decode both data sets and pixel data"
Q_can_ds(s)      == DsOK(s)                              \* "can decode the data set"

Queries(s) == [fully |-> Q_fully(s), codec_free |-> Q_codec_free(s), unsupported |-> Q_unsupported(s),
               encaps |-> Q_encaps(s), unsup_pix |-> Q_unsup_pix(s), can_all |-> Q_can_all(s),
               can_ds |-> Q_can_ds(s)]

(* ---- wire form of the header of (0010,0010) PN, length 4 -------------- *)
(* PS3.5 7.1.2 (explicit VR, 16-bit length), 7.1.3 (implicit VR), 7.3      *)
HdrIVRLE == <<16, 0, 16, 0, 4, 0, 0, 0>>
HdrEVRLE == <<16, 0, 16, 0, 80, 78, 4, 0>>
HdrEVRBE == <<0, 16, 0, 16, 80, 78, 0, 4>>
WireForm(h) == IF h = HdrIVRLE THEN "ivrle" ELSE IF h = HdrEVRLE THEN "evrle"
               ELSE IF h = HdrEVRBE THEN "evrbe" ELSE "other"
(* only Implicit VR LE is implicit, only Explicit VR BE is big endian      *)
FormOf(uid) == IF uid = IVRLE THEN "ivrle" ELSE IF uid = EVRBE THEN "evrbe" ELSE "evrle"

(* ---- lookup key -------------------------------------------------------- *)
(* a UID followed by any number of NUL / space characters designates the   *)
(* UID (PS3.5 9.1: UI values are NUL padded; space padding is tolerated)   *)
IsPad(p) == \A k \in 1..Len(p) : p[k] \in {0, 32}

---------------------------------------------------------------------------
(* Part 1: registry state machine                                          *)
VARIABLES reg        \* function: registered UID -> description (codec shape [+ name])

RInit == reg = << >>
Registered(rg, u) == u \in DOMAIN rg
Put(rg, u, s) == [x \in DOMAIN rg \cup {u} |-> IF x = u THEN s ELSE rg[x]]

(* the arms of `register`: a second description for a registered UID       *)
(* replaces the first only if the first lacks codecs the second has        *)
Replaces(old, new) ==
    \/ old.kind = "dataset" /\ ~old.a /\ new.kind = "dataset" /\ new.a
    \/ old.kind = "encaps" /\ ~old.r /\ ~old.w /\ new.kind = "encaps"
    \/ old.kind = "encaps" /\ old.r /\ ~old.w /\ new.kind = "encaps" /\ new.r /\ new.w
    \/ old.kind = "encaps" /\ ~old.r /\ old.w /\ new.kind = "encaps" /\ new.r /\ new.w

RegisterOp(rg, u, s) == IF ~Registered(rg, u) THEN Put(rg, u, s)
                        ELSE IF Replaces(rg[u], s) THEN Put(rg, u, s) ELSE rg

RegisterNew(u, s)     == ~Registered(reg, u) /\ reg' = RegisterOp(reg, u, s)
RegisterReplace(u, s) == Registered(reg, u) /\ Replaces(reg[u], s) /\ reg' = RegisterOp(reg, u, s)
RegisterIgnored(u, s) == Registered(reg, u) /\ ~Replaces(reg[u], s) /\ reg' = RegisterOp(reg, u, s)
Register(u, s) == RegisterNew(u, s) \/ RegisterReplace(u, s) \/ RegisterIgnored(u, s)

(* lookup of a key = UID followed by padding                               *)
LookupOp(rg, u, pad) == IF IsPad(pad) /\ Registered(rg, u) THEN <<TRUE, rg[u]>> ELSE <<FALSE, [kind |-> "absent"]>>

(* action properties: once registered, a UID stays registered, keeps its   *)
(* kind, and never loses support                                           *)
Monotone == [][\A u \in DOMAIN reg :
                  /\ u \in DOMAIN reg'
                  /\ reg'[u].kind = reg[u].kind
                  /\ Support(reg[u]) \subseteq Support(reg'[u])]_reg
(* the queries are mutually consistent on every shape                      *)
QueriesCoherent == \A s \in Shapes :
    /\ Q_fully(s) => Q_can_all(s)
    /\ Q_can_all(s) => Q_can_ds(s)
    /\ Q_unsupported(s) <=> ~Q_can_ds(s)
    /\ Q_codec_free(s) => Q_fully(s) /\ ~Q_encaps(s)
    /\ Q_unsup_pix(s) => ~Q_fully(s)
=============================================================================
