------------------------------ MODULE Charset ------------------------------
(***************************************************************************)
(* C10 part (a): the Specific Character Set switching state machine of the *)
(* data set encoder (parser/src/stateful/encode.rs: encode_text(s)_element,*)
(* try_new_codec, convert_text_untrailed) and decoder (stateful/decode.rs: *)
(* read_value_cs, set_character_set, read_value_strs/str).                 *)
(*                                                                         *)
(* Abstract world: a finite set of character sets Charsets (with the       *)
(* default repertoire "D"), text classes Texts with RepIn[t] = the sets    *)
(* that can represent t ("ascii" is representable everywhere), two VR      *)
(* classes: "cvr" (PN LO SH ST LT UT UC: use the active character set) and *)
(* "dvr" (CS AE UI DA ... : always the default repertoire, ASCII text).    *)
(* A data set is a sequence of elements; "open"/"close" bracket the single *)
(* item of a sequence (one nesting level).                                 *)
(*                                                                         *)
(* Encoder and decoder are two processes over a FIFO of written elements;  *)
(* the decoder may lag arbitrarily.  Property-level invariants:            *)
(*   Sync     : after reading k elements the decoder's character set is    *)
(*              the one the encoder had after writing k elements;          *)
(*   Faithful : every text element read back equals the text written       *)
(*              (in particular default-repertoire VRs are unaffected);     *)
(*   Strict   : a text the active set cannot represent is refused          *)
(*              (EncodeError), never written.                              *)
(***************************************************************************)
EXTENDS Naturals, Sequences, FiniteSets, TLC

CONSTANTS Charsets,      \* e.g. {"D", "A", "B"}; "D" is the default repertoire
          Texts,         \* e.g. {"ascii", "tA", "tB"}
          RepIn,         \* [Texts -> SUBSET Charsets]
          MaxLen,        \* max number of elements (open/close not counted)
          MaxSwitch      \* max number of Specific Character Set elements

Unknown == "unknown"     \* a defined term the implementation does not support: ignored

ScsEls == {[k |-> "scs", to |-> c] : c \in Charsets \cup {Unknown}}
TxtEls == {[k |-> "txt", vr |-> "cvr", t |-> t] : t \in Texts} \cup {[k |-> "txt", vr |-> "dvr", t |-> "ascii"]}
Open == [k |-> "open"]
Close == [k |-> "close"]

(* ---- one step of either side ------------------------------------------ *)
(* the character set in force after an element                             *)
Switch(cs, el) == IF el.k = "scs" /\ el.to \in Charsets THEN el.to ELSE cs
(* can the encoder write el under cs?                                      *)
Encodable(cs, el) == el.k = "txt" /\ el.vr = "cvr" => cs \in RepIn[el.t]
(* what the decoder (in dcs) makes of an element written under wcs         *)
Decoded(dcs, wcs, el) == IF el.k # "txt" THEN "-"
                         ELSE IF el.vr = "dvr" \/ el.t = "ascii" THEN el.t
                         ELSE IF dcs = wcs THEN el.t ELSE "garbled"

(* ---- behaviour of a whole element sequence (used by the generator) ---- *)
(* result per element: "ok" | "encerr" | "skipped" (after an encode error  *)
(* nothing more is written) and the character set after each element       *)
RECURSIVE Run(_, _, _)
Run(seq, cs, failed) ==
    IF seq = <<>> THEN <<>>
    ELSE LET el == Head(seq) IN
         IF failed THEN <<[r |-> "skipped", cs |-> cs]>> \o Run(Tail(seq), cs, TRUE)
         ELSE IF ~Encodable(cs, el) THEN <<[r |-> "encerr", cs |-> cs]>> \o Run(Tail(seq), cs, TRUE)
         ELSE <<[r |-> "ok", cs |-> Switch(cs, el)]>> \o Run(Tail(seq), Switch(cs, el), FALSE)

---------------------------------------------------------------------------
VARIABLES ecs, dcs,      \* character set of encoder / decoder
          wire,          \* written elements: [el, wcs (set used), after (encoder set after it)]
          rd,            \* number of elements the decoder has read
          got,           \* decoded texts, one per read element
          depth, nel, nsw, estate   \* encoder bookkeeping; estate in {"run","err","end"}

vars == <<ecs, dcs, wire, rd, got, depth, nel, nsw, estate>>

Init == /\ ecs = "D" /\ dcs = "D" /\ wire = <<>> /\ rd = 0 /\ got = <<>>
        /\ depth = 0 /\ nel = 0 /\ nsw = 0 /\ estate = "run"

Put(el) == wire' = Append(wire, [el |-> el, wcs |-> ecs, after |-> Switch(ecs, el)])

WriteScs(c) == /\ estate = "run" /\ nel < MaxLen /\ nsw < MaxSwitch
               /\ Put([k |-> "scs", to |-> c]) /\ ecs' = Switch(ecs, [k |-> "scs", to |-> c])
               /\ nel' = nel + 1 /\ nsw' = nsw + 1
               /\ UNCHANGED <<dcs, rd, got, depth, estate>>
WriteText(el) == /\ estate = "run" /\ nel < MaxLen /\ Encodable(ecs, el)
                 /\ Put(el) /\ nel' = nel + 1
                 /\ UNCHANGED <<ecs, dcs, rd, got, depth, nsw, estate>>
WriteRefused(el) == /\ estate = "run" /\ nel < MaxLen /\ ~Encodable(ecs, el)
                    /\ estate' = "err"
                    /\ UNCHANGED <<ecs, dcs, wire, rd, got, depth, nel, nsw>>
WriteOpen == /\ estate = "run" /\ depth = 0 /\ nel < MaxLen
             /\ ~(\E j \in 1..Len(wire) : wire[j].el.k = "open")
             /\ Put(Open) /\ depth' = 1
             /\ UNCHANGED <<ecs, dcs, rd, got, nel, nsw, estate>>
WriteClose == /\ estate = "run" /\ depth = 1
              /\ Put(Close) /\ depth' = 0
              /\ UNCHANGED <<ecs, dcs, rd, got, nel, nsw, estate>>
WriteEnd == /\ estate = "run" /\ depth = 0 /\ estate' = "end"
            /\ UNCHANGED <<ecs, dcs, wire, rd, got, depth, nel, nsw>>

ReadElem == /\ rd < Len(wire)
            /\ LET w == wire[rd + 1] IN
               /\ got' = Append(got, Decoded(dcs, w.wcs, w.el))
               /\ dcs' = Switch(dcs, w.el)
            /\ rd' = rd + 1
            /\ UNCHANGED <<ecs, wire, depth, nel, nsw, estate>>

Next == \/ \E c \in Charsets \cup {Unknown} : WriteScs(c)
        \/ \E el \in TxtEls : WriteText(el) \/ WriteRefused(el)
        \/ WriteOpen \/ WriteClose \/ WriteEnd
        \/ ReadElem
Spec == Init /\ [][Next]_vars

TypeOK == /\ ecs \in Charsets /\ dcs \in Charsets /\ rd \in 0..Len(wire) /\ Len(got) = rd
          /\ depth \in {0, 1} /\ estate \in {"run", "err", "end"}
Sync == dcs = (IF rd = 0 THEN "D" ELSE wire[rd].after)
Faithful == \A j \in 1..rd : wire[j].el.k = "txt" => got[j] = wire[j].el.t
Strict == \A j \in 1..Len(wire) : Encodable(wire[j].wcs, wire[j].el)
(* when both sides are done they agree on the character set                *)
EndAgree == (estate # "run" /\ rd = Len(wire)) => dcs = ecs
=============================================================================
