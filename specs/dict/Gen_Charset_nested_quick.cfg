CONSTANTS Charsets = {"D", "A", "B"} Texts = {"ascii", "tA", "tB"} MaxLen = 3 MaxSwitch = 2
CONSTANT RepIn <- RepNested
SPECIFICATION GSpec
INVARIANT Emit
CHECK_DEADLOCK FALSE
