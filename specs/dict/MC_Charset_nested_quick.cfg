CONSTANTS Charsets = {"D", "A", "B"} Texts = {"ascii", "tA", "tB"} MaxLen = 3 MaxSwitch = 2
CONSTANT RepIn <- RepNested
SPECIFICATION Spec
INVARIANT TypeOK Sync Faithful Strict EndAgree
CHECK_DEADLOCK FALSE
