----------------------------- MODULE CharsetEdit -----------------------------
(***************************************************************************)
(* C10 part (a), continued: changing the Specific Character Set of an      *)
(* object AFTER it was read, then writing it.                              *)
(*                                                                         *)
(* An object read from a byte stream remembers the byte lengths of its     *)
(* sequences and items when they were explicit (object/src/mem.rs: `len`   *)
(* of items, DataSetSequence length).  The token generator forwards the    *)
(* remembered lengths to the writer unless they are invalidated; the       *)
(* writer strategy NoChange keeps forwarded lengths, SetUndefined replaces *)
(* them by undefined length + delimiters.  Text is re-encoded with the     *)
(* character set named by (0008,0005) at writing time, so after a change   *)
(* of (0008,0005) the remembered lengths no longer describe the bytes:     *)
(* every route that changes (0008,0005) has to invalidate them             *)
(* (`charset_changed` -> IntoTokensOptions::force_invalidate_sq_length).   *)
(*                                                                         *)
(* Routes (the public ways to change the element): put, update_value,      *)
(* update_value_at, apply Set, apply SetStr, convert_to_utf8.              *)
(* Property (C10): whatever the route, the length mode the object was read *)
(* with and the writer strategy, every text value of the written data set  *)
(* reads back unchanged and (0008,0005) names the new set.                 *)
(***************************************************************************)
EXTENDS Naturals, Sequences, TLC

CONSTANTS Routes, Targets, Sources     \* Sources: what (0008,0005) of the stream that is read says;
                                       \* "none" = the stream has no Specific Character Set element
(* routes that can ADD a missing (0008,0005); update_value(_at) only change an *)
(* existing element                                                            *)
AddRoutes == {"put", "apply_set", "apply_setstr", "convert_to_utf8"}
(* the bytes of text under a declaration: without (0008,0005) the default      *)
(* repertoire applies, for which the implementation leniently reads and writes *)
(* ISO 8859-1 bytes, i.e. the same bytes as under ISO_IR 100                    *)
EncOf(cs) == IF cs = "none" THEN "ISO_IR 100" ELSE cs

Modes == {"explicit", "undefined"}
Strategies == {"SetUndefined", "NoChange"}

VARIABLES src,        \* declaration of the stream read
          phase,      \* "read" -> "edited" -> "written" -> "reread"
          seqMode, itemMode,   \* how sequence / item lengths were encoded in the stream read
          scs,        \* character set named by (0008,0005) of the object
          lenValid,   \* the remembered lengths still describe what will be written
          route,
          seqOut, itemOut,     \* length form emitted by the writer: "undefined" | "remembered"
          result      \* "-" | "unchanged" | "broken"
evars == <<src, phase, seqMode, itemMode, scs, lenValid, route, seqOut, itemOut, result>>

EInit == /\ src \in Sources /\ phase = "read" /\ seqMode \in Modes /\ itemMode \in Modes
         /\ scs = src /\ lenValid = TRUE /\ route = "none"
         /\ seqOut = "-" /\ itemOut = "-" /\ result = "-"

(* every route replaces the value of (0008,0005) and invalidates the lengths *)
Change(r, t) == /\ phase = "read" /\ phase' = "edited"
                /\ (r = "convert_to_utf8" => t = "ISO_IR 192")
                /\ (src = "none" => r \in AddRoutes)
                /\ scs' = t /\ lenValid' = FALSE /\ route' = r
                /\ UNCHANGED <<src, seqMode, itemMode, seqOut, itemOut, result>>
NoEdit == /\ phase = "read" /\ phase' = "edited"
          /\ UNCHANGED <<src, seqMode, itemMode, scs, lenValid, route, seqOut, itemOut, result>>

Emitted(mode, strategy) == IF mode = "explicit" /\ lenValid /\ strategy = "NoChange" THEN "remembered" ELSE "undefined"
Write(s) == /\ phase = "edited" /\ phase' = "written"
            /\ seqOut' = Emitted(seqMode, s) /\ itemOut' = Emitted(itemMode, s)
            /\ UNCHANGED <<src, seqMode, itemMode, scs, lenValid, route, result>>

(* a remembered length is right only if the text is encoded as it was read *)
Reread == /\ phase = "written" /\ phase' = "reread"
          /\ result' = IF (seqOut = "remembered" \/ itemOut = "remembered") /\ EncOf(scs) # EncOf(src) THEN "broken" ELSE "unchanged"
          /\ UNCHANGED <<src, seqMode, itemMode, scs, lenValid, route, seqOut, itemOut>>

ENext == (\E r \in Routes, t \in Targets : Change(r, t)) \/ NoEdit \/ (\E s \in Strategies : Write(s)) \/ Reread
ESpec == EInit /\ [][ENext]_evars

ReadsBackUnchanged == phase = "reread" => result = "unchanged"
(* an untouched object written with NoChange keeps its explicit lengths (C02) *)
KeepsLengths == (phase = "written" /\ route = "none" /\ lenValid) =>
                   (seqOut = Emitted(seqMode, "NoChange") \/ seqOut = "undefined")

---------------------------------------------------------------------------
(* PS3.5 layout (Explicit VR Little Endian) of the stream that is read.    *)
LE16(n) == <<n % 256, n \div 256>>
LE32(n) == <<n % 256, (n \div 256) % 256, (n \div 65536) % 256, n \div 16777216>>
Pad(v) == IF Len(v) % 2 = 1 THEN v \o <<32>> ELSE v
(* element with a 16-bit length field (CS, PN, LO, SH); vr as two bytes     *)
ShortEl(g, e, vr, v) == LE16(g) \o LE16(e) \o vr \o LE16(Len(Pad(v))) \o Pad(v)
ItemBytes(content, mode) ==
    IF mode = "explicit" THEN <<254, 255, 0, 224>> \o LE32(Len(content)) \o content
    ELSE <<254, 255, 0, 224, 255, 255, 255, 255>> \o content \o <<254, 255, 13, 224, 0, 0, 0, 0>>
SeqBytes(g, e, items, mode) ==
    LE16(g) \o LE16(e) \o <<83, 81, 0, 0>> \o
    (IF mode = "explicit" THEN LE32(Len(items)) \o items
     ELSE <<255, 255, 255, 255>> \o items \o <<254, 255, 221, 224, 0, 0, 0, 0>>)
(* ISO 8859-1 (ISO_IR 100): byte = code point                              *)
Latin1(cps) == cps
CS == <<67, 83>>  PN == <<80, 78>>  LO == <<76, 79>>  SH == <<83, 72>>
IsoIr100 == <<73, 83, 79, 95, 73, 82, 32, 49, 48, 48>>     \* "ISO_IR 100"

(* [(0008,0005)=ISO_IR 100 unless declared = "none"], (0008,0070) LO before, (0040,0275) SQ of items   *)
(* each holding (0010,0010) PN, (0040,1001) SH after                        *)
Stream(declared, before, names, after, sm, im) ==
    LET item(n) == ItemBytes(ShortEl(16, 16, PN, Latin1(n)), im)
        RECURSIVE Items(_)
        Items(ns) == IF ns = <<>> THEN <<>> ELSE item(Head(ns)) \o Items(Tail(ns)) IN
    (IF declared = "none" THEN <<>> ELSE ShortEl(8, 5, CS, IsoIr100)) \o ShortEl(8, 112, LO, Latin1(before))
    \o SeqBytes(64, 629, Items(names), sm) \o ShortEl(64, 4097, SH, Latin1(after))
=============================================================================
