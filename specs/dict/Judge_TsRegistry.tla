-------------------------- MODULE Judge_TsRegistry --------------------------
(***************************************************************************)
(* Judges a snapshot of the real transfer syntax registry (ndjson written  *)
(* by drv_tsreg) with the operators of TsRegistry.                         *)
(*                                                                         *)
(* The "const" events (the built-in entry definitions in registration      *)
(* order) drive the Register actions of the registry state machine; the    *)
(* "ts" events (what TransferSyntaxRegistry.iter() yields) and the         *)
(* "lookup" events are then judged against the resulting state and against *)
(* the capability operators.  One verdict per event is printed:            *)
(*   <<"CASE", ToJson([line, ev, uid, failed])>>   failed = set of rules   *)
(* Rules whose name starts with "drift " are informational (the snapshot   *)
(* deviates from the implementation-shaped model, not from the property).  *)
(***************************************************************************)
EXTENDS TsRegistry, Json, IOUtils

Rec == ndJsonDeserialize(IOEnv.TRACE)
N == Len(Rec)
(* one file holds the snapshots of several feature sets; every event names *)
(* its feature set (fs); a "meta" event starts a snapshot (empty registry)  *)
FsSet == {Rec[j].fs : j \in 1..N}
TsIdxBy == [f \in FsSet |-> {j \in 1..N : Rec[j].ev = "ts" /\ Rec[j].fs = f}]
ConstIdxBy == [f \in FsSet |-> {j \in 1..N : Rec[j].ev = "const" /\ Rec[j].fs = f}]
TsIdx(f) == TsIdxBy[f]
ConstIdx(f) == ConstIdxBy[f]
TsOf(f, uid) == {j \in TsIdx(f) : Rec[j].uid = uid}

VARIABLE i
jvars == <<reg, i>>

JInit == RInit /\ i = 0
JNext == /\ i < N /\ i' = i + 1
         /\ LET e == Rec[i + 1] IN
            IF e.ev = "meta" THEN reg' = << >>
            ELSE IF e.ev = "const"
            THEN reg' = RegisterOp(reg, e.uid, [kind |-> e.kind, r |-> e.r, w |-> e.w, a |-> e.a, name |-> e.name])
            ELSE UNCHANGED reg
JSpec == JInit /\ [][JNext]_jvars

Fail(cond, name) == IF cond THEN {} ELSE {name}

BackOK(b) == b.ok /\ b.g = 16 /\ b.e = 16 /\ b.vr = "PN" /\ b.len = 4 /\ b.n = 8

FailedTs(t) ==
  LET s == ShapeOf(t)
      f == WireForm(t.hdr)
      q == Queries(s) IN
     Fail(Cardinality(TsOf(t.fs, t.uid)) = 1, "UID registered more than once")
\cup Fail((f = "ivrle") <=> (t.uid = IVRLE), "implicit VR exactly for Implicit VR Little Endian")
\cup Fail((t.big <=> (t.uid = EVRBE)) /\ ((f = "evrbe") <=> (t.uid = EVRBE)),
          "big endian exactly for Explicit VR Big Endian")
\cup Fail(DsOK(s) => (t.dec /\ t.enc), "decodable data set without data set decoder and encoder")
\cup Fail((t.dec /\ t.enc) => (f = FormOf(t.uid) /\ BackOK(t.back)),
          "offered data set encoder/decoder do not produce/read the header layout of the syntax")
\cup Fail((s.kind = "dataset" /\ s.a) => t.adapter_rt = "yes", "data set adapter does not round-trip")
\cup Fail((t.pr <=> (s.kind = "encaps" /\ s.r)) /\ (t.pw <=> (s.kind = "encaps" /\ s.w)),
          "pixel_data_reader/writer disagree with the codec")
\cup Fail(t.q.fully = q.fully, "is_fully_supported disagrees with the codecs offered")
\cup Fail(t.q.codec_free = q.codec_free, "is_codec_free disagrees with the codecs offered")
\cup Fail(t.q.unsupported = q.unsupported, "is_unsupported disagrees with the codecs offered")
\cup Fail(t.q.encaps = q.encaps, "is_encapsulated_pixel_data disagrees with the codecs offered")
\cup Fail(t.q.unsup_pix = q.unsup_pix, "is_unsupported_pixel_encapsulation disagrees with the codecs offered")
\cup Fail(t.q.can_all = q.can_all, "can_decode_all disagrees with the codecs offered")
\cup Fail(t.q.can_ds = q.can_ds, "can_decode_dataset disagrees with the codecs offered")
\cup Fail(Registered(reg, t.uid) /\ ShapeOf(reg[t.uid]) = s /\ reg[t.uid].name = t.name,
          "drift registry entry differs from Register applied to the built-in definitions")

FailedLookup(e) ==
     Fail(IsPad(e.pad), "premise: pad is NULs/spaces")
\cup Fail(e.found = e.uid /\ e.same /\ \E j \in TsOf(e.fs, e.uid) : Rec[j].name = e.name,
          "lookup with trailing NULs/spaces does not return the transfer syntax")
\cup Fail(LookupOp(reg, e.uid, e.pad)[1] /\ LookupOp(reg, e.uid, e.pad)[2].name = e.name,
          "drift lookup differs from the registry model")

FailedConst(c) ==
     Fail(Cardinality({j \in ConstIdx(c.fs) : Rec[j].uid = c.uid}) = 1, "two built-in definitions share a UID")
\cup Fail(\E j \in TsOf(c.fs, c.uid) : Rec[j].name = c.name /\ Rec[j].kind = c.kind,
          "built-in definition is not what its UID resolves to")

FailedMeta(m) == Fail(m.n = Cardinality(TsIdx(m.fs)) /\ m.n = Cardinality({Rec[j].uid : j \in TsIdx(m.fs)}),
                      "UID registered more than once")

Failed(e) == CASE e.ev = "ts" -> FailedTs(e)
               [] e.ev = "lookup" -> FailedLookup(e)
               [] e.ev = "const" -> FailedConst(e)
               [] e.ev = "meta" -> FailedMeta(e)
               [] OTHER -> {"unknown event"}

(* verdict of event i is printed in the state reached after all "const"   *)
(* events were registered (the driver emits them first)                   *)
ConstsFirst == \A f \in FsSet : \A j \in ConstIdx(f), k \in TsIdx(f) : j < k
Emit == (i > 0) =>
           PrintT(<<"CASE", ToJson([line |-> i, ev |-> Rec[i].ev,
                                    uid |-> Rec[i].uid, fs |-> Rec[i].fs,
                                    failed |-> Failed(Rec[i])])>>)
ASSUME ConstsFirst
=============================================================================
