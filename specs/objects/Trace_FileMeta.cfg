CONSTANTS
  Lens = {0}
  BaseTables = {"minimal"}
  Targets = {"cls"}
  ActNames = {"Remove"}
SPECIFICATION TSpec
CONSTRAINT Track
POSTCONDITION Accepted
CHECK_DEADLOCK FALSE
