---------------------------- MODULE Trace_FileMeta ----------------------------
(***************************************************************************)
(* Trace validator for C09 (implementation -> spec).  The driver logs one  *)
(* "obs" event per table it observes on the real code (after build(),      *)
(* after every ApplyOp::apply, after reading a written group or a complete *)
(* file back): presence and stored byte length of every attribute, the     *)
(* recorded information_group_length, the number of bytes write() really   *)
(* produced, the group length value found in those bytes, the independent  *)
(* scan of the written elements, and the projection of the table obtained  *)
(* by reading the bytes back.  TLC judges each event with the layout       *)
(* operators of FileMeta.tla.                                              *)
(***************************************************************************)
EXTENDS FileMeta, Json, IOUtils

Rec == ndJsonDeserialize(IOEnv.TRACE)
VARIABLE l
R == Rec[l]

T(rec) == rec.tab          \* [f |-> [p, n, s, c]]
Judge(rec) ==
  /\ rec.gl = GroupLength(T(rec))                      \* recorded length = bytes following (0002,0000)
  /\ rec.written = GroupLengthElemLen + rec.gl         \* what write() really produced
  /\ rec.enc_gl = rec.gl                               \* the value inside the written element
  /\ rec.layout = Wire(T(rec))                         \* element by element (tag, VR, header, padded length)
  /\ rec.reread_ok /\ SameUpToPadding(rec.reread, T(rec))
  /\ rec.lib_eq                                        \* the library's own table equality agrees
  /\ (rec.res = "err" => rec.unchanged)                \* a failed operation has no side effect

TInit == l = 1 /\ tab = <<>> /\ gl = 0 /\ TLCSet(1, 1)
TObs == /\ l <= Len(Rec) /\ R.ev = "obs" /\ Judge(R) /\ l' = l + 1 /\ UNCHANGED <<tab, gl>>
TReset == /\ l <= Len(Rec) /\ R.ev = "reset" /\ l' = l + 1 /\ UNCHANGED <<tab, gl>>
TNext == TObs \/ TReset
TSpec == TInit /\ [][TNext]_<<tab, gl, l>>

Why(rec) == IF rec.ev # "obs" THEN "event"
            ELSE IF rec.res = "err" /\ ~rec.unchanged THEN "table changed although the operation failed"
            ELSE IF rec.gl # GroupLength(T(rec)) THEN "information_group_length differs from the bytes following the group length element"
            ELSE IF rec.written # GroupLengthElemLen + rec.gl \/ rec.enc_gl # rec.gl THEN "written size differs from 12 + group length"
            ELSE IF rec.layout # Wire(T(rec)) THEN "written elements differ from the PS3.5 layout"
            ELSE IF ~rec.reread_ok THEN "written group cannot be read back"
            ELSE "table read back differs"
Track == TLCSet(1, IF l > TLCGet(1) THEN l ELSE TLCGet(1))
Accepted == IF TLCGet(1) = Len(Rec) + 1 THEN TRUE
            ELSE Print(<<"REJECTED", TLCGet(1), ToJson([why |-> Why(Rec[TLCGet(1)]),
                         model_gl |-> IF Rec[TLCGet(1)].ev = "obs" THEN GroupLength(T(Rec[TLCGet(1)])) ELSE 0,
                         rec |-> Rec[TLCGet(1)]])>>, FALSE)
=============================================================================
