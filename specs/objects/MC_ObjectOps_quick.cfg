CONSTANTS
  LeafTags = {"T", "N", "S", "U"}
  StepTags = {"S", "U"}
  StepItems = {0, 1}
  MaxSelDepth = 2
  ActNames = {"Remove","Empty","SetVr","Set","SetIfMissing","Replace","PushStr","PushU16","Truncate"}
  Inits = {"seeded"}
  MaxSteps = 2
SPECIFICATION MSpec
INVARIANT TypeOK
CHECK_DEADLOCK FALSE
