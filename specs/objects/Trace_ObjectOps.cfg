CONSTANTS
  LeafTags = {"T"}
  StepTags = {"S"}
  StepItems = {0}
  MaxSelDepth = 1
  ActNames = {"Remove"}
  Inits = {"empty"}
SPECIFICATION TSpec
CONSTRAINT Track
POSTCONDITION Accepted
CHECK_DEADLOCK FALSE
