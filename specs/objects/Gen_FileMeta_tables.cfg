CONSTANTS
  Lens = {0, 1, 2, 3, 64}
  BaseTables = {"odd", "even"}
  Targets = {"cls"}
  ActNames = {"Remove"}
  MaxLen = 0
  Mode = "tables"
SPECIFICATION GSpec
VIEW View
CHECK_DEADLOCK FALSE
