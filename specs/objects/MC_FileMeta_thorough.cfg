CONSTANTS
  Lens = {0, 1, 2, 3, 64}
  BaseTables = {"minimal", "odd", "even", "mixed", "zeros", "max"}
  Targets = {"cls", "inst", "ts", "impl", "ivn", "src", "snd", "rcv", "pcu", "ver", "priv", "gl", "other2", "foreign", "nested"}
  ActNames = {"Remove","Empty","SetVr","Truncate","PushStr","PushU16","SetStr","Set","SetIfMissing","SetStrIfMissing","Replace","ReplaceStr"}
  MaxSteps = 3
SPECIFICATION MSpec
INVARIANTS TypeOK GroupLengthOK LayoutAgrees RoundTrip
CHECK_DEADLOCK FALSE
