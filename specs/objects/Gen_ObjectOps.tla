---------------------------- MODULE Gen_ObjectOps ----------------------------
(***************************************************************************)
(* Behaviour generator for C13.  BFS over the reference model with the     *)
(* history h (operations + expected result and tree after every step).     *)
(* VIEW = <<tree, Len(h)>>: every distinct (tree, depth) is expanded once, *)
(* with the first history that reached it; EVERY transition out of an      *)
(* expanded state is printed (in the action, before TLC's dedup), so the   *)
(* driver replays one real history per transition of the reachable graph.  *)
(* In -simulate mode the same module prints one long random history when   *)
(* it reaches MaxLen.                                                      *)
(***************************************************************************)
EXTENDS ObjectRT, Json

CONSTANTS MaxLen,     \* history length
          Mode,       \* "bfs": print every transition; "sim": print histories of length MaxLen
          DeepLeafTags, DeepStepTags, DeepSelDepth, DeepActNames, DeepInits
                      \* "bfs": the first operation ranges over the full alphabet (Ops) from every
                      \* initial object, later ones over this reduced alphabet, from DeepInits only
VARIABLES h, ini, dk    \* dk: every operation so far was in the reduced alphabet

StepRec(t, op, r) == [sel |-> op.sel, act |-> op.act, ok |-> r.ok, tree |-> r.tree, sit |-> Sit(t, op.sel, op.act), fam |-> Family(op.act)]
CaseRec(i, hh, t) == [init |-> i, steps |-> hh, rt |-> RTCase(t)]

GInit == /\ Init /\ h = <<>> /\ dk = TRUE /\ ini = (IF tree = EmptyTree THEN "empty" ELSE "seeded")
DeepOps == { op \in Ops : /\ Len(op.sel) <= DeepSelDepth /\ op.act.a \in DeepActNames
                          /\ op.sel[Len(op.sel)].tag \in DeepLeafTags
                          /\ \A i \in 1..(Len(op.sel) - 1) : op.sel[i].tag \in DeepStepTags }
OpsAt(d) == IF Mode = "sim" THEN {RandomElement(Ops)} ELSE IF d = 0 THEN Ops ELSE DeepOps
GNext == /\ Len(h) < MaxLen
         /\ (Mode = "sim" \/ Len(h) = 0 \/ (dk /\ ini \in DeepInits))
         /\ \E op \in OpsAt(Len(h)) :
              LET r  == Apply(tree, op)
                  h2 == Append(h, StepRec(tree, op, r))
              IN /\ tree' = r.tree /\ h' = h2 /\ ini' = ini /\ dk' = (dk /\ Mode = "bfs" /\ op \in DeepOps)
                 /\ (Mode = "bfs" \/ Len(h2) = MaxLen) => PrintT(<<"CASE", ToJson(CaseRec(ini, h2, r.tree))>>)
GSpec == GInit /\ [][GNext]_<<tree, h, ini, dk>>
View == <<tree, Len(h), ini, dk>>
=============================================================================
