---------------------------- MODULE Gen_ObjectOps ----------------------------
(***************************************************************************)
(* Behaviour generator for C13.  BFS over the reference model with the     *)
(* history h (operations + expected result and tree after every step).     *)
(* VIEW = <<tree, Len(h)>>: every distinct (tree, depth) is expanded once, *)
(* with the first history that reached it; EVERY transition out of an      *)
(* expanded state is printed (in the action, before TLC's dedup), so the   *)
(* driver replays one real history per transition of the reachable graph.  *)
(* In -simulate mode the same module prints one long random history when   *)
(* it reaches MaxLen.                                                      *)
(***************************************************************************)
EXTENDS ObjectRT, Json

CONSTANTS MaxLen,     \* history length
          Mode        \* "bfs": print every transition; "sim": print histories of length MaxLen
VARIABLES h, ini

StepRec(t, op, r) == [sel |-> op.sel, act |-> op.act, ok |-> r.ok, tree |-> r.tree, sit |-> Sit(t, op.sel, op.act), fam |-> Family(op.act)]
CaseRec(i, hh, t) == [init |-> i, steps |-> hh, rt |-> RTCase(t)]

GInit == /\ Init /\ h = <<>> /\ ini = (IF tree = EmptyTree THEN "empty" ELSE "seeded")
GNext == /\ Len(h) < MaxLen
         /\ \E op \in (IF Mode = "sim" THEN {RandomElement(Ops)} ELSE Ops) :
              LET r  == Apply(tree, op)
                  h2 == Append(h, StepRec(tree, op, r))
              IN /\ tree' = r.tree /\ h' = h2 /\ ini' = ini
                 /\ (Mode = "bfs" \/ Len(h2) = MaxLen) => PrintT(<<"CASE", ToJson(CaseRec(ini, h2, r.tree))>>)
GSpec == GInit /\ [][GNext]_<<tree, h, ini>>
View == <<tree, Len(h), ini>>
=============================================================================
