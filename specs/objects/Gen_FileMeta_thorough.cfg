CONSTANTS
  Lens = {0, 1, 2, 3, 64}
  BaseTables = {"minimal", "tiny", "odd", "even", "mixed", "zeros", "max"}
  Targets = {"cls", "inst", "ts", "impl", "ivn", "src", "snd", "rcv", "pcu", "ver", "priv", "gl", "other2", "foreign", "nested"}
  ActNames = {"Remove","Empty","SetVr","Truncate","PushStr","PushU16","SetStr","Set","SetIfMissing","SetStrIfMissing","Replace","ReplaceStr"}
  MaxLen = 3
  Modes = {"ops", "tables", "files"}
  DeepBases = {"minimal", "mixed"}
  DeepTargets = {"cls", "ts", "ivn", "src", "pcu", "priv", "other2"}
  DeepActNames = {"Remove","Empty","Truncate","SetStr","SetIfMissing","Replace","PushStr"}
  FileBases = {"tiny", "odd", "even", "mixed"}
SPECIFICATION GSpec
VIEW View
CHECK_DEADLOCK FALSE
