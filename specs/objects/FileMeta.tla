------------------------------ MODULE FileMeta ------------------------------
(***************************************************************************)
(* C09 -- the File Meta Information group (0002,xxxx).                     *)
(*                                                                         *)
(* A table is abstracted to presence and byte length of each attribute:    *)
(*   t[f] = [p |-> present, n |-> length without trailing padding,         *)
(*           s |-> stored length (builder pads to even), c |-> content id] *)
(* Layout facts are PS3.5 (7.1.2 explicit VR data element structure,       *)
(* 7.1 padding to even length, PS3.10 7.1: group 0002 is Explicit VR LE):  *)
(*   header = tag(4) + VR(2) + length(2)            for the short VRs      *)
(*   header = tag(4) + VR(2) + reserved(2) + length(4)   for OB,OW,UN,...  *)
(*   value padded to even length                                           *)
(* GroupLength(t) = number of bytes of the encoded group that follow the   *)
(* (0002,0000) element -- defined here from the layout, not from meta.rs.  *)
(*                                                                         *)
(* The operations are the AttributeActions as FileMetaTable::apply         *)
(* supports them (implementation-shaped, read from meta.rs ApplyOp); what  *)
(* C09 demands after every operation is only                               *)
(*   GroupLengthOK : t.gl = GroupLength(t) and written size = 12 + gl      *)
(*   ReadBack(Wire(t)) = t up to trailing padding                          *)
(*   a failed operation leaves the table unchanged.                        *)
(***************************************************************************)
EXTENDS Naturals, Sequences, FiniteSets, TLC

CONSTANTS Lens,        \* value lengths used by the operations, e.g. {0,1,2,3,64}
          BaseTables,  \* subset of the names of the initial tables below
          Targets,     \* subset of AllTargets
          ActNames     \* subset of the action names

(* ---- the attributes, in tag order ---- *)
Fields == <<"ver", "cls", "inst", "ts", "impl", "ivn", "src", "snd", "rcv", "pcu", "priv">>
FieldSet == {Fields[i] : i \in 1..Len(Fields)}
VROf == [ver |-> "OB", cls |-> "UI", inst |-> "UI", ts |-> "UI", impl |-> "UI", ivn |-> "SH",
         src |-> "AE", snd |-> "AE", rcv |-> "AE", pcu |-> "UI", priv |-> "OB"]
ElemOf == [ver |-> 1, cls |-> 2, inst |-> 3, ts |-> 16, impl |-> 18, ivn |-> 19,
           src |-> 22, snd |-> 23, rcv |-> 24, pcu |-> 256, priv |-> 258]      \* (0002,eeee), decimal
Required == {"cls", "inst", "ts", "impl"}
Optional == {"ivn", "src", "snd", "rcv", "pcu"}
(* things an operation can address: the nine string attributes and          *)
(* ver/priv/gl (in the table but not operable), "other2" a group-0002 tag    *)
(* outside the table, "foreign" a tag of another group, "nested" a selector  *)
(* with a sequence step                                                      *)
AllTargets == Required \cup Optional \cup {"ver", "priv", "gl", "other2", "foreign", "nested"}

(* ---- PS3.5 layout ---- *)
LongVRs == {"OB", "OD", "OF", "OL", "OV", "OW", "SQ", "SV", "UC", "UN", "UR", "UT", "UV"}
HeaderLen(vr) == IF vr \in LongVRs THEN 12 ELSE 8
Even(n) == n + (n % 2)
ElemLen(vr, n) == HeaderLen(vr) + Even(n)
GroupLengthElemLen == ElemLen("UL", 4)                           \* = 12

(* the encoded group as the sequence of its elements (sizes only) *)
PresentSeq(t) == SelectSeq(Fields, LAMBDA f : t[f].p)
Wire(t) == [i \in 1..Len(PresentSeq(t)) |->
              LET f == PresentSeq(t)[i]
              IN [elem |-> ElemOf[f], vr |-> VROf[f], hdr |-> HeaderLen(VROf[f]), vlen |-> Even(t[f].s)]]
SumSeq(s) == LET G[i \in 0..Len(s)] == IF i = 0 THEN 0 ELSE G[i - 1] + s[i].hdr + s[i].vlen IN G[Len(s)]
GroupLength(t) == SumSeq(Wire(t))                                \* bytes following the group length element
WrittenLen(t) == GroupLengthElemLen + GroupLength(t)

(* reading the encoded group back: every element is found again with the   *)
(* padded length; trailing padding is not significant                       *)
ReadBack(t) == [f \in FieldSet |-> [p |-> t[f].p, n |-> t[f].n, s |-> Even(t[f].s), c |-> t[f].c]]
SameUpToPadding(a, b) == \A f \in FieldSet : a[f].p = b[f].p /\ (a[f].p => a[f].n = b[f].n /\ a[f].c = b[f].c)

(* ---- tables ---- *)
Absent == [p |-> FALSE, n |-> 0, s |-> 0, c |-> ""]
Built(n) == [p |-> TRUE, n |-> n, s |-> Even(n), c |-> IF n = 0 THEN "" ELSE "x"]   \* FileMetaTableBuilder pads to even
Raw(n, c) == [p |-> TRUE, n |-> n, s |-> n, c |-> IF n = 0 THEN "" ELSE c]          \* set by an operation / raw bytes
Ver == [p |-> TRUE, n |-> 2, s |-> 2, c |-> "v"]
(* 99 stands for "attribute absent" in the table constructor below *)
A == 99
MkA(cls, inst, ts, impl, ivn, src, snd, rcv, pcu, priv) ==
  LET o(n) == IF n = A THEN Absent ELSE Built(n)
  IN [ver |-> Ver, cls |-> Built(cls), inst |-> Built(inst), ts |-> Built(ts), impl |-> Built(impl),
      ivn |-> o(ivn), src |-> o(src), snd |-> o(snd), rcv |-> o(rcv), pcu |-> o(pcu),
      priv |-> IF priv = A THEN Absent ELSE Raw(priv, "x")]
BaseTable(name) ==
  CASE name = "minimal" -> MkA(0, 0, 17, 1, A, A, A, A, A, A)
    [] name = "odd"     -> MkA(25, 55, 19, 21, 15, 7, 3, 1, 11, 5)
    [] name = "even"    -> MkA(26, 56, 22, 20, 16, 8, 4, 2, 12, 6)
    [] name = "mixed"   -> MkA(1, 64, 17, 2, A, 3, A, 16, A, 1)
    [] name = "tiny"    -> MkA(1, 1, 17, 1, A, A, A, A, A, A)      \* shortest legal group: 82 bytes
    [] name = "zeros"   -> MkA(0, 0, 0, 0, 0, 0, 0, 0, 0, 0)
    [] name = "max"     -> MkA(64, 64, 64, 64, 16, 16, 16, 16, 64, 64)
AllBaseNames == {"minimal", "tiny", "odd", "even", "mixed", "zeros", "max"}

(* ---- operations ---- *)
Act(a, kind, n) == [a |-> a, kind |-> kind, n |-> n]     \* kind: "text" (string of length n), "num" (a number), ""
AllActs ==
       { Act(a, "", 0) : a \in {"Remove", "Empty", "SetVr", "Truncate", "PushStr", "PushU16"} }
  \cup { Act("SetStr", "text", n) : n \in Lens }
  \cup { Act(a, "text", n) : a \in {"Set", "SetIfMissing", "SetStrIfMissing", "Replace", "ReplaceStr"}, n \in Lens \cap {1, 64, 2} }
  \cup { Act(a, "num", 0) : a \in {"Set", "SetIfMissing", "Replace"} }
Acts == { a \in AllActs : a.a \in ActNames }
Ops == { [target |-> tg, act |-> a] : tg \in Targets, a \in Acts }

OkR(t) == [ok |-> TRUE, t |-> t]
FailR(t) == [ok |-> FALSE, t |-> t]
SetF(t, f, n) == [t EXCEPT ![f] = Raw(n, "y")]

ApplyRequired(t, f, act) ==
  CASE act.a \in {"Remove", "Empty"} -> FailR(t)                       \* mandatory attribute
    [] act.a \in {"SetVr", "Truncate", "SetIfMissing", "SetStrIfMissing"} -> OkR(t)
    [] act.a \in {"Set", "Replace"} -> IF act.kind = "text" THEN OkR(SetF(t, f, act.n)) ELSE FailR(t)
    [] act.a \in {"SetStr", "ReplaceStr"} -> OkR(SetF(t, f, act.n))
    [] OTHER -> FailR(t)                                                \* Push*
ApplyOptional(t, f, act) ==
  CASE act.a = "Remove" -> OkR([t EXCEPT ![f] = Absent])
    [] act.a = "Empty"  -> OkR(IF t[f].p THEN [t EXCEPT ![f] = Raw(0, "")] ELSE t)
    [] act.a = "SetVr"  -> OkR(t)
    [] act.a = "Set"    -> IF act.kind = "text" THEN OkR(SetF(t, f, act.n)) ELSE FailR(t)
    [] act.a = "SetStr" -> OkR(SetF(t, f, act.n))
    [] act.a = "SetIfMissing" -> IF t[f].p THEN OkR(t) ELSE IF act.kind = "text" THEN OkR(SetF(t, f, act.n)) ELSE FailR(t)
    [] act.a = "SetStrIfMissing" -> OkR(IF t[f].p THEN t ELSE SetF(t, f, act.n))
    [] act.a = "Replace" -> IF ~t[f].p THEN OkR(t) ELSE IF act.kind = "text" THEN OkR(SetF(t, f, act.n)) ELSE FailR(t)
    [] act.a = "ReplaceStr" -> OkR(IF t[f].p THEN SetF(t, f, act.n) ELSE t)
    [] OTHER -> FailR(t)                                                \* Push*, Truncate
Apply(t, op) ==
  CASE op.target \in Required -> ApplyRequired(t, op.target, op.act)
    [] op.target \in Optional -> ApplyOptional(t, op.target, op.act)
    [] op.target = "nested"   -> FailR(t)
    [] OTHER -> IF op.act.a \in {"Remove", "Empty", "Truncate"} THEN OkR(t) ELSE FailR(t)

(* ---- state machine: Init = builder-built table, Next = apply an operation ---- *)
VARIABLES tab, gl     \* gl = the recorded information_group_length
vars == <<tab, gl>>
Init == \E b \in BaseTables : tab = BaseTable(b) /\ gl = GroupLength(BaseTable(b))    \* build() computes it
ApplyOk(op) ==   /\ Apply(tab, op).ok
                 /\ tab' = Apply(tab, op).t
                 /\ gl' = GroupLength(Apply(tab, op).t)       \* update_information_group_length
ApplyFail(op) == /\ ~Apply(tab, op).ok
                 /\ UNCHANGED <<tab, gl>>                     \* no side effects
Next == \E op \in Ops : ApplyOk(op) \/ ApplyFail(op)
Spec == Init /\ [][Next]_vars

(* ---- what C09 states ---- *)
TypeOK == /\ DOMAIN tab = FieldSet
          /\ \A f \in FieldSet : tab[f].n <= tab[f].s /\ Even(tab[f].s) = Even(tab[f].n)
          /\ \A f \in Required \cup {"ver"} : tab[f].p
GroupLengthOK == /\ gl = GroupLength(tab)
                 /\ WrittenLen(tab) = 12 + gl
                 /\ gl % 2 = 0
(* the layout-defined length agrees with a direct count over the attributes *)
DirectCount(t) == LET c(f) == IF t[f].p THEN (IF f \in {"ver", "priv"} THEN 12 ELSE 8) + Even(t[f].s) ELSE 0
                  IN c("ver") + c("cls") + c("inst") + c("ts") + c("impl") + c("ivn") + c("src") + c("snd")
                     + c("rcv") + c("pcu") + c("priv")
LayoutAgrees == GroupLength(tab) = DirectCount(tab)
RoundTrip == /\ SameUpToPadding(ReadBack(tab), tab)
             /\ GroupLength(ReadBack(tab)) = GroupLength(tab)      \* re-reading does not change the size
             /\ ReadBack(ReadBack(tab)) = ReadBack(tab)
=============================================================================
