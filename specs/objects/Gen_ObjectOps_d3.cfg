CONSTANTS
  LeafTags = {"T", "S"}
  StepTags = {"S", "U"}
  StepItems = {0, 1}
  MaxSelDepth = 2
  ActNames = {"Remove","Empty","Set","SetStr","PushStr","PushU16","Truncate"}
  Inits = {"empty"}
  MaxLen = 3
  Mode = "bfs"
SPECIFICATION GSpec
VIEW View
CHECK_DEADLOCK FALSE
