------------------------------ MODULE Preamble ------------------------------
(***************************************************************************)
(* C09, second half: reading a complete file with or without the 128-byte  *)
(* preamble (PS3.10 7.1: preamble, then "DICM", then group 0002), by path  *)
(* or from a byte source, under the three ReadPreamble options, as         *)
(* documented in object/src/file.rs (ReadPreamble) and mem.rs              *)
(* (open_file / from_reader: "automatically detects whether the 128-byte   *)
(* preamble is present, skipping it if found").                            *)
(*   Auto   : detect; if detection fails: by path -> read it, byte source  *)
(*            -> do not read it                                            *)
(*   Always : always skip 128 bytes        Never : never skip              *)
(* A file is read back identically iff the number of bytes skipped is the  *)
(* size of the preamble it really has.                                     *)
(* Premises: the preamble bytes do not themselves spell "DICM" at offset 0 *)
(* (write_all writes zeros) and a file without preamble does not carry     *)
(* "DICM" at offset 128 by accident.                                       *)
(***************************************************************************)
EXTENDS Naturals

Shapes  == {"with", "without"}          \* file has / has not the 128-byte preamble
Entries == {"path", "source"}           \* open_file / from_reader
Options == {"Auto", "Always", "Never"}

PreambleSize(shape) == IF shape = "with" THEN 128 ELSE 0
MagicAt128(shape) == shape = "with"
MagicAt0(shape)   == shape = "without"
Detected(shape) == IF MagicAt128(shape) THEN "Always" ELSE IF MagicAt0(shape) THEN "Never" ELSE "Auto"
Skipped(shape, entry, option) ==
  LET eff == IF option = "Auto" THEN Detected(shape) ELSE option
  IN IF eff = "Always" THEN 128
     ELSE IF eff = "Never" THEN 0
     ELSE IF entry = "path" THEN 128 ELSE 0
Outcome(shape, entry, option) == IF Skipped(shape, entry, option) = PreambleSize(shape) THEN "same" ELSE "fail"

Cases == { [shape |-> s, entry |-> e, option |-> o, outcome |-> Outcome(s, e, o)] : s \in Shapes, e \in Entries, o \in Options }
(* what C09 states: with the default option every shape is read back identically by both entry points *)
AutoAlwaysReads == \A s \in Shapes, e \in Entries : Outcome(s, e, "Auto") = "same"
MatchingOptionReads == \A e \in Entries : Outcome("with", e, "Always") = "same" /\ Outcome("without", e, "Never") = "same"
ASSUME AutoAlwaysReads /\ MatchingOptionReads
=============================================================================
