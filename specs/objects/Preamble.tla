------------------------------ MODULE Preamble ------------------------------
(***************************************************************************)
(* C09, second half: reading a complete file with or without the 128-byte  *)
(* preamble (PS3.10 7.1: preamble, then "DICM", then group 0002), by path  *)
(* or from a byte source, under the three ReadPreamble options, as         *)
(* documented in object/src/file.rs (ReadPreamble) and mem.rs              *)
(* (open_file / from_reader: "automatically detects whether the 128-byte   *)
(* preamble is present, skipping it if found").                            *)
(*   Auto   : detect; if detection fails: by path -> read it, byte source  *)
(*            -> do not read it                                            *)
(*   Always : always skip 128 bytes        Never : never skip              *)
(* A file is read back identically iff the number of bytes skipped is the  *)
(* size of the preamble it really has.                                     *)
(* Premises: the preamble bytes do not themselves spell "DICM" at offset 0 *)
(* (write_all writes zeros) and a file without preamble does not carry     *)
(* "DICM" at offset 128 by accident.                                       *)
(***************************************************************************)
EXTENDS Naturals

(* The detection looks at a window of 132 bytes (128 + "DICM"); the outcome   *)
(* must not depend on whether the file without its preamble is shorter than, *)
(* about as long as, or longer than that window (a minimal meta group with   *)
(* an empty data set is 86 bytes).  `bare` = length of the file without the   *)
(* preamble (>= 4: it starts with "DICM").                                     *)
Window == 132
Shapes  == {"with", "without"}          \* file has / has not the 128-byte preamble
Entries == {"path", "source"}           \* open_file / from_reader
Options == {"Auto", "Always", "Never"}

PreambleSize(shape) == IF shape = "with" THEN 128 ELSE 0
FileLen(shape, bare) == PreambleSize(shape) + bare
SizeClass(bare) == IF bare < Window THEN "shorter than the 132-byte window"
                   ELSE IF bare <= Window + 4 THEN "about the 132-byte window" ELSE "longer than the 132-byte window"
MagicAt128(shape, bare) == shape = "with" /\ FileLen(shape, bare) >= Window
MagicAt0(shape, bare)   == shape = "without" /\ FileLen(shape, bare) >= 4
Detected(shape, bare) == IF MagicAt128(shape, bare) THEN "Always" ELSE IF MagicAt0(shape, bare) THEN "Never" ELSE "Auto"
Skipped(shape, entry, option, bare) ==
  LET eff == IF option = "Auto" THEN Detected(shape, bare) ELSE option
  IN IF eff = "Always" THEN 128
     ELSE IF eff = "Never" THEN 0
     ELSE IF entry = "path" THEN 128 ELSE 0
Outcome(shape, entry, option, bare) == IF Skipped(shape, entry, option, bare) = PreambleSize(shape) THEN "same" ELSE "fail"

Cases(bare) == { [shape |-> s, entry |-> e, option |-> o, outcome |-> Outcome(s, e, o, bare), size |-> SizeClass(bare)] :
                 s \in Shapes, e \in Entries, o \in Options }
(* what C09 states: with the default option every shape of every size is read back identically by both entry points *)
BareLens == {4, 86, 130, 131, 132, 133, 134, 136, 1000}
AutoAlwaysReads == \A b \in BareLens, s \in Shapes, e \in Entries : Outcome(s, e, "Auto", b) = "same"
MatchingOptionReads == \A b \in BareLens, e \in Entries : Outcome("with", e, "Always", b) = "same" /\ Outcome("without", e, "Never", b) = "same"
ASSUME AutoAlwaysReads /\ MatchingOptionReads
=============================================================================
