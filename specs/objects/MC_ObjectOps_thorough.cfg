CONSTANTS
  LeafTags = {"T", "S", "U"}
  StepTags = {"S", "U"}
  StepItems = {0, 1}
  MaxSelDepth = 3
  ActNames = {"Remove","Empty","SetVr","Set","SetStr","SetIfMissing","Replace","PushStr","PushU16","PushF32","Truncate"}
  Inits = {"empty", "seeded"}
  MaxSteps = 3
SPECIFICATION MSpec
INVARIANT TypeOK
CHECK_DEADLOCK FALSE
