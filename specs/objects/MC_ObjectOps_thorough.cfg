CONSTANTS
  LeafTags = {"T", "N", "S", "U"}
  StepTags = {"S", "U"}
  StepItems = {0, 1}
  MaxSelDepth = 2
  ActNames = {"Remove","Empty","SetVr","Set","SetStr","SetIfMissing","Replace","PushStr","PushI32","PushU16","PushF64","Truncate"}
  Inits = {"empty"}
  MaxSteps = 3
SPECIFICATION MSpec
INVARIANT TypeOK
CHECK_DEADLOCK FALSE
