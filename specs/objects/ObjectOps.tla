----------------------------- MODULE ObjectOps -----------------------------
(***************************************************************************)
(* C13 -- the reference model of the attribute operations of               *)
(* dicom_core::ops (AttributeOp = AttributeSelector + AttributeAction)     *)
(* on an in-memory object, written from the DOCUMENTATION of               *)
(* core/src/ops.rs (AttributeAction variants, is_constructive, ApplyOp)    *)
(* and of PrimitiveValue::extend_* / truncate, not from object/src/mem.rs. *)
(*                                                                         *)
(* State: tree = function  tag -> element, element =                       *)
(*   [vr, k, v, items]:  k = "Seq"  : data set sequence, items = Seq(tree) *)
(*                       otherwise  : primitive value of kind k            *)
(*                                    ("Empty","Text","U16","I16","U32",   *)
(*                                     "I32","F32","F64"), v = the value   *)
(*                                    items in text form                   *)
(* Documented semantics used:                                              *)
(*  D1 ApplyOp::apply: "If the action to apply is unsupported, or not      *)
(*     possible for other reasons, an error is returned and no changes to  *)
(*     the receiver are made."                                             *)
(*  D2 is_constructive: Set, SetStr, SetIfMissing, SetStrIfMissing, Push*  *)
(*     "create new elements if they do not exist yet"; (C13 statement)     *)
(*     constructive actions create missing sequences and the next item,    *)
(*     non-constructive actions on missing paths fail.                     *)
(*  D3 Remove "Remove the attribute if it exists. Do nothing otherwise."   *)
(*  D4 Empty "If the attribute exists, clear its value to zero bytes."     *)
(*  D5 SetVr "If the attribute exists, set or provide a hint about the     *)
(*     attribute's value representation. The underlying value is not       *)
(*     modified."  (not constructive: a missing attribute stays missing)   *)
(*  D6 Set/SetStr "Fully reset the attribute with the given value,         *)
(*     creating it if it does not exist yet"; Empty on a sequence          *)
(*     attribute = empty data set sequence.                                *)
(*  D7 SetIfMissing / SetStrIfMissing: only if it does not exist yet.      *)
(*  D8 Replace / ReplaceStr: only if the attribute already exists.         *)
(*  D9 Push*: append one value item, creating the attribute if missing;    *)
(*     extend_str fails on a non-textual value; numbers appended to text   *)
(*     are converted to text; to numbers: converted to the current type.   *)
(*  D10 Truncate(n): keep the first n value items / sequence items;        *)
(*     nothing if missing or cardinality <= n.                             *)
(* Where the documentation is silent (VR chosen for a created attribute,   *)
(* value kind after an operation) the model follows mem.rs; the driver     *)
(* compares those parts at "aux" level only where marked.                  *)
(***************************************************************************)
EXTENDS Naturals, Sequences, FiniteSets, TLC

CONSTANTS
  LeafTags,     \* tags usable in the last selector step
  StepTags,     \* tags usable in intermediate (tag,item) steps
  StepItems,    \* item indices usable in intermediate steps
  MaxSelDepth,  \* 1..3
  ActNames,     \* subset of the action names below
  Inits         \* subset of {"empty","seeded"}

(* ---- facts about the universe (the driver maps these to concrete tags) ---- *)
(* T (0008,0008) ImageType CS ; N (0028,0010) Rows US ; S (0008,1140) SQ ;    *)
(* V (0009,1001) private ; U (7778,0010) not in the dictionary                *)
DictVR == [T |-> "CS", N |-> "US", S |-> "SQ", V |-> "UN", U |-> "UN"]
TagClass == [T |-> "standard text", N |-> "standard numeric", S |-> "standard SQ", V |-> "private", U |-> "unknown"]
TextVRs == {"CS", "LO", "SH", "PN", "UI", "AE"}
NumVR == [U16 |-> "US", I16 |-> "SS", U32 |-> "UL", I32 |-> "SL", F32 |-> "FL", F64 |-> "FD"]
NumKinds == DOMAIN NumVR

(* ---- elements ---- *)
Prim(vr, k, v) == [vr |-> vr, k |-> k, v |-> v, items |-> <<>>]
SeqEl(items)   == [vr |-> "SQ", k |-> "Seq", v |-> <<>>, items |-> items]
EmptyTree == <<>>
Has(tree, t) == t \in DOMAIN tree
Put(tree, t, el) == [x \in (DOMAIN tree) \cup {t} |-> IF x = t THEN el ELSE tree[x]]
Del(tree, t) == [x \in (DOMAIN tree) \ {t} |-> tree[x]]
Take(s, n) == IF Len(s) <= n THEN s ELSE SubSeq(s, 1, n)

SeededTree == Put(Put(EmptyTree, "T", Prim("CS", "Text", <<"A", "B">>)),
                  "S", SeqEl(<< Put(EmptyTree, "T", Prim("CS", "Text", <<"A">>)) >>))
InitTree(i) == IF i = "seeded" THEN SeededTree ELSE EmptyTree

(* ---- actions (records of uniform shape so that TLC can compare them) ---- *)
Act(a, k, v, vr, n) == [a |-> a, k |-> k, v |-> v, vr |-> vr, n |-> n]
(* PrimitiveValue alphabet for Set / SetIfMissing / Replace *)
PVals == { [k |-> "Empty", v |-> <<>>], [k |-> "Str", v |-> <<"A">>],
           [k |-> "Strs", v |-> <<"A", "B">>], [k |-> "U16", v |-> <<"1", "2">>] }
PValsSmall == { [k |-> "Empty", v |-> <<>>], [k |-> "Str", v |-> <<"B">>] }
AllActs ==
       { Act("Remove", "", <<>>, "", 0), Act("Empty", "", <<>>, "", 0) }
  \cup { Act("SetVr", "", <<>>, vr, 0) : vr \in {"LO", "US"} }
  \cup { Act("Set", p.k, p.v, "", 0) : p \in PVals }
  \cup { Act("SetIfMissing", p.k, p.v, "", 0) : p \in PValsSmall }
  \cup { Act("Replace", p.k, p.v, "", 0) : p \in PValsSmall }
  \cup { Act("SetStr", "", <<"A">>, "", 0), Act("SetStrIfMissing", "", <<"B">>, "", 0),
         Act("ReplaceStr", "", <<"B">>, "", 0), Act("PushStr", "", <<"B">>, "", 0) }
  \cup { Act("PushI32", "", <<"1">>, "", 0), Act("PushU32", "", <<"2">>, "", 0),
         Act("PushI16", "", <<"1">>, "", 0), Act("PushU16", "", <<"2">>, "", 0),
         Act("PushF32", "", <<"1">>, "", 0), Act("PushF64", "", <<"2">>, "", 0) }
  \cup { Act("Truncate", "", <<>>, "", n) : n \in {0, 1} }
Acts == { a \in AllActs : a.a \in ActNames }

Constructive(act) == act.a \in {"Set", "SetStr", "SetIfMissing", "SetStrIfMissing", "PushStr",
                                "PushI32", "PushU32", "PushI16", "PushU16", "PushF32", "PushF64"}   \* D2
PushNumKind == [PushI32 |-> "I32", PushU32 |-> "U32", PushI16 |-> "I16", PushU16 |-> "U16",
                PushF32 |-> "F32", PushF64 |-> "F64"]
IsPushNum(act) == act.a \in DOMAIN PushNumKind

(* ---- selectors: sequence of [tag, item]; item is meaningful on all but the last ---- *)
Step(t, i) == [tag |-> t, item |-> i]
Steps == { Step(t, i) : t \in StepTags, i \in StepItems }
Sels == UNION { { p \o << Step(t, 0) >> : p \in [1..d -> Steps], t \in LeafTags } : d \in 0..(MaxSelDepth - 1) }
Ops == { [sel |-> s, act |-> a] : s \in Sels, a \in Acts }

(* ---- the value a Set-like action stores ---- *)
ClassOf(k) == IF k \in {"Str", "Strs"} THEN "Text" ELSE k
ActValue(act) == IF act.a \in {"SetStr", "SetStrIfMissing", "ReplaceStr"}
                 THEN [k |-> "Text", v |-> act.v]
                 ELSE [k |-> ClassOf(act.k), v |-> act.v]
(* D6: an empty value given to a sequence attribute is the empty sequence *)
ValueEl(vr, val) == IF vr = "SQ" /\ val.k = "Empty" THEN SeqEl(<<>>) ELSE Prim(vr, val.k, val.v)
(* VR of a created attribute: the dictionary VR, else (undocumented, as mem.rs) *)
(* UN for Set*/PushStr and the natural VR of the number type for Push<num>      *)
NewVR(tag, act) == IF DictVR[tag] # "UN" THEN DictVR[tag]
                   ELSE IF IsPushNum(act) THEN NumVR[PushNumKind[act.a]] ELSE "UN"

OkR(tree) == [ok |-> TRUE, tree |-> tree]
FailR(tree) == [ok |-> FALSE, tree |-> tree]     \* D1: tree is the UNCHANGED receiver

(* ---- the leaf step ---- *)
Leaf(tree, tag, act) ==
  LET has == Has(tree, tag)
      el  == tree[tag]
  IN CASE act.a = "Remove" -> OkR(IF has THEN Del(tree, tag) ELSE tree)                               \* D3
       [] act.a = "Empty"  -> OkR(IF has THEN Put(tree, tag, IF el.vr = "SQ" THEN SeqEl(<<>>)
                                                             ELSE Prim(el.vr, "Empty", <<>>))
                                  ELSE tree)                                                       \* D4
       [] act.a = "SetVr"  -> OkR(IF has THEN Put(tree, tag, [el EXCEPT !.vr = act.vr]) ELSE tree)    \* D5
       [] act.a \in {"Set", "SetStr"} ->
            OkR(Put(tree, tag, ValueEl(IF has THEN el.vr ELSE NewVR(tag, act), ActValue(act))))    \* D6
       [] act.a \in {"SetIfMissing", "SetStrIfMissing"} ->
            OkR(IF has THEN tree ELSE Put(tree, tag, ValueEl(NewVR(tag, act), ActValue(act))))     \* D7
       [] act.a \in {"Replace", "ReplaceStr"} ->
            OkR(IF has THEN Put(tree, tag, ValueEl(el.vr, ActValue(act))) ELSE tree)               \* D8
       [] act.a = "PushStr" ->                                                                     \* D9
            IF ~has THEN OkR(Put(tree, tag, Prim(NewVR(tag, act), "Text", act.v)))
            ELSE IF el.k = "Seq" THEN FailR(tree)
            ELSE IF el.k = "Empty" THEN OkR(Put(tree, tag, Prim(el.vr, "Text", act.v)))
            ELSE IF el.k = "Text" THEN OkR(Put(tree, tag, Prim(el.vr, "Text", el.v \o act.v)))
            ELSE FailR(tree)                      \* "An error is returned if the current value is not textual"
       [] IsPushNum(act) ->                                                                        \* D9
            IF ~has THEN OkR(Put(tree, tag, Prim(NewVR(tag, act), PushNumKind[act.a], act.v)))
            ELSE IF el.k = "Seq" THEN FailR(tree)
            ELSE IF el.k = "Empty" THEN OkR(Put(tree, tag, Prim(el.vr, PushNumKind[act.a], act.v)))
            ELSE OkR(Put(tree, tag, Prim(el.vr, el.k, el.v \o act.v)))   \* text: as text; number: current type
       [] act.a = "Truncate" ->                                                                    \* D10
            IF ~has THEN OkR(tree)
            ELSE IF el.k = "Seq" THEN OkR(Put(tree, tag, [el EXCEPT !.items = Take(el.items, act.n)]))
            ELSE OkR(Put(tree, tag, [el EXCEPT !.v = Take(el.v, act.n)]))

(* ---- the whole operation: navigate, create if constructive (D2), apply ---- *)
RECURSIVE Walk(_, _, _)
Walk(tree, sel, act) ==
  IF Len(sel) = 1 THEN Leaf(tree, sel[1].tag, act)
  ELSE
    LET st   == sel[1]
        rest == Tail(sel)
        cons == Constructive(act)
    IN IF ~Has(tree, st.tag)
       THEN IF cons /\ DictVR[st.tag] \in {"SQ", "UN"} /\ st.item = 0
            THEN LET r == Walk(EmptyTree, rest, act)
                 IN IF r.ok THEN OkR(Put(tree, st.tag, SeqEl(<< r.tree >>))) ELSE FailR(tree)
            ELSE FailR(tree)
       ELSE LET el == tree[st.tag]
            IN IF el.k # "Seq" THEN FailR(tree)
               ELSE IF st.item < Len(el.items)
                    THEN LET r == Walk(el.items[st.item + 1], rest, act)
                         IN IF r.ok THEN OkR(Put(tree, st.tag, [el EXCEPT !.items[st.item + 1] = r.tree]))
                            ELSE FailR(tree)
                    ELSE IF st.item = Len(el.items) /\ cons
                    THEN LET r == Walk(EmptyTree, rest, act)
                         IN IF r.ok THEN OkR(Put(tree, st.tag, [el EXCEPT !.items = Append(el.items, r.tree)]))
                            ELSE FailR(tree)
                    ELSE FailR(tree)

Apply(tree, op) == Walk(tree, op.sel, op.act)

(* ---- labels for fingerprints: action family and the situation the operation meets ---- *)
Family(act) == IF IsPushNum(act) THEN "Push<number>"
               ELSE IF act.a \in {"Set", "SetStr"} THEN "Set/SetStr"
               ELSE IF act.a \in {"SetIfMissing", "SetStrIfMissing"} THEN "SetIfMissing/SetStrIfMissing"
               ELSE IF act.a \in {"Replace", "ReplaceStr"} THEN "Replace/ReplaceStr"
               ELSE act.a
LeafSit(tree, tag) == IF ~Has(tree, tag) THEN "leaf missing"
                      ELSE LET k == tree[tag].k
                           IN IF k \in NumKinds THEN "leaf numeric" ELSE "leaf " \o k
(* created: "" nothing created so far, "std" a sequence/item was created on the way, *)
(* "unk" a sequence was created under a private or unknown tag                       *)
Mark(created, tag) == IF DictVR[tag] = "UN" THEN "unk" ELSE IF created = "unk" THEN "unk" ELSE "std"
After(created) == IF created = "" THEN "" ELSE " (deeper in a path that had to be created)"
RECURSIVE SitW(_, _, _, _)
SitW(tree, sel, act, created) ==
  IF Len(sel) = 1
  THEN LeafSit(tree, sel[1].tag) \o (IF created = "unk" THEN " in a new sequence under a private/unknown tag"
                                     ELSE IF created = "std" THEN " in a newly created item" ELSE "")
  ELSE LET st == sel[1] IN
    IF ~Has(tree, st.tag)
    THEN IF ~Constructive(act) THEN "missing sequence"
         ELSE IF DictVR[st.tag] \notin {"SQ", "UN"} THEN "missing step tag is not a sequence attribute" \o After(created)
         ELSE IF st.item # 0 THEN "missing sequence, item index beyond next" \o After(created)
         ELSE SitW(EmptyTree, Tail(sel), act, Mark(created, st.tag))
    ELSE LET el == tree[st.tag] IN
         IF el.k # "Seq" THEN "step is not a sequence" \o After(created)
         ELSE IF st.item < Len(el.items) THEN SitW(el.items[st.item + 1], Tail(sel), act, created)
         ELSE IF st.item = Len(el.items) /\ Constructive(act)
              THEN SitW(EmptyTree, Tail(sel), act, IF created = "unk" THEN "unk" ELSE "std")
         ELSE IF Constructive(act) THEN "item index beyond next" \o After(created) ELSE "missing item"
Sit(tree, sel, act) == SitW(tree, sel, act, "")

(* ---- state machine ---- *)
VARIABLE tree
vars == <<tree>>

TagSeq == <<"N", "S", "T", "U", "V">>
SeqSum(s, F(_)) == LET G[i \in 0..Len(s)] == IF i = 0 THEN 0 ELSE G[i - 1] + F(s[i]) IN G[Len(s)]
RECURSIVE NumElems(_)
NumElems(t) == LET G[i \in 0..Len(TagSeq)] ==
                     IF i = 0 THEN 0
                     ELSE G[i - 1] + (IF TagSeq[i] \in DOMAIN t THEN 1 + SeqSum(t[TagSeq[i]].items, NumElems) ELSE 0)
               IN G[Len(TagSeq)]
RECURSIVE NumItems(_)
NumItems(t) == LET G[i \in 0..Len(TagSeq)] ==
                     IF i = 0 THEN 0
                     ELSE G[i - 1] + (IF TagSeq[i] \in DOMAIN t
                                      THEN Len(t[TagSeq[i]].items) + SeqSum(t[TagSeq[i]].items, NumItems) ELSE 0)
               IN G[Len(TagSeq)]

(* properties of one transition of the reference model, checked by TLC on every *)
(* transition it explores (Assert inside Next)                                   *)
RootTag(op) == op.sel[1].tag
OthersUntouched(t, op, r) ==               \* attributes other than the addressed root are untouched
  /\ \A x \in (DOMAIN t) \ {RootTag(op)} : x \in DOMAIN r.tree /\ r.tree[x] = t[x]
  /\ (DOMAIN r.tree) \ {RootTag(op)} = (DOMAIN t) \ {RootTag(op)}
FailUnchanged(t, op, r) == ~r.ok => r.tree = t
Measures(t, op, r) ==
  LET e0 == NumElems(t)  e1 == NumElems(r.tree)  i0 == NumItems(t)  i1 == NumItems(r.tree)
  IN IF Constructive(op.act)
     THEN e1 <= e0 + Len(op.sel) /\ i1 <= i0 + Len(op.sel) - 1     \* at most one element and one item per selector step
     ELSE e1 <= e0 /\ i1 <= i0                                     \* non-constructive actions never create
ConstructiveReachesLeaf(t, op, r) ==        \* after a successful Set*/Push* the selected attribute exists
  LET RECURSIVE Reach(_, _)
      Reach(tt, sel) == IF Len(sel) = 1 THEN Has(tt, sel[1].tag)
                        ELSE /\ Has(tt, sel[1].tag) /\ tt[sel[1].tag].k = "Seq"
                             /\ sel[1].item < Len(tt[sel[1].tag].items)
                             /\ Reach(tt[sel[1].tag].items[sel[1].item + 1], Tail(sel))
  IN (Constructive(op.act) /\ r.ok) => Reach(r.tree, op.sel)
StepProps(t, op, r) == /\ OthersUntouched(t, op, r) /\ FailUnchanged(t, op, r)
                       /\ Measures(t, op, r)
                       /\ ConstructiveReachesLeaf(t, op, r)

RECURSIVE WellFormed(_)
WellFormed(t) == \A x \in DOMAIN t :
                   /\ x \in DOMAIN DictVR
                   /\ DOMAIN t[x] = {"vr", "k", "v", "items"}
                   /\ (t[x].k = "Seq" => t[x].v = <<>> /\ \A i \in 1..Len(t[x].items) : WellFormed(t[x].items[i]))
                   /\ (t[x].k # "Seq" => t[x].items = <<>>)
TypeOK == WellFormed(tree)

Init == \E i \in Inits : tree = InitTree(i)
DoOk(op, r)   == /\ Assert(StepProps(tree, op, r), <<"StepProps violated", tree, op, r>>)
                 /\ tree' = r.tree
DoFail(op, r) == /\ Assert(StepProps(tree, op, r), <<"StepProps violated", tree, op, r>>)
                 /\ tree' = r.tree
Next == \E op \in Ops : LET r == Apply(tree, op) IN IF r.ok THEN DoOk(op, r) ELSE DoFail(op, r)
Spec == Init /\ [][Next]_vars

(* bounded exploration: number of elements + items (a measure of the tree)  *)
Size(t) == NumElems(t) + NumItems(t)
=============================================================================
