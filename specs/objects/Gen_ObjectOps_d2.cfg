CONSTANTS
  LeafTags = {"T", "S", "U"}
  StepTags = {"S", "U"}
  StepItems = {0, 1}
  MaxSelDepth = 2
  ActNames = {"Remove","Empty","SetVr","Set","SetStr","Replace","PushStr","PushU16","PushF32","Truncate"}
  Inits = {"empty"}
  MaxLen = 2
  Mode = "bfs"
SPECIFICATION GSpec
VIEW View
CHECK_DEADLOCK FALSE
