CONSTANTS
  Lens = {0, 1, 2, 3, 64}
  BaseTables = {"odd", "even", "mixed"}
  Targets = {"cls"}
  ActNames = {"Remove"}
  MaxLen = 0
  Mode = "files"
SPECIFICATION GSpec
VIEW View
CHECK_DEADLOCK FALSE
