----------------------------- MODULE Gen_FileMeta -----------------------------
(***************************************************************************)
(* Behaviour / case generator for C09.                                     *)
(*  "ops"   : BFS over FileMeta with history; every transition out of     *)
(*            every distinct (table, depth) is printed with the expected   *)
(*            table, group length, written size and element layout after   *)
(*            every step (VIEW hides the history).  The first operation    *)
(*            ranges over the full alphabet from every base table, later   *)
(*            ones over the Deep* alphabet from the DeepBases.             *)
(*  "tables": one case per table of the "one attribute varies" slices      *)
(*            (every attribute at every length of Lens / absent).          *)
(*  "files" : complete-file cases: table x preamble shape x entry point x  *)
(*            ReadPreamble option with the expected outcome (Preamble.tla) *)
(***************************************************************************)
EXTENDS FileMeta, Json

CONSTANTS MaxLen,        \* longest history
          Modes,         \* subset of {"ops", "tables", "files"}
          DeepBases, DeepTargets, DeepActNames,   \* alphabet used beyond the first operation
          FileBases      \* base tables used for complete-file cases
VARIABLES h, base

P == INSTANCE Preamble

Proj(t) == [f \in FieldSet |-> [p |-> t[f].p, n |-> t[f].n, s |-> t[f].s, c |-> t[f].c]]
Expect(t) == [tab |-> Proj(t), gl |-> GroupLength(t), written |-> WrittenLen(t), layout |-> Wire(t),
              reread |-> Proj(ReadBack(t))]
StepRec(op, r) == [target |-> op.target, act |-> op.act, ok |-> r.ok, exp |-> Expect(r.t)]

(* tables in which one attribute varies over Lens (and absent, for optional ones) *)
VaryOne(b) == { [BaseTable(b) EXCEPT ![f] = Built(n)] : f \in Required \cup Optional, n \in Lens }
         \cup { [BaseTable(b) EXCEPT ![f] = Absent] : f \in Optional \cup {"priv"} }
         \cup { [BaseTable(b) EXCEPT !["priv"] = Raw(n, "x")] : n \in Lens }
SliceTables == UNION { VaryOne(b) : b \in {"odd", "even"} }

(* data set variants of a complete file: "none" = empty data set, "pn" = only Patient Name  *)
(* with a value of pn characters (Implicit VR LE: 8-byte header + value), "full" = the      *)
(* driver's 4-element data set.  For the shortest table ("tiny", Implicit VR LE) the        *)
(* variants put the preamble-less file below, at and above the 132-byte detection window.   *)
BareLen(b, ds) == 4 + WrittenLen(BaseTable(b)) + (IF ds.kind = "pn" THEN 8 + ds.pn ELSE 0)   \* lower bound for "full"
DataSets(b) == IF b = "tiny"
               THEN { [kind |-> "none", pn |-> 0], [kind |-> "full", pn |-> 0] }
                    \cup { [kind |-> "pn", pn |-> n] : n \in {2, 36, 38, 40, 42, 64} }
               ELSE { [kind |-> "full", pn |-> 0] }
FileCase(b, ds, c) == [kind |-> "file", base |-> b, init |-> Expect(BaseTable(b)), ds |-> ds,
                       bare |-> IF ds.kind = "full" THEN 0 ELSE BareLen(b, ds),
                       shape |-> c.shape, entry |-> c.entry, option |-> c.option, outcome |-> c.outcome, size |-> c.size]

GInit == /\ Init /\ h = <<>>
         /\ base = (CHOOSE b \in BaseTables : BaseTable(b) = tab)
         /\ ("tables" \in Modes /\ base = (CHOOSE b \in BaseTables : TRUE)) => \A t \in SliceTables : PrintT(<<"CASE", ToJson([kind |-> "ops", base |-> "slice", init |-> Expect(t), steps |-> <<>>])>>)
         /\ ("files" \in Modes /\ base \in FileBases) => \A ds \in DataSets(base) : \A c \in P!Cases(BareLen(base, ds) + (IF ds.kind = "full" THEN 200 ELSE 0)) :
                                                            PrintT(<<"CASE", ToJson(FileCase(base, ds, c))>>)
OpsAt(d) == IF d = 0 THEN Ops ELSE { op \in Ops : op.target \in DeepTargets /\ op.act.a \in DeepActNames }
GNext == /\ "ops" \in Modes /\ Len(h) < MaxLen
         /\ (Len(h) = 0 \/ base \in DeepBases)
         /\ \E op \in OpsAt(Len(h)) :
              LET r  == Apply(tab, op)
                  h2 == Append(h, StepRec(op, r))
              IN /\ tab' = r.t /\ gl' = GroupLength(r.t) /\ h' = h2 /\ base' = base
                 /\ PrintT(<<"CASE", ToJson([kind |-> "ops", base |-> base, init |-> Expect(BaseTable(base)), steps |-> h2])>>)
GSpec == GInit /\ [][GNext]_<<tab, gl, h, base>>
View == <<tab, Len(h), base>>
=============================================================================
