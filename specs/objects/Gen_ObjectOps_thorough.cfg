CONSTANTS
  LeafTags = {"T", "N", "S", "V", "U"}
  StepTags = {"S", "U", "T"}
  StepItems = {0, 1}
  MaxSelDepth = 3
  ActNames = {"Remove","Empty","SetVr","Set","SetStr","SetIfMissing","SetStrIfMissing","Replace","ReplaceStr","PushStr","PushI32","PushU32","PushI16","PushU16","PushF32","PushF64","Truncate"}
  Inits = {"empty", "seeded"}
  MaxLen = 3
  Mode = "bfs"
  DeepLeafTags = {"T", "S"}
  DeepStepTags = {"S", "U"}
  DeepSelDepth = 2
  DeepActNames = {"Remove","Empty","Set","SetStr","PushStr","PushU16","Truncate"}
  DeepInits = {"empty"}
SPECIFICATION GSpec
VIEW View
CHECK_DEADLOCK FALSE
