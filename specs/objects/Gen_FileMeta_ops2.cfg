CONSTANTS
  Lens = {0, 1, 2, 3, 64}
  BaseTables = {"minimal", "mixed"}
  Targets = {"cls", "ts", "ivn", "src", "pcu", "priv", "other2"}
  ActNames = {"Remove","Empty","Truncate","SetStr","SetIfMissing","Replace","PushStr"}
  MaxLen = 2
  Mode = "ops"
SPECIFICATION GSpec
VIEW View
CHECK_DEADLOCK FALSE
