----------------------------- MODULE MC_FileMeta -----------------------------
(* exhaustive exploration of FileMeta up to MaxSteps operations from every base table *)
EXTENDS FileMeta
CONSTANT MaxSteps
VARIABLE k
MInit == Init /\ k = 0
MApplyOk(op) == ApplyOk(op) /\ k' = k + 1
MApplyFail(op) == ApplyFail(op) /\ k' = k + 1
MNext == k < MaxSteps /\ \E op \in Ops : MApplyOk(op) \/ MApplyFail(op)
MSpec == MInit /\ [][MNext]_<<tab, gl, k>>
=============================================================================
