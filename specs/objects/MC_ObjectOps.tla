---------------------------- MODULE MC_ObjectOps ----------------------------
(* exhaustive exploration of the reference model up to MaxSteps operations; *)
(* StepProps is asserted on every transition (ObjectOps!DoOp), TypeOK is an *)
(* invariant.                                                               *)
EXTENDS ObjectOps
CONSTANT MaxSteps
VARIABLE n
MInit == Init /\ n = 0
MNext == n < MaxSteps /\ Next /\ n' = n + 1
MSpec == MInit /\ [][MNext]_<<tree, n>>
=============================================================================
