CONSTANTS
  LeafTags = {"T", "N", "S", "V", "U"}
  StepTags = {"S", "U"}
  StepItems = {0, 1}
  MaxSelDepth = 2
  ActNames = {"Remove","Empty","SetVr","Set","SetStr","SetIfMissing","SetStrIfMissing","Replace","ReplaceStr","PushStr","PushI32","PushU32","PushI16","PushU16","PushF32","PushF64","Truncate"}
  Inits = {"empty", "seeded"}
  MaxLen = 30
  Mode = "sim"
  DeepLeafTags = {"T"}
  DeepStepTags = {"S"}
  DeepSelDepth = 1
  DeepActNames = {"Remove"}
  DeepInits = {"empty"}
SPECIFICATION GSpec
CHECK_DEADLOCK FALSE
