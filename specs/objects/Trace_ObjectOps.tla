--------------------------- MODULE Trace_ObjectOps ---------------------------
(***************************************************************************)
(* Trace validator for C13 (implementation -> spec).  The driver applies   *)
(* seeded random operation histories (length 30, selectors of depth <= 3   *)
(* over standard / private / unknown tags) to a real InMemDicomObject and  *)
(* logs, per operation, the projected object before and after and Ok/Err;  *)
(* at the end of a history it writes the object in every writable transfer *)
(* syntax and logs the projection of what it read back.  Every event is    *)
(* judged here with the operators of the reference model:                  *)
(*   op : [ok, tree] = Apply(before, op)        (ObjectOps)                *)
(*   rt : Writable(before, ts) => read back = RT(before, ts)  (ObjectRT)   *)
(* Comparison is StrictEq: primitive/sequence shape, VR of primitive       *)
(* elements, value items as text (byte lists up to one pad byte), nesting. *)
(* Value kinds and the VR of sequence-valued elements are not compared     *)
(* (the documentation is silent about them).                               *)
(***************************************************************************)
EXTENDS ObjectRT, Json, IOUtils

Rec == ndJsonDeserialize(IOEnv.TRACE)
VARIABLE l
tvars == <<tree, l>>

EqPad(e, g) == \/ e = g
               \/ /\ Len(e) % 2 = 1 /\ Len(g) = Len(e) + 1 /\ SubSeq(g, 1, Len(e)) = e
                  /\ g[Len(g)] \in {"0", "32"}
RECURSIVE StrictEq(_, _)
StrictEq(e, g) ==
  /\ DOMAIN e = DOMAIN g
  /\ \A x \in DOMAIN e :
       IF e[x].k = "Seq"
       THEN /\ g[x].k = "Seq" /\ Len(g[x].items) = Len(e[x].items)
            /\ \A i \in 1..Len(e[x].items) : StrictEq(e[x].items[i], g[x].items[i])
       ELSE /\ g[x].k # "Seq" /\ g[x].vr = e[x].vr
            /\ IF e[x].k = "U8" /\ g[x].k = "U8" THEN EqPad(e[x].v, g[x].v) ELSE e[x].v = g[x].v

TInit == l = 1 /\ tree = <<>> /\ TLCSet(1, 1)
Ev(e) == l <= Len(Rec) /\ Rec[l].ev = e /\ l' = l + 1
R == Rec[l]

TReset == Ev("reset") /\ tree' = R.tree
TOp == /\ Ev("op")
       /\ LET r == Apply(R.before, [sel |-> R.sel, act |-> R.act])
          IN R.ok = r.ok /\ StrictEq(r.tree, R.tree)
       /\ tree' = R.tree
TRt == /\ Ev("rt")
       /\ Writable(R.before, R.ts) => (R.res = "ok" /\ StrictEq(RT(R.before, R.ts), R.tree))
       /\ UNCHANGED tree
TNext == TReset \/ TOp \/ TRt
TSpec == TInit /\ [][TNext]_tvars

Annot(rec) == IF rec.ev = "op"
              THEN [ev |-> "op", fam |-> Family(rec.act), sit |-> Sit(rec.before, rec.sel, rec.act),
                    model |-> Apply(rec.before, [sel |-> rec.sel, act |-> rec.act]), rec |-> rec]
              ELSE IF rec.ev = "rt"
              THEN [ev |-> "rt", shape |-> Shape(rec.before),
                    model |-> IF Writable(rec.before, rec.ts) THEN RT(rec.before, rec.ts) ELSE "skip", rec |-> rec]
              ELSE [ev |-> rec.ev, rec |-> rec]
Track == TLCSet(1, IF l > TLCGet(1) THEN l ELSE TLCGet(1))
Accepted == IF TLCGet(1) = Len(Rec) + 1 THEN TRUE
            ELSE Print(<<"REJECTED", TLCGet(1), ToJson(Annot(Rec[TLCGet(1)]))>>, FALSE)
=============================================================================
