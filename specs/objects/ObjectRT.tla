------------------------------ MODULE ObjectRT ------------------------------
(***************************************************************************)
(* C13, second half: "every object reachable this way ... can be written   *)
(* in every writable transfer syntax and reads back equal" up to the       *)
(* documented normalisations.  RT(tree, ts) is the object expected after   *)
(* writing `tree` in transfer syntax class ts and reading it back:         *)
(*   "evr" Explicit VR (LE, BE, Deflated LE): the VR travels with the      *)
(*         element; a value under VR UN comes back as the raw bytes;       *)
(*   "ivr" Implicit VR LE: the VR comes from the data dictionary; an       *)
(*         attribute the dictionary does not know comes back as UN with    *)
(*         the raw (little endian) bytes  (PS3.5 7.1.3, 6.2.2).            *)
(*   A zero-length value comes back as the empty value.  Trailing padding  *)
(*   is not significant (the driver compares byte lists up to one pad).    *)
(* Premises (Writable): the value kind is one the VR can carry (text under *)
(* a text VR or UN, numbers under their own binary VR, a sequence under    *)
(* SQ); for "ivr" additionally the element's VR is the dictionary's.       *)
(***************************************************************************)
EXTENDS ObjectOps

(* character codes of the text alphabet (ISO 646) *)
Code == [A |-> 65, B |-> 66]
CodeOf(s) == IF s = "A" THEN <<"65">> ELSE IF s = "B" THEN <<"66">>
             ELSE IF s = "1" THEN <<"49">> ELSE IF s = "2" THEN <<"50">>
             ELSE IF s = "AB" THEN <<"65", "66">> ELSE <<"63">>
RECURSIVE TextBytes(_)
TextBytes(v) == IF Len(v) = 0 THEN <<>>
                ELSE IF Len(v) = 1 THEN CodeOf(v[1])
                ELSE CodeOf(v[1]) \o <<"92">> \o TextBytes(Tail(v))        \* values joined by backslash
(* little endian / IEEE 754 encodings of the numbers 1 and 2 *)
NumBytes(k, s) ==
  CASE k \in {"U16", "I16"} -> <<s, "0">>
    [] k \in {"U32", "I32"} -> <<s, "0", "0", "0">>
    [] k = "F32" -> IF s = "1" THEN <<"0", "0", "128", "63">> ELSE <<"0", "0", "0", "64">>
    [] k = "F64" -> IF s = "1" THEN <<"0", "0", "0", "0", "0", "0", "240", "63">>
                    ELSE <<"0", "0", "0", "0", "0", "0", "0", "64">>
RECURSIVE NumsBytes(_, _)
NumsBytes(k, v) == IF Len(v) = 0 THEN <<>> ELSE NumBytes(k, v[1]) \o NumsBytes(k, Tail(v))
RawBytes(el) == IF el.k = "Text" THEN TextBytes(el.v) ELSE NumsBytes(el.k, el.v)

CompatibleEl(el) ==
  CASE el.k = "Seq"    -> el.vr = "SQ"
    [] Len(el.v) = 0   -> el.vr # "SQ"
    [] el.k = "Text"   -> el.vr \in TextVRs \cup {"UN"} /\ \A i \in 1..Len(el.v) : el.v[i] \in {"A", "B", "AB", "1", "2"}
    [] OTHER           -> el.vr = NumVR[el.k] /\ \A i \in 1..Len(el.v) : el.v[i] \in {"1", "2"}

RECURSIVE Writable(_, _)
Writable(t, ts) == \A x \in DOMAIN t :
   /\ CompatibleEl(t[x])
   /\ (ts = "ivr" /\ t[x].k # "Seq") => (DictVR[x] = "UN" \/ t[x].vr = DictVR[x])
   /\ \A i \in 1..Len(t[x].items) : Writable(t[x].items[i], ts)

RECURSIVE RT(_, _)
RTEl(x, el, ts) ==
  IF el.k = "Seq" THEN SeqEl([i \in 1..Len(el.items) |-> RT(el.items[i], ts)])
  ELSE LET vr == IF ts = "ivr" THEN DictVR[x] ELSE el.vr
       IN IF Len(el.v) = 0 THEN Prim(vr, "Empty", <<>>)
          ELSE IF vr = "UN" THEN Prim("UN", "U8", RawBytes(el))
          ELSE Prim(vr, el.k, el.v)
RT(t, ts) == [x \in DOMAIN t |-> RTEl(x, t[x], ts)]

(* a coarse label of the object for fingerprints of read-back failures *)
RECURSIVE HasSeqUnder(_, _)
HasSeqUnder(t, S) == \E x \in DOMAIN t : (t[x].k = "Seq" /\ (x \in S \/ \E i \in 1..Len(t[x].items) : HasSeqUnder(t[x].items[i], S)))
Shape(t) == IF HasSeqUnder(t, {"V", "U"}) THEN "sequence under a private/unknown tag"
            ELSE IF HasSeqUnder(t, {"S"}) THEN "nested" ELSE "flat"

RTCase(t) == [w |-> TRUE, shape |-> Shape(t),
              ivr |-> IF Writable(t, "ivr") THEN RT(t, "ivr") ELSE "skip",
              evr |-> IF Writable(t, "evr") THEN RT(t, "evr") ELSE "skip"]
=============================================================================
