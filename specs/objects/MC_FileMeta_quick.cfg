CONSTANTS
  Lens = {0, 1, 2, 3, 64}
  BaseTables = {"odd", "mixed"}
  Targets = {"cls", "ts", "ivn", "src", "pcu", "priv", "other2", "nested"}
  ActNames = {"Remove","Empty","SetVr","Truncate","PushStr","PushU16","SetStr","Set","SetIfMissing","SetStrIfMissing","Replace","ReplaceStr"}
  MaxSteps = 2
SPECIFICATION MSpec
INVARIANTS TypeOK GroupLengthOK LayoutAgrees RoundTrip
CHECK_DEADLOCK FALSE
