------------------------------- MODULE Gen_Conv -------------------------------
(***************************************************************************)
(* C11 case generator and model check of Conv: the case table              *)
(*   stored variant x contents class x target type x single/multi          *)
(* Kind = "int": integer variants at the boundaries of their own and of    *)
(* every target type, lists with a non-representable item at each          *)
(* position, empty lists of every variant; Kind = "text": numeric strings  *)
(* at the target boundaries with space/NUL padding, sign forms and leading *)
(* zeros, and non-numeric strings; Kind = "float": float conversions.      *)
(* SpecOk states theorems of the specification, Emit prints each case      *)
(* with the expected result.                                               *)
(***************************************************************************)
EXTENDS Conv, TLC, Json
CONSTANT Kind

V(var, items) == [var |-> var, items |-> items]
TypeBounds(T) == {MaxN(T), NSucc(MaxN(T)), MinN(T), NPred(MinN(T))}
Boundary(S) == {n \in {MinN(S), NSucc(MinN(S)), NFromInt(-1), NZero, NFromInt(1), NPred(MaxN(S)), MaxN(S)}
                       \cup UNION {TypeBounds(T) : T \in IntTypes} : InRange(n, S)}

IntCases ==
    (* one item *)
    {[v |-> V(S, <<n>>), T |-> T, multi |-> mu] : S \in IntVars, n \in UNION {Boundary(VarType(X)) : X \in IntVars},
                                                   T \in IntTypes, mu \in BOOLEAN}
    (* three items, the middle or the last one possibly not representable; single = first item *)
    \cup {[v |-> V(S, <<NZero, x, NFromInt(1)>>), T |-> T, multi |-> mu] : S \in IntVars, x \in UNION {TypeBounds(T2) : T2 \in IntTypes},
                                                   T \in IntTypes, mu \in BOOLEAN}
    \cup {[v |-> V(S, <<x, NZero>>), T |-> T, multi |-> mu] : S \in IntVars, x \in UNION {TypeBounds(T2) : T2 \in {"u8", "i16", "i64"}},
                                                   T \in IntTypes, mu \in BOOLEAN}
    (* no items *)
    \cup {[v |-> V(S, <<>>), T |-> T, multi |-> mu] : S \in IntVars \cup {"Empty", "Strs", "F32", "F64", "Tags", "Date", "Time", "DateTime"},
                                                   T \in IntTypes, mu \in BOOLEAN}
IntCasesOk == {c \in IntCases : WellTyped(c.v)}
(* variants that do not convert to integers (kept in separate sets: item shapes differ) *)
IntCasesF == {[v |-> V("F32", <<FInt(NFromInt(1))>>), T |-> T, multi |-> mu] : T \in {"u8", "i32"}, mu \in BOOLEAN}
             \cup {[v |-> V("F64", <<FInt(NFromInt(1))>>), T |-> T, multi |-> mu] : T \in {"u16", "i64"}, mu \in BOOLEAN}
IntCasesO == {[v |-> V(O, <<1, 2>>), T |-> T, multi |-> mu] : O \in OpaqueVars, T \in {"u16", "i64"}, mu \in BOOLEAN}

Pads == {<< <<>>, <<>> >>, << <<32>>, <<>> >>, << <<>>, <<32>> >>, << <<>>, <<0>> >>, << <<32, 32>>, <<32, 0>> >>, << <<>>, <<0, 32, 32>> >>}
SignForms(n) == {NText(n)} \cup (IF n.neg THEN {<<45, 48, 48>> \o [i \in 1..Len(n.d) |-> 48 + n.d[i]]}
                                 ELSE {<<43>> \o NText(n), <<48, 48>> \o NText(n)})
NumTexts(T) == UNION {{p[1] \o s \o p[2] : p \in Pads, s \in SignForms(n)}
                      : n \in {NPred(MinN(T)), MinN(T), NFromInt(-1), NZero, NFromInt(1), MaxN(T), NSucc(MaxN(T))}}
NonNumeric == {<<>>, <<32>>, <<97, 98, 99>>, <<49, 32, 50>>, <<49, 46, 48>>, <<43>>, <<45>>, <<48, 120, 49, 48>>, <<49, 101, 51>>,
               <<1633>>, <<45, 45, 49>>, <<49, 44, 53>>, <<49, 95, 48>>, <<65297>>, <<49, 45>>, <<43, 45, 49>>}
TextCases ==
    UNION {{[v |-> V("Str", <<t>>), T |-> T, multi |-> mu] : t \in NumTexts(T), mu \in BOOLEAN} : T \in IntTypes}
    \cup UNION {{[v |-> V("Strs", <<t, <<49>> >>), T |-> T, multi |-> mu] : t \in NumTexts(T), mu \in BOOLEAN} : T \in IntTypes}
    \cup UNION {{[v |-> V("Strs", << <<55>>, t>>), T |-> T, multi |-> mu] : t \in NumTexts(T), mu \in BOOLEAN} : T \in {"u8", "i16", "u64", "i64"}}
    \cup {[v |-> V("Str", <<t>>), T |-> T, multi |-> mu] : t \in NonNumeric, T \in {"u8", "i64"}, mu \in BOOLEAN}
    \cup {[v |-> V("Strs", <<t, <<49>> >>), T |-> T, multi |-> mu] : t \in NonNumeric, T \in {"u16", "i32"}, mu \in BOOLEAN}
    \cup {[v |-> V("Strs", << <<49>>, t>>), T |-> T, multi |-> mu] : t \in NonNumeric, T \in {"u32", "isize"}, mu \in BOOLEAN}
TextCasesOk == {c \in TextCases : ~IntUndecided(c.v, c.T, c.multi)}

F15 == FBits("3fc00000")   NaN32 == FBits("7fc00001")   Inf32 == FBits("7f800000")   NZ32 == FBits("80000000")
D15 == FBits("3ff8000000000000")   NaN64 == FBits("7ff8000000000001")   NZ64 == FBits("8000000000000000")
Big64 == FBits("7e37e43c8800759c")
FloatSrcInts == {NZero, NFromInt(1), NFromInt(-1), Pos(P24), Pos(DAdd(P24, <<1>>)), Neg(P24), Pos(P53), Pos(DAdd(P53, <<1>>)), Neg(P53)}
FloatTexts == {<<49>>, <<32, 49, 50, 32>>, <<45, 54, 46, 55, 53, 32>>, <<49, 101, 51>>, <<97, 98, 99>>, <<>>, <<49, 54, 55, 55, 55, 50, 49, 55>>,
               <<45, 49, 54, 55, 55, 55, 50, 49, 54, 0>>, <<49, 32, 50>>, <<48, 120, 49>>}
FloatValsN ==
    {V(S, <<n>>) : S \in IntVars, n \in FloatSrcInts \cup UNION {{MinN(VarType(X)), MaxN(VarType(X))} : X \in IntVars}}
    \cup {V(S, <<NZero, n, NFromInt(1)>>) : S \in {"U32", "I64", "U64"}, n \in {Pos(P24), Pos(DAdd(P24, <<1>>))}}
    \cup {V(S, <<>>) : S \in IntVars \cup {"Empty", "Strs", "F32", "F64", "Tags", "Date", "Time", "DateTime"}}
FloatValsF ==
    {V("F32", <<f>>) : f \in {FInt(NZero), FInt(NFromInt(-3)), FInt(Pos(P24)), F15, NaN32, Inf32, NZ32}}
    \cup {V("F32", <<F15, FInt(NFromInt(2)), NaN32>>), V("F64", <<D15, FInt(Pos(P53)), NaN64, FInt(NFromInt(-7))>>)}
    \cup {V("F64", <<f>>) : f \in {FInt(Pos(P53)), FInt(NFromInt(-7)), FInt(Pos(DAdd(P24, <<1>>))), D15, NaN64, NZ64, Big64}}
FloatValsT ==
    {V("Str", <<t>>) : t \in FloatTexts}
    \cup {V("Strs", <<t, <<50>> >>) : t \in FloatTexts} \cup {V("Strs", << <<50>>, t>>) : t \in FloatTexts}
FloatValsO == {V(O, <<1, 2>>) : O \in OpaqueVars}
FloatCasesOf(S) == {c \in {[v |-> v, w |-> w, multi |-> mu] : v \in S, w \in {32, 64}, mu \in BOOLEAN} :
                      WellTyped(c.v) /\ ~FloatUndecided(c.v, c.w, c.multi)}

VARIABLE c
vars == <<c>>
Init == CASE Kind = "int" -> c \in IntCasesOk \/ c \in IntCasesF \/ c \in IntCasesO
             [] Kind = "text" -> c \in TextCasesOk
             [] Kind = "float" -> \/ c \in FloatCasesOf(FloatValsN) \/ c \in FloatCasesOf(FloatValsF)
                                  \/ c \in FloatCasesOf(FloatValsT) \/ c \in FloatCasesOf(FloatValsO)
Next == UNCHANGED c
Spec == Init /\ [][Next]_vars

IntRes(x) == IF x.multi THEN ToMultiInt(x.v, x.T) ELSE ToInt(x.v, x.T)
FloatRes(x) == IF x.multi THEN ToMultiFloat(x.v, x.w) ELSE ToFloat(x.v, x.w)

(* theorems of the specification *)
SpecOk ==
    CASE Kind = "int" ->
           /\ WellTyped(c.v)
           /\ (c.v.var \in IntVars /\ c.multi) =>
                 LET r == ToMultiInt(c.v, c.T) IN
                   /\ r.ok <=> \A i \in 1..Len(c.v.items) : InRange(c.v.items[i], c.T)
                   /\ r.ok => r.ns = c.v.items                       \* exact, one per item, in order
           /\ (c.v.var \in IntVars /\ ~c.multi /\ Len(c.v.items) > 0) =>
                 LET r == ToInt(c.v, c.T) IN (r.ok <=> InRange(c.v.items[1], c.T)) /\ (r.ok => r.n = c.v.items[1])
           /\ (c.v.var \in IntVars /\ c.T = VarType(c.v.var) /\ c.multi) => ToMultiInt(c.v, c.T).ok   \* own type always fits
           /\ (Len(c.v.items) = 0 /\ c.multi /\ c.v.var \in IntVars \cup TextVars \cup {"Empty"}) => ToMultiInt(c.v, c.T) = OkInts(<<>>)
           /\ (Len(c.v.items) = 0 /\ ~c.multi) => ~ToInt(c.v, c.T).ok
      [] Kind = "text" ->
           /\ \A i \in 1..Len(c.v.items) : LET p == ParseIntText(c.v.items[i]) IN
                 p.ok => (IsN(p.n) /\ ParseIntText(NText(p.n)) = p /\ ParseIntText(<<32>> \o NText(p.n) \o <<0, 32>>) = p)
           /\ ToInt(c.v, c.T).ok => InRange(ToInt(c.v, c.T).n, c.T)
      [] Kind = "float" ->
           /\ (c.multi /\ FloatRes(c).ok) => Len(FloatRes(c).fs) = Len(c.v.items)
           /\ (c.multi /\ c.v.var \in FloatVars /\ FBitsOf(c.v.var) = c.w) => FloatRes(c) = OkFs(c.v.items)   \* identity

Emit ==
    IF Kind = "float"
    THEN PrintT(<<"CASE", ToJson([kind |-> "float", v |-> c.v, w |-> c.w, multi |-> c.multi, res |-> FloatRes(c)])>>)
    ELSE PrintT(<<"CASE", ToJson([kind |-> "int", v |-> c.v, T |-> c.T, multi |-> c.multi, res |-> IntRes(c)])>>)
=============================================================================
