CONSTANTS MaxSteps = 3 Record = FALSE
SPECIFICATION Spec
INVARIANT TypeOk
INVARIANT OpLaws
INVARIANT ConvLaw
CHECK_DEADLOCK FALSE
