---------------------------- MODULE Gen_DateTime ----------------------------
(***************************************************************************)
(* C12 case generator and model check of DateTime.  One cfg per family     *)
(* (constant Kind): "date" (all partial dates of the years in Years),      *)
(* "time" (all hours, all hour/minute pairs, all hour/minute/second        *)
(* triples with the second in Secs, fractions of 1..6 digits), "dt"        *)
(* (date-times: dates x times x offsets), "range" (range texts).  Every    *)
(* state is one case; SpecOk holds the theorems of the specification       *)
(* (parse after encode, reported length, earliest/latest are the tight     *)
(* bounds of the instants a value denotes), Emit prints the case with the  *)
(* results expected by the specification.                                  *)
(***************************************************************************)
EXTENDS DateTime, TLC, Json
CONSTANTS Kind, Years, Secs

DA(dprec, y, m, d) == [V0 EXCEPT !.kind = "DA", !.dprec = dprec, !.y = y, !.m = m, !.d = d]
TM(tprec, h, mi, s, f, fp) == [V0 EXCEPT !.kind = "TM", !.tprec = tprec, !.h = h, !.mi = mi, !.s = s, !.f = f, !.fp = fp]

DateVals == {DA("Y", y, 0, 0) : y \in Years}
            \cup {DA("M", y, m, 0) : y \in Years, m \in 1..12}
            \cup UNION {{DA("D", y, m, d) : d \in 1..DaysInMonth(y, m)} : y \in Years, m \in 1..12}

Fracs(fp) == {0, 1, Pow10(fp) - 1, Pow10(fp) \div 3}
FracBases == {<<0, 0, 0>>, <<23, 59, 59>>, <<23, 59, 60>>, <<12, 30, 15>>}
TimeVals == {TM("h", h, 0, 0, 0, 0) : h \in 0..23}
            \cup {TM("m", h, mi, 0, 0, 0) : h \in 0..23, mi \in 0..59}
            \cup {TM("s", h, mi, s, 0, 0) : h \in 0..23, mi \in 0..59, s \in Secs}
            \cup UNION {{TM("f", b[1], b[2], b[3], f, fp) : f \in Fracs(fp), b \in FracBases} : fp \in 1..6}

(* date-times *)
DtYears == {0, 1999, 2024, 9999}
DtDates == {DA("Y", y, 0, 0) : y \in DtYears}
           \cup {DA("M", y, m, 0) : y \in DtYears, m \in {1, 2, 12}}
           \cup UNION {{DA("D", y, m, d) : d \in {1, DaysInMonth(y, m)}} : y \in DtYears, m \in {1, 2, 12}}
DtTimes == {TM("h", 0, 0, 0, 0, 0), TM("h", 23, 0, 0, 0, 0), TM("m", 23, 59, 0, 0, 0), TM("s", 0, 0, 0, 0, 0),
            TM("s", 23, 59, 60, 0, 0), TM("f", 23, 59, 59, 999999, 6), TM("f", 12, 0, 0, 5, 1), TM("f", 1, 2, 3, 45, 3),
            TM("f", 23, 59, 60, 0, 2)}
Offsets == {0, 14 * 3600, -12 * 3600, 5 * 3600 + 1800, -(3 * 3600 + 1800), 3600, -5 * 3600, 60, -60}
DT(date, hasTime, time, tz, off) ==
    [kind |-> "DT", dprec |-> date.dprec, y |-> date.y, m |-> date.m, d |-> date.d,
     tprec |-> IF hasTime THEN time.tprec ELSE "none", h |-> IF hasTime THEN time.h ELSE 0,
     mi |-> IF hasTime THEN time.mi ELSE 0, s |-> IF hasTime THEN time.s ELSE 0,
     f |-> IF hasTime THEN time.f ELSE 0, fp |-> IF hasTime THEN time.fp ELSE 0, tz |-> tz, off |-> off]
DtVals == {DT(dd, FALSE, V0, FALSE, 0) : dd \in DtDates}
          \cup {DT(dd, FALSE, V0, TRUE, o) : dd \in DtDates, o \in Offsets}
          \cup {DT(dd, TRUE, t, FALSE, 0) : dd \in {x \in DtDates : x.dprec = "D"}, t \in DtTimes}
          \cup {DT(dd, TRUE, t, TRUE, o) : dd \in {x \in DtDates : x.dprec = "D"}, t \in DtTimes, o \in Offsets}

(* ranges *)
RDates == {DA("Y", 1999, 0, 0), DA("M", 1999, 2, 0), DA("D", 1999, 2, 28), DA("Y", 2024, 0, 0), DA("M", 2024, 2, 0),
           DA("D", 2024, 2, 29), DA("M", 2024, 12, 0), DA("D", 2023, 12, 31), DA("Y", 0, 0, 0), DA("Y", 9999, 0, 0)}
RTimes == {TM("h", 0, 0, 0, 0, 0), TM("m", 9, 30, 0, 0, 0), TM("s", 9, 30, 15, 0, 0), TM("f", 9, 30, 15, 5, 1),
           TM("f", 9, 30, 15, 123456, 6), TM("h", 23, 0, 0, 0, 0), TM("s", 23, 59, 59, 0, 0), TM("s", 23, 59, 60, 0, 0)}
RDtNaive == {DT(DA("Y", 2020, 0, 0), FALSE, V0, FALSE, 0), DT(DA("M", 2020, 2, 0), FALSE, V0, FALSE, 0),
             DT(DA("D", 2020, 2, 29), FALSE, V0, FALSE, 0), DT(DA("D", 2020, 2, 29), TRUE, TM("h", 10, 0, 0, 0, 0), FALSE, 0),
             DT(DA("D", 2020, 2, 29), TRUE, TM("f", 10, 30, 15, 25, 2), FALSE, 0),
             DT(DA("D", 2021, 12, 31), TRUE, TM("s", 23, 59, 59, 0, 0), FALSE, 0), DT(DA("Y", 2022, 0, 0), FALSE, V0, FALSE, 0)}
RDtTz == {DT(DA("Y", 2020, 0, 0), FALSE, V0, TRUE, 3600), DT(DA("D", 2020, 2, 29), FALSE, V0, TRUE, -18000),
          DT(DA("D", 2020, 2, 29), TRUE, TM("h", 10, 0, 0, 0, 0), TRUE, 19800),
          DT(DA("D", 2021, 1, 1), TRUE, TM("f", 0, 0, 0, 0, 6), TRUE, -43200),
          DT(DA("Y", 2021, 0, 0), FALSE, V0, TRUE, 0), DT(DA("M", 2022, 6, 0), FALSE, V0, TRUE, -18000),
          DT(DA("M", 2022, 7, 0), FALSE, V0, TRUE, 3600)}
Pairs(S) == {[hasA |-> TRUE, a |-> a, hasB |-> TRUE, b |-> b] : a \in S, b \in S}
            \cup {[hasA |-> TRUE, a |-> a, hasB |-> FALSE, b |-> V0] : a \in S}
            \cup {[hasA |-> FALSE, a |-> V0, hasB |-> TRUE, b |-> b] : b \in S}
(* premises of the range cases: not inverted; date-time bounds either both without offset, or  *)
(* both with an offset that is equal or separated by at least a year; the textually ambiguous  *)
(* combination "west offset in A, east offset in B" is left out                               *)
RangePremise(r) ==
    (r.hasA /\ r.hasB) =>
        /\ NotInverted(r.a, r.b)
        /\ r.a.tz = r.b.tz
        /\ r.a.tz => (r.a.off = r.b.off \/ r.a.y < r.b.y)
        /\ ~(r.a.tz /\ r.a.off < 0 /\ r.b.off >= 0)
Ranges == {r \in Pairs(RDates) \cup Pairs(RTimes) \cup Pairs(RDtNaive) \cup Pairs(RDtTz) : RangePremise(r)}

VARIABLE c
vars == <<c>>
Init == CASE Kind = "date"  -> c \in DateVals
             [] Kind = "time"  -> c \in TimeVals
             [] Kind = "dt"    -> c \in DtVals
             [] Kind = "range" -> c \in Ranges
Next == UNCHANGED c
Spec == Init /\ [][Next]_vars

(* probes: instants at the boundaries of every component v leaves open (and just outside the  *)
(* stated fraction) *)
Probes(v) ==
    LET ys == {v.y}
        ms == IF v.dprec \in {"M", "D"} THEN {v.m} ELSE IF v.dprec = "Y" THEN {1, 2, 12} ELSE {0}
        ds == IF v.dprec = "D" THEN {v.d} ELSE IF v.dprec = "none" THEN {0} ELSE {1, 28, 29, 30, 31}
        open == v.kind = "DT" /\ v.tprec = "none"
        hs == IF v.kind = "DA" THEN {0} ELSE IF open THEN {0, 23} ELSE {v.h}
        mis == IF v.kind = "DA" THEN {0} ELSE IF open \/ v.tprec = "h" THEN {0, 59} ELSE {v.mi}
        ss == IF v.kind = "DA" THEN {0} ELSE IF open \/ v.tprec \in {"h", "m"} THEN {0, 59, 60} ELSE {v.s}
        uss == IF v.kind = "DA" THEN {0}
               ELSE IF v.tprec = "f" THEN {x \in {Micro(v) - 1, Micro(v), Micro(v) + Pow10(6 - v.fp) \div 2,
                                               Micro(v) + Pow10(6 - v.fp) - 1, Micro(v) + Pow10(6 - v.fp)} : x \in 0..999999}
               ELSE {0, 999999}
    IN {[y |-> y, m |-> m, d |-> d, h |-> h, mi |-> mi, s |-> s, us |-> us] :
          y \in ys, m \in ms, d \in ds, h \in hs, mi \in mis, s \in ss, us \in uss}

ValueOk(v) == /\ Valid(v)
              /\ Parse(v.kind, Encode(v)) = v
              /\ Len(Encode(v)) = ByteLen(v)
              /\ Consistent(Earliest(v), v) /\ Consistent(Latest(v), v)
              /\ InstLe(Earliest(v), Latest(v))
              /\ \A p \in Probes(v) : Consistent(p, v) => (InstLe(Earliest(v), p) /\ InstLe(p, Latest(v)))
              /\ \E p \in Probes(v) : Consistent(p, v)

SpecOk == IF Kind = "range"
                  THEN /\ c.hasA => ValueOk(c.a)
                       /\ c.hasB => ValueOk(c.b)
                  ELSE ValueOk(c)

Emit ==
    IF Kind = "range"
    THEN PrintT(<<"CASE", ToJson([kind |-> "range", vkind |-> (IF c.hasA THEN c.a.kind ELSE c.b.kind),
                                  hasA |-> c.hasA, a |-> c.a, hasB |-> c.hasB, b |-> c.b,
                                  text |-> RangeText(c.hasA, c.a, c.hasB, c.b), res |-> RangeOf(c.hasA, c.a, c.hasB, c.b)])>>)
    ELSE PrintT(<<"CASE", ToJson([kind |-> "val", v |-> c, text |-> Encode(c), blen1 |-> ListByteLen(<<c>>),
                                  blen2 |-> ListByteLen(<<c, c>>), e |-> Earliest(c), l |-> Latest(c)])>>)
=============================================================================
