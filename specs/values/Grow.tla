-------------------------------- MODULE Grow --------------------------------
(***************************************************************************)
(* Growth of the values/* specification beyond the listed properties: the  *)
(* remaining conversion families of PrimitiveValue / Value / DataElement,  *)
(* transcribed from their documentation (doc comments and doc examples),   *)
(* PS3.5 6.2 for the text forms, plus value equality and the encoded       *)
(* length.  Everything here is used for OBSERVATION: a recorded result     *)
(* that differs from these operators is reported as a note, never as a     *)
(* violation of a listed property.                                         *)
(*                                                                         *)
(* Values are [var, items] as in Conv, with two additions: items of the    *)
(* variants Date / Time / DateTime are DateTime!V records, items of Tags    *)
(* are <<group, element>>.                                                 *)
(***************************************************************************)
EXTENDS ValueList

DT == INSTANCE DateTime
TT == INSTANCE TagText
PN == INSTANCE PersonName

Backslash == 92
DateVars == {"Date", "Time", "DateTime"}

---------------------------------------------------------------------------
(* strings *)
RECURSIVE TrimEnd(_)
TrimEnd(s) == IF Len(s) > 0 /\ IsPad(s[Len(s)]) THEN TrimEnd(SubSeq(s, 1, Len(s) - 1)) ELSE s
RECURSIVE JoinFrom(_, _)
JoinFrom(ts, i) == IF i > Len(ts) THEN <<>>
                   ELSE IF i = Len(ts) THEN ts[i]
                   ELSE ts[i] \o <<Backslash>> \o JoinFrom(ts, i + 1)
Join(ts) == JoinFrom(ts, 1)
RECURSIVE SplitAtSep(_, _, _, _)
SplitAtSep(s, sep, i, cur) == IF i > Len(s) THEN <<cur>>
                              ELSE IF s[i] = sep THEN <<cur>> \o SplitAtSep(s, sep, i + 1, <<>>)
                              ELSE SplitAtSep(s, sep, i + 1, Append(cur, s[i]))

(* documented Display of a partial date: YYYY, YYYY-MM, YYYY-MM-DD *)
Hyphen == 45
DateDisplay(v) == CASE v.dprec = "Y" -> DT!Dig(v.y, 4)
                    [] v.dprec = "M" -> DT!Dig(v.y, 4) \o <<Hyphen>> \o DT!Dig(v.m, 2)
                    [] v.dprec = "D" -> DT!Dig(v.y, 4) \o <<Hyphen>> \o DT!Dig(v.m, 2) \o <<Hyphen>> \o DT!Dig(v.d, 2)

(* which text families the documentation pins down for a variant *)
StrDecided(v) == v.var \in {"Empty", "Str", "Strs", "Tags", "Date"} \cup IntVars
MultiDecided(v) == v.var \in {"Empty", "Str", "Strs", "Tags"} \cup IntVars \cup DateVars

ItemDisplay(var, it) == CASE var \in IntVars -> NText(it)
                          [] var = "Tags" -> TT!Display(it)
                          [] var = "Date" -> DateDisplay(it)
ItemEncoded(var, it) == CASE var \in IntVars -> NText(it)
                          [] var = "Tags" -> TT!Display(it)
                          [] var \in DateVars -> DT!Encode(it)

(* to_raw_str: strings as they are, joined with a backslash; other variants converted to a   *)
(* string each and joined                                                                    *)
RawStr(v) == CASE v.var = "Empty" -> <<>>
               [] v.var = "Str" -> v.items[1]
               [] v.var = "Strs" -> Join(v.items)
               [] OTHER -> Join([i \in 1..Len(v.items) |-> ItemDisplay(v.var, v.items[i])])
(* to_str: the same with trailing padding stripped from each string *)
ToStr(v) == CASE v.var = "Empty" -> <<>>
              [] v.var = "Str" -> TrimEnd(v.items[1])
              [] v.var = "Strs" -> Join([i \in 1..Len(v.items) |-> TrimEnd(v.items[i])])
              [] OTHER -> RawStr(v)
(* to_multi_str: one string per item; dates in their encoded form (doc example "201410") *)
MultiStr(v) == CASE v.var = "Empty" -> <<>>
                 [] v.var \in TextVars -> [i \in 1..Len(v.items) |-> TrimEnd(v.items[i])]
                 [] OTHER -> [i \in 1..Len(v.items) |-> ItemEncoded(v.var, v.items[i])]

(* to_bytes *)
IsAscii(s) == \A i \in 1..Len(s) : s[i] < 128
BytesDecided(v) == \/ v.var \in {"Empty", "U8", "U16", "I16"}
                   \/ (v.var \in TextVars /\ \A i \in 1..Len(v.items) : IsAscii(v.items[i]))
LE16(n) == LET u == DMod(WrapTo(n, "u16").d, 65536) IN <<u % 256, u \div 256>>
RECURSIVE Flat(_, _)
Flat(ss, i) == IF i > Len(ss) THEN <<>> ELSE ss[i] \o Flat(ss, i + 1)
ToBytes(v) == CASE v.var = "Empty" -> <<>>
                [] v.var = "U8" -> [i \in 1..Len(v.items) |-> DMod(v.items[i].d, 256)]
                [] v.var \in {"U16", "I16"} -> Flat([i \in 1..Len(v.items) |-> LE16(v.items[i])], 1)
                [] v.var \in TextVars -> RawStr(v)

---------------------------------------------------------------------------
(* equality and encoded length *)
Equiv(a, b) ==
    CASE a.var \in TextVars /\ b.var \in TextVars ->
           [i \in 1..Len(a.items) |-> TrimEnd(a.items[i])] = [i \in 1..Len(b.items) |-> TrimEnd(b.items[i])]
      [] a.var = b.var /\ a.var \notin TextVars -> a.items = b.items      \* (NaN items: see the trace module)
      [] OTHER -> FALSE

Utf8Len(s) == IF Len(s) = 0 THEN 0 ELSE LET w == [i \in 1..Len(s) |-> TT!Utf8Width(s[i])] IN
                 LET RECURSIVE Sum(_) Sum(i) == IF i > Len(w) THEN 0 ELSE w[i] + Sum(i + 1) IN Sum(1)
RECURSIVE TextLenSum(_, _)
TextLenSum(items, i) == IF i > Len(items) THEN 0 ELSE Utf8Len(items[i]) + TextLenSum(items, i + 1)
Width(var) == CASE var = "U8" -> 1 [] var \in {"U16", "I16"} -> 2 [] var \in {"U32", "I32", "F32", "Tags"} -> 4
                [] var \in {"U64", "I64", "F64"} -> 8
(* "the number of bytes the value would occupy in a DICOM file ... always an even number" *)
EncodedLen(v) ==
    CASE v.var = "Empty" -> 0
      [] v.var \in TextVars -> IF Len(v.items) = 0 THEN 0 ELSE DT!EvenUp(TextLenSum(v.items, 1) + Len(v.items) - 1)
      [] v.var \in DateVars -> DT!ListByteLen(v.items)
      [] OTHER -> DT!EvenUp(Len(v.items) * Width(v.var))

---------------------------------------------------------------------------
(* dates and times from text: PS3.5 allows trailing space padding; the rest must be one value *)
RECURSIVE TrimEndSp(_)
TrimEndSp(s) == IF Len(s) > 0 /\ IsPad(s[Len(s)]) THEN TrimEndSp(SubSeq(s, 1, Len(s) - 1)) ELSE s
ParseText(kind, text) == DT!Parse(kind, TrimEndSp(text))

(* range texts: a "-" splits the text into two (possibly empty) values of the kind; the text  *)
(* is a range iff exactly one "-" does so                                                     *)
SideOk(kind, s) == Len(s) = 0 \/ ParseText(kind, s).kind # "invalid"
Splits(kind, s) == {i \in 1..Len(s) : /\ s[i] = Hyphen
                                      /\ SideOk(kind, SubSeq(s, 1, i - 1))
                                      /\ SideOk(kind, SubSeq(s, i + 1, Len(s)))
                                      /\ Len(s) > 1}
RangeClass(kind, s) == LET sp == Splits(kind, s) IN
    IF sp = {} THEN "none" ELSE IF \E i \in sp : \A j \in sp : i = j THEN "one" ELSE "ambiguous"
TheSplit(kind, s) == CHOOSE i \in Splits(kind, s) : TRUE
RangeLeft(kind, s) == SubSeq(s, 1, TheSplit(kind, s) - 1)
RangeRight(kind, s) == SubSeq(s, TheSplit(kind, s) + 1, Len(s))

---------------------------------------------------------------------------
(* decimal strings denoting an integer: mantissa digits, fraction digits, exponent *)
(* value = digits(int ++ frac) * 10^(exp - Len(frac)); decided when that is an integer with  *)
(* at most 9 digits                                                                         *)
RECURSIVE Zeros(_)
Zeros(n) == IF n <= 0 THEN <<>> ELSE <<0>> \o Zeros(n - 1)
DecimalInt(text) ==
    LET t == Trim(text)
        neg == Len(t) > 0 /\ t[1] = 45
        i0 == IF Len(t) > 0 /\ t[1] \in {43, 45} THEN 2 ELSE 1
        i1 == DigitsEnd(t, i0)
        hasFrac == i1 <= Len(t) /\ t[i1] = 46
        i2 == IF hasFrac THEN DigitsEnd(t, i1 + 1) ELSE i1
        hasExp == i2 <= Len(t) /\ t[i2] \in {69, 101}
        eneg == hasExp /\ i2 + 1 <= Len(t) /\ t[i2 + 1] = 45
        i3 == IF hasExp THEN (IF i2 + 1 <= Len(t) /\ t[i2 + 1] \in {43, 45} THEN i2 + 2 ELSE i2 + 1) ELSE i2
        expDigits == IF hasExp THEN [k \in 1..(Len(t) + 1 - i3) |-> t[i3 + k - 1] - 48] ELSE <<0>>
        e == IF Len(expDigits) > 2 THEN 99 ELSE DMod(expDigits, 1000)
        intD == [k \in 1..(i1 - i0) |-> t[i0 + k - 1] - 48]
        fracD == IF hasFrac THEN [k \in 1..(i2 - i1 - 1) |-> t[i1 + k] - 48] ELSE <<>>
        shift == (IF eneg THEN -e ELSE e) - Len(fracD)
        all == intD \o fracD
    IN IF ~IsDecimalText(text) THEN [ok |-> FALSE, n |-> NZero]
       ELSE IF shift >= 0 /\ Len(StripZ(all)) + shift <= 9
            THEN [ok |-> TRUE, n |-> Mk(neg, StripZ(all \o Zeros(shift)))]
       ELSE IF shift < 0 /\ -shift <= Len(all) /\ (\A k \in (Len(all) + shift + 1)..Len(all) : all[k] = 0)
               /\ Len(StripZ(all)) <= 9
            THEN [ok |-> TRUE, n |-> Mk(neg, StripZ(IF Len(all) + shift = 0 THEN <<0>> ELSE SubSeq(all, 1, Len(all) + shift)))]
       ELSE [ok |-> FALSE, n |-> NZero]
=============================================================================
