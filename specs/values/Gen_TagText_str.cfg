CONSTANTS Kind = "str" MaxDepth = 1
SPECIFICATION Spec
INVARIANT SpecOk
INVARIANT Emit
CHECK_DEADLOCK FALSE
