------------------------------ MODULE DateTime ------------------------------
(***************************************************************************)
(* C12.  Partial DICOM dates (DA), times (TM) and date-times (DT) as       *)
(* defined by PS3.5 6.2 and by the property text:                          *)
(*                                                                         *)
(*   DA  YYYY[MM[DD]]                                                      *)
(*   TM  HH[MM[SS[.F{1..6}]]]          (SS may be 60: leap second)         *)
(*   DT  YYYY[MM[DD[HH[MM[SS[.F{1..6}]]]]]][&ZZXX]   & is + or -           *)
(*   range text  A-B | A- | -B                                             *)
(*                                                                         *)
(* One record shape V serves all three kinds (unused components are 0):    *)
(*   [kind: "DA"|"TM"|"DT", dprec: "none"|"Y"|"M"|"D", y, m, d,            *)
(*    tprec: "none"|"h"|"m"|"s"|"f", h, mi, s, f, fp, tz: BOOLEAN, off]    *)
(* f is the fraction as written with fp digits (1..6); off is the UTC      *)
(* offset in seconds (a multiple of 60, negative = west).                  *)
(* A precise instant is [y, m, d, h, mi, s, us] (us = microseconds); for a *)
(* DA only y,m,d are meaningful, for a TM only h,mi,s,us.                  *)
(* Text is a sequence of code points.  All numbers fit 32-bit integers.    *)
(* Written from the standard and the property, not from the Rust code.     *)
(***************************************************************************)
EXTENDS Integers, Sequences

Pow10(n) == CASE n = 0 -> 1 [] n = 1 -> 10 [] n = 2 -> 100 [] n = 3 -> 1000
              [] n = 4 -> 10000 [] n = 5 -> 100000 [] n = 6 -> 1000000

Leap(y) == (y % 4 = 0 /\ y % 100 # 0) \/ y % 400 = 0
DaysInMonth(y, m) == CASE m \in {1, 3, 5, 7, 8, 10, 12} -> 31
                       [] m \in {4, 6, 9, 11} -> 30
                       [] m = 2 -> IF Leap(y) THEN 29 ELSE 28

MaxEast == 14 * 3600
MaxWest == 12 * 3600

V0 == [kind |-> "invalid", dprec |-> "none", y |-> 0, m |-> 0, d |-> 0, tprec |-> "none",
       h |-> 0, mi |-> 0, s |-> 0, f |-> 0, fp |-> 0, tz |-> FALSE, off |-> 0]
Invalid == V0

DateOk(v) == /\ v.dprec \in {"Y", "M", "D"}
             /\ v.y \in 0..9999
             /\ IF v.dprec = "Y" THEN v.m = 0 /\ v.d = 0
                ELSE /\ v.m \in 1..12
                     /\ IF v.dprec = "M" THEN v.d = 0 ELSE v.d \in 1..DaysInMonth(v.y, v.m)
NoDate(v) == v.dprec = "none" /\ v.y = 0 /\ v.m = 0 /\ v.d = 0
TimeOk(v) == /\ v.tprec \in {"h", "m", "s", "f"}
             /\ v.h \in 0..23
             /\ IF v.tprec = "h" THEN v.mi = 0 /\ v.s = 0 /\ v.f = 0 /\ v.fp = 0
                ELSE /\ v.mi \in 0..59
                     /\ IF v.tprec = "m" THEN v.s = 0 /\ v.f = 0 /\ v.fp = 0
                        ELSE /\ v.s \in 0..60
                             /\ IF v.tprec = "s" THEN v.f = 0 /\ v.fp = 0
                                ELSE v.fp \in 1..6 /\ v.f >= 0 /\ v.f < Pow10(v.fp)
NoTime(v) == v.tprec = "none" /\ v.h = 0 /\ v.mi = 0 /\ v.s = 0 /\ v.f = 0 /\ v.fp = 0
TzOk(v) == IF v.tz THEN v.off % 60 = 0 /\ v.off <= MaxEast /\ v.off >= -MaxWest ELSE v.off = 0

Valid(v) == CASE v.kind = "DA" -> DateOk(v) /\ NoTime(v) /\ ~v.tz /\ v.off = 0
              [] v.kind = "TM" -> NoDate(v) /\ TimeOk(v) /\ ~v.tz /\ v.off = 0
              [] v.kind = "DT" -> /\ DateOk(v) /\ TzOk(v)
                                  /\ (NoTime(v) \/ (TimeOk(v) /\ v.dprec = "D"))
              [] OTHER -> FALSE

---------------------------------------------------------------------------
(* encoding *)
Dig(n, w) == [i \in 1..w |-> 48 + ((n \div Pow10(w - i)) % 10)]
Dot == 46   Plus == 43   Minus == 45

EncDate(v) == CASE v.dprec = "none" -> <<>>
                [] v.dprec = "Y" -> Dig(v.y, 4)
                [] v.dprec = "M" -> Dig(v.y, 4) \o Dig(v.m, 2)
                [] v.dprec = "D" -> Dig(v.y, 4) \o Dig(v.m, 2) \o Dig(v.d, 2)
EncTime(v) == CASE v.tprec = "none" -> <<>>
                [] v.tprec = "h" -> Dig(v.h, 2)
                [] v.tprec = "m" -> Dig(v.h, 2) \o Dig(v.mi, 2)
                [] v.tprec = "s" -> Dig(v.h, 2) \o Dig(v.mi, 2) \o Dig(v.s, 2)
                [] v.tprec = "f" -> Dig(v.h, 2) \o Dig(v.mi, 2) \o Dig(v.s, 2) \o <<Dot>> \o Dig(v.f, v.fp)
Abs(x) == IF x < 0 THEN -x ELSE x
EncTz(v) == IF ~v.tz THEN <<>>
            ELSE <<IF v.off < 0 THEN Minus ELSE Plus>> \o Dig(Abs(v.off) \div 3600, 2) \o Dig((Abs(v.off) % 3600) \div 60, 2)
Encode(v) == EncDate(v) \o EncTime(v) \o EncTz(v)

(* the byte length a value reports, stated independently of Encode          *)
DateLen(v) == CASE v.dprec = "none" -> 0 [] v.dprec = "Y" -> 4 [] v.dprec = "M" -> 6 [] v.dprec = "D" -> 8
TimeLen(v) == CASE v.tprec = "none" -> 0 [] v.tprec = "h" -> 2 [] v.tprec = "m" -> 4 [] v.tprec = "s" -> 6
                [] v.tprec = "f" -> 7 + v.fp
ByteLen(v) == DateLen(v) + TimeLen(v) + (IF v.tz THEN 5 ELSE 0)
EvenUp(n) == n + (n % 2)
(* encoded length of a multi-valued element: values joined by "\", padded to even *)
RECURSIVE SumLen(_, _)
SumLen(vs, i) == IF i > Len(vs) THEN 0 ELSE ByteLen(vs[i]) + SumLen(vs, i + 1)
ListByteLen(vs) == IF Len(vs) = 0 THEN 0 ELSE EvenUp(SumLen(vs, 1) + Len(vs) - 1)

---------------------------------------------------------------------------
(* parsing (recogniser) *)
IsDig(c) == c >= 48 /\ c <= 57
AllDig(s, i, j) == \A k \in i..j : IsDig(s[k])
RECURSIVE NumFrom(_, _, _, _)
NumFrom(s, i, j, acc) == IF i > j THEN acc ELSE NumFrom(s, i + 1, j, acc * 10 + (s[i] - 48))
Num(s, i, j) == NumFrom(s, i, j, 0)

(* date part: 4, 6 or 8 digits *)
DatePart(s) ==
    IF Len(s) \in {4, 6, 8} /\ AllDig(s, 1, Len(s))
    THEN [ok |-> TRUE, dprec |-> (CASE Len(s) = 4 -> "Y" [] Len(s) = 6 -> "M" [] Len(s) = 8 -> "D"),
          y |-> Num(s, 1, 4), m |-> IF Len(s) >= 6 THEN Num(s, 5, 6) ELSE 0,
          d |-> IF Len(s) = 8 THEN Num(s, 7, 8) ELSE 0]
    ELSE [ok |-> FALSE, dprec |-> "none", y |-> 0, m |-> 0, d |-> 0]

(* time part: 2, 4, 6 digits or 6 digits "." 1..6 digits *)
TimePart(s) ==
    LET n == Len(s)
        bad == [ok |-> FALSE, tprec |-> "none", h |-> 0, mi |-> 0, s |-> 0, f |-> 0, fp |-> 0]
    IN IF n \in {2, 4, 6} /\ AllDig(s, 1, n)
       THEN [ok |-> TRUE, tprec |-> (CASE n = 2 -> "h" [] n = 4 -> "m" [] n = 6 -> "s"),
             h |-> Num(s, 1, 2), mi |-> IF n >= 4 THEN Num(s, 3, 4) ELSE 0,
             s |-> IF n = 6 THEN Num(s, 5, 6) ELSE 0, f |-> 0, fp |-> 0]
       ELSE IF n >= 8 /\ n <= 13 /\ AllDig(s, 1, 6) /\ s[7] = Dot /\ AllDig(s, 8, n)
       THEN [ok |-> TRUE, tprec |-> "f", h |-> Num(s, 1, 2), mi |-> Num(s, 3, 4), s |-> Num(s, 5, 6),
             f |-> Num(s, 8, n), fp |-> n - 7]
       ELSE bad

Mk(kind, dp, tp, tz, off) ==
    [kind |-> kind, dprec |-> dp.dprec, y |-> dp.y, m |-> dp.m, d |-> dp.d,
     tprec |-> tp.tprec, h |-> tp.h, mi |-> tp.mi, s |-> tp.s, f |-> tp.f, fp |-> tp.fp,
     tz |-> tz, off |-> off]
NoDatePart == [ok |-> TRUE, dprec |-> "none", y |-> 0, m |-> 0, d |-> 0]
NoTimePart == [ok |-> TRUE, tprec |-> "none", h |-> 0, mi |-> 0, s |-> 0, f |-> 0, fp |-> 0]

OrInvalid(v) == IF Valid(v) THEN v ELSE Invalid

ParseDA(s) == LET dp == DatePart(s) IN IF dp.ok THEN OrInvalid(Mk("DA", dp, NoTimePart, FALSE, 0)) ELSE Invalid
ParseTM(s) == LET tp == TimePart(s) IN IF tp.ok THEN OrInvalid(Mk("TM", NoDatePart, tp, FALSE, 0)) ELSE Invalid
ParseDT(s) ==
    LET n == Len(s)
        hasTz == n >= 9 /\ s[n - 4] \in {Plus, Minus} /\ AllDig(s, n - 3, n)
        body == IF hasTz THEN SubSeq(s, 1, n - 5) ELSE s
        off == IF hasTz THEN (IF s[n - 4] = Minus THEN -1 ELSE 1) * (Num(s, n - 3, n - 2) * 3600 + Num(s, n - 1, n) * 60) ELSE 0
        tzOk == hasTz => Num(s, n - 1, n) <= 59
        b == Len(body)
        dp == IF b <= 8 THEN DatePart(body) ELSE DatePart(SubSeq(body, 1, 8))
        tp == IF b <= 8 THEN NoTimePart ELSE TimePart(SubSeq(body, 9, b))
    IN IF dp.ok /\ tp.ok /\ tzOk THEN OrInvalid(Mk("DT", dp, tp, hasTz, off)) ELSE Invalid
Parse(kind, s) == CASE kind = "DA" -> ParseDA(s) [] kind = "TM" -> ParseTM(s) [] kind = "DT" -> ParseDT(s)

---------------------------------------------------------------------------
(* earliest / latest precise instant *)
Micro(v) == v.f * Pow10(6 - v.fp)
Earliest(v) ==
    [y |-> v.y,
     m |-> IF v.dprec \in {"M", "D"} THEN v.m ELSE IF v.dprec = "Y" THEN 1 ELSE 0,
     d |-> IF v.dprec = "D" THEN v.d ELSE IF v.dprec \in {"Y", "M"} THEN 1 ELSE 0,
     h |-> v.h, mi |-> v.mi, s |-> v.s,
     us |-> IF v.tprec = "f" THEN Micro(v) ELSE 0]
Latest(v) ==
    LET mm == IF v.dprec \in {"M", "D"} THEN v.m ELSE IF v.dprec = "Y" THEN 12 ELSE 0
        noT == v.tprec = "none" /\ v.kind = "DT"
    IN [y |-> v.y, m |-> mm,
        d |-> IF v.dprec = "D" THEN v.d ELSE IF v.dprec \in {"Y", "M"} THEN DaysInMonth(v.y, mm) ELSE 0,
        h |-> IF noT THEN 23 ELSE v.h,
        mi |-> IF noT \/ v.tprec = "h" THEN 59 ELSE v.mi,
        s |-> IF noT \/ v.tprec \in {"h", "m"} THEN 59 ELSE v.s,
        us |-> IF v.kind = "DA" THEN 0
               ELSE IF v.tprec = "f" THEN Micro(v) + Pow10(6 - v.fp) - 1 ELSE 999999]

InstTuple(p) == <<p.y, p.m, p.d, p.h, p.mi, p.s, p.us>>
RECURSIVE LexLe(_, _, _)
LexLe(a, b, i) == IF i > Len(a) THEN TRUE ELSE IF a[i] < b[i] THEN TRUE ELSE IF a[i] > b[i] THEN FALSE ELSE LexLe(a, b, i + 1)
InstLe(p, q) == LexLe(InstTuple(p), InstTuple(q), 1)

(* p is a precise instant denoted by v: it agrees with every component v states *)
InstantOk(kind, p) ==
    /\ (kind \in {"DA", "DT"}) => (p.y \in 0..9999 /\ p.m \in 1..12 /\ p.d \in 1..DaysInMonth(p.y, p.m))
    /\ (kind = "TM") => (p.y = 0 /\ p.m = 0 /\ p.d = 0)
    /\ (kind \in {"TM", "DT"}) => (p.h \in 0..23 /\ p.mi \in 0..59 /\ p.s \in 0..60 /\ p.us \in 0..999999)
    /\ (kind = "DA") => (p.h = 0 /\ p.mi = 0 /\ p.s = 0 /\ p.us = 0)
Consistent(p, v) ==
    /\ InstantOk(v.kind, p)
    /\ (v.dprec # "none") => p.y = v.y
    /\ (v.dprec \in {"M", "D"}) => p.m = v.m
    /\ (v.dprec = "D") => p.d = v.d
    /\ (v.tprec # "none") => p.h = v.h
    /\ (v.tprec \in {"m", "s", "f"}) => p.mi = v.mi
    /\ (v.tprec \in {"s", "f"}) => p.s = v.s
    /\ (v.tprec \notin {"s", "f"}) => p.s <= 59      \* a leap second is only denoted when stated
    /\ (v.tprec = "f") => p.us \div Pow10(6 - v.fp) = v.f

---------------------------------------------------------------------------
(* ranges: a is the lower value or absent, b the upper value or absent      *)
RangeText(hasA, a, hasB, b) == (IF hasA THEN Encode(a) ELSE <<>>) \o <<Minus>> \o (IF hasB THEN Encode(b) ELSE <<>>)
I0 == [y |-> 0, m |-> 0, d |-> 0, h |-> 0, mi |-> 0, s |-> 0, us |-> 0]
RangeOf(hasA, a, hasB, b) ==
    [hasStart |-> hasA, start |-> IF hasA THEN Earliest(a) ELSE I0,
     hasEnd |-> hasB, end |-> IF hasB THEN Latest(b) ELSE I0]
(* premise for A-B: not inverted (local components; both values carry the same offset or none,
   or differ by at least a year so that no offset can invert them) *)
NotInverted(a, b) == InstLe(Earliest(a), Latest(b))
=============================================================================
