CONSTANTS Kind = "time" Years = {0} Secs = {0, 1, 30, 58, 59, 60}
SPECIFICATION Spec
INVARIANT SpecOk
INVARIANT Emit
CHECK_DEADLOCK FALSE
