SPECIFICATION TSpec
CONSTRAINT Track
POSTCONDITION Accepted
CHECK_DEADLOCK FALSE
