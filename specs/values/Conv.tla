-------------------------------- MODULE Conv --------------------------------
(***************************************************************************)
(* C11.  Numeric conversions of stored DICOM values, as documented for     *)
(* PrimitiveValue::to_int / to_multi_int / to_float32 / to_multi_float32 / *)
(* to_float64 / to_multi_float64 and as stated by the property:            *)
(*   * an integer conversion yields the exact stored number when it is     *)
(*     representable in the target type and an error otherwise;            *)
(*   * textual numbers are parsed after trimming spaces and NULs;          *)
(*   * multi-valued conversions return one result per stored item in       *)
(*     order (no items => empty list); single-valued ones the first item.  *)
(*                                                                         *)
(* TLC integers are 32 bit, so an integer is N == [neg, d]: a sign and a   *)
(* canonical sequence of decimal digits (most significant first, no        *)
(* leading zero, zero is [neg |-> FALSE, d |-> <<0>>]).                    *)
(* Floats are tokens: [k |-> "int", n |-> N] an integral value that the    *)
(* float type holds exactly, [k |-> "bits", b |-> string] an opaque bit    *)
(* pattern (only identity conversions are decided for those), and          *)
(* [k |-> "any"] = not decided by this specification.                      *)
(* A stored value is [var |-> variant, items |-> sequence]; items are N    *)
(* for the integer variants, code point sequences for Str/Strs, float      *)
(* tokens for F32/F64, small integers (opaque identities) otherwise.       *)
(***************************************************************************)
EXTENDS Integers, Sequences

---------------------------------------------------------------------------
(* decimal digit sequences *)
RECURSIVE StripZ(_)
StripZ(d) == IF Len(d) > 1 /\ d[1] = 0 THEN StripZ(Tail(d)) ELSE d
IsCanon(d) == Len(d) >= 1 /\ (\A i \in 1..Len(d) : d[i] \in 0..9) /\ (Len(d) = 1 \/ d[1] # 0)
RECURSIVE LexLeq(_, _, _)
LexLeq(a, b, i) == IF i > Len(a) THEN TRUE ELSE IF a[i] < b[i] THEN TRUE ELSE IF a[i] > b[i] THEN FALSE ELSE LexLeq(a, b, i + 1)
DLeq(a, b) == Len(a) < Len(b) \/ (Len(a) = Len(b) /\ LexLeq(a, b, 1))
DLt(a, b) == DLeq(a, b) /\ a # b
MaxI(x, y) == IF x > y THEN x ELSE y
MinI(x, y) == IF x < y THEN x ELSE y
(* k-th digit from the right, 0 beyond the length *)
At(a, k) == IF k <= Len(a) THEN a[Len(a) + 1 - k] ELSE 0
RECURSIVE AddK(_, _, _, _, _)
AddK(a, b, k, carry, acc) ==
    IF k > MaxI(Len(a), Len(b)) THEN (IF carry = 1 THEN <<1>> \o acc ELSE acc)
    ELSE LET s == At(a, k) + At(b, k) + carry IN AddK(a, b, k + 1, s \div 10, <<s % 10>> \o acc)
DAdd(a, b) == StripZ(AddK(a, b, 1, 0, <<>>))
RECURSIVE SubK(_, _, _, _, _)
SubK(a, b, k, borrow, acc) ==
    IF k > Len(a) THEN acc
    ELSE LET s == At(a, k) - At(b, k) - borrow IN
         IF s < 0 THEN SubK(a, b, k + 1, 1, <<s + 10>> \o acc) ELSE SubK(a, b, k + 1, 0, <<s>> \o acc)
(* a - b for a >= b *)
DSub(a, b) == StripZ(SubK(a, b, 1, 0, <<>>))
RECURSIVE ModK(_, _, _, _)
ModK(a, m, i, r) == IF i > Len(a) THEN r ELSE ModK(a, m, i + 1, (r * 10 + a[i]) % m)
(* a mod m for m <= 65536 *)
DMod(a, m) == ModK(a, m, 1, 0)
RECURSIVE SmallDigits(_)
SmallDigits(n) == IF n < 10 THEN <<n>> ELSE SmallDigits(n \div 10) \o <<n % 10>>

---------------------------------------------------------------------------
(* signed numbers *)
Mk(neg, d) == [neg |-> (neg /\ d # <<0>>), d |-> d]
Pos(d) == Mk(FALSE, d)
Neg(d) == Mk(TRUE, d)
NZero == Pos(<<0>>)
IsN(x) == IsCanon(x.d) /\ x.neg \in BOOLEAN /\ (x.d = <<0>> => ~x.neg)
NLeq(x, y) == CASE x.neg /\ ~y.neg -> TRUE
                [] ~x.neg /\ y.neg -> FALSE
                [] ~x.neg /\ ~y.neg -> DLeq(x.d, y.d)
                [] x.neg /\ y.neg -> DLeq(y.d, x.d)
NSucc(x) == IF x.neg THEN Neg(DSub(x.d, <<1>>)) ELSE Pos(DAdd(x.d, <<1>>))
NPred(x) == IF x.neg \/ x.d = <<0>> THEN Neg(DAdd(x.d, <<1>>)) ELSE Pos(DSub(x.d, <<1>>))
NFromInt(i) == IF i < 0 THEN Neg(SmallDigits(-i)) ELSE Pos(SmallDigits(i))

P7 == <<1, 2, 8>>
P8 == <<2, 5, 6>>
P15 == <<3, 2, 7, 6, 8>>
P16 == <<6, 5, 5, 3, 6>>
P24 == <<1, 6, 7, 7, 7, 2, 1, 6>>
P31 == <<2, 1, 4, 7, 4, 8, 3, 6, 4, 8>>
P32 == <<4, 2, 9, 4, 9, 6, 7, 2, 9, 6>>
P53 == <<9, 0, 0, 7, 1, 9, 9, 2, 5, 4, 7, 4, 0, 9, 9, 2>>
P63 == <<9, 2, 2, 3, 3, 7, 2, 0, 3, 6, 8, 5, 4, 7, 7, 5, 8, 0, 8>>
P64 == <<1, 8, 4, 4, 6, 7, 4, 4, 0, 7, 3, 7, 0, 9, 5, 5, 1, 6, 1, 6>>

(* integer types; usize/isize are 64 bit on the platforms the harness runs on *)
IntTypes == {"u8", "i8", "u16", "i16", "u32", "i32", "u64", "i64", "usize", "isize"}
Signed(T) == T \in {"i8", "i16", "i32", "i64", "isize"}
Bits(T) == CASE T \in {"u8", "i8"} -> 8 [] T \in {"u16", "i16"} -> 16 [] T \in {"u32", "i32"} -> 32
             [] T \in {"u64", "i64", "usize", "isize"} -> 64
Pow2(n) == CASE n = 7 -> P7 [] n = 8 -> P8 [] n = 15 -> P15 [] n = 16 -> P16 [] n = 31 -> P31 [] n = 32 -> P32
             [] n = 63 -> P63 [] n = 64 -> P64
(* bounds as literals (TLC would otherwise redo the subtraction at every use); the ASSUME ties  *)
(* them to their definition 2^bits - 1, 2^(bits-1) - 1, -2^(bits-1)                          *)
MaxN(T) == CASE T = "u8" -> Pos(<<2, 5, 5>>) [] T = "i8" -> Pos(<<1, 2, 7>>) [] T = "u16" -> Pos(<<6, 5, 5, 3, 5>>) [] T = "i16" -> Pos(<<3, 2, 7, 6, 7>>)
             [] T = "u32" -> Pos(<<4, 2, 9, 4, 9, 6, 7, 2, 9, 5>>) [] T = "i32" -> Pos(<<2, 1, 4, 7, 4, 8, 3, 6, 4, 7>>)
             [] T \in {"u64", "usize"} -> Pos(<<1, 8, 4, 4, 6, 7, 4, 4, 0, 7, 3, 7, 0, 9, 5, 5, 1, 6, 1, 5>>)
             [] T \in {"i64", "isize"} -> Pos(<<9, 2, 2, 3, 3, 7, 2, 0, 3, 6, 8, 5, 4, 7, 7, 5, 8, 0, 7>>)
MinN(T) == IF Signed(T) THEN Neg(Pow2(Bits(T) - 1)) ELSE NZero
ASSUME BoundsAreWhatTheyShouldBe ==
    \A T \in IntTypes : MaxN(T) = Pos(DSub(Pow2(IF Signed(T) THEN Bits(T) - 1 ELSE Bits(T)), <<1>>))
InRange(n, T) == NLeq(MinN(T), n) /\ NLeq(n, MaxN(T))

(* results *)
ErrInt == [ok |-> FALSE, n |-> NZero]
OkInt(n) == [ok |-> TRUE, n |-> n]
ErrInts == [ok |-> FALSE, ns |-> <<>>]
OkInts(ns) == [ok |-> TRUE, ns |-> ns]

(* exact-or-error *)
CastExact(n, T) == IF InRange(n, T) THEN OkInt(n) ELSE ErrInt

---------------------------------------------------------------------------
(* textual integers: trim spaces and NULs, then [+-]? digit+ *)
IsPad(c) == c = 32 \/ c = 0
RECURSIVE TrimL(_)
TrimL(s) == IF Len(s) > 0 /\ IsPad(s[1]) THEN TrimL(Tail(s)) ELSE s
RECURSIVE TrimR(_)
TrimR(s) == IF Len(s) > 0 /\ IsPad(s[Len(s)]) THEN TrimR(SubSeq(s, 1, Len(s) - 1)) ELSE s
Trim(s) == TrimR(TrimL(s))
IsDigit(c) == c >= 48 /\ c <= 57
ParseIntText(text) ==
    LET t == Trim(text)
        signed == Len(t) > 0 /\ t[1] \in {43, 45}
        body == IF signed THEN Tail(t) ELSE t
    IN IF Len(body) > 0 /\ (\A i \in 1..Len(body) : IsDigit(body[i]))
       THEN OkInt(Mk(signed /\ t[1] = 45, StripZ([i \in 1..Len(body) |-> body[i] - 48])))
       ELSE ErrInt
(* "-0", "-000": the number is zero but the text carries a minus sign; whether an  *)
(* unsigned target accepts it is not decided here                                 *)
NegZeroText(text) == LET t == Trim(text) IN
    Len(t) > 1 /\ t[1] = 45 /\ (\A i \in 2..Len(t) : t[i] = 48)
(* decimal string grammar of PS3.5 DS: [+-]? digit+ (. digit+)? ([eE] [+-]? digit+)? *)
RECURSIVE DigitsEnd(_, _)
DigitsEnd(t, i) == IF i <= Len(t) /\ IsDigit(t[i]) THEN DigitsEnd(t, i + 1) ELSE i
IsDecimalText(text) ==
    LET t == Trim(text)
        i0 == IF Len(t) > 0 /\ t[1] \in {43, 45} THEN 2 ELSE 1
        i1 == DigitsEnd(t, i0)
        hasFrac == i1 <= Len(t) /\ t[i1] = 46
        i2 == IF hasFrac THEN DigitsEnd(t, i1 + 1) ELSE i1
        hasExp == i2 <= Len(t) /\ t[i2] \in {69, 101}
        i3 == IF hasExp THEN (IF i2 + 1 <= Len(t) /\ t[i2 + 1] \in {43, 45} THEN i2 + 2 ELSE i2 + 1) ELSE i2
        i4 == IF hasExp THEN DigitsEnd(t, i3) ELSE i2
    IN /\ i1 > i0
       /\ (hasFrac => i2 > i1 + 1)
       /\ (hasExp => i4 > i3)
       /\ i4 = Len(t) + 1
NText(n) == (IF n.neg THEN <<45>> ELSE <<>>) \o [i \in 1..Len(n.d) |-> 48 + n.d[i]]

---------------------------------------------------------------------------
(* stored values *)
IntVars == {"U8", "I16", "U16", "I32", "U32", "I64", "U64"}
TextVars == {"Str", "Strs"}
FloatVars == {"F32", "F64"}
OpaqueVars == {"Tags", "Date", "Time", "DateTime"}
VarType(var) == CASE var = "U8" -> "u8" [] var = "I16" -> "i16" [] var = "U16" -> "u16" [] var = "I32" -> "i32"
                  [] var = "U32" -> "u32" [] var = "I64" -> "i64" [] var = "U64" -> "u64"
FBitsOf(var) == IF var = "F32" THEN 32 ELSE 64

FInt(n) == [k |-> "int", n |-> n, b |-> ""]
FBits(b) == [k |-> "bits", n |-> NZero, b |-> b]
FAny == [k |-> "any", n |-> NZero, b |-> ""]
AbsLeq(n, d) == DLeq(n.d, d)
(* integers every float of the width holds exactly *)
Exact(n, w) == IF w = 32 THEN AbsLeq(n, P24) ELSE AbsLeq(n, P53)

WellTyped(v) ==
    CASE v.var = "Empty" -> v.items = <<>>
      [] v.var = "Str" -> Len(v.items) = 1
      [] v.var = "Strs" -> TRUE
      [] v.var \in IntVars -> \A i \in 1..Len(v.items) : IsN(v.items[i]) /\ InRange(v.items[i], VarType(v.var))
      [] v.var \in FloatVars -> \A i \in 1..Len(v.items) :
             v.items[i].k \in {"int", "bits"} /\ (v.items[i].k = "int" => Exact(v.items[i].n, FBitsOf(v.var)))
      [] v.var \in OpaqueVars -> TRUE
      [] OTHER -> FALSE

---------------------------------------------------------------------------
(* integer conversions *)
IntOfItem(var, item, T) ==
    IF var \in IntVars THEN CastExact(item, T)
    ELSE LET p == ParseIntText(item) IN IF p.ok THEN CastExact(p.n, T) ELSE ErrInt

ToInt(v, T) ==
    IF v.var \in IntVars \cup TextVars /\ Len(v.items) > 0 THEN IntOfItem(v.var, v.items[1], T) ELSE ErrInt

ToMultiInt(v, T) ==
    IF v.var \in IntVars \cup TextVars \cup {"Empty"}
    THEN LET rs == [i \in 1..Len(v.items) |-> IntOfItem(v.var, v.items[i], T)] IN
         IF \A i \in 1..Len(rs) : rs[i].ok THEN OkInts([i \in 1..Len(rs) |-> rs[i].n]) ELSE ErrInts
    ELSE ErrInts

(* a case the specification does not decide (see NegZeroText) *)
IntUndecided(v, T, multi) ==
    /\ v.var \in TextVars /\ ~Signed(T)
    /\ \E i \in 1..(IF multi THEN Len(v.items) ELSE MinI(1, Len(v.items))) : NegZeroText(v.items[i])

---------------------------------------------------------------------------
(* float conversions: w is 32 or 64 *)
ErrF == [ok |-> FALSE, f |-> FAny]
OkF(f) == [ok |-> TRUE, f |-> f]
ErrFs == [ok |-> FALSE, fs |-> <<>>]
OkFs(fs) == [ok |-> TRUE, fs |-> fs]

FloatOfItem(var, item, w) ==
    CASE var \in IntVars -> OkF(IF Exact(item, w) THEN FInt(item) ELSE FAny)
      [] var \in FloatVars ->
           IF FBitsOf(var) = w THEN OkF(item)                            \* identity
           ELSE IF item.k = "int" /\ Exact(item.n, w) THEN OkF(item)     \* same integral value
           ELSE IF FBitsOf(var) < w THEN OkF(FAny)                       \* widening: some float
           ELSE [ok |-> TRUE, f |-> FAny]                                \* narrowing of an opaque value
      [] var \in TextVars ->
           LET p == ParseIntText(item) IN
           IF p.ok THEN OkF(IF Exact(p.n, w) THEN FInt(p.n) ELSE FAny)
           ELSE IF IsDecimalText(item) THEN OkF(FAny) ELSE ErrF
(* narrowing an opaque 64-bit pattern may legitimately be refused (out of range): undecided *)
FloatUndecidedItem(var, item, w) == var = "F64" /\ w = 32 /\ ~(item.k = "int" /\ Exact(item.n, 32))

ToFloat(v, w) ==
    IF v.var \in IntVars \cup TextVars \cup FloatVars /\ Len(v.items) > 0 THEN FloatOfItem(v.var, v.items[1], w) ELSE ErrF
ToMultiFloat(v, w) ==
    IF v.var \in IntVars \cup TextVars \cup FloatVars \cup {"Empty"}
    THEN LET rs == [i \in 1..Len(v.items) |-> FloatOfItem(v.var, v.items[i], w)] IN
         IF \A i \in 1..Len(rs) : rs[i].ok THEN OkFs([i \in 1..Len(rs) |-> rs[i].f]) ELSE ErrFs
    ELSE ErrFs
FloatUndecided(v, w, multi) ==
    v.var = "F64" /\ \E i \in 1..(IF multi THEN Len(v.items) ELSE MinI(1, Len(v.items))) : FloatUndecidedItem(v.var, v.items[i], w)

(* does an observed float token agree with the expected one *)
FMatch(exp, got) == exp.k = "any" \/ (exp.k = got.k /\ exp.n = got.n /\ exp.b = got.b)
FsMatch(exp, got) == Len(exp) = Len(got) /\ \A i \in 1..Len(exp) : FMatch(exp[i], got[i])
=============================================================================
