CONSTANT Kind = "float"
SPECIFICATION Spec
INVARIANT SpecOk
INVARIANT Emit
CHECK_DEADLOCK FALSE
