CONSTANT Kind = "int"
SPECIFICATION Spec
INVARIANT SpecOk
INVARIANT Emit
CHECK_DEADLOCK FALSE
