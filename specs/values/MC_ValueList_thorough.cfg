CONSTANTS MaxSteps = 4 Record = FALSE
SPECIFICATION Spec
INVARIANT TypeOk
INVARIANT OpLaws
INVARIANT ConvLaw
CHECK_DEADLOCK FALSE
