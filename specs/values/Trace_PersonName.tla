-------------------------- MODULE Trace_PersonName --------------------------
(***************************************************************************)
(* C17 trace validator.  Each event records what the real code made of a   *)
(* component tuple:                                                        *)
(*   {ev:"pn", comps:[[cp..]x5], res:"ok", text:[cp..], back:[[cp..]x5]}   *)
(*   {ev:"pn", comps:.., res:"panic"}                                      *)
(* text = PersonName::to_dicom_string() of the built name, back = the      *)
(* components of PersonName::from_text(text).  An event is accepted iff    *)
(* the components satisfy the premise and text/back are what the           *)
(* specification PersonName says.                                          *)
(***************************************************************************)
EXTENDS PersonName, TLC, Json, IOUtils

Rec == ndJsonDeserialize(IOEnv.TRACE)

VARIABLES l
tvars == <<l>>

TInit == l = 1 /\ TLCSet(1, 1)

R == Rec[l]
Seq5(x) == [i \in 1..NComp |-> x[i]]

TPn == /\ l <= Len(Rec) /\ R.ev = "pn"
       /\ WellFormed(Seq5(R.comps))          \* premise: the driver must respect it
       /\ R.res = "ok"
       /\ TextOk(Seq5(R.comps), R.text)
       /\ BackOk(Seq5(R.comps), Seq5(R.back))
       /\ l' = l + 1

TNext == TPn
TSpec == TInit /\ [][TNext]_tvars

Track == TLCSet(1, IF l > TLCGet(1) THEN l ELSE TLCGet(1))
Accepted == IF TLCGet(1) = Len(Rec) + 1 THEN TRUE
            ELSE Print(<<"REJECTED", TLCGet(1), ToJson(Rec[TLCGet(1)])>>, FALSE)
=============================================================================
