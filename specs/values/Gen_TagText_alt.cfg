CONSTANTS Kind = "alt" MaxDepth = 2
SPECIFICATION Spec
INVARIANT SpecOk
INVARIANT Emit
CHECK_DEADLOCK FALSE
