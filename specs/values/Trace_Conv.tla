------------------------------ MODULE Trace_Conv ------------------------------
(***************************************************************************)
(* C11 trace validator.                                                    *)
(*  {ev:"conv", op:"int"|"float", v, T, w, multi, panic, res}              *)
(*      one conversion call on a seeded random value; res is what the code *)
(*      returned ({ok,n} | {ok,ns} | {ok,f} | {ok,fs}); judged with Conv.  *)
(*  {ev:"vinit", v}  {ev:"vop", op, res:"done"|"panic", ok, after, mult, conv} *)
(*      a random extend/truncate sequence; the model value `val` is        *)
(*      stepped with ValueList!Apply and compared with the value the code  *)
(*      holds after every operation.                                       *)
(* Cases the specification leaves undecided are accepted as they are; a    *)
(* panic is never accepted.                                                *)
(***************************************************************************)
EXTENDS ValueList, TLC, Json, IOUtils

Rec == ndJsonDeserialize(IOEnv.TRACE)

VARIABLES l, val
tvars == <<l, val>>
NoVal == [var |-> "Empty", items |-> <<>>]
TInit == l = 1 /\ val = NoVal /\ TLCSet(1, 1)
R == Rec[l]
Ev(e) == l <= Len(Rec) /\ R.ev = e /\ l' = l + 1

TConvInt == /\ Ev("conv") /\ R.op = "int"
            /\ WellTyped(R.v) /\ R.T \in IntTypes          \* premise
            /\ ~R.panic
            /\ \/ IntUndecided(R.v, R.T, R.multi)
               \/ IF R.multi
                  THEN LET e == ToMultiInt(R.v, R.T) IN R.res.ok = e.ok /\ (e.ok => R.res.ns = e.ns)
                  ELSE LET e == ToInt(R.v, R.T) IN R.res.ok = e.ok /\ (e.ok => R.res.n = e.n)
            /\ UNCHANGED val

TConvFloat == /\ Ev("conv") /\ R.op = "float"
              /\ WellTyped(R.v) /\ R.w \in {32, 64}
              /\ ~R.panic
              /\ \/ FloatUndecided(R.v, R.w, R.multi)
                 \/ IF R.multi
                    THEN LET e == ToMultiFloat(R.v, R.w) IN R.res.ok = e.ok /\ (e.ok => FsMatch(e.fs, R.res.fs))
                    ELSE LET e == ToFloat(R.v, R.w) IN R.res.ok = e.ok /\ (e.ok => FMatch(e.f, R.res.f))
              /\ UNCHANGED val

TVInit == /\ Ev("vinit")
          /\ WellTyped(R.v)
          /\ val' = R.v

TVOp == /\ Ev("vop")
        /\ OpOk(R.op)                                      \* premise
        /\ R.res = "done"
        /\ IF OpUndecided(val, R.op) THEN val' = R.after
           ELSE LET r == Apply(val, R.op) IN
                  /\ R.ok = r.ok
                  /\ SameValue(r.v, R.after)
                  /\ val' = Adopt(r.v, R.after)
                  /\ R.mult = Mult(r.v)                               \* multiplicity() = number of items
                  /\ LET c == ListConv(Adopt(r.v, R.after)) IN          \* to_multi_int::<i64> of the new value
                       R.conv.ok = c.ok /\ (c.ok => R.conv.ns = c.ns)

TNext == TConvInt \/ TConvFloat \/ TVInit \/ TVOp
TSpec == TInit /\ [][TNext]_tvars

Track == TLCSet(1, IF l > TLCGet(1) THEN l ELSE TLCGet(1))
Accepted == IF TLCGet(1) = Len(Rec) + 1 THEN TRUE
            ELSE Print(<<"REJECTED", TLCGet(1), ToJson(Rec[TLCGet(1)])>>, FALSE)
=============================================================================
