CONSTANT NAlpha = 4
SPECIFICATION Spec
INVARIANT SpecOk
INVARIANT Emit
CHECK_DEADLOCK FALSE
