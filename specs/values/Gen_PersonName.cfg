CONSTANT NAlpha = 5
SPECIFICATION Spec
INVARIANT SpecOk
INVARIANT Emit
CHECK_DEADLOCK FALSE
