CONSTANT Kind = "text"
SPECIFICATION Spec
INVARIANT SpecOk
INVARIANT Emit
CHECK_DEADLOCK FALSE
