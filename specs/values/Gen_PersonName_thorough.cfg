CONSTANT NAlpha = 6
SPECIFICATION Spec
INVARIANT SpecOk
INVARIANT Emit
CHECK_DEADLOCK FALSE
