CONSTANTS Kind = "dt" Years = {0} Secs = {0}
SPECIFICATION Spec
INVARIANT SpecOk
INVARIANT Emit
CHECK_DEADLOCK FALSE
