----------------------------- MODULE MC_ValueList -----------------------------
(***************************************************************************)
(* State machine over ValueList: a value and a bounded history of          *)
(* extend/truncate operations drawn from a fixed alphabet.                 *)
(*  * Record = FALSE: model checking of the list model itself (the state   *)
(*    is just the value; invariants below), all histories up to MaxSteps.  *)
(*  * Record = TRUE: the history is part of the state and every complete   *)
(*    history is printed as one CASE for replay on the real code, with the *)
(*    expected outcome and value after every step.                         *)
(***************************************************************************)
EXTENDS ValueList, TLC, Json
CONSTANTS MaxSteps, Record

T(s) == s   \* texts are written as code point tuples below
U32Max == Pos(DSub(P32, <<1>>))
I32Min == Neg(P31)
F15 == FBits("3fc00000")            \* 1.5f32
D15 == FBits("3ff8000000000000")    \* 1.5f64
NoOp == [o |-> "trunc", strs |-> <<>>, nums |-> <<>>, fls |-> <<>>, limit |-> 0]
XStr(ss) == [NoOp EXCEPT !.o = "xstr", !.strs = ss]
XNum(o, ns) == [NoOp EXCEPT !.o = o, !.nums = ns]
XFl(o, fs) == [NoOp EXCEPT !.o = o, !.fls = fs]
Trunc(k) == [NoOp EXCEPT !.limit = k]

Ops == { XStr(<< <<65>> >>), XStr(<<>>), XStr(<< <<66>>, <<67, 32>> >>),
         XNum("xu16", <<NFromInt(1)>>), XNum("xu16", <<NFromInt(65535), NFromInt(256)>>),
         XNum("xi16", <<NFromInt(-1)>>), XNum("xi16", <<NFromInt(-32768), NFromInt(7)>>),
         XNum("xu32", <<U32Max>>), XNum("xu32", <<>>), XNum("xi32", <<I32Min, NFromInt(70000)>>),
         XFl("xf32", <<FInt(NFromInt(3))>>), XFl("xf32", <<F15, FInt(NFromInt(-300))>>),
         XFl("xf64", <<FInt(Pos(P32))>>), XFl("xf64", <<D15>>),
         (* the float-text table: f32 0.1 0.3 16.16 1.0e10 -2.5, f64 0.1 1e21 1e-7 16.16 *)
         XFl("xf32", <<FBits("3dcccccd"), FBits("3e99999a"), FBits("418147ae"), FBits("501502f9"), FBits("c0200000")>>),
         XFl("xf64", <<FBits("3fb999999999999a"), FBits("444b1ae4d6e2ef50"), FBits("3e7ad7f29abcaf48"), FBits("403028f5c28f5c29")>>),
         Trunc(0), Trunc(1), Trunc(2) }

V(var, items) == [var |-> var, items |-> items]
(* kept in separate sets: item shapes differ between the variant classes *)
InitText == { V("Empty", <<>>), V("Str", << <<83>> >>), V("Str", << <<32, 49, 50, 32>> >>), V("Str", << <<>> >>), V("Strs", <<>>), V("Strs", << <<97>>, <<98>>, <<99>> >>) }
InitInt == { V("U8", <<NFromInt(200)>>), V("I16", <<NFromInt(-5), NFromInt(7)>>), V("U16", <<NFromInt(65535)>>),
              V("I32", <<I32Min, NFromInt(0), NFromInt(5)>>), V("U32", <<U32Max>>),
              V("I64", <<Neg(P63)>>), V("U64", <<Pos(DSub(P64, <<1>>)), NFromInt(1)>>) }
InitFloat == { V("F32", <<FInt(NFromInt(2)), F15>>), V("F64", <<D15>>) }
InitOpaque == { V("Tags", <<1, 2, 3>>), V("Date", <<1, 2>>), V("Time", <<1>>), V("DateTime", <<1, 2, 3>>) }

VARIABLES val, steps, hist
vars == <<val, steps, hist>>

Init == /\ (val \in InitText \/ val \in InitInt \/ val \in InitFloat \/ val \in InitOpaque)
        /\ steps = 0 /\ hist = <<>>

Step(op) == /\ steps < MaxSteps
            /\ ~OpUndecided(val, op)
            /\ LET r == Apply(val, op) IN
                 /\ val' = r.v
                 /\ hist' = IF Record THEN Append(hist, [op |-> op, before |-> val, ok |-> r.ok, after |-> r.v, mult |-> Mult(r.v),
                                                        convj |-> ~HasWildcard(r.v), conv |-> IF HasWildcard(r.v) THEN ErrInts ELSE ListConv(r.v)]) ELSE hist
            /\ steps' = steps + 1

ExtendStr == \E op \in {x \in Ops : x.o = "xstr"} : Step(op)
ExtendNum == \E op \in {x \in Ops : x.o \in NumOps} : Step(op)
ExtendFloat == \E op \in {x \in Ops : x.o \in FloatOps} : Step(op)
Truncate == \E op \in {x \in Ops : x.o = "trunc"} : Step(op)
Next == ExtendStr \/ ExtendNum \/ ExtendFloat \/ Truncate
Spec == Init /\ [][Next]_vars

---------------------------------------------------------------------------
(* invariants of the list model *)
ItemOkW(var, it) ==
    CASE var \in TextVars -> TRUE
      [] var \in IntVars -> it = AnyN \/ (IsN(it) /\ InRange(it, VarType(var)))
      [] var \in FloatVars -> it.k \in {"int", "bits", "any"} /\ (it.k = "int" => Exact(it.n, FBitsOf(var)))
      [] OTHER -> TRUE
TypeOk == /\ val.var \in {"Empty"} \cup TextVars \cup IntVars \cup FloatVars \cup OpaqueVars
          /\ (val.var = "Empty") => val.items = <<>>
          /\ (val.var = "Str") => Len(val.items) = 1
          /\ \A i \in 1..Len(val.items) : ItemOkW(val.var, val.items[i])
ASSUME OpsOk == \A op \in Ops : OpOk(op)

NArgs(op) == CASE op.o = "xstr" -> Len(op.strs) [] op.o \in NumOps -> Len(op.nums) [] op.o \in FloatOps -> Len(op.fls) [] OTHER -> 0
IsPrefix(a, b) == Len(a) <= Len(b) /\ \A i \in 1..Len(a) : a[i] = b[i]

OpLaws == \A op \in Ops : OpUndecided(val, op) \/
    LET r == Apply(val, op) IN
      /\ ~r.ok => r.v = val                                                       \* a refusal changes nothing
      /\ (op.o = "xstr") => (r.ok <=> val.var \in TextVars \cup {"Empty"})        \* who refuses what
      /\ (op.o \in NumOps \cup FloatOps) => (r.ok <=> val.var \notin OpaqueVars)
      /\ (op.o = "trunc") => r.ok
      /\ (op.o # "trunc" /\ r.ok) => (/\ Len(r.v.items) = Len(val.items) + NArgs(op)  \* items are appended
                                      /\ IsPrefix(val.items, r.v.items))
      /\ (op.o = "trunc") => (/\ Len(r.v.items) = MinI(op.limit, Len(val.items))     \* a prefix remains
                              /\ IsPrefix(r.v.items, val.items))
      /\ (op.o = "trunc") => Apply(r.v, op).v = r.v                                  \* idempotent
      /\ (op.o = "trunc" /\ op.limit = 0) => (/\ Mult(r.v) = 0                        \* truncate(0) empties every variant
                                              /\ (r.v.var \in IntVars \cup TextVars \cup {"Empty"}) => ListConv(r.v) = OkInts(<<>>))
      /\ (op.o = "trunc" /\ op.limit >= 1 /\ val.var = "Str") => r.v = val           \* a single string has one item

(* an extended integer value still converts item by item to its own type *)
ConvLaw == (val.var \in IntVars /\ \A i \in 1..Len(val.items) : val.items[i] # AnyN) =>
             LET c == ToMultiInt(val, VarType(val.var)) IN c.ok /\ c.ns = val.items

Emit == (Record /\ steps = MaxSteps) =>
          PrintT(<<"CASE", ToJson([kind |-> "hist", init |-> hist[1].before, steps |-> hist])>>)
=============================================================================
