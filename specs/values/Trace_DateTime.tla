---------------------------- MODULE Trace_DateTime ----------------------------
(***************************************************************************)
(* C12 trace validator.  The driver builds values natively, runs the real  *)
(* code and records what it did; every event is judged with the operators  *)
(* of DateTime.                                                            *)
(*  {ev:"val", v:V, res:"ok"|"err"|"panic", text:[cp], back:V,             *)
(*   blen1, blen2, e:{ok,i,tz,off}, l:{ok,i,tz,off}}                       *)
(*     text  = to_encoded() of the real value built from v                 *)
(*     back  = components of parse_*_partial(text)                         *)
(*     blen1 = calculate_byte_len of the one-value element, blen2 of [v,v] *)
(*     e, l  = AsRange::earliest / latest (i: instant components)          *)
(*  {ev:"range", vkind, hasA, a:V, hasB, b:V, text:[cp],                   *)
(*   res:{ok, hasStart, start, hasEnd, end, tz, offStart, offEnd}}         *)
(*     text = to_encoded(a) "-" to_encoded(b); res = parse_*_range(text)   *)
(* A value outside the premise (not Valid) or a panic is never accepted.   *)
(***************************************************************************)
EXTENDS DateTime, TLC, Json, IOUtils

Rec == ndJsonDeserialize(IOEnv.TRACE)

VARIABLES l
tvars == <<l>>
TInit == l = 1 /\ TLCSet(1, 1)
R == Rec[l]
Ev(e) == l <= Len(Rec) /\ R.ev = e /\ l' = l + 1

Inst(x) == [y |-> x.y, m |-> x.m, d |-> x.d, h |-> x.h, mi |-> x.mi, s |-> x.s, us |-> x.us]

BoundOk(v, b, exp) == /\ b.ok
                      /\ Inst(b.i) = exp
                      /\ b.tz = v.tz
                      /\ b.off = v.off

TVal == /\ Ev("val")
        /\ Valid(R.v)                                  \* premise, enforced on the driver
        /\ R.res = "ok"
        /\ R.text = Encode(R.v)
        /\ R.back = R.v
        /\ Parse(R.v.kind, R.text) = R.v
        /\ R.blen1 = ListByteLen(<<R.v>>)
        /\ R.blen2 = ListByteLen(<<R.v, R.v>>)
        /\ BoundOk(R.v, R.e, Earliest(R.v))
        /\ BoundOk(R.v, R.l, Latest(R.v))

(* compact form of a "val" event for the date sweep:                        *)
(*  {ev:"da", p, y, m, d, ok, text, bp, by, bm, bd, b1, b2, ey, em, ed, ly, lm, ld} *)
DaV(p, y, m, d) == [V0 EXCEPT !.kind = "DA", !.dprec = p, !.y = y, !.m = m, !.d = d]
DaI(y, m, d) == [y |-> y, m |-> m, d |-> d, h |-> 0, mi |-> 0, s |-> 0, us |-> 0]
TDa == /\ Ev("da")
       /\ LET v == DaV(R.p, R.y, R.m, R.d) IN
            /\ Valid(v)
            /\ R.ok
            /\ R.text = Encode(v)
            /\ DaV(R.bp, R.by, R.bm, R.bd) = v
            /\ Parse("DA", R.text) = v
            /\ R.b1 = ListByteLen(<<v>>)
            /\ R.b2 = ListByteLen(<<v, v>>)
            /\ DaI(R.ey, R.em, R.ed) = Earliest(v)
            /\ DaI(R.ly, R.lm, R.ld) = Latest(v)

RangePremise == /\ R.hasA => Valid(R.a) /\ R.a.kind = R.vkind
                /\ R.hasB => Valid(R.b) /\ R.b.kind = R.vkind
                /\ R.hasA \/ R.hasB
                /\ (R.hasA /\ R.hasB) =>
                     /\ NotInverted(R.a, R.b)
                     /\ R.a.tz = R.b.tz
                     /\ R.a.tz => (R.a.off = R.b.off \/ R.a.y < R.b.y)
                     /\ ~(R.a.tz /\ R.a.off < 0 /\ R.b.off >= 0)

TRange == /\ Ev("range")
          /\ RangePremise
          /\ R.text = RangeText(R.hasA, R.a, R.hasB, R.b)
          /\ R.res.ok
          /\ LET exp == RangeOf(R.hasA, R.a, R.hasB, R.b) IN
               /\ R.res.hasStart = exp.hasStart
               /\ R.res.hasEnd = exp.hasEnd
               /\ exp.hasStart => (Inst(R.res.start) = exp.start /\ R.res.tz = R.a.tz /\ R.res.offStart = R.a.off)
               /\ exp.hasEnd => (Inst(R.res.end) = exp.end /\ R.res.tz = R.b.tz /\ R.res.offEnd = R.b.off)

TNext == TVal \/ TDa \/ TRange
TSpec == TInit /\ [][TNext]_tvars

Track == TLCSet(1, IF l > TLCGet(1) THEN l ELSE TLCGet(1))
Accepted == IF TLCGet(1) = Len(Rec) + 1 THEN TRUE
            ELSE Print(<<"REJECTED", TLCGet(1), ToJson(Rec[TLCGet(1)])>>, FALSE)
=============================================================================
