----------------------------- MODULE PersonName -----------------------------
(***************************************************************************)
(* C17.  DICOM person names (PS3.5 6.2, VR PN) restricted to a single      *)
(* component group: five components in the order family, given, middle,    *)
(* prefix, suffix, separated by "^".  Text is a sequence of Unicode code   *)
(* points; a component is a (possibly empty) code point sequence and the   *)
(* empty sequence means "absent".                                          *)
(*                                                                         *)
(* ToText omits trailing empty components (and their delimiters) and keeps *)
(* leading/inner empty components as bare delimiters; FromText is its      *)
(* inverse on well-formed components.  Written from the property text and  *)
(* PS3.5, not from the Rust code.                                          *)
(***************************************************************************)
EXTENDS Naturals, Sequences

Caret == 94      \* "^" component delimiter
EqSign == 61     \* "=" component group delimiter
Space == 32

NComp == 5

(* premise of the property: no delimiters inside a component, no leading   *)
(* or trailing space                                                       *)
WellFormedComp(s) ==
    /\ \A i \in 1..Len(s) : s[i] \notin {Caret, EqSign}
    /\ (Len(s) > 0) => (s[1] # Space /\ s[Len(s)] # Space)
WellFormed(c) == Len(c) = NComp /\ \A i \in 1..NComp : WellFormedComp(c[i])

RECURSIVE LastPresent(_, _)
LastPresent(c, n) == IF n = 0 THEN 0 ELSE IF c[n] # <<>> THEN n ELSE LastPresent(c, n - 1)

RECURSIVE Join(_, _)
Join(c, n) == IF n = 0 THEN <<>>
              ELSE IF n = 1 THEN c[1]
              ELSE Join(c, n - 1) \o <<Caret>> \o c[n]

ToText(c) == Join(c, LastPresent(c, NComp))

(* split a text at every "^": always at least one (possibly empty) part    *)
RECURSIVE SplitFrom(_, _, _)
SplitFrom(s, i, cur) ==
    IF i > Len(s) THEN <<cur>>
    ELSE IF s[i] = Caret THEN <<cur>> \o SplitFrom(s, i + 1, <<>>)
    ELSE SplitFrom(s, i + 1, Append(cur, s[i]))
Split(s) == SplitFrom(s, 1, <<>>)

FromText(s) == LET p == Split(s) IN [i \in 1..NComp |-> IF i <= Len(p) THEN p[i] ELSE <<>>]

NumCarets(s) == Len(Split(s)) - 1

(* the obligations of C17 on a component tuple c and what the code made of it *)
TextOk(c, text) == text = ToText(c)
BackOk(c, back) == back = c

(* sanity theorems of the specification itself (checked by TLC in Gen/MC)  *)
RoundTrip(c) == FromText(ToText(c)) = c
TrailingOmitted(c) == LET n == LastPresent(c, NComp) IN
                        NumCarets(ToText(c)) = (IF n = 0 THEN 0 ELSE n - 1)
=============================================================================
