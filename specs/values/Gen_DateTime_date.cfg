CONSTANTS Kind = "date" Years = {0, 1, 4, 100, 400, 1900, 2000, 2023, 2024, 9999} Secs = {0}
SPECIFICATION Spec
INVARIANT SpecOk
INVARIANT Emit
CHECK_DEADLOCK FALSE
