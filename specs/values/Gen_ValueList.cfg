CONSTANTS MaxSteps = 2 Record = TRUE
SPECIFICATION Spec
INVARIANT Emit
CHECK_DEADLOCK FALSE
