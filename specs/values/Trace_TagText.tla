---------------------------- MODULE Trace_TagText ----------------------------
(***************************************************************************)
(* C14 trace validator: every event is one call of the real code, judged   *)
(* with the operators of TagText.                                          *)
(*  {ev:"tag", s:[cp], res:"ok"|"err"|"panic", tag:[g,e]}  Tag::from_str   *)
(*  {ev:"show", tag:[g,e], s:[cp]}                          Display of Tag  *)
(*  {ev:"sel", sel:{tags,items}, res:"ok"|"panic", s:[cp], back:{ok,tags,items}} *)
(*        Display of a constructed AttributeSelector and parse_selector of  *)
(*        that text                                                        *)
(*  {ev:"selparse", s:[cp], dict:[entries], panic:bool, res:{ok,tags,items}} *)
(*        parse_selector of a text in any documented form; dict holds the  *)
(*        dictionary table rows of the keywords that occur in s            *)
(* A panic is never accepted.                                              *)
(***************************************************************************)
EXTENDS TagText, TLC, Json, IOUtils

Rec == ndJsonDeserialize(IOEnv.TRACE)

VARIABLES l
tvars == <<l>>
TInit == l = 1 /\ TLCSet(1, 1)
R == Rec[l]
Ev(e) == l <= Len(Rec) /\ R.ev = e /\ l' = l + 1

T2(t) == <<t[1], t[2]>>
NormSel(x) == [tags |-> [k \in 1..Len(x.tags) |-> T2(x.tags[k])], items |-> x.items]

TTag == /\ Ev("tag")
        /\ CASE R.res = "ok"  -> Recognise(R.s) # NoTag /\ Recognise(R.s) = T2(R.tag)
             [] R.res = "err" -> Recognise(R.s) = NoTag
             [] OTHER -> FALSE

TShow == /\ Ev("show")
         /\ IsTag(T2(R.tag))
         /\ R.s = Display(T2(R.tag))

TSel == /\ Ev("sel")
        /\ R.res = "ok"
        /\ IsSel(NormSel(R.sel))                     \* premise
        /\ R.s = PrintSel(NormSel(R.sel))
        /\ R.back.ok
        /\ NormSel(R.back) = NormSel(R.sel)

TSelParse == /\ Ev("selparse")
             /\ ~R.panic
             /\ SelResultOk(R.dict, R.s, R.res)

TNext == TTag \/ TShow \/ TSel \/ TSelParse
TSpec == TInit /\ [][TNext]_tvars

Track == TLCSet(1, IF l > TLCGet(1) THEN l ELSE TLCGet(1))
Accepted == IF TLCGet(1) = Len(Rec) + 1 THEN TRUE
            ELSE Print(<<"REJECTED", TLCGet(1), ToJson(Rec[TLCGet(1)])>>, FALSE)
=============================================================================
