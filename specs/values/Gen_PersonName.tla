--------------------------- MODULE Gen_PersonName ---------------------------
(* C17 case generator + exhaustive model check of the specification: every *)
(* 5-tuple over the component alphabet (which includes the empty component *)
(* so that all 32 presence combinations occur).  Each state is one case.   *)
EXTENDS PersonName, TLC, Json
CONSTANT NAlpha

(* "", "A", "Ab c", a non-ASCII token (U+00C5 U+4E2D U+1F600), ASCII punctuation incl. the       *)
(* backslash  H\j/.,-'"@x , "O'Neil-X."                                                        *)
Alphabet == << <<>>, <<65>>, <<65, 98, 32, 99>>, <<197, 20013, 128512>>,
               <<72, 92, 106, 47, 46, 44, 45, 39, 34, 64, 120>>,
               <<79, 39, 78, 101, 105, 108, 45, 88, 46>> >>

VARIABLE c
vars == <<c>>

Init == c \in [1..NComp -> {Alphabet[i] : i \in 1..NAlpha}]
Next == UNCHANGED c
Spec == Init /\ [][Next]_vars

SpecOk == /\ WellFormed(c)
          /\ RoundTrip(c)
          /\ TrailingOmitted(c)

Emit == PrintT(<<"CASE", ToJson([comps |-> c, text |-> ToText(c), back |-> FromText(ToText(c)),
                                   present |-> [i \in 1..NComp |-> c[i] # <<>>]])>>)
=============================================================================
