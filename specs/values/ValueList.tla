------------------------------ MODULE ValueList ------------------------------
(***************************************************************************)
(* C11, second half: "appending numbers or strings to a value and          *)
(* truncating a value change its items exactly as documented".             *)
(* List model of PrimitiveValue::extend_str / extend_u16 / extend_i16 /    *)
(* extend_u32 / extend_i32 / extend_f32 / extend_f64 / truncate, written   *)
(* from their documentation:                                               *)
(*  * extend_str: textual or empty values only; an empty value becomes a   *)
(*    list of the strings; other variants refuse and stay unchanged;       *)
(*  * extend_<number>: an empty value becomes a list of the numbers (of    *)
(*    the given type); on textual values the numbers are appended as text; *)
(*    on numeric values they are converted to the current number type      *)
(*    through casting; Tags/Date/Time/DateTime refuse;                     *)
(*  * truncate(limit): the first min(limit, len) items remain.             *)
(* A value is [var, items] as in Conv.  An operation is a record           *)
(*   [o |-> "xstr"|"xu16"|"xi16"|"xu32"|"xi32"|"xf32"|"xf64"|"trunc",      *)
(*    strs |-> texts, nums |-> N's, fls |-> float tokens, limit |-> Nat].  *)
(* Items the documentation does not pin down (text of a float, cast of a   *)
(* non-integral float to an integer, float from a big integer) are the     *)
(* wildcards AnyText / AnyN / FAny.                                        *)
(***************************************************************************)
EXTENDS Conv

AnyText == <<-1>>
AnyN == [neg |-> FALSE, d |-> <<>>]

ExtType(o) == CASE o = "xu16" -> "u16" [] o = "xi16" -> "i16" [] o = "xu32" -> "u32" [] o = "xi32" -> "i32"
ExtVar(o) == CASE o = "xu16" -> "U16" [] o = "xi16" -> "I16" [] o = "xu32" -> "U32" [] o = "xi32" -> "I32"
               [] o = "xf32" -> "F32" [] o = "xf64" -> "F64"
NumOps == {"xu16", "xi16", "xu32", "xi32"}
FloatOps == {"xf32", "xf64"}

(* premise on operation arguments *)
OpOk(op) == CASE op.o = "xstr" -> TRUE
              [] op.o \in NumOps -> \A i \in 1..Len(op.nums) : IsN(op.nums[i]) /\ InRange(op.nums[i], ExtType(op.o))
              [] op.o \in FloatOps -> \A i \in 1..Len(op.fls) :
                     op.fls[i].k \in {"int", "bits"} /\ (op.fls[i].k = "int" => Exact(op.fls[i].n, IF op.o = "xf32" THEN 32 ELSE 64))
              [] op.o = "trunc" -> op.limit >= 0

(* `as` cast between integer types (two's complement wrap); sources are at most 32 bit wide *)
WrapTo(n, T) ==
    LET b == Bits(T)
        m == IF b <= 16
             THEN LET r == DMod(n.d, IF b = 8 THEN 256 ELSE 65536)
                  IN IF n.neg /\ r # 0 THEN SmallDigits((IF b = 8 THEN 256 ELSE 65536) - r) ELSE SmallDigits(r)
             ELSE IF n.neg THEN DSub(Pow2(b), n.d) ELSE n.d      \* |n| < 2^32 <= 2^b
    IN IF Signed(T) /\ DLeq(Pow2(b - 1), m) THEN Neg(DSub(Pow2(b), m)) ELSE Pos(m)

(* float -> integer `as` cast of an integral value: saturating *)
Clamp(n, T) == IF NLeq(n, MinN(T)) THEN MinN(T) ELSE IF NLeq(MaxN(T), n) THEN MaxN(T) ELSE n

Map(f(_), s) == [i \in 1..Len(s) |-> f(s[i])]

NumItemsFor(v, op) ==
    CASE v.var \in IntVars -> [i \in 1..Len(op.nums) |-> WrapTo(op.nums[i], VarType(v.var))]
      [] v.var \in FloatVars -> [i \in 1..Len(op.nums) |->
                                   IF Exact(op.nums[i], FBitsOf(v.var)) THEN FInt(op.nums[i]) ELSE FAny]
FloatItemsFor(v, op) ==
    LET w == IF op.o = "xf32" THEN 32 ELSE 64 IN
    CASE v.var \in IntVars -> [i \in 1..Len(op.fls) |->
                                 IF op.fls[i].k = "int" THEN Clamp(op.fls[i].n, VarType(v.var)) ELSE AnyN]
      [] v.var \in FloatVars -> [i \in 1..Len(op.fls) |->
                                   IF FBitsOf(v.var) = w THEN op.fls[i]
                                   ELSE IF op.fls[i].k = "int" /\ Exact(op.fls[i].n, FBitsOf(v.var)) THEN op.fls[i]
                                   ELSE FAny]

(* Text appended when a float is pushed onto a textual value: the number's shortest decimal    *)
(* text that round-trips in its OWN type (f32 for extend_f32, f64 for extend_f64), without an   *)
(* exponent; an integral value prints without a fraction.  Stated as data for a table of bit    *)
(* patterns (f32: 0.1 0.3 16.16 1.0e10 -2.5 1.5; f64: 0.1 0.3 16.16 1e21 1e-7 -2.5 1.5); other  *)
(* non-integral patterns stay undecided (AnyText).                                              *)
FloatTextTable == <<
    [b |-> "3dcccccd", t |-> <<48, 46, 49>>],
    [b |-> "3e99999a", t |-> <<48, 46, 51>>],
    [b |-> "418147ae", t |-> <<49, 54, 46, 49, 54>>],
    [b |-> "501502f9", t |-> <<49, 48, 48, 48, 48, 48, 48, 48, 48, 48, 48>>],
    [b |-> "c0200000", t |-> <<45, 50, 46, 53>>],
    [b |-> "3fc00000", t |-> <<49, 46, 53>>],
    [b |-> "3fb999999999999a", t |-> <<48, 46, 49>>],
    [b |-> "3fd3333333333333", t |-> <<48, 46, 51>>],
    [b |-> "403028f5c28f5c29", t |-> <<49, 54, 46, 49, 54>>],
    [b |-> "444b1ae4d6e2ef50", t |-> <<49, 48, 48, 48, 48, 48, 48, 48, 48, 48, 48, 48, 48, 48, 48, 48, 48, 48, 48, 48, 48, 48>>],
    [b |-> "3e7ad7f29abcaf48", t |-> <<48, 46, 48, 48, 48, 48, 48, 48, 49>>],
    [b |-> "c004000000000000", t |-> <<45, 50, 46, 53>>],
    [b |-> "3ff8000000000000", t |-> <<49, 46, 53>>] >>
RECURSIVE TableIndex(_, _)
TableIndex(b, i) == IF i > Len(FloatTextTable) THEN 0 ELSE IF FloatTextTable[i].b = b THEN i ELSE TableIndex(b, i + 1)
FloatText(f) == IF f.k = "int" THEN NText(f.n)
                ELSE LET i == TableIndex(f.b, 1) IN IF i = 0 THEN AnyText ELSE FloatTextTable[i].t

Refused(v) == [ok |-> FALSE, v |-> v]
Done(var, items) == [ok |-> TRUE, v |-> [var |-> var, items |-> items]]

Apply(v, op) ==
    CASE op.o = "xstr" ->
           (CASE v.var = "Empty" -> Done("Strs", op.strs)
              [] v.var \in TextVars -> Done("Strs", v.items \o op.strs)
              [] OTHER -> Refused(v))
      [] op.o \in NumOps ->
           (CASE v.var = "Empty" -> Done(ExtVar(op.o), op.nums)
              [] v.var \in TextVars -> Done("Strs", v.items \o [i \in 1..Len(op.nums) |-> NText(op.nums[i])])
              [] v.var \in IntVars \cup FloatVars -> Done(v.var, v.items \o NumItemsFor(v, op))
              [] OTHER -> Refused(v))
      [] op.o \in FloatOps ->
           (CASE v.var = "Empty" -> Done(ExtVar(op.o), op.fls)
              [] v.var \in TextVars -> Done("Strs", v.items \o [i \in 1..Len(op.fls) |-> FloatText(op.fls[i])])
              [] v.var \in IntVars \cup FloatVars -> Done(v.var, v.items \o FloatItemsFor(v, op))
              [] OTHER -> Refused(v))
      [] op.o = "trunc" ->
           (CASE v.var = "Empty" -> Done("Empty", <<>>)
              [] v.var = "Str" -> IF op.limit >= 1 THEN Done("Str", v.items) ELSE Done("Strs", <<>>)
              [] OTHER -> Done(v.var, SubSeq(v.items, 1, MinI(op.limit, Len(v.items)))))

(* Every operation on every variant is decided.  In particular truncate(0) of a single-string *)
(* value (one item, see multiplicity) leaves a textual value with no items, as documented      *)
(* ("shorten this value ... to fit the given limit") and as the code does since the fix        *)
(* "truncate(0) also clears a single string value".                                            *)
OpUndecided(v, op) == FALSE

(* observations the documentation ties to the items: the number of items and the list           *)
(* conversion of the value (one result per item, no items => empty list)                       *)
Mult(v) == Len(v.items)
HasWildcard(v) == \E i \in 1..Len(v.items) :
                    \/ (v.var \in TextVars /\ v.items[i] = AnyText)
                    \/ (v.var \in IntVars /\ v.items[i] = AnyN)
                    \/ (v.var \in FloatVars /\ v.items[i].k = "any")
ListConv(v) == ToMultiInt(v, "i64")

(* comparison of the model value with what the code holds *)
VarClass(var) == IF var \in TextVars THEN "text" ELSE var
ItemMatch(var, exp, got) ==
    CASE var \in TextVars -> exp = AnyText \/ exp = got
      [] var \in IntVars -> exp = AnyN \/ exp = got
      [] var \in FloatVars -> FMatch(exp, got)
      [] OTHER -> exp = got
SameValue(m, got) ==
    /\ VarClass(m.var) = VarClass(got.var)
    /\ Len(m.items) = Len(got.items)
    /\ \A i \in 1..Len(m.items) : ItemMatch(m.var, m.items[i], got.items[i])

(* replace wildcards by what the code produced so that the model can go on *)
Adopt(m, got) == [var |-> m.var, items |-> [i \in 1..Len(m.items) |->
                    IF (m.var \in TextVars /\ m.items[i] = AnyText) \/ (m.var \in IntVars /\ m.items[i] = AnyN)
                       \/ (m.var \in FloatVars /\ m.items[i].k = "any")
                    THEN got.items[i] ELSE m.items[i]]]
=============================================================================
