----------------------------- MODULE Gen_TagText -----------------------------
(***************************************************************************)
(* C14 case generator and model check of TagText: one cfg per case family  *)
(* tag (valid forms), str (near misses + byte-length families), alt        *)
(* (selectors in canonical and alternative key forms).                     *)
(* (constant Kind).  Every state is one case; the invariant SpecOk checks  *)
(* the specification's own round-trip theorems, Emit prints the case with  *)
(* the result expected by the specification.                               *)
(***************************************************************************)
EXTENDS TagText, TLC, Json
CONSTANTS Kind, MaxDepth

BVals == {0, 1, 16, 255, 4096, 32736, 43981, 65534, 65535}
BTags == {<<g, e>> : g \in BVals, e \in BVals}
Cases4 == {<<TRUE, TRUE>>, <<FALSE, FALSE>>, <<TRUE, FALSE>>, <<FALSE, TRUE>>}

(* printer with separate case for group and element *)
PrintTag2(t, form, ug, ue) ==
    CASE form = "paren" -> <<LPar>> \o Print4(t[1], ug) \o <<Comma>> \o Print4(t[2], ue) \o <<RPar>>
      [] form = "comma" -> Print4(t[1], ug) \o <<Comma>> \o Print4(t[2], ue)
      [] form = "plain" -> Print4(t[1], ug) \o Print4(t[2], ue)

(* ---- near misses: one edit of a valid form ---- *)
Repl == {71, 103, 32, 40, 41, 44, 43, 45, 120, 47, 58, 64, 96, 0, 8364, 65297, 233, 128512, 48, 70, 10}
BaseTag == <<32736, 171>>     \* (7FE0,00AB)
Bases == {PrintTag2(BaseTag, f, TRUE, FALSE) : f \in Forms}
ReplaceAt(s, i, r) == [k \in 1..Len(s) |-> IF k = i THEN r ELSE s[k]]
DeleteAt(s, i) == [k \in 1..(Len(s) - 1) |-> IF k < i THEN s[k] ELSE s[k + 1]]
InsertAt(s, i, r) == [k \in 1..(Len(s) + 1) |-> IF k < i THEN s[k] ELSE IF k = i THEN r ELSE s[k - 1]]
Near == UNION {
          {ReplaceAt(b, i, r) : i \in 1..Len(b), r \in Repl}
          \cup {DeleteAt(b, i) : i \in 1..Len(b)}
          \cup {InsertAt(b, i, r) : i \in 1..(Len(b) + 1), r \in Repl}
          \cup {b \o b, <<>>, <<LPar>> \o b \o <<RPar>>, SubSeq(b, 1, 4)}
        : b \in Bases}

(* ---- all strings over a small alphabet with a given UTF-8 byte length ---- *)
RECURSIVE ByBytes(_, _)
ByBytes(alpha, n) == IF n = 0 THEN {<<>>}
                     ELSE UNION {{<<c>> \o s : s \in ByBytes(alpha, n - Utf8Width(c))}
                                 : c \in {a \in alpha : Utf8Width(a) <= n}}
A8 == {97, 49, 233, 8364, 128512}
A9 == {70, 44, 233, 8364, 128512}
Bytes == ByBytes(A8, 8) \cup ByBytes(A9, 9) \cup {<<LPar>> \o s \o <<RPar>> : s \in ByBytes(A9, 9)}

(* ---- selectors ---- *)
GenDict == << [kw |-> <<80, 97, 116, 105, 101, 110, 116, 78, 97, 109, 101>>, kind |-> "Single", g |-> 16, e |-> 16],
              [kw |-> <<67, 111, 110, 116, 101, 110, 116, 83, 101, 113, 117, 101, 110, 99, 101>>, kind |-> "Single", g |-> 64, e |-> 42800],
              [kw |-> <<79, 118, 101, 114, 108, 97, 121, 68, 97, 116, 97>>, kind |-> "Group100", g |-> 24576, e |-> 12288] >>
STags == {<<16, 16>>, <<64, 42800>>, <<24576, 12288>>, <<65535, 65535>>}
SItems == {Zero, <<1>>, U32Max}
RECURSIVE SelsOfDepth(_)
SelsOfDepth(n) == IF n = 1 THEN {[tags |-> <<t>>, items |-> <<>>] : t \in STags}
                  ELSE {[tags |-> <<t>> \o x.tags, items |-> <<i>> \o x.items] : t \in STags, i \in SItems, x \in SelsOfDepth(n - 1)}
Sels == UNION {SelsOfDepth(n) : n \in 1..MaxDepth}

KeyForms == {"paren", "comma", "plain", "keyword"}
KwOf(t) == CASE t = <<16, 16>> -> GenDict[1].kw [] t = <<64, 42800>> -> GenDict[2].kw
             [] t = <<24576, 12288>> -> GenDict[3].kw [] OTHER -> <<>>
KeyText(t, f) == CASE f = "paren" -> PrintTag(t, "paren", TRUE)
                   [] f = "comma" -> PrintTag(t, "comma", FALSE)
                   [] f = "plain" -> PrintTag(t, "plain", TRUE)
                   [] f = "keyword" -> IF KwOf(t) = <<>> THEN PrintTag(t, "plain", FALSE) ELSE KwOf(t)
Alts == {[sel |-> x, forms |-> fs, omit |-> om] :
            x \in Sels, fs \in [1..MaxDepth -> KeyForms], om \in BOOLEAN}
AltText(a) == PrintKeysFrom([k \in 1..Len(a.sel.tags) |-> KeyText(a.sel.tags[k], a.forms[k])],
                            a.sel.items, [k \in 1..Len(a.sel.tags) |-> a.omit], 1)

VARIABLE c
vars == <<c>>

Init == CASE Kind = "tag"   -> c \in {[tag |-> t, form |-> f, ug |-> u[1], ue |-> u[2]] : t \in BTags, f \in Forms, u \in Cases4}
             [] Kind = "str"   -> c \in {[s |-> s] : s \in Near \cup Bytes}
             [] Kind = "alt"   -> c \in Alts
Next == UNCHANGED c
Spec == Init /\ [][Next]_vars

Res(s) == LET t == Recognise(s) IN IF t = NoTag THEN [ok |-> FALSE, tag |-> <<0, 0>>] ELSE [ok |-> TRUE, tag |-> t]

SpecOk == CASE Kind = "tag" -> /\ Recognise(PrintTag2(c.tag, c.form, c.ug, c.ue)) = c.tag
                               /\ Recognise(Display(c.tag)) = c.tag
            [] Kind = "alt" -> /\ IsSel(c.sel)
                               /\ ParseSel(GenDict, AltText(c)) = AsSel(c.sel)
                               /\ ParseSel(GenDict, PrintSel(c.sel)) = AsSel(c.sel)
                               /\ ((\A k \in 1..Len(c.sel.tags) : c.forms[k] = "paren") /\ ~c.omit) => AltText(c) = PrintSel(c.sel)
            [] OTHER -> TRUE

Emit ==
    CASE Kind = "tag" -> PrintT(<<"CASE", ToJson([kind |-> "tag", tag |-> c.tag, s |-> PrintTag2(c.tag, c.form, c.ug, c.ue),
                                                  res |-> Res(PrintTag2(c.tag, c.form, c.ug, c.ue)), show |-> Display(c.tag)])>>)
      [] Kind = "str" -> PrintT(<<"CASE", ToJson([kind |-> "str", s |-> c.s, res |-> Res(c.s)])>>)
      [] Kind = "alt" -> PrintT(<<"CASE", ToJson([kind |-> "sel", sel |-> c.sel, s |-> AltText(c),
                                                  res |-> ParseSel(GenDict, AltText(c)), show |-> PrintSel(c.sel)])>>)
=============================================================================
