CONSTANTS MaxSteps = 3 Record = TRUE
SPECIFICATION Spec
INVARIANT Emit
CHECK_DEADLOCK FALSE
