------------------------------- MODULE TagText -------------------------------
(***************************************************************************)
(* C14.  Text syntax of DICOM tags and attribute selectors, as documented  *)
(* (dicom_core::Tag, dicom_core::ops::AttributeSelector, DataDictionary::  *)
(* parse_selector) and as stated by the property:                          *)
(*                                                                         *)
(*   tag        ::= "(" G "," E ")"  |  G "," E  |  G E                    *)
(*   G, E       ::= exactly four hexadecimal digits, upper or lower case   *)
(*   selector   ::= ( key ( "[" item "]" )? "." )* key                     *)
(*   key        ::= tag | dictionary keyword                               *)
(*   item       ::= unsigned decimal integer (32 bit)                      *)
(*                                                                         *)
(* Text is a sequence of Unicode code points.  A tag is <<group, element>> *)
(* with both in 0..65535.  Item indices do not fit TLC's 32-bit integers   *)
(* and are canonical decimal digit sequences (<<0>>, <<4,2,9,...>>).       *)
(* This is a recogniser + printer written from the documentation, not a    *)
(* transcription of the Rust parser.                                       *)
(***************************************************************************)
EXTENDS Naturals, Sequences

LPar == 40   RPar == 41   Comma == 44   Dot == 46   LBr == 91   RBr == 93

IsDigit(c) == c >= 48 /\ c <= 57
IsHex(c) == (c >= 48 /\ c <= 57) \/ (c >= 65 /\ c <= 70) \/ (c >= 97 /\ c <= 102)
HexVal(c) == IF c <= 57 THEN c - 48 ELSE IF c <= 70 THEN c - 55 ELSE c - 87

AllHex(s, i, j) == \A k \in i..j : IsHex(s[k])
Hex4(s, i) == HexVal(s[i]) * 4096 + HexVal(s[i + 1]) * 256 + HexVal(s[i + 2]) * 16 + HexVal(s[i + 3])

NoTag == <<>>
IsTag(t) == Len(t) = 2 /\ t[1] \in 0..65535 /\ t[2] \in 0..65535

(* the recogniser: the tag denoted by s, or NoTag when s is not one of the   *)
(* three accepted forms                                                      *)
Recognise(s) ==
    IF Len(s) = 11 /\ s[1] = LPar /\ s[6] = Comma /\ s[11] = RPar /\ AllHex(s, 2, 5) /\ AllHex(s, 7, 10)
      THEN <<Hex4(s, 2), Hex4(s, 7)>>
    ELSE IF Len(s) = 9 /\ s[5] = Comma /\ AllHex(s, 1, 4) /\ AllHex(s, 6, 9)
      THEN <<Hex4(s, 1), Hex4(s, 6)>>
    ELSE IF Len(s) = 8 /\ AllHex(s, 1, 8)
      THEN <<Hex4(s, 1), Hex4(s, 5)>>
    ELSE NoTag

(* printer; `up` selects upper-case hexadecimal digits                       *)
HexDigit(v, up) == IF v < 10 THEN 48 + v ELSE IF up THEN 55 + v ELSE 87 + v
Print4(n, up) == << HexDigit(n \div 4096, up), HexDigit((n \div 256) % 16, up),
                    HexDigit((n \div 16) % 16, up), HexDigit(n % 16, up) >>
Forms == {"paren", "comma", "plain"}
PrintTag(t, form, up) ==
    CASE form = "paren" -> <<LPar>> \o Print4(t[1], up) \o <<Comma>> \o Print4(t[2], up) \o <<RPar>>
      [] form = "comma" -> Print4(t[1], up) \o <<Comma>> \o Print4(t[2], up)
      [] form = "plain" -> Print4(t[1], up) \o Print4(t[2], up)
(* the documented Display form *)
Display(t) == PrintTag(t, "paren", TRUE)

(* number of bytes of the UTF-8 encoding (used by generators only)           *)
Utf8Width(c) == IF c < 128 THEN 1 ELSE IF c < 2048 THEN 2 ELSE IF c < 65536 THEN 3 ELSE 4

---------------------------------------------------------------------------
(* decimal digit sequences                                                   *)
IsDigits(d) == Len(d) > 0 /\ \A i \in 1..Len(d) : d[i] \in 0..9
RECURSIVE StripZeros(_)
StripZeros(d) == IF Len(d) > 1 /\ d[1] = 0 THEN StripZeros(Tail(d)) ELSE d
IsCanon(d) == IsDigits(d) /\ (Len(d) = 1 \/ d[1] # 0)
RECURSIVE LexLeq(_, _, _)
LexLeq(a, b, i) == IF i > Len(a) THEN TRUE
                   ELSE IF a[i] < b[i] THEN TRUE
                   ELSE IF a[i] > b[i] THEN FALSE
                   ELSE LexLeq(a, b, i + 1)
(* a <= b for canonical digit sequences *)
DigitsLeq(a, b) == Len(a) < Len(b) \/ (Len(a) = Len(b) /\ LexLeq(a, b, 1))
U32Max == <<4, 2, 9, 4, 9, 6, 7, 2, 9, 5>>
IsU32(d) == IsCanon(d) /\ DigitsLeq(d, U32Max)
Zero == <<0>>
DigitChars(d) == [i \in 1..Len(d) |-> 48 + d[i]]

---------------------------------------------------------------------------
(* selectors: [tags |-> <<t1, .., tn>>, items |-> <<i1, .., i(n-1)>>], n >= 1 *)
IsSel(x) == /\ Len(x.tags) >= 1 /\ Len(x.items) = Len(x.tags) - 1
            /\ \A k \in 1..Len(x.tags) : IsTag(x.tags[k])
            /\ \A k \in 1..Len(x.items) : IsU32(x.items[k])

(* the Display form: every intermediate step carries its item index          *)
RECURSIVE PrintSelFrom(_, _)
PrintSelFrom(x, k) ==
    IF k = Len(x.tags) THEN Display(x.tags[k])
    ELSE Display(x.tags[k]) \o <<LBr>> \o DigitChars(x.items[k]) \o <<RBr, Dot>> \o PrintSelFrom(x, k + 1)
PrintSel(x) == PrintSelFrom(x, 1)

(* general printer: keys[k] is the text chosen for step k (any tag form or a *)
(* keyword), omit[k] says that the "[0]" of an intermediate step is left out *)
RECURSIVE PrintKeysFrom(_, _, _, _)
PrintKeysFrom(keys, items, omit, k) ==
    IF k = Len(keys) THEN keys[k]
    ELSE keys[k] \o (IF omit[k] /\ items[k] = Zero THEN <<>> ELSE <<LBr>> \o DigitChars(items[k]) \o <<RBr>>)
         \o <<Dot>> \o PrintKeysFrom(keys, items, omit, k + 1)

(* parsing *)
RECURSIVE SplitAt(_, _, _, _)
SplitAt(s, sep, i, cur) ==
    IF i > Len(s) THEN <<cur>>
    ELSE IF s[i] = sep THEN <<cur>> \o SplitAt(s, sep, i + 1, <<>>)
    ELSE SplitAt(s, sep, i + 1, Append(cur, s[i]))
Split(s, sep) == SplitAt(s, sep, 1, <<>>)

RECURSIVE FirstIndex(_, _, _)
FirstIndex(s, c, i) == IF i > Len(s) THEN 0 ELSE IF s[i] = c THEN i ELSE FirstIndex(s, c, i + 1)

(* a dictionary is a sequence of entries [kw |-> code points, kind |-> "Single" |    *)
(* "Group100" | "Element100", g |-> , e |->] (data; PS3.6 / the dictionary's table)  *)
RECURSIVE Lookup(_, _, _)
Lookup(dict, key, i) == IF i > Len(dict) THEN 0 ELSE IF dict[i].kw = key THEN i ELSE Lookup(dict, key, i + 1)

(* the tag a key denotes: a tag form wins, otherwise the keyword's base tag; NoTag if neither *)
KeyTag(dict, key) ==
    IF Recognise(key) # NoTag THEN Recognise(key)
    ELSE LET i == Lookup(dict, key, 1) IN IF i = 0 THEN NoTag ELSE <<dict[i].g, dict[i].e>>

(* tags a keyword entry stands for (repeating groups / elements)              *)
InEntry(t, ent) ==
    CASE ent.kind = "Single" -> t = <<ent.g, ent.e>>
      [] ent.kind = "Group100" -> t[2] = ent.e /\ t[1] >= ent.g /\ t[1] <= ent.g + 255
      [] ent.kind = "Element100" -> t[1] = ent.g /\ t[2] >= ent.e /\ t[2] <= ent.e + 255

(* one part "key" or "key[item]" -> [ok, key, item, has] *)
ParsePart(p) ==
    IF Len(p) > 0 /\ p[Len(p)] = RBr
    THEN LET b == FirstIndex(p, LBr, 1) IN
         IF b = 0 THEN [ok |-> FALSE, key |-> <<>>, item |-> Zero, has |-> TRUE]
         ELSE LET digs == [i \in 1..(Len(p) - b - 1) |-> p[b + i]] IN
              IF Len(digs) > 0 /\ (\A i \in 1..Len(digs) : IsDigit(digs[i]))
                 /\ IsU32(StripZeros([i \in 1..Len(digs) |-> digs[i] - 48]))
              THEN [ok |-> TRUE, key |-> SubSeq(p, 1, b - 1),
                    item |-> StripZeros([i \in 1..Len(digs) |-> digs[i] - 48]), has |-> TRUE]
              ELSE [ok |-> FALSE, key |-> <<>>, item |-> Zero, has |-> TRUE]
    ELSE [ok |-> TRUE, key |-> p, item |-> Zero, has |-> FALSE]

BadSel == [ok |-> FALSE, tags |-> <<>>, items |-> <<>>]

ParseSel(dict, s) ==
    LET parts == Split(s, Dot)
        n == Len(parts)
        pp == [k \in 1..n |-> ParsePart(parts[k])]
        tg == [k \in 1..n |-> IF pp[k].ok THEN KeyTag(dict, pp[k].key) ELSE NoTag]
    IN IF /\ \A k \in 1..n : pp[k].ok /\ tg[k] # NoTag
          /\ ~pp[n].has
       THEN [ok |-> TRUE, tags |-> tg, items |-> [k \in 1..(n - 1) |-> pp[k].item]]
       ELSE BadSel

(* does an observed parse result agree with the specification?  For keyword   *)
(* keys of repeating-group entries any tag of the entry's range is accepted.  *)
SelResultOk(dict, s, res) ==
    LET exp == ParseSel(dict, s)
        parts == Split(s, Dot)
        pp == [k \in 1..Len(parts) |-> ParsePart(parts[k])]
    IN IF ~exp.ok THEN ~res.ok
       ELSE /\ res.ok
            /\ Len(res.tags) = Len(exp.tags)
            /\ Len(res.items) = Len(exp.items)
            /\ \A k \in 1..Len(exp.items) : res.items[k] = exp.items[k]
            /\ \A k \in 1..Len(exp.tags) :
                 IF Recognise(pp[k].key) # NoTag THEN res.tags[k] = exp.tags[k]
                 ELSE InEntry(<<res.tags[k][1], res.tags[k][2]>>, dict[Lookup(dict, pp[k].key, 1)])

AsSel(x) == [ok |-> TRUE, tags |-> x.tags, items |-> x.items]
=============================================================================
