CONSTANTS Kind = "alt" MaxDepth = 3
SPECIFICATION Spec
INVARIANT SpecOk
INVARIANT Emit
CHECK_DEADLOCK FALSE
