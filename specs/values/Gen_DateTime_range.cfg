CONSTANTS Kind = "range" Years = {0} Secs = {0}
SPECIFICATION Spec
INVARIANT SpecOk
INVARIANT Emit
CHECK_DEADLOCK FALSE
