------------------------------ MODULE Trace_Grow ------------------------------
(***************************************************************************)
(* Observation trace for the growth part (module Grow).  Every event is    *)
(* one or several calls of the real code on one input; each clause Dev(..) *)
(* compares one recorded result with the operators of Grow and PRINTS a    *)
(* line <<"DEVIATION", line, clause>> when they differ.  No event is ever  *)
(* rejected: deviations are observations (notes), not violations.          *)
(***************************************************************************)
EXTENDS Grow, TLC, Json, IOUtils

Rec == ndJsonDeserialize(IOEnv.TRACE)

VARIABLES l
tvars == <<l>>
TInit == l = 1 /\ TLCSet(1, 1)
R == Rec[l]
Ev(e) == l <= Len(Rec) /\ R.ev = e /\ l' = l + 1
Dev(name, cond) == cond \/ PrintT(<<"DEVIATION", l, name>>)

(* ---- text families ---- *)
TStr == /\ Ev("str")
        /\ Dev("a conversion to text panics", ~R.panic)
        /\ R.panic \/
           /\ StrDecided(R.v) => Dev("to_raw_str differs from the documented form", R.raw = RawStr(R.v))
           /\ StrDecided(R.v) => Dev("to_str differs from the documented form", R.to_str = ToStr(R.v))
           /\ Dev("Display differs from to_str", R.display = R.to_str)
           /\ Dev("to_multi_str does not give one string per item", Len(R.multi) = Len(R.v.items))
           /\ (MultiDecided(R.v) /\ Len(R.multi) = Len(R.v.items)) =>
                  Dev("to_multi_str differs from the documented form", R.multi = MultiStr(R.v))
           /\ BytesDecided(R.v) => Dev("to_bytes differs from the documented bytes", R.bytes = ToBytes(R.v))
           /\ (R.v.var \in TextVars /\ BytesDecided(R.v)) =>
                  Dev("to_bytes of a textual value is not as_bytes() of to_str() (as its documentation says)", R.bytes = ToStr(R.v))
           /\ Dev("multiplicity() is not the number of items", R.mult = Len(R.v.items))
           /\ Dev("Value / DataElement text conversions differ from PrimitiveValue's", ~R.routediff)

(* ---- tags ---- *)
TTag == /\ Ev("tagconv")
        /\ LET exp == R.v.var = "Tags" /\ Len(R.v.items) > 0 IN
             /\ Dev("Value::to_tag panics", R.vt # "panic")
             /\ Dev("PrimitiveValue::tag panics", R.pt # "panic")
             /\ (R.vt # "panic") => Dev("Value::to_tag result", (R.vt = "ok") = exp /\ (exp => R.vtag = R.v.items[1]))
             /\ (R.pt # "panic") => Dev("PrimitiveValue::tag result", (R.pt = "ok") = exp /\ (exp => R.ptag = R.v.items[1]))

(* ---- dates and times from text ---- *)
TToDt == /\ Ev("todt")
         /\ Dev("a date/time conversion panics", ~R.panic)
         /\ R.panic \/
            LET n == IF R.multi THEN Len(R.v.items) ELSE 1
                have == Len(R.v.items) >= n
                ps == [i \in 1..(IF have THEN n ELSE 0) |-> ParseText(R.kind, R.v.items[i])]
                allOk == have /\ \A i \in 1..Len(ps) : ps[i].kind # "invalid"
            IN /\ (allOk /\ ~R.res.ok) => Dev("rejects a text that is a valid value", FALSE)
               /\ (~allOk /\ R.res.ok) => Dev("accepts a text that is not a valid value (e.g. trailing characters, impossible day)", FALSE)
               /\ (allOk /\ R.res.ok) => Dev("yields a different value", R.res.vals = ps)

(* ---- range texts ---- *)
Inst(x) == [y |-> x.y, m |-> x.m, d |-> x.d, h |-> x.h, mi |-> x.mi, s |-> x.s, us |-> x.us]
TToRange ==
    /\ Ev("torange")
    /\ Dev("a range conversion panics", ~R.panic)
    /\ R.panic \/
       LET cls == RangeClass(R.kind, R.text) IN
       CASE cls = "none" -> Dev("accepts a text that is not a range of two values", ~R.res.ok)
         [] cls = "ambiguous" -> PrintT(<<"CLASS", l, "ambiguous range text">>)
         [] cls = "one" ->
              LET ls == RangeLeft(R.kind, R.text)
                  rs == RangeRight(R.kind, R.text)
                  hasA == Len(ls) > 0
                  hasB == Len(rs) > 0
                  a == IF hasA THEN ParseText(R.kind, ls) ELSE DT!V0
                  b == IF hasB THEN ParseText(R.kind, rs) ELSE DT!V0
                  mixed == hasA /\ hasB /\ a.tz # b.tz
                  orderKnown == ~(hasA /\ hasB) \/ (a.tz = b.tz /\ (a.off = b.off \/ a.y # b.y \/ R.kind # "DT"))
                  inverted == hasA /\ hasB /\ ~DT!NotInverted(a, b)
              IN IF mixed THEN PrintT(<<"CLASS", l, "offset on one side only (resolved with the local time zone)">>)
                 ELSE IF ~orderKnown THEN PrintT(<<"CLASS", l, "order depends on the offsets">>)
                 ELSE IF inverted THEN Dev("accepts an inverted range", ~R.res.ok)
                 ELSE /\ Dev("rejects a range of two valid values", R.res.ok)
                      /\ R.res.ok =>
                           /\ Dev("range bounds present/absent", R.res.hasStart = hasA /\ R.res.hasEnd = hasB)
                           /\ (hasA /\ R.res.hasStart) =>
                                Dev("range start is not the earliest instant of A",
                                    Inst(R.res.start) = DT!Earliest(a) /\ R.res.tzStart = a.tz /\ R.res.offStart = a.off)
                           /\ (hasB /\ R.res.hasEnd) =>
                                Dev("range end is not the latest instant of B",
                                    Inst(R.res.end) = DT!Latest(b) /\ R.res.tzEnd = b.tz /\ R.res.offEnd = b.off)

(* ---- person names ---- *)
Seq5(x) == [i \in 1..5 |-> x[i]]
TToPn == /\ Ev("topn")
         /\ LET exp == R.v.var \in TextVars /\ Len(R.v.items) > 0 IN
              /\ Dev("to_person_name panics", ~R.panic)
              /\ R.panic \/
                 /\ Dev("to_person_name ok/err", R.res.ok = exp)
                 /\ (exp /\ R.res.ok) =>
                      LET t == TrimEndSp(R.v.items[1]) IN
                      IF \E i \in 1..Len(t) : t[i] = 61
                      THEN PrintT(<<"CLASS", l, "person name with component groups (=)">>)
                      ELSE IF Len(PN!Split(t)) > 5 THEN PrintT(<<"CLASS", l, "person name with more than five components">>)
                      ELSE Dev("to_person_name components", Seq5(R.res.comps) = PN!FromText(t))

(* ---- floats from text ---- *)
TFText == /\ Ev("ftext")
          /\ Dev("a float conversion panics", ~R.panic)
          /\ R.panic \/
             LET dec == IsDecimalText(R.text)
                 di == DecimalInt(R.text)
             IN /\ (dec /\ ~R.res.ok) => Dev("rejects a PS3.5 decimal string", FALSE)
                /\ (~dec /\ R.res.ok) => Dev("accepts a text outside the PS3.5 decimal string grammar (NaN, inf, '.5', '5.', ...)", FALSE)
                /\ (dec /\ R.res.ok /\ di.ok /\ di.n # NZero /\ Exact(di.n, R.w)) => Dev("float value of an integral decimal string", FMatch(FInt(di.n), R.res.f))

(* ---- equality and encoded length ---- *)
TEq == /\ Ev("eq")
       /\ Dev("equality is not symmetric", R.ab = R.ba)
       /\ ~R.nan => Dev("a value is not equal to itself", R.aa /\ R.bb)
       /\ R.nan => PrintT(<<"CLASS", l, "value with a NaN item (not equal to itself, IEEE)">>)
       /\ ~R.nan => Dev("equality differs from 'same items after stripping padding'", R.ab = Equiv(R.a, R.b))
       /\ R.ab => Dev("equal values with different multiplicity", R.ma = R.mb)
       /\ (R.ab /\ R.a.var \notin FloatVars) => Dev("equal values with different to_multi_str", R.sa = R.sb)
       /\ R.ab => Dev("equal values with different calculate_byte_len", R.la = R.lb)
       /\ Dev("calculate_byte_len is not the (even) encoded length", R.la = EncodedLen(R.a))

(* ---- constructors ---- *)
TCtor == /\ Ev("ctor")
         /\ Dev("a constructor panics", R.res # "panic")
         /\ (R.res # "panic") =>
              /\ (R.res = "ok" /\ ~DT!Valid(R.v)) => Dev("constructor accepts an invalid value: " \o R.what, FALSE)
              /\ (R.res # "ok" /\ DT!Valid(R.v)) => Dev("constructor rejects a valid value: " \o R.what, FALSE)

TNext == TStr \/ TTag \/ TToDt \/ TToRange \/ TToPn \/ TFText \/ TEq \/ TCtor
TSpec == TInit /\ [][TNext]_tvars

Track == TLCSet(1, IF l > TLCGet(1) THEN l ELSE TLCGet(1))
Accepted == IF TLCGet(1) = Len(Rec) + 1 THEN TRUE
            ELSE Print(<<"REJECTED", TLCGet(1), ToJson(Rec[TLCGet(1)])>>, FALSE)
=============================================================================
