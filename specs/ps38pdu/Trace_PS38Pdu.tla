---------------------------- MODULE Trace_PS38Pdu ----------------------------
(***************************************************************************)
(* Trace validator for C25.  The harness runs the real write_pdu/read_pdu  *)
(* and logs, per PDU, what the code did; every event is judged with the    *)
(* PS38Pdu operators:                                                      *)
(*   enc  {pdu, res, bytes}        write_pdu(pdu)                          *)
(*   big  {shape, n, res, bytes_rl}  write_pdu(BigPdu(shape, n))           *)
(*   dec  {n, tail, max, strict, res, pdu, consumed}                       *)
(*        read_pdu on the first n bytes of (written bytes \o tail)         *)
(*   prefixes {max, strict, codes_rl}  read_pdu on every strict prefix     *)
(*        (0 = None/incomplete, 1 = error, 2 = some PDU, 3 = panic)        *)
(* enc/big start a case (they set the current PDU and bytes).              *)
(* CheckBytes = TRUE additionally demands the canonical bytes PduBytes(pdu)*)
(* (implementation-shaped; a difference that the independent parser still  *)
(* accepts is drift, not a violation of C25).                              *)
(***************************************************************************)
EXTENDS PS38PduBig, TLC, Json, IOUtils

CONSTANT CheckBytes

Rec == ndJsonDeserialize(IOEnv.TRACE)

VARIABLES l, cpdu, cbytes, cok
tvars == <<l, cpdu, cbytes, cok>>

TInit == l = 1 /\ cpdu = [k |-> "none"] /\ cbytes = <<>> /\ cok = FALSE /\ TLCSet(1, 1)

Ev(e) == l <= Len(Rec) /\ Rec[l].ev = e /\ l' = l + 1
R == Rec[l]

(* write_pdu returned Ok(bytes): the PDU must have an encoding, and the     *)
(* independent parser must read exactly this PDU from exactly these bytes   *)
(* (all length fields match their content)                                  *)
EncOk(p, b) == /\ Writable(p)
               /\ Read(b) = OkR(p, Len(b))
               /\ CheckBytes => (b = PduBytes(p))

Written(p, res, b) ==
  IF res = "ok" THEN /\ EncOk(p, b)
                     /\ cpdu' = p /\ cbytes' = b /\ cok' = TRUE
  ELSE /\ res = "err"
       /\ ~Writable(p)          \* write_pdu may fail only when there is no encoding
       /\ cpdu' = p /\ cbytes' = <<>> /\ cok' = FALSE

TEnc == Ev("enc") /\ Written(R.pdu, R.res, IF R.res = "ok" THEN R.bytes ELSE <<>>)
TBig == Ev("big") /\ Written(BigPdu(R.shape, R.n), R.res, IF R.res = "ok" THEN RLExpand(R.bytes_rl) ELSE <<>>)

TDec == /\ Ev("dec") /\ cok
        /\ LET buf == cbytes \o R.tail
               r == ReadPduN(buf, R.n, R.max, R.strict)
           IN CASE r.k = "Ok" -> R.res = "pdu" /\ R.pdu = r.pdu /\ R.consumed = r.n
                [] r.k = "Incomplete" -> R.res = "none"
                [] r.k = "Err" -> IF R.n >= Len(cbytes) THEN R.res = "err" ELSE R.res \in {"err", "none"}
        /\ UNCHANGED <<cpdu, cbytes, cok>>

(* code of the i-th element of a run-length coded sequence (no expansion) *)
RECURSIVE CodeAt(_, _)
CodeAt(rl, i) == IF i <= Head(rl)[1] THEN Head(rl)[2] ELSE CodeAt(Tail(rl), i - Head(rl)[1])
RECURSIVE RLLen(_)
RLLen(rl) == IF rl = <<>> THEN 0 ELSE Head(rl)[1] + RLLen(Tail(rl))

TPrefixes ==
  /\ Ev("prefixes") /\ cok
  /\ RLLen(R.codes_rl) = Len(cbytes)
  /\ \A n \in 0..(Len(cbytes) - 1) :
       LET r == ReadPduN(cbytes, n, R.max, R.strict) IN
       CASE r.k = "Incomplete" -> CodeAt(R.codes_rl, n + 1) = 0
         [] r.k = "Err" -> CodeAt(R.codes_rl, n + 1) \in {0, 1}
         [] OTHER -> FALSE
  /\ UNCHANGED <<cpdu, cbytes, cok>>

TNext == TEnc \/ TBig \/ TDec \/ TPrefixes
TSpec == TInit /\ [][TNext]_tvars

Track == TLCSet(1, IF l > TLCGet(1) THEN l ELSE TLCGet(1))
Accepted == IF TLCGet(1) = Len(Rec) + 1 THEN TRUE
            ELSE Print(<<"REJECTED", TLCGet(1), ToJson(Rec[TLCGet(1)])>>, FALSE)
=============================================================================
