CONSTANTS TLen = 2 Alphabet = {"A", "z", " ", "-", ":", ".", "[", "\\"} Ports = {0, 1, 104, 11112, 65535}
  NQuads = 5
SPECIFICATION ASpec
INVARIANTS Emit ThPremise ThAddrOk ThAe ThFull
CHECK_DEADLOCK FALSE
