CONSTANTS TLen = 2 Alphabet = {"A", " ", "-", ":", "."} Ports = {0, 104, 65535}
  NQuads = 3
SPECIFICATION ASpec
INVARIANTS Emit ThPremise ThAddrOk ThAe ThFull
CHECK_DEADLOCK FALSE
