CONSTANTS Lens = {6, 10, 13} MaxN = 3 Styles = {"ones", "edges", "coarse", "all"} AllMaxTotal = 10 EdgesMaxN = 2
SPECIFICATION GSpec
INVARIANT Emit
CHECK_DEADLOCK FALSE
