CONSTANTS Lens = {6,7} MaxN = 2 Styles = {"all"}
SPECIFICATION GSpec
INVARIANT Emit
CHECK_DEADLOCK FALSE
