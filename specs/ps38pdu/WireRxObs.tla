------------------------------ MODULE WireRxObs ------------------------------
(***************************************************************************)
(* Property-level specification of PDU reception (C27): whatever the       *)
(* transport does with the bytes, the k-th successful receive returns the  *)
(* k-th PDU that was sent, and the end of the stream is reported only when *)
(* every PDU has been returned.  Nothing lost, nothing duplicated, order   *)
(* kept.  PDUs are opaque values here.                                     *)
(***************************************************************************)
EXTENDS Naturals, Sequences

VARIABLES sent,    \* the sequence of PDUs written to the connection
          recvd,   \* the PDUs returned by successive receives
          closed   \* a receive reported the end of the stream

ovars == <<sent, recvd, closed>>

OInit == recvd = <<>> /\ closed = FALSE

(* a receive returns PDU p *)
ORecv(p) == /\ ~closed
            /\ Len(recvd) < Len(sent)
            /\ p = sent[Len(recvd) + 1]
            /\ recvd' = Append(recvd, p)
            /\ UNCHANGED <<sent, closed>>

(* a receive reports "connection closed": only when nothing is outstanding *)
OClosed == /\ Len(recvd) = Len(sent)
           /\ closed' = TRUE
           /\ UNCHANGED <<sent, recvd>>

ONext == (\E p \in {sent[i] : i \in 1..Len(sent)} : ORecv(p)) \/ OClosed
OSpec == OInit /\ [][ONext]_ovars
=============================================================================
