CONSTANTS MaxC = 2 MaxS = 1
SPECIFICATION Spec
INVARIANTS NoPanic
CHECK_DEADLOCK FALSE
