SPECIFICATION GSpec
INVARIANT Emit
CHECK_DEADLOCK FALSE
