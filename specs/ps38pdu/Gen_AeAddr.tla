------------------------------ MODULE Gen_AeAddr ------------------------------
(* Case generator (spec -> code): every address of AeAddrInst, for AeAddr<T>   *)
(* and (when there is a title) FullAeAddr<T>, with the text Print prescribes   *)
(* and the value Parse reads back from it.                                     *)
EXTENDS AeAddrInst, Json

Case(full) == [full |-> full, ty |-> c.ty, title |-> c.title, addr |-> c.addr,
               printed |-> IF full THEN PrintFull(A) ELSE PrintAe(A),
               parsed |-> IF full THEN ParseFull(PrintFull(A), c.ty) ELSE ParseAe(PrintAe(A), c.ty)]
Emit == /\ PrintT(<<"CASE", ToJson(Case(FALSE))>>)
        /\ c.title.some => PrintT(<<"CASE", ToJson(Case(TRUE))>>)
=============================================================================
