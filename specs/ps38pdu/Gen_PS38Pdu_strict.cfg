CONSTANTS SLen = 2 BigSizes = {} What = "strict"
SPECIFICATION GSpec
INVARIANT Emit
CHECK_DEADLOCK FALSE
