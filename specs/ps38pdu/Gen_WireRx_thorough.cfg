CONSTANTS Lens = {6, 7, 10, 13} MaxN = 3 Styles = {"ones", "edges", "coarse", "all"} AllMaxTotal = 13 EdgesMaxN = 2
SPECIFICATION GSpec
INVARIANT Emit
CHECK_DEADLOCK FALSE
