------------------------------- MODULE ProxyObs -------------------------------
(***************************************************************************)
(* Property-level specification of a transparent PDU proxy (scpproxy):     *)
(* every PDU received on one side is forwarded, in order, to the other     *)
(* side, unchanged except for the documented transformation Xf (scpproxy   *)
(* lowers the Maximum Length sub-item of A-ASSOCIATE-RQ/AC to its own      *)
(* limit); when a peer closes, everything it had sent is forwarded before  *)
(* the close is propagated to the other peer.  What the other peer still   *)
(* had in flight towards the closed one may be dropped.                    *)
(* Sides: "c" (the SCU that connected to the proxy), "s" (the SCP).        *)
(***************************************************************************)
EXTENDS Naturals, Sequences

CONSTANT Xf(_)        \* the transformation applied to a forwarded PDU

VARIABLES sent,       \* [c |-> PDUs written by c, s |-> PDUs written by s]
          fwd,        \* [c |-> PDUs delivered TO c, s |-> PDUs delivered TO s]
          closed,     \* [c, s |-> the peer has closed its connection]
          eof         \* [c, s |-> the proxy has closed the connection towards that peer]
pvars == <<sent, fwd, closed, eof>>

Other(x) == IF x = "c" THEN "s" ELSE "c"
Sides == {"c", "s"}

PInit == /\ sent = [x \in Sides |-> <<>>] /\ fwd = [x \in Sides |-> <<>>]
         /\ closed = [x \in Sides |-> FALSE] /\ eof = [x \in Sides |-> FALSE]

PSend(x, p) == /\ ~closed[x]
               /\ sent' = [sent EXCEPT ![x] = Append(@, p)]
               /\ UNCHANGED <<fwd, closed, eof>>

(* the next PDU written by x reaches the other side *)
PForward(x, q) == LET y == Other(x) IN
                  /\ ~eof[y]
                  /\ Len(fwd[y]) < Len(sent[x])
                  /\ q = Xf(sent[x][Len(fwd[y]) + 1])
                  /\ fwd' = [fwd EXCEPT ![y] = Append(@, q)]
                  /\ UNCHANGED <<sent, closed, eof>>

PClose(x) == /\ ~closed[x] /\ closed' = [closed EXCEPT ![x] = TRUE]
             /\ UNCHANGED <<sent, fwd, eof>>

(* the close of x is propagated to the other side: only after all of x's PDUs *)
PPropagate(x) == LET y == Other(x) IN
                 /\ closed[x] /\ ~eof[y]
                 /\ Len(fwd[y]) = Len(sent[x])
                 /\ eof' = [eof EXCEPT ![y] = TRUE]
                 /\ UNCHANGED <<sent, fwd, closed>>

(* the connection towards a peer that has closed (or whose partner's side   *)
(* is already shut) is dropped; undelivered PDUs towards it are lost         *)
PDrop(x) == /\ ~eof[x] /\ (closed[x] \/ eof[Other(x)])
            /\ eof' = [eof EXCEPT ![x] = TRUE]
            /\ UNCHANGED <<sent, fwd, closed>>

(* the proxy gives up on a connection because it cannot read a PDU (e.g.    *)
(* strict mode and a PDU longer than the maximum): both sides are closed     *)
PReject(x) == /\ ~eof[x] /\ ~eof[Other(x)]
              /\ Len(fwd[Other(x)]) < Len(sent[x])
              /\ eof' = [y \in Sides |-> TRUE]
              /\ UNCHANGED <<sent, fwd, closed>>
=============================================================================
