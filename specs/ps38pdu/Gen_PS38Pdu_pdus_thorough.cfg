CONSTANTS SLen = 3 BigSizes = {} What = "pdus"
SPECIFICATION GSpec
INVARIANT Emit
CHECK_DEADLOCK FALSE
