CONSTANTS Lens = {6, 7, 10, 13} MaxN = 3 Styles = {"ones", "edges", "coarse", "all"}
SPECIFICATION FairSpec
INVARIANTS NoLossDupOrder Leftover ClosedAtEnd
PROPERTIES Termination Refines
CHECK_DEADLOCK FALSE
