CONSTANTS Lens = {6, 7, 10, 13} MaxN = 3 Styles = {"ones", "edges", "coarse", "all"}
SPECIFICATION Spec
INVARIANTS NoLossDupOrder Leftover ClosedAtEnd
PROPERTIES Refines
CHECK_DEADLOCK FALSE
