----------------------------- MODULE PS38PduInst -----------------------------
(***************************************************************************)
(* The finite instance space over which TLC checks the PS38Pdu theorems    *)
(* and from which it generates the conformance cases for read_pdu /        *)
(* write_pdu.  A union of slices: each slice varies one component of a     *)
(* base PDU over all its small values (every PDU kind; 0-2 presentation    *)
(* contexts; 1-2 transfer syntaxes; every user sub-item kind; short        *)
(* strings; the complete reject / abort reason tables).                    *)
(***************************************************************************)
EXTENDS PS38Pdu, TLC

CONSTANTS SLen,    \* maximum length of the short strings (2 quick, 3 thorough)
          Wide     \* TRUE: pairs are drawn from the full component sets (thorough)

SeqsUpTo(S, n) == UNION {[1..m -> S] : m \in 0..n}
SeqsFromTo(S, a, n) == UNION {[1..m -> S] : m \in a..n}

(* UIDs: digits and dots; AE titles: G0 characters, inner spaces allowed,  *)
(* no leading / trailing space (not significant per PS3.8), 1..16 chars    *)
UIDs  == SeqsUpTo({49, 46}, SLen)
UID3  == {<<49>>, <<49, 46, 50>>, <<>>}
AEs   == {s \in SeqsFromTo({65, 32}, 1, SLen + 1) : s[1] # 32 /\ s[Len(s)] # 32}
         \cup {Rep(16, 66), <<65>> \o Rep(14, 32) \o <<90>>}
Names == SeqsUpTo({86, 46}, SLen) \cup {Rep(16, 118)}
Bytes02 == SeqsUpTo({0, 255}, 2)
Bytes01 == SeqsUpTo({0, 255}, 1)
Halves == {0, 1, 16384, 65535}

BaseRq == [k |-> "rq", pv |-> 1, called |-> <<65>>, calling |-> <<66, 67>>, app |-> <<49, 46>>,
           pcs |-> <<>>, uv |-> <<>>]
BaseAc == [BaseRq EXCEPT !.k = "ac"]

PcRqs  == {[id |-> i, abs |-> a, ts |-> t] : i \in {1, 255}, a \in UID3, t \in SeqsFromTo(UID3, 1, 2)}
PcRqsS == {[id |-> i, abs |-> a, ts |-> t] : i \in {1, 3}, a \in {<<49>>}, t \in SeqsFromTo({<<49>>, <<>>}, 1, 2)}
PcAcs  == {[id |-> i, reason |-> r, ts |-> t] : i \in {1, 255}, r \in 0..4, t \in UID3}
PcAcsS == {[id |-> i, reason |-> r, ts |-> t] : i \in {1, 3}, r \in {0, 3}, t \in {<<49>>, <<>>}}

UvMax   == {[t |-> "max", hi |-> h, lo |-> l] : h \in Halves, l \in Halves}
UvIUid  == {[t |-> "impl_uid", s |-> s] : s \in UIDs}
UvIVer  == {[t |-> "impl_ver", s |-> s] : s \in Names}
UvRole  == {[t |-> "role", uid |-> u, scu |-> a, scp |-> b] : u \in UID3, a \in BOOLEAN, b \in BOOLEAN}
UvExt   == {[t |-> "ext", uid |-> u, data |-> d] : u \in UID3, d \in Bytes02}
UvIdent == {[t |-> "ident", itype |-> y, pos |-> q, prim |-> a, sec |-> b] :
              y \in 1..5, q \in BOOLEAN, a \in Bytes01, b \in Bytes01}
(* sub-item types that PS3.7 Annex D does not define for this harness: incl. *)
(* 50H/53H/57H/59H neighbours of the defined ones                           *)
UvUnk   == {[t |-> "unk", type |-> y, data |-> d] : y \in {0, 80, 83, 87, 89, 255}, d \in Bytes02}
UvAll   == UvMax \cup UvIUid \cup UvIVer \cup UvRole \cup UvExt \cup UvIdent \cup UvUnk
UvOne   == {[t |-> "max", hi |-> 0, lo |-> 16384], [t |-> "impl_uid", s |-> <<49, 46, 50>>],
            [t |-> "impl_ver", s |-> <<86>>], [t |-> "role", uid |-> <<49>>, scu |-> TRUE, scp |-> FALSE],
            [t |-> "ext", uid |-> <<49>>, data |-> <<1, 2, 3>>],
            [t |-> "ident", itype |-> 2, pos |-> TRUE, prim |-> <<117>>, sec |-> <<112, 119>>],
            [t |-> "unk", type |-> 83, data |-> <<9>>]}
AllSeven == <<[t |-> "max", hi |-> 0, lo |-> 16384], [t |-> "impl_uid", s |-> <<49, 46, 50>>],
              [t |-> "impl_ver", s |-> <<86>>], [t |-> "role", uid |-> <<49>>, scu |-> TRUE, scp |-> FALSE],
              [t |-> "ext", uid |-> <<49>>, data |-> <<1, 2, 3>>],
              [t |-> "ident", itype |-> 2, pos |-> TRUE, prim |-> <<117>>, sec |-> <<112, 119>>],
              [t |-> "unk", type |-> 83, data |-> <<9>>]>>
UvSeqs == {<<>>} \cup {<<u>> : u \in UvAll} \cup {<<u, v>> : u \in UvOne, v \in UvOne} \cup {AllSeven}
          \cup (IF Wide THEN {<<u, v>> : u \in UvOne, v \in UvAll} \cup {<<u, v>> : u \in UvAll, v \in UvOne} ELSE {})

AssocOf(base, pcsSeqs) ==
       {[base EXCEPT !.pv = v] : v \in {0, 1, 2, 256, 65535}}
  \cup {[base EXCEPT !.called = a] : a \in AEs}
  \cup {[base EXCEPT !.calling = a] : a \in AEs}
  \cup {[base EXCEPT !.app = u] : u \in UIDs}
  \cup {[base EXCEPT !.pcs = s] : s \in pcsSeqs}
  \cup {[base EXCEPT !.uv = s] : s \in UvSeqs}
  \cup {[base EXCEPT !.pcs = s, !.uv = AllSeven, !.called = Rep(16, 66)] : s \in pcsSeqs}

RqPcSeqs == {<<>>} \cup {<<c>> : c \in PcRqs} \cup {<<c, d>> : c \in PcRqsS, d \in PcRqsS}
            \cup (IF Wide THEN {<<c, d>> : c \in PcRqs, d \in PcRqs} ELSE {})
AcPcSeqs == {<<>>} \cup {<<c>> : c \in PcAcs} \cup {<<c, d>> : c \in PcAcsS, d \in PcAcsS}
            \cup (IF Wide THEN {<<c, d>> : c \in PcAcs, d \in PcAcs} ELSE {})

Rjs == {[k |-> "rj", result |-> r, source |-> s, reason |-> d] : r \in {1, 2}, s \in 1..3, d \in 0..10}
Rejects == {x \in Rjs : x.reason \in RjReasonTable(x.source)}
Aborts == {[k |-> "abort", source |-> s, reason |-> 0] : s \in {0, 1}}
          \cup {[k |-> "abort", source |-> 2, reason |-> d] : d \in 0..6}

Pdvs  == {[id |-> i, cmd |-> c, last |-> l, data |-> d] : i \in {1, 255}, c \in BOOLEAN, l \in BOOLEAN, d \in Bytes02}
PdvsS == {[id |-> i, cmd |-> c, last |-> l, data |-> d] : i \in {1, 3}, c \in BOOLEAN, l \in BOOLEAN, d \in {<<>>, <<7>>}}
PDatas == {[k |-> "pdata", pdvs |-> s] :
             s \in {<<>>} \cup {<<v>> : v \in Pdvs} \cup {<<v, w>> : v \in PdvsS, w \in PdvsS}
                   \cup (IF Wide THEN {<<v, w>> : v \in Pdvs, w \in Pdvs} ELSE {})}
Unknowns == {[k |-> "unknown", type |-> y, data |-> d] :
               y \in {0, 8, 16, 80, 255}, d \in Bytes02 \cup {<<1, 2, 3, 4>>, <<0, 0, 0, 4, 1, 3>>}}

Instances == AssocOf(BaseRq, RqPcSeqs) \cup AssocOf(BaseAc, AcPcSeqs) \cup Rejects \cup Aborts
             \cup PDatas \cup {[k |-> "rrq"], [k |-> "rrp"]} \cup Unknowns

(* bytes of a following PDU left in the buffer *)
Tails == {<<4>>, <<5, 0, 0, 0, 0, 4, 0, 0, 0, 0>>, <<255, 255, 255, 255, 255, 255, 255>>}

VARIABLE p
IInit == p \in Instances
INext == UNCHANGED p
ISpec == IInit /\ [][INext]_p

ThRoundTrip == RoundTrip(p)
ThPrefixes  == PrefixesIncomplete(p)
ThFraming   == \A t \in Tails : Framing(p, t)
ThWritable  == Writable(p)
=============================================================================
