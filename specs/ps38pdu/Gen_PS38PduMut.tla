--------------------------- MODULE Gen_PS38PduMut ---------------------------
(***************************************************************************)
(* Structural mutations of every PDU kind, with the outcome PS3.8 allows   *)
(* a reader (PS38PduLenient!Expect), printed as cases for read_pdu and the *)
(* receivers.  Mutations of the encoding b of each base PDU:               *)
(*   byte   every byte of b replaced by 0, 1, x-1, x+1, 127, 255 (hits     *)
(*          every length field at every level - too small, too large,      *)
(*          inconsistent with the enclosing level -, every item type,      *)
(*          every reserved field, every code, PDV lengths < 2)             *)
(*   list   items of an A-ASSOCIATE-RQ/AC (and the sub-items of each       *)
(*          presentation context / of the user information) removed,       *)
(*          duplicated, swapped, unknown ones inserted, with consistent    *)
(*          lengths (missing / duplicated mandatory items, unknown types)  *)
(*   fixed  fixed-layout sub-items with a body that is too short / long    *)
(*   cut    the PDU body shortened / extended with the PDU length adjusted *)
(*          (trailing bytes inside a PDU, truncated last item)             *)
(* Each case also carries the expectation for the stream b \o NEXT (a      *)
(* following A-RELEASE-RQ): first and second receive.                      *)
(***************************************************************************)
EXTENDS PS38PduLenient, TLC, Json

BaseRq == [k |-> "rq", pv |-> 1, called |-> <<65, 66>>, calling |-> <<67>>, app |-> <<49, 46, 50>>,
           pcs |-> <<[id |-> 1, abs |-> <<49, 46, 50>>, ts |-> <<<<49, 46, 50>>, <<49, 46, 51>>>>],
                     [id |-> 3, abs |-> <<49, 46, 52>>, ts |-> <<<<49, 46, 50>>>>]>>,
           uv |-> <<[t |-> "max", hi |-> 0, lo |-> 16384], [t |-> "impl_uid", s |-> <<49, 46, 57>>],
                    [t |-> "impl_ver", s |-> <<86, 49>>],
                    [t |-> "role", uid |-> <<49, 46, 50>>, scu |-> TRUE, scp |-> FALSE],
                    [t |-> "ext", uid |-> <<49, 46, 50>>, data |-> <<1, 2>>],
                    [t |-> "ident", itype |-> 2, pos |-> TRUE, prim |-> <<117>>, sec |-> <<112, 119>>],
                    [t |-> "unk", type |-> 83, data |-> <<9>>]>>]
BaseAc == [k |-> "ac", pv |-> 1, called |-> <<65, 66>>, calling |-> <<67>>, app |-> <<49, 46, 50>>,
           pcs |-> <<[id |-> 1, reason |-> 0, ts |-> <<49, 46, 50>>], [id |-> 3, reason |-> 3, ts |-> <<>>]>>,
           uv |-> <<[t |-> "max", hi |-> 0, lo |-> 16384], [t |-> "impl_uid", s |-> <<49, 46, 57>>],
                    [t |-> "impl_ver", s |-> <<86, 49>>],
                    [t |-> "role", uid |-> <<49, 46, 50>>, scu |-> FALSE, scp |-> TRUE]>>]
Bases == [rq |-> BaseRq, ac |-> BaseAc,
          rj |-> [k |-> "rj", result |-> 1, source |-> 1, reason |-> 1],
          pdata |-> [k |-> "pdata", pdvs |-> <<[id |-> 1, cmd |-> TRUE, last |-> TRUE, data |-> <<1, 2>>],
                                               [id |-> 3, cmd |-> FALSE, last |-> FALSE, data |-> <<>>],
                                               [id |-> 5, cmd |-> FALSE, last |-> TRUE, data |-> <<7>>]>>],
          rrq |-> [k |-> "rrq"], rrp |-> [k |-> "rrp"],
          abort |-> [k |-> "abort", source |-> 2, reason |-> 2],
          unknown |-> [k |-> "unknown", type |-> 9, data |-> <<1, 2, 3>>]]
BaseNames == DOMAIN Bases

NEXT == <<5, 0, 0, 0, 0, 4, 0, 0, 0, 0>>    \* the following PDU on the stream: A-RELEASE-RQ

-----------------------------------------------------------------------------
(* byte mutations *)
Vals(x) == {0, 1, (x + 255) % 256, (x + 1) % 256, 127, 255} \ {x}
ByteMutsOf(name) ==
  LET b == PduBytes(Bases[name]) IN
  UNION {{[base |-> name, m |-> "byte", at |-> i, to |-> v, bytes |-> [b EXCEPT ![i] = v]] : v \in Vals(b[i])}
         : i \in 1..Len(b)}

-----------------------------------------------------------------------------
(* list mutations on raw item lists *)
RawItems(its) == Flat([i \in 1..Len(its) |-> Item(its[i].type, its[i].body)])
Remove(L, i) == SubSeq(L, 1, i - 1) \o SubSeq(L, i + 1, Len(L))
Dup(L, i) == SubSeq(L, 1, i) \o SubSeq(L, i, Len(L))
Swap(L, i) == SubSeq(L, 1, i - 1) \o <<L[i + 1], L[i]>> \o SubSeq(L, i + 2, Len(L))
Insert(L, k, x) == SubSeq(L, 1, k) \o <<x>> \o SubSeq(L, k + 1, Len(L))
(* edits of list L: each with a label *)
ListEdits(L, unk) ==
       {[e |-> "remove", i |-> i, l |-> Remove(L, i)] : i \in 1..Len(L)}
  \cup {[e |-> "dup", i |-> i, l |-> Dup(L, i)] : i \in 1..Len(L)}
  \cup {[e |-> "swap", i |-> i, l |-> Swap(L, i)] : i \in 1..(Len(L) - 1)}
  \cup {[e |-> "insert-unknown", i |-> k, l |-> Insert(L, k, unk)] : k \in 0..Len(L)}

(* top-level items of an association PDU, parsed back from its encoding (the *)
(* encoding of a base PDU is well-formed, so TLV succeeds)                   *)
AssocParts(name) ==
  LET b == PduBytes(Bases[name]) IN
  [type |-> b[1], fixed |-> SubSeq(b, 7, 74), items |-> TLV(b, 75, Len(b)).v]
AssocPdu(parts, items) == PDU(parts.type, parts.fixed \o RawItems(items))

TopMuts(name) ==
  LET P == AssocParts(name) IN
  {[base |-> name, m |-> "top-" \o ed.e, at |-> ed.i, to |-> 0, bytes |-> AssocPdu(P, ed.l)]
     : ed \in ListEdits(P.items, [type |-> 127, body |-> <<9, 9>>])
              \cup {[e |-> "insert-other-pc-kind", i |-> 1,
                     l |-> Insert(P.items, 1, [type |-> IF name = "rq" THEN 33 ELSE 32,
                                                body |-> <<7, 0, 0, 0, 64, 0, 0, 1, 49>>])]}}

(* sub-items of item k: presentation contexts have a 4-byte header before the sub-items *)
SubHdr(it) == IF it.type \in {32, 33} THEN 4 ELSE 0
SubMuts(name) ==
  LET P == AssocParts(name) IN
  UNION {LET it == P.items[k]
             h == SubHdr(it)
             kids == TLV(it.body, h + 1, Len(it.body)).v
         IN {[base |-> name, m |-> "sub-" \o ed.e, at |-> k * 100 + ed.i, to |-> it.type,
              bytes |-> AssocPdu(P, [P.items EXCEPT ![k] =
                                        [type |-> it.type, body |-> SubSeq(it.body, 1, h) \o RawItems(ed.l)]])]
               : ed \in ListEdits(kids, [type |-> 49, body |-> <<9>>])}
         : k \in {j \in 1..Len(P.items) : P.items[j].type \in {32, 33, 80}}}

(* fixed-layout user sub-items with a wrong body size / out-of-range content *)
FixedMuts(name) ==
  LET P == AssocParts(name)
      k == CHOOSE j \in 1..Len(P.items) : P.items[j].type = 80
      kids == TLV(P.items[k].body, 1, Len(P.items[k].body)).v
      With(i, body) == AssocPdu(P, [P.items EXCEPT ![k] =
                          [type |-> 80, body |-> RawItems([kids EXCEPT ![i] = [type |-> kids[i].type, body |-> body]])]])
  IN UNION {LET b == kids[i].body IN
            {[base |-> name, m |-> "fixed-trailing-byte", at |-> i, to |-> kids[i].type, bytes |-> With(i, b \o <<170>>)],
             [base |-> name, m |-> "fixed-trailing-2", at |-> i, to |-> kids[i].type, bytes |-> With(i, b \o <<170, 187>>)],
             (* a complete sub-item hidden in the surplus bytes of a fixed-layout sub-item *)
             [base |-> name, m |-> "fixed-smuggled-subitem", at |-> i, to |-> kids[i].type,
              bytes |-> With(i, b \o Item(85, <<88>>))],
             [base |-> name, m |-> "fixed-short-1", at |-> i, to |-> kids[i].type,
              bytes |-> With(i, SubSeq(b, 1, Len(b) - 1))]}
            : i \in {j \in 1..Len(kids) : kids[j].type \in {81, 84, 86, 88}}}

(* PDU body shortened / extended, PDU length field adjusted to the new body *)
CutMuts(name) ==
  LET b == PduBytes(Bases[name])
      body == SubSeq(b, 7, Len(b))
  IN {[base |-> name, m |-> "cut", at |-> c, to |-> 0, bytes |-> PDU(b[1], SubSeq(body, 1, Len(body) - c))]
        : c \in {x \in 1..5 : x <= Len(body)}}
     \cup {[base |-> name, m |-> "trailing-inside", at |-> Len(t), to |-> 0, bytes |-> PDU(b[1], body \o t)]
        : t \in {<<0>>, <<9, 9, 9>>, <<0, 0, 0, 0>>, <<127, 0, 0, 1, 9>>, <<0, 0, 0, 2, 9, 0>>}}

Muts == UNION {ByteMutsOf(n) \cup CutMuts(n) : n \in BaseNames}
        \cup UNION {TopMuts(n) \cup SubMuts(n) \cup FixedMuts(n) : n \in {"rq", "ac"}}

VARIABLE c
GInit == c \in Muts
GSpec == GInit /\ [][UNCHANGED c]_c

BIGMAX == 1000000
ExpJ(e) == e
Emit ==
  LET b == c.bytes
      s == b \o NEXT
      e1 == Expect(b, Len(b), BIGMAX, FALSE)
      e1s == Expect(b, Len(b), BIGMAX, TRUE)
      w1 == Expect(s, Len(s), BIGMAX, FALSE)
      (* when the first PDU of the stream is complete it ends at 6 + L *)
      L == IF Len(s) >= 6 THEN U32(s, 3) ELSE Huge
      rest == IF L # Huge /\ 6 + L <= Len(s) THEN SubSeq(s, 7 + L, Len(s)) ELSE <<>>
      w2 == Expect(rest, Len(rest), BIGMAX, FALSE)
  IN PrintT(<<"CASE", ToJson([mut |-> TRUE, base |-> c.base, m |-> c.m, at |-> c.at, to |-> c.to, bytes |-> b,
                              exp |-> ExpJ(e1), exp_strict |-> ExpJ(e1s), stream1 |-> ExpJ(w1), stream2 |-> ExpJ(w2)])>>)
=============================================================================
