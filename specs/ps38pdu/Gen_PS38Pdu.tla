----------------------------- MODULE Gen_PS38Pdu -----------------------------
(* Case generator (spec -> code): every PDU of the instance space with the   *)
(* bytes PduBytes prescribes; the oversize table (shape, n, Writable); the   *)
(* strict-mode table with the outcomes ReadPdu prescribes.  The case is held *)
(* in variable p of PS38PduInst, tagged with its table.                      *)
EXTENDS PS38PduInst, PS38PduBig, Json, Integers

CONSTANTS BigSizes,  \* sizes n of the large field in the oversize table
          What       \* subset of {"pdus", "big", "strict"}

Maxes == {1018, 16378}
(* strict-mode table: EVERY PDU kind whose PDU-length field can exceed the maximum   *)
(* (A-ASSOCIATE-RQ/AC, P-DATA-TF, unknown types; RJ / release / abort have the fixed *)
(* length 4), with the length field at max-1, max, max+1, max+2 and well above       *)
StrictKinds == {"pdata", "rq", "ac", "unknown"}
StrictCases == {[kind |-> kd, max |-> m, strict |-> s, plen |-> m + d] :
                  kd \in StrictKinds, m \in Maxes, s \in BOOLEAN, d \in {-1, 0, 1, 2, 1018}}
(* a PDU of the given kind whose PDU-length field is exactly plen: association PDUs  *)
(* are filled with presentation contexts (18 / 13 bytes each) and one unknown user   *)
(* sub-item for the remainder; fixed part 68 + application context item 5 + user     *)
(* information header 4 + sub-item header 4 = 81                                     *)
PadAssoc(kind, plen) ==
  LET per == IF kind = "rq" THEN 18 ELSE 13
      k == (plen - 81) \div per
      r == plen - 81 - per * k
  IN [k |-> kind, pv |-> 1, called |-> <<65>>, calling |-> <<66>>, app |-> <<49>>,
      pcs |-> [i \in 1..k |-> IF kind = "rq" THEN [id |-> 2 * ((i - 1) % 128) + 1, abs |-> <<49>>, ts |-> <<<<50>>>>]
                                             ELSE [id |-> 2 * ((i - 1) % 128) + 1, reason |-> i % 5, ts |-> <<50>>]],
      uv |-> <<[t |-> "unk", type |-> 153, data |-> Rep(r, 7)]>>]
StrictPdu(kind, plen) ==
  CASE kind = "pdata" -> [k |-> "pdata", pdvs |-> <<[id |-> 1, cmd |-> FALSE, last |-> TRUE, data |-> Rep(plen - 6, 0)]>>]
    [] kind \in {"rq", "ac"} -> PadAssoc(kind, plen)
    [] kind = "unknown" -> [k |-> "unknown", type |-> 200, data |-> Rep(plen, 3)]

Tagged(w, S) == IF w \in What THEN {[w |-> w, v |-> x] : x \in S} ELSE {}
GInit == p \in Tagged("pdus", Instances)
               \cup Tagged("big", {[shape |-> s, n |-> n] : s \in BigShapes, n \in BigSizes})
               \cup Tagged("strict", StrictCases)
GSpec == GInit /\ [][UNCHANGED p]_p

(* the PS38Pdu theorems on every generated PDU (same as MC_PS38Pdu) *)
GTheorems == (p.w = "pdus") => /\ RoundTrip(p.v) /\ PrefixesIncomplete(p.v) /\ Writable(p.v)
                               /\ \A t \in Tails : Framing(p.v, t)

Emit ==
  LET c == p.v IN
  CASE p.w = "pdus" ->
         PrintT(<<"CASE", ToJson([pdu |-> c, bytes |-> PduBytes(c)])>>)
    [] p.w = "big" ->
         PrintT(<<"CASE", ToJson([big |-> TRUE, shape |-> c.shape, n |-> c.n,
                                  writable |-> Writable(BigPdu(c.shape, c.n))])>>)
    [] p.w = "strict" ->
         LET sp == StrictPdu(c.kind, c.plen)
             b == PduBytes(sp) IN
         PrintT(<<"CASE", ToJson([strictcase |-> TRUE, kind |-> c.kind, max |-> c.max, strict |-> c.strict, plen |-> c.plen,
                                  pdu |-> sp, lenok |-> (Len(b) = c.plen + 6),
                                  exp |-> [full  |-> ReadPduN(b, Len(b), c.max, c.strict).k,
                                           hdr   |-> ReadPduN(b, 6, c.max, c.strict).k,
                                           short |-> ReadPduN(b, Len(b) - 1, c.max, c.strict).k]])>>)
=============================================================================
