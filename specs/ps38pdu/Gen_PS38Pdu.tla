----------------------------- MODULE Gen_PS38Pdu -----------------------------
(* Case generator (spec -> code): every PDU of the instance space with the   *)
(* bytes PduBytes prescribes; the oversize table (shape, n, Writable); the   *)
(* strict-mode table with the outcome ReadPdu prescribes.                    *)
EXTENDS PS38PduInst, PS38PduBig, Json, Integers

CONSTANTS BigSizes, What     \* What \in {"pdus", "big", "strict"}

(* the case is held in variable p of PS38PduInst *)

Maxes == {1018, 16378}
StrictCases == {[max |-> m, strict |-> s, plen |-> m + d] : m \in Maxes, s \in BOOLEAN, d \in {-1, 0, 1, 2, 1018}}
StrictPdu(plen) == [k |-> "pdata", pdvs |-> <<[id |-> 1, cmd |-> FALSE, last |-> TRUE, data |-> Rep(plen - 6, 0)]>>]

GInit == CASE What = "pdus"   -> p \in Instances
           [] What = "big"    -> p \in {[shape |-> s, n |-> n] : s \in BigShapes, n \in BigSizes}
           [] What = "strict" -> p \in StrictCases
GSpec == GInit /\ [][UNCHANGED p]_p

Emit ==
  CASE What = "pdus" ->
         PrintT(<<"CASE", ToJson([pdu |-> p, bytes |-> PduBytes(p)])>>)
    [] What = "big" ->
         PrintT(<<"CASE", ToJson([big |-> TRUE, shape |-> p.shape, n |-> p.n,
                                  writable |-> Writable(BigPdu(p.shape, p.n))])>>)
    [] What = "strict" ->
         LET b == PduBytes(StrictPdu(p.plen)) IN
         PrintT(<<"CASE", ToJson([strictcase |-> TRUE, max |-> p.max, strict |-> p.strict, plen |-> p.plen,
                                  exp |-> [full  |-> ReadPduN(b, Len(b), p.max, p.strict).k,
                                           hdr   |-> ReadPduN(b, 6, p.max, p.strict).k,
                                           short |-> ReadPduN(b, Len(b) - 1, p.max, p.strict).k]])>>)
=============================================================================
