----------------------------- MODULE Gen_PS38Pdu -----------------------------
(* Case generator (spec -> code): every PDU of the instance space with the   *)
(* bytes PduBytes prescribes; the oversize table (shape, n, Writable); the   *)
(* strict-mode table with the outcomes ReadPdu prescribes.  The case is held *)
(* in variable p of PS38PduInst, tagged with its table.                      *)
EXTENDS PS38PduInst, PS38PduBig, Json, Integers

CONSTANTS BigSizes,  \* sizes n of the large field in the oversize table
          What       \* subset of {"pdus", "big", "strict"}

Maxes == {1018, 16378}
StrictCases == {[max |-> m, strict |-> s, plen |-> m + d] : m \in Maxes, s \in BOOLEAN, d \in {-1, 0, 1, 2, 1018}}
StrictPdu(plen) == [k |-> "pdata", pdvs |-> <<[id |-> 1, cmd |-> FALSE, last |-> TRUE, data |-> Rep(plen - 6, 0)]>>]

Tagged(w, S) == IF w \in What THEN {[w |-> w, v |-> x] : x \in S} ELSE {}
GInit == p \in Tagged("pdus", Instances)
               \cup Tagged("big", {[shape |-> s, n |-> n] : s \in BigShapes, n \in BigSizes})
               \cup Tagged("strict", StrictCases)
GSpec == GInit /\ [][UNCHANGED p]_p

(* the PS38Pdu theorems on every generated PDU (same as MC_PS38Pdu) *)
GTheorems == (p.w = "pdus") => /\ RoundTrip(p.v) /\ PrefixesIncomplete(p.v) /\ Writable(p.v)
                               /\ \A t \in Tails : Framing(p.v, t)

Emit ==
  LET c == p.v IN
  CASE p.w = "pdus" ->
         PrintT(<<"CASE", ToJson([pdu |-> c, bytes |-> PduBytes(c)])>>)
    [] p.w = "big" ->
         PrintT(<<"CASE", ToJson([big |-> TRUE, shape |-> c.shape, n |-> c.n,
                                  writable |-> Writable(BigPdu(c.shape, c.n))])>>)
    [] p.w = "strict" ->
         LET b == PduBytes(StrictPdu(c.plen)) IN
         PrintT(<<"CASE", ToJson([strictcase |-> TRUE, max |-> c.max, strict |-> c.strict, plen |-> c.plen,
                                  exp |-> [full  |-> ReadPduN(b, Len(b), c.max, c.strict).k,
                                           hdr   |-> ReadPduN(b, 6, c.max, c.strict).k,
                                           short |-> ReadPduN(b, Len(b) - 1, c.max, c.strict).k]])>>)
=============================================================================
