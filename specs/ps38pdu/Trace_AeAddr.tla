----------------------------- MODULE Trace_AeAddr -----------------------------
(***************************************************************************)
(* Trace validator for C36 (a pure-function property as a trace): one      *)
(* event per address                                                       *)
(*   ae {full, ty, title: [some, v], addr, printed,                        *)
(*       pres: "ok" | "err" | "panic", ptitle: [some, v], paddr, same}     *)
(* = Display of AeAddr<T> / FullAeAddr<T> built from (title, addr), and    *)
(* FromStr of that text (title and Display of the address read back, and   *)
(* whether the value read back equals the original, by the type's Eq).     *)
(* Property level: within the premise the text parses back to the same     *)
(* title and network address (no title stays no title).                    *)
(* CheckText = TRUE additionally demands the documented text syntax:       *)
(* printed = Print(a), and the independent Parse reads a back from it.     *)
(***************************************************************************)
EXTENDS AeAddr, TLC, Json, IOUtils

CONSTANT CheckText

Rec == ndJsonDeserialize(IOEnv.TRACE)

VARIABLE l
TInit == l = 1 /\ TLCSet(1, 1)
R == Rec[l]

TAe == /\ l <= Len(Rec) /\ R.ev = "ae" /\ l' = l + 1
       /\ LET a == [title |-> R.title, addr |-> R.addr] IN
          /\ Premise(a)
          /\ R.full => a.title.some
          /\ R.pres = "ok"
          /\ R.ptitle = R.title
          /\ R.paddr = R.addr
          /\ R.same
          /\ CheckText =>
               /\ R.printed = (IF R.full THEN PrintFull(a) ELSE PrintAe(a))
               /\ (IF R.full THEN ParseFull(R.printed, R.ty) ELSE ParseAe(R.printed, R.ty)) = Parsed(a)

TSpec == TInit /\ [][TAe]_l

Track == TLCSet(1, IF l > TLCGet(1) THEN l ELSE TLCGet(1))
Accepted == IF TLCGet(1) = Len(Rec) + 1 THEN TRUE
            ELSE Print(<<"REJECTED", TLCGet(1), ToJson(Rec[TLCGet(1)])>>, FALSE)
=============================================================================
