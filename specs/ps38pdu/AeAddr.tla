-------------------------------- MODULE AeAddr --------------------------------
(***************************************************************************)
(* Text syntax of application entity addresses (ul/src/address.rs, C36):   *)
(*                                                                         *)
(*      «ae_title»@«network_address»      |      «network_address»         *)
(*                                                                         *)
(* as Print / Parse operators over strings.  The text is split at the      *)
(* FIRST '@'; an empty title part means "no title".  The network address   *)
(* is a socket address "a.b.c.d:port", "[v6]:port" (optionally with        *)
(* "%scope"), or any "host:port" string, depending on the address type:    *)
(*   "v4" SocketAddrV4, "v6" SocketAddrV6, "sa" SocketAddr, "str" String   *)
(*                                                                         *)
(* Abstract value: [title |-> [some, v], addr |-> canonical address text]. *)
(* Premise of the property: the title contains no '@' (and, being an AE    *)
(* title, is not empty).  The network address text itself MAY contain '@'  *)
(* (only possible for the "str" type, e.g. "dicom@pacs.example.com:104"):  *)
(* with a title the split at the first '@' still finds the title; without  *)
(* a title the text is printed with a leading '@' (empty title part), so   *)
(* that the start of the address is not taken for a title.                 *)
(***************************************************************************)
EXTENDS Naturals, Sequences

Ch(s, i) == SubSeq(s, i, i)
NoTitle == [some |-> FALSE, v |-> ""]
Title(t) == [some |-> TRUE, v |-> t]

RECURSIVE FirstOf(_, _, _)
(* index of the first occurrence of character c in s at or after i; 0 if none *)
FirstOf(s, c, i) == IF i > Len(s) THEN 0 ELSE IF Ch(s, i) = c THEN i ELSE FirstOf(s, c, i + 1)
HasAt(s) == FirstOf(s, "@", 1) # 0

Premise(a) == a.title.some => (a.title.v # "" /\ ~HasAt(a.title.v))

-----------------------------------------------------------------------------
(* printing *)
PrintAe(a) == IF a.title.some THEN a.title.v \o "@" \o a.addr
              ELSE IF HasAt(a.addr) THEN "@" \o a.addr ELSE a.addr
PrintFull(a) == a.title.v \o "@" \o a.addr          \* a.title.some

-----------------------------------------------------------------------------
(* network address recognisers *)
Digits == {"0", "1", "2", "3", "4", "5", "6", "7", "8", "9"}
HexDigits == Digits \cup {"a", "b", "c", "d", "e", "f", "A", "B", "C", "D", "E", "F"}
AllIn(s, S) == \A i \in 1..Len(s) : Ch(s, i) \in S
DigitVal(c) == CASE c = "0" -> 0 [] c = "1" -> 1 [] c = "2" -> 2 [] c = "3" -> 3 [] c = "4" -> 4
                 [] c = "5" -> 5 [] c = "6" -> 6 [] c = "7" -> 7 [] c = "8" -> 8 [] c = "9" -> 9
RECURSIVE NumVal(_)
NumVal(s) == IF s = "" THEN 0 ELSE NumVal(SubSeq(s, 1, Len(s) - 1)) * 10 + DigitVal(Ch(s, Len(s)))

RECURSIVE Split(_, _)
(* split s at every occurrence of character c *)
Split(s, c) == LET i == FirstOf(s, c, 1) IN
               IF i = 0 THEN <<s>> ELSE <<SubSeq(s, 1, i - 1)>> \o Split(SubSeq(s, i + 1, Len(s)), c)

IsPort(s) == Len(s) \in 1..5 /\ AllIn(s, Digits) /\ NumVal(s) <= 65535
IsOctet(s) == Len(s) \in 1..3 /\ AllIn(s, Digits) /\ NumVal(s) <= 255 /\ (Len(s) > 1 => Ch(s, 1) # "0")
IsV4(s) == LET p == Split(s, ".") IN Len(p) = 4 /\ \A i \in 1..4 : IsOctet(p[i])
IsV4Sock(s) == LET p == Split(s, ":") IN Len(p) = 2 /\ IsV4(p[1]) /\ IsPort(p[2])

IsGroup(g) == Len(g) \in 1..4 /\ AllIn(g, HexDigits)
(* colon-separated groups; the last one may be a dotted quad (counts as two) *)
GroupsOk(gs) == \A i \in 1..Len(gs) : IsGroup(gs[i]) \/ (i = Len(gs) /\ IsV4(gs[i]))
GroupCount(gs) == IF gs = <<>> THEN 0 ELSE Len(gs) + (IF IsV4(gs[Len(gs)]) THEN 1 ELSE 0)
RECURSIVE FirstDbl(_, _)
FirstDbl(s, i) == IF i + 1 > Len(s) THEN 0 ELSE IF SubSeq(s, i, i + 1) = "::" THEN i ELSE FirstDbl(s, i + 1)
GroupsOf(s) == IF s = "" THEN <<>> ELSE Split(s, ":")
IsV6(s) == LET d == FirstDbl(s, 1) IN
           IF d = 0 THEN LET gs == Split(s, ":") IN GroupsOk(gs) /\ GroupCount(gs) = 8
           ELSE LET l == GroupsOf(SubSeq(s, 1, d - 1))
                    r == GroupsOf(SubSeq(s, d + 2, Len(s)))
                IN /\ FirstDbl(s, d + 1) = 0
                   /\ \A i \in 1..Len(l) : IsGroup(l[i])
                   /\ GroupsOk(r)
                   /\ Len(l) + GroupCount(r) <= 7
IsV6Sock(s) ==
  LET j == FirstOf(s, "]", 1) IN
  /\ Len(s) >= 5 /\ Ch(s, 1) = "[" /\ j > 2 /\ j + 1 < Len(s) /\ Ch(s, j + 1) = ":"
  /\ IsPort(SubSeq(s, j + 2, Len(s)))
  /\ LET inner == Split(SubSeq(s, 2, j - 1), "%") IN
     /\ Len(inner) \in 1..2 /\ IsV6(inner[1])
     /\ (Len(inner) = 2) => (inner[2] # "" /\ AllIn(inner[2], Digits))

AddrOk(addr, ty) == CASE ty = "str" -> TRUE
                      [] ty = "v4" -> IsV4Sock(addr)
                      [] ty = "v6" -> IsV6Sock(addr)
                      [] ty = "sa" -> IsV4Sock(addr) \/ IsV6Sock(addr)

-----------------------------------------------------------------------------
(* parsing *)
Failed == [ok |-> FALSE]
ParseAe(s, ty) ==
  LET i == FirstOf(s, "@", 1)
      t == IF i = 0 THEN NoTitle ELSE IF i = 1 THEN NoTitle ELSE Title(SubSeq(s, 1, i - 1))
      addr == IF i = 0 THEN s ELSE SubSeq(s, i + 1, Len(s))
  IN IF AddrOk(addr, ty) THEN [ok |-> TRUE, title |-> t, addr |-> addr] ELSE Failed
(* the full form requires a non-empty title part *)
ParseFull(s, ty) ==
  LET i == FirstOf(s, "@", 1) IN
  IF i <= 1 THEN Failed
  ELSE LET addr == SubSeq(s, i + 1, Len(s)) IN
       IF AddrOk(addr, ty) THEN [ok |-> TRUE, title |-> Title(SubSeq(s, 1, i - 1)), addr |-> addr] ELSE Failed

Parsed(a) == [ok |-> TRUE, title |-> a.title, addr |-> a.addr]
(* theorems (checked by TLC on AeAddrInst) *)
RoundTripAe(a, ty) == ParseAe(PrintAe(a), ty) = Parsed(a)
RoundTripFull(a, ty) == a.title.some => (ParseFull(PrintFull(a), ty) = Parsed(a))
=============================================================================
