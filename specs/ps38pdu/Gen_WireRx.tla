------------------------------ MODULE Gen_WireRx ------------------------------
(* Behaviour generator: WireRx plus the history of transport deliveries and   *)
(* of the read_buffer length after each returned PDU; each complete behaviour *)
(* is printed as one JSON case.                                               *)
EXTENDS WireRx, Json

CONSTANTS AllMaxTotal,  \* style "all": only streams of at most this many bytes
          EdgesMaxN     \* style "edges": only sequences of at most this many PDUs

VARIABLES segs, rests

RECURSIVE Sum(_)
Sum(s) == IF s = <<>> THEN 0 ELSE Head(s) + Sum(Tail(s))

GInit == /\ Init /\ segs = <<>> /\ rests = <<>>
         /\ (style = "all") => (Sum(seq) <= AllMaxTotal)
         /\ (style = "edges") => (Len(seq) <= EdgesMaxN)
GNext == \/ (RecvStart \/ Closed) /\ UNCHANGED <<segs, rests>>
         \/ Parse /\ rests' = Append(rests, Len(rbuf')) /\ UNCHANGED segs
         \/ \E k \in 1..Len(pending) : Deliver(k) /\ segs' = Append(segs, k) /\ UNCHANGED rests
GSpec == GInit /\ [][GNext]_<<vars, segs, rests>>

Emit == (phase = "Closed") =>
          PrintT(<<"CASE", ToJson([wire |-> TRUE, lens |-> seq, style |-> style, segs |-> segs,
                                   rests |-> rests, nrecv |-> Len(out)])>>)
=============================================================================
