-------------------------------- MODULE WireRx --------------------------------
(***************************************************************************)
(* Implementation-shaped model of read_pdu_from_wire / _async              *)
(* (ul/src/association/mod.rs): a receive loops { try to parse one PDU     *)
(* from read_buffer; if incomplete, append whatever the transport hands    *)
(* over }.  read_buffer is shared by successive receives.  The transport   *)
(* delivers the byte stream in arbitrary non-empty pieces (splitting PDUs, *)
(* coalescing several PDUs into one read, one byte at a time).             *)
(*                                                                         *)
(* Bytes are tagged <<i, j>> = j-th byte of the i-th PDU, so that loss,    *)
(* duplication and reordering are visible.  The PDU length is known once   *)
(* the 6 header bytes are in the buffer (it is carried by the header).     *)
(***************************************************************************)
EXTENDS Naturals, Sequences, TLC

CONSTANTS Lens,    \* PDU frame lengths (>= 6) to draw from
          MaxN,    \* maximum number of PDUs in a sequence
          Styles   \* subset of {"ones", "edges", "coarse", "all"}

HDR == 6

VARIABLES seq,      \* frame lengths of the PDUs sent (chosen at Init)
          style,    \* how the transport segments (chosen at Init)
          pending,  \* bytes not yet handed over by the transport
          rbuf,     \* read_buffer
          out,      \* frames returned by the receives so far
          phase     \* "Idle" | "Recv" | "Closed"

vars == <<seq, style, pending, rbuf, out, phase>>

Frame(i, L) == [j \in 1..L |-> <<i, j>>]
RECURSIVE StreamFrom(_, _)
StreamFrom(s, i) == IF i > Len(s) THEN <<>> ELSE Frame(i, s[i]) \o StreamFrom(s, i + 1)

Init == /\ seq \in UNION {[1..n -> Lens] : n \in 1..MaxN}
        /\ style \in Styles
        /\ pending = StreamFrom(seq, 1)
        /\ rbuf = <<>> /\ out = <<>> /\ phase = "Idle"

(* read_pdu(read_buffer): Some(pdu) iff header and the announced length are there *)
HdrLen(b) == seq[b[1][1]]
Parsable(b) == Len(b) >= HDR /\ Len(b) >= HdrLen(b)

RecvStart == /\ phase = "Idle" /\ phase' = "Recv"
             /\ UNCHANGED <<seq, style, pending, rbuf, out>>

(* Some(pdu): advance read_buffer by the bytes consumed, return the PDU *)
Parse == /\ phase = "Recv" /\ Parsable(rbuf)
         /\ LET L == HdrLen(rbuf) IN
            /\ out' = Append(out, SubSeq(rbuf, 1, L))
            /\ rbuf' = SubSeq(rbuf, L + 1, Len(rbuf))
         /\ phase' = "Idle"
         /\ UNCHANGED <<seq, style, pending>>

(* sizes the transport may hand over in one read *)
ToEnd == seq[pending[1][1]] - pending[1][2] + 1          \* up to the end of the current PDU
ToHdr == IF pending[1][2] <= HDR THEN HDR - pending[1][2] + 1 ELSE 0
Sizes ==
  LET rem == Len(pending) IN
  CASE style = "ones"   -> {1}
    [] style = "coarse" -> {k \in {ToEnd, ToEnd + HDR, rem} : k >= 1 /\ k <= rem}
    [] style = "edges"  -> {k \in {ToHdr - 1, ToHdr, ToEnd - 1, ToEnd, ToEnd + 1, ToEnd + HDR, rem} : k >= 1 /\ k <= rem}
    [] style = "all"    -> 1..rem

(* None: read more from the transport, append to read_buffer *)
Deliver(k) == /\ phase = "Recv" /\ ~Parsable(rbuf) /\ pending # <<>>
              /\ k \in Sizes
              /\ rbuf' = rbuf \o SubSeq(pending, 1, k)
              /\ pending' = SubSeq(pending, k + 1, Len(pending))
              /\ UNCHANGED <<seq, style, out, phase>>

(* None and the transport is at end of stream: ConnectionClosed *)
Closed == /\ phase = "Recv" /\ ~Parsable(rbuf) /\ pending = <<>>
          /\ phase' = "Closed"
          /\ UNCHANGED <<seq, style, pending, rbuf, out>>

DeliverAny == \E k \in 1..Len(pending) : Deliver(k)
Next == RecvStart \/ Parse \/ DeliverAny \/ Closed
Spec == Init /\ [][Next]_vars
FairSpec == Spec /\ WF_vars(Next)

-----------------------------------------------------------------------------
(* no loss, no duplication, order kept: the k-th returned PDU is exactly    *)
(* the k-th frame                                                           *)
NoLossDupOrder == /\ Len(out) <= Len(seq)
                  /\ \A k \in 1..Len(out) : out[k] = Frame(k, seq[k])
(* read_buffer followed by the undelivered bytes is the unconsumed suffix   *)
Leftover == rbuf \o pending = StreamFrom(seq, Len(out) + 1)
(* the end of the stream is reported only after everything was returned     *)
ClosedAtEnd == (phase = "Closed") => (Len(out) = Len(seq) /\ rbuf = <<>>)
(* every PDU is eventually returned and the end reported *)
Termination == <>(phase = "Closed")

(* refinement of the property-level specification *)
Obs == INSTANCE WireRxObs WITH sent <- [i \in 1..Len(seq) |-> Frame(i, seq[i])],
                               recvd <- out, closed <- (phase = "Closed")
Refines == Obs!OSpec
=============================================================================
