---------------------------- MODULE PS38PduLenient ----------------------------
(***************************************************************************)
(* The error side of the PS3.8 PDU reader (growth beyond C25): what may a  *)
(* conforming reader return for bytes that are NOT the encoding of a       *)
(* well-formed PDU?                                                        *)
(*                                                                         *)
(*   ReadPdu (PS38Pdu)   the strict reading: Ok(p) iff the bytes tile      *)
(*                       exactly and denote p (reserved fields are never   *)
(*                       tested, item order is free); Err otherwise.       *)
(*   ReadL(b, opt)       a lenient reading per PS3.8 9.3.1 ("items of      *)
(*                       unrecognized types shall be ignored and skipped") *)
(*                       and the usual receiver tolerance: unknown items   *)
(*                       and sub-items are skipped, trailing bytes inside  *)
(*                       a fixed-layout item / PDU are ignored, one of     *)
(*                       several instances of a single-instance item is    *)
(*                       taken (opt.dup: first | last), out-of-range flag  *)
(*                       bytes are read as opt.flag: "=1" | "non-zero".    *)
(*                       Lengths that do not tile, missing mandatory       *)
(*                       items, codes outside the tables: Err.             *)
(*                                                                         *)
(*   MayReturn: for complete bytes                                         *)
(*     strict Ok(p)            -> exactly Ok(p, n)                         *)
(*     strict Err              -> Err, or Ok(q, n) for a lenient reading q *)
(*   anything else (a PDU that no reading yields, "incomplete" for a       *)
(*   complete PDU) is a deviation.  Text fields holding bytes outside the  *)
(*   G0 repertoire make the outcome unspecified.                           *)
(***************************************************************************)
EXTENDS PS38Pdu

Opts == {[dup |-> d, flag |-> f, extent |-> "field"] : d \in {"first", "last"}, f \in {"eq1", "nz"}}
(* A named deviation (observed in dicom-rs): the extent of the fixed-layout  *)
(* user sub-items 51H / 54H / 58H is taken from their inner fields and the   *)
(* item-length field is not looked at.                                       *)
InnerOpts == {[o EXCEPT !.extent = "inner"] : o \in Opts}
Pick(s, opt) == IF opt.dup = "first" THEN s[1] ELSE s[Len(s)]
Flag(x, opt) == IF opt.flag = "eq1" THEN x = 1 ELSE x # 0

Skip == [ok |-> TRUE, skip |-> TRUE]
Keep(v) == [ok |-> TRUE, skip |-> FALSE, v |-> v]
BadL == [ok |-> FALSE, skip |-> FALSE]

(* apply a partial, possibly skipping, parser to every element *)
MapKeep(xs, F(_)) ==
  LET rs == [i \in 1..Len(xs) |-> F(xs[i])] IN
  IF \A i \in 1..Len(xs) : rs[i].ok
    THEN LET kept == SelectSeq([i \in 1..Len(xs) |-> i], LAMBDA i : ~rs[i].skip) IN
         Good(IF kept = <<>> THEN <<>> ELSE [j \in 1..Len(kept) |-> rs[kept[j]].v])
    ELSE Bad

LUserItem(it, opt) ==
  LET b == it.body  n == Len(it.body) IN
  CASE it.type = 81 ->
         IF n >= 4 THEN Keep([t |-> "max", hi |-> U16(b, 1), lo |-> U16(b, 3)]) ELSE BadL
    [] it.type = 82 -> Keep([t |-> "impl_uid", s |-> b])
    [] it.type = 85 -> Keep([t |-> "impl_ver", s |-> b])
    [] it.type = 84 ->
         IF n < 2 THEN BadL
         ELSE LET ul == U16(b, 1) IN
              IF n < 2 + ul + 2 THEN BadL
              ELSE Keep([t |-> "role", uid |-> SubSeq(b, 3, 2 + ul),
                         scu |-> Flag(b[3 + ul], opt), scp |-> Flag(b[4 + ul], opt)])
    [] it.type = 86 ->
         IF n < 2 THEN BadL
         ELSE LET ul == U16(b, 1) IN
              IF n < 2 + ul THEN BadL
              ELSE Keep([t |-> "ext", uid |-> SubSeq(b, 3, 2 + ul), data |-> SubSeq(b, 3 + ul, n)])
    [] it.type = 88 ->
         IF n < 4 THEN BadL
         ELSE LET pl == U16(b, 3) IN
              IF n < 4 + pl + 2 THEN BadL
              ELSE LET sl == U16(b, 5 + pl) IN
                   IF n < 4 + pl + 2 + sl THEN BadL
                   ELSE IF b[1] \notin 1..5 THEN Skip
                   ELSE Keep([t |-> "ident", itype |-> b[1], pos |-> Flag(b[2], opt),
                              prim |-> SubSeq(b, 5, 4 + pl), sec |-> SubSeq(b, 7 + pl, 6 + pl + sl)])
    [] OTHER -> Keep([t |-> "unk", type |-> it.type, data |-> b])

(* user information sub-items b[i..e] with the extent of 51H/54H/58H taken   *)
(* from their inner structure instead of the item-length field              *)
InnerExtent(b, i, e) ==
  LET ty == b[i]  avail == e - i + 1 - 4 IN
  CASE ty = 81 -> 4
    [] ty = 84 -> IF avail < 2 THEN Huge ELSE 2 + U16(b, i + 4) + 2
    [] ty = 88 -> IF avail < 4 THEN Huge
                  ELSE LET pl == U16(b, i + 6) IN
                       IF avail < 4 + pl + 2 THEN Huge ELSE 4 + pl + 2 + U16(b, i + 8 + pl)
    [] OTHER -> U16(b, i + 2)
RECURSIVE TLVI(_, _, _)
TLVI(b, i, e) ==
  IF i > e THEN Good(<<>>)
  ELSE IF e - i + 1 < 4 THEN Bad
  ELSE LET L == InnerExtent(b, i, e) IN
       IF L = Huge \/ e - i + 1 < 4 + L THEN Bad
       ELSE LET rest == TLVI(b, i + 4 + L, e) IN
            IF ~rest.ok THEN Bad
            ELSE Good(<<[type |-> b[i], body |-> SubSeq(b, i + 4, i + 3 + L)]>> \o rest.v)

LPcRq(it, opt) ==
  LET b == it.body IN
  IF Len(b) < 4 THEN BadL
  ELSE LET t == TLV(b, 5, Len(b)) IN
       IF ~t.ok THEN BadL
       ELSE LET abs == OfType(t.v, {48})  tss == OfType(t.v, {64}) IN
            IF abs = <<>> THEN BadL
            ELSE Keep([id |-> b[1], abs |-> Pick(abs, opt).body,
                       ts |-> IF tss = <<>> THEN <<>> ELSE [i \in 1..Len(tss) |-> tss[i].body]])

LPcAc(it, opt) ==
  LET b == it.body IN
  IF Len(b) < 4 \/ b[3] > 4 THEN BadL
  ELSE LET t == TLV(b, 5, Len(b)) IN
       IF ~t.ok THEN BadL
       ELSE LET tss == OfType(t.v, {64}) IN
            IF tss = <<>> THEN BadL
            ELSE Keep([id |-> b[1], reason |-> b[3], ts |-> Pick(tss, opt).body])

LAssoc(kind, b, opt) ==
  IF Len(b) < 68 THEN Bad
  ELSE LET t == TLV(b, 69, Len(b)) IN
       IF ~t.ok THEN Bad
       ELSE LET apps == OfType(t.v, {16})
                pcs  == OfType(t.v, {IF kind = "rq" THEN 32 ELSE 33})
                uis  == OfType(t.v, {80})
            IN IF apps = <<>> THEN Bad
               ELSE LET ppcs == IF kind = "rq" THEN MapKeep(pcs, LAMBDA x : LPcRq(x, opt))
                                               ELSE MapKeep(pcs, LAMBDA x : LPcAc(x, opt))
                        ui   == IF uis = <<>> THEN <<>> ELSE Pick(uis, opt).body
                        uvt  == IF opt.extent = "inner" THEN TLVI(ui, 1, Len(ui)) ELSE TLV(ui, 1, Len(ui))
                    IN IF ~ppcs.ok \/ ~uvt.ok THEN Bad
                       ELSE LET puv == MapKeep(uvt.v, LAMBDA x : LUserItem(x, opt)) IN
                            IF ~puv.ok THEN Bad
                            ELSE Good([k |-> kind, pv |-> U16(b, 1),
                                       called |-> Strip(SubSeq(b, 5, 20)),
                                       calling |-> Strip(SubSeq(b, 21, 36)),
                                       app |-> Pick(apps, opt).body, pcs |-> ppcs.v, uv |-> puv.v])

LBody(type, b, opt) ==
  CASE type = 1 -> LAssoc("rq", b, opt)
    [] type = 2 -> LAssoc("ac", b, opt)
    [] type = 3 -> IF Len(b) < 4 \/ b[2] \notin {1, 2} \/ b[4] \notin RjReasonTable(b[3]) THEN Bad
                   ELSE Good([k |-> "rj", result |-> b[2], source |-> b[3], reason |-> b[4]])
    [] type = 4 -> LET r == ParsePdvs(b, 1, Len(b)) IN
                   IF r.ok THEN Good([k |-> "pdata", pdvs |-> r.v]) ELSE Bad
    [] type = 5 -> IF Len(b) >= 4 THEN Good([k |-> "rrq"]) ELSE Bad
    [] type = 6 -> IF Len(b) >= 4 THEN Good([k |-> "rrp"]) ELSE Bad
    [] type = 7 -> IF Len(b) < 4 \/ b[3] > 2 \/ (b[3] = 2 /\ b[4] > 6) THEN Bad
                   ELSE Good([k |-> "abort", source |-> b[3], reason |-> IF b[3] = 2 THEN b[4] ELSE 0])
    [] OTHER    -> Good([k |-> "unknown", type |-> type, data |-> b])

(* lenient reading of the first n bytes of b (framing as in ReadPduN) *)
ReadLN(b, n, max, strict, opt) ==
  IF n < 6 THEN Incomplete
  ELSE LET L == U32(b, 3) IN
       IF strict /\ L > max THEN ErrR
       ELSE IF L = Huge \/ n - 6 < L THEN Incomplete
       ELSE LET r == LBody(b[1], SubSeq(b, 7, 6 + L), opt) IN
            IF r.ok THEN OkR(r.v, 6 + L) ELSE ErrR

(* the lenient readings of a complete PDU that the strict reading rejects *)
LenientReadings(b, n, max, strict) ==
  {r \in {ReadLN(b, n, max, strict, o) : o \in Opts} : r.k = "Ok"}
(* readings that only exist when the item-length field of 51H/54H/58H is ignored *)
LengthIgnoredReadings(b, n, max, strict) ==
  {r \in {ReadLN(b, n, max, strict, o) : o \in InnerOpts} : r.k = "Ok"} \ LenientReadings(b, n, max, strict)

(* text fields of a PDU value (for the repertoire test) *)
UvTexts(u) == CASE u.t \in {"impl_uid", "impl_ver"} -> {u.s}
                [] u.t \in {"role", "ext"} -> {u.uid}
                [] OTHER -> {}
PduTexts(p) ==
  IF p.k \in {"rq", "ac"}
    THEN {p.called, p.calling, p.app}
         \cup UNION {IF p.k = "rq" THEN {p.pcs[i].abs} \cup {p.pcs[i].ts[j] : j \in 1..Len(p.pcs[i].ts)}
                     ELSE {p.pcs[i].ts} : i \in 1..Len(p.pcs)}
         \cup UNION {UvTexts(p.uv[i]) : i \in 1..Len(p.uv)}
    ELSE {}
InRepertoire(s) == \A i \in 1..Len(s) : s[i] >= 32 /\ s[i] <= 126
(* leading / trailing spaces of UIDs and names are padding for some readers, content for others *)
NoEdgeSpace(s) == s = <<>> \/ (s[1] # 32 /\ s[Len(s)] # 32)
TextOk(p) == \A s \in PduTexts(p) : InRepertoire(s) /\ NoEdgeSpace(s)

(* Expectation for the first n bytes of b, as one record:                   *)
(*   strict:  the strict reading                                            *)
(*   lenient: the lenient readings (only when the strict reading is Err)    *)
(*   unspec:  some reading has text outside the repertoire                  *)
(*   lenignored: readings of the named deviation "item length ignored"      *)
Expect(b, n, max, strict) ==
  LET s == ReadPduN(b, n, max, strict)
      lr == IF s.k = "Err" THEN LenientReadings(b, n, max, strict) ELSE {}
      li == IF s.k = "Err" THEN LengthIgnoredReadings(b, n, max, strict) ELSE {}
  IN [strict |-> s, lenient |-> lr, lenignored |-> li,
      unspec |-> (s.k = "Ok" /\ ~TextOk(s.pdu)) \/ (\E r \in lr \cup li : ~TextOk(r.pdu))]
=============================================================================
