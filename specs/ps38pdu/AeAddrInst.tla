------------------------------ MODULE AeAddrInst ------------------------------
(* Instance space for C36: titles over a small alphabet without '@' (with     *)
(* spaces, separators of the address syntax, edge spaces, 16 characters) x    *)
(* IPv4 / bracketed IPv6 socket addresses / host:port strings x address type. *)
EXTENDS AeAddr, TLC

CONSTANTS TLen,     \* maximum length of the enumerated titles
          Alphabet, \* title characters (no "@")
          Ports,    \* port numbers
          NQuads    \* how many of the IPv4 addresses below

Digit == <<"0", "1", "2", "3", "4", "5", "6", "7", "8", "9">>
RECURSIVE Dec(_)
Dec(n) == IF n < 10 THEN Digit[n + 1] ELSE Dec(n \div 10) \o Digit[(n % 10) + 1]

RECURSIVE Words(_)
Words(n) == IF n = 0 THEN {""} ELSE LET W == Words(n - 1) IN W \cup {w \o c : w \in {x \in W : Len(x) = n - 1}, c \in Alphabet}
Titles == (Words(TLen) \ {""}) \cup {"STORE-SCP-0123456", "A B  C", "[::1]:104", "127.0.0.1:104"}

AllQuads == <<<<127, 0, 0, 1>>, <<0, 0, 0, 0>>, <<192, 168, 1, 99>>, <<255, 255, 255, 255>>, <<10, 20, 30, 40>>>>
Quads == {AllQuads[i] : i \in 1..NQuads}
V4Socks == {Dec(q[1]) \o "." \o Dec(q[2]) \o "." \o Dec(q[3]) \o "." \o Dec(q[4]) \o ":" \o Dec(p) : q \in Quads, p \in Ports}
V6s == {"::", "::1", "2001:db8::1", "fe80::1", "1:2:3:4:5:6:7:8", "2001:db8:0:1::", "::ffff:192.0.2.128",
        "ff02::1:ff00:42", "fe80::1%3"}
V6Socks == {"[" \o a \o "]:" \o Dec(p) : a \in V6s, p \in Ports}
Hosts == {"localhost:104", "pacs.example.org:11112", "h:1", "a-b.c:65535", "dicom_server-01.lan:4242"}
(* host:port strings that contain '@' themselves: at the start, in the middle, at the end, several *)
AtHosts == {"dicom@pacs.archive.example.com:104", "@h:1", "h:104@", "a@b@c:11112", "@@:0", "u@[::1]:104"}

Typed == {[addr |-> a, ty |-> t] : a \in V4Socks, t \in {"sa", "v4", "str"}}
         \cup {[addr |-> a, ty |-> t] : a \in V6Socks, t \in {"sa", "v6", "str"}}
         \cup {[addr |-> a, ty |-> "str"] : a \in Hosts \cup AtHosts}
TitleOpts == {NoTitle} \cup {Title(t) : t \in Titles}

VARIABLE c
AInit == c \in {[title |-> t, addr |-> x.addr, ty |-> x.ty] : t \in TitleOpts, x \in Typed}
ASpec == AInit /\ [][UNCHANGED c]_c
A == [title |-> c.title, addr |-> c.addr]

ThPremise == Premise(A)
ThAddrOk == AddrOk(c.addr, c.ty)
ThAe == RoundTripAe(A, c.ty)
ThFull == RoundTripFull(A, c.ty)
(* the premise is needed: with an '@' in the title the text denotes another address *)
ASSUME \A x \in Typed : LET b == [title |-> Title("A@B"), addr |-> x.addr] IN ParseAe(PrintAe(b), x.ty) # Parsed(b)
(* the recognisers do reject something *)
ASSUME /\ ~IsV4Sock("1.2.3:4") /\ ~IsV4Sock("1.2.3.256:4") /\ ~IsV4Sock("1.2.3.4:65536") /\ ~IsV4Sock("01.2.3.4:5")
       /\ ~IsV6Sock("::1:104") /\ ~IsV6Sock("[::1]") /\ ~IsV6Sock("[1::2::3]:4") /\ ~IsV6Sock("[1:2:3:4:5:6:7]:8")
       /\ ~IsV6Sock("[12345::]:1") /\ ~IsV6Sock("[::g]:1") /\ IsV6Sock("[::]:0") /\ IsV4Sock("0.0.0.0:0")
=============================================================================
