CONSTANTS Lens = {6,10,13} MaxN = 3 Styles = {"ones"}
SPECIFICATION GSpec
INVARIANT Emit
CHECK_DEADLOCK FALSE
