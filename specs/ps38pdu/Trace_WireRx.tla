----------------------------- MODULE Trace_WireRx -----------------------------
(***************************************************************************)
(* Trace validator for C27: events recorded from the real                  *)
(* read_pdu_from_wire / read_pdu_from_wire_async over a scripted transport *)
(* are checked to be a behaviour of the property-level specification       *)
(* WireRxObs.  Events of one case:                                         *)
(*   wreset  {mode, sent: <<desc>>, total}   the PDUs written to the stream*)
(*   deliver {k}        the transport handed k bytes to the receiver       *)
(*   recv    {res: "pdu", pdu: desc, rest} | {res: "closed"} | {res: "err"}*)
(*   wend               the harness stopped issuing receives               *)
(* desc = [k: kind, len: encoded length, h: digest of the encoding].       *)
(* A receive that fails or reports "closed" while PDUs are outstanding has *)
(* no matching action (loss); a PDU returned beyond the sent sequence or   *)
(* different from the next sent one neither (duplication / reordering).    *)
(* CheckRest = TRUE additionally demands the implementation-shaped buffer  *)
(* accounting of WireRx.tla: read_buffer holds exactly the delivered,      *)
(* unconsumed bytes.                                                       *)
(***************************************************************************)
EXTENDS Naturals, Sequences, TLC, Json, IOUtils

CONSTANT CheckRest

Rec == ndJsonDeserialize(IOEnv.TRACE)

VARIABLES l, sent, recvd, closed, deliv, total
Obs == INSTANCE WireRxObs
tvars == <<l, sent, recvd, closed, deliv, total>>

TInit == l = 1 /\ sent = <<>> /\ Obs!OInit /\ deliv = 0 /\ total = 0 /\ TLCSet(1, 1)

Ev(e) == l <= Len(Rec) /\ Rec[l].ev = e /\ l' = l + 1
R == Rec[l]

RECURSIVE SumLen(_)
SumLen(s) == IF s = <<>> THEN 0 ELSE Head(s).len + SumLen(Tail(s))

TReset == /\ Ev("wreset")
          /\ sent' = R.sent /\ recvd' = <<>> /\ closed' = FALSE
          /\ deliv' = 0 /\ total' = R.total

TDeliver == /\ Ev("deliver")
            /\ R.k >= 1 /\ deliv + R.k <= total
            /\ deliv' = deliv + R.k
            /\ UNCHANGED <<sent, recvd, closed, total>>

TRecv == /\ Ev("recv") /\ R.res = "pdu"
         /\ Obs!ORecv(R.pdu)
         /\ CheckRest => (SumLen(recvd') <= deliv /\ R.rest = deliv - SumLen(recvd'))
         /\ UNCHANGED <<deliv, total>>

TClosed == /\ Ev("recv") /\ R.res = "closed"
           /\ Obs!OClosed
           /\ CheckRest => (deliv = total /\ R.rest = 0)
           /\ UNCHANGED <<deliv, total>>

(* the harness stops after the end of the stream was reported *)
TEnd == /\ Ev("wend")
        /\ Len(recvd) = Len(sent) /\ closed
        /\ UNCHANGED <<sent, recvd, closed, deliv, total>>

TNext == TReset \/ TDeliver \/ TRecv \/ TClosed \/ TEnd
TSpec == TInit /\ [][TNext]_tvars

Track == TLCSet(1, IF l > TLCGet(1) THEN l ELSE TLCGet(1))
Accepted == IF TLCGet(1) = Len(Rec) + 1 THEN TRUE
            ELSE Print(<<"REJECTED", TLCGet(1), ToJson(Rec[TLCGet(1)])>>, FALSE)
=============================================================================
