CONSTANTS Lens = {6, 7, 10} MaxN = 2 Styles = {"ones", "edges", "coarse", "all"}
SPECIFICATION FairSpec
PROPERTIES Termination
CHECK_DEADLOCK FALSE
