--------------------------------- MODULE Proxy ---------------------------------
(***************************************************************************)
(* Implementation-shaped model of scpproxy (scpproxy/src/main.rs `run`):   *)
(* one reader thread per peer (read_pdu_from_wire in a loop) pushing       *)
(* SendPdu / Shutdown messages into ONE mpsc channel; the main loop pops   *)
(* the channel, re-encodes each PDU and writes it to the other peer, and   *)
(* stops at the first Shutdown (then closes both connections).             *)
(* Writing to a peer that has closed fails; the code `unwrap`s the write,  *)
(* so the whole proxy process panics (variable panicked).                  *)
(* TLC checks that the model refines ProxyObs (as long as it does not      *)
(* panic) and reports whether the panic state is reachable.                *)
(***************************************************************************)
EXTENDS Naturals, Sequences, TLC

CONSTANTS MaxC, MaxS     \* how many PDUs each peer may send

VARIABLES sentC, sentS,  \* PDUs written so far by the SCU / the SCP (numbers 1.., identity only)
          readC, readS,  \* how many of them the reader threads have taken
          rdone,         \* [c, s |-> the reader thread has finished]
          chan,          \* the channel: << [to, pdu] | [shutdown] >>
          outC, outS,    \* PDUs written by the main loop to the SCU / the SCP
          closedC, closedS,   \* the peer has closed its connection
          done,          \* the main loop has left (both connections get closed)
          panicked
vars == <<sentC, sentS, readC, readS, rdone, chan, outC, outS, closedC, closedS, done, panicked>>

Init == /\ sentC = <<>> /\ sentS = <<>> /\ readC = 0 /\ readS = 0
        /\ rdone = [c |-> FALSE, s |-> FALSE] /\ chan = <<>>
        /\ outC = <<>> /\ outS = <<>> /\ closedC = FALSE /\ closedS = FALSE
        /\ done = FALSE /\ panicked = FALSE

Live == ~panicked

ClientSend == /\ Live /\ ~closedC /\ Len(sentC) < MaxC
              /\ sentC' = Append(sentC, <<"c", Len(sentC) + 1>>)
              /\ UNCHANGED <<sentS, readC, readS, rdone, chan, outC, outS, closedC, closedS, done, panicked>>
ServerSend == /\ Live /\ ~closedS /\ Len(sentS) < MaxS
              /\ sentS' = Append(sentS, <<"s", Len(sentS) + 1>>)
              /\ UNCHANGED <<sentC, readC, readS, rdone, chan, outC, outS, closedC, closedS, done, panicked>>
ClientClose == /\ Live /\ ~closedC /\ closedC' = TRUE
               /\ UNCHANGED <<sentC, sentS, readC, readS, rdone, chan, outC, outS, closedS, done, panicked>>
ServerClose == /\ Live /\ ~closedS /\ closedS' = TRUE
               /\ UNCHANGED <<sentC, sentS, readC, readS, rdone, chan, outC, outS, closedC, done, panicked>>

(* SCU reader thread: next PDU -> channel; at end of stream -> Shutdown *)
ScuRead == /\ Live /\ ~rdone.c /\ ~done /\ readC < Len(sentC)
           /\ readC' = readC + 1
           /\ chan' = Append(chan, [to |-> "s", pdu |-> sentC[readC + 1]])
           /\ UNCHANGED <<sentC, sentS, readS, rdone, outC, outS, closedC, closedS, done, panicked>>
ScuEof  == /\ Live /\ ~rdone.c /\ readC = Len(sentC) /\ (closedC \/ done)
           /\ rdone' = [rdone EXCEPT !.c = TRUE]
           /\ chan' = IF done THEN chan ELSE Append(chan, [shutdown |-> "c"])
           /\ UNCHANGED <<sentC, sentS, readC, readS, outC, outS, closedC, closedS, done, panicked>>
ScpRead == /\ Live /\ ~rdone.s /\ ~done /\ readS < Len(sentS)
           /\ readS' = readS + 1
           /\ chan' = Append(chan, [to |-> "c", pdu |-> sentS[readS + 1]])
           /\ UNCHANGED <<sentC, sentS, readC, rdone, outC, outS, closedC, closedS, done, panicked>>
ScpEof  == /\ Live /\ ~rdone.s /\ readS = Len(sentS) /\ (closedS \/ done)
           /\ rdone' = [rdone EXCEPT !.s = TRUE]
           /\ chan' = IF done THEN chan ELSE Append(chan, [shutdown |-> "s"])
           /\ UNCHANGED <<sentC, sentS, readC, readS, outC, outS, closedC, closedS, done, panicked>>

(* main loop: forward, or stop at a Shutdown *)
MainForward == /\ Live /\ ~done /\ chan # <<>> /\ "to" \in DOMAIN Head(chan)
               /\ LET m == Head(chan) IN
                  IF m.to = "s"
                    THEN /\ ~closedS
                         /\ outS' = Append(outS, m.pdu) /\ UNCHANGED <<outC, panicked>>
                    ELSE /\ ~closedC
                         /\ outC' = Append(outC, m.pdu) /\ UNCHANGED <<outS, panicked>>
               /\ chan' = Tail(chan)
               /\ UNCHANGED <<sentC, sentS, readC, readS, rdone, closedC, closedS, done>>
(* write_all(..).unwrap() on a connection the peer has closed *)
MainWriteToClosed == /\ Live /\ ~done /\ chan # <<>> /\ "to" \in DOMAIN Head(chan)
                     /\ (IF Head(chan).to = "s" THEN closedS ELSE closedC)
                     /\ panicked' = TRUE
                     /\ UNCHANGED <<sentC, sentS, readC, readS, rdone, chan, outC, outS, closedC, closedS, done>>
MainShutdown == /\ Live /\ ~done /\ chan # <<>> /\ "shutdown" \in DOMAIN Head(chan)
                /\ done' = TRUE /\ chan' = Tail(chan)
                /\ UNCHANGED <<sentC, sentS, readC, readS, rdone, outC, outS, closedC, closedS, panicked>>

Next == ClientSend \/ ServerSend \/ ClientClose \/ ServerClose \/ ScuRead \/ ScuEof \/ ScpRead \/ ScpEof
        \/ MainForward \/ MainWriteToClosed \/ MainShutdown
Spec == Init /\ [][Next]_vars

-----------------------------------------------------------------------------
(* refinement of ProxyObs (identity transformation on abstract PDUs) *)
Id(p) == p
Obs == INSTANCE ProxyObs WITH Xf <- Id,
         sent <- [c |-> sentC, s |-> sentS], fwd <- [c |-> outC, s |-> outS],
         closed <- [c |-> closedC, s |-> closedS], eof <- [c |-> done, s |-> done]
ObsNext == \/ \E x \in {"c", "s"} : Obs!PClose(x) \/ Obs!PPropagate(x) \/ Obs!PDrop(x)
           \/ \E x \in {"c", "s"}, p \in {<<y, i>> : y \in {"c", "s"}, i \in 1..(MaxC + MaxS)} : Obs!PSend(x, p) \/ Obs!PForward(x, p)
           \* the main loop leaves: PPropagate(x) and PDrop(x) of ProxyObs in one step
           \/ /\ done' /\ ~done /\ UNCHANGED <<sentC, sentS, outC, outS, closedC, closedS>>
              /\ \/ (closedC /\ Len(outS) = Len(sentC))
                 \/ (closedS /\ Len(outC) = Len(sentS))
RefinesObs == [][panicked' \/ ObsNext]_<<sentC, sentS, outC, outS, closedC, closedS, done>>
(* forwarding is in order and unchanged, in both directions *)
InOrder == /\ \A i \in 1..Len(outS) : outS[i] = sentC[i]
           /\ \A i \in 1..Len(outC) : outC[i] = sentS[i]
(* when the main loop stops because peer x closed, everything x sent was forwarded *)
CloseAfterContent ==
  (done /\ ~panicked) =>
     \/ (closedC /\ Len(outS) = Len(sentC))
     \/ (closedS /\ Len(outC) = Len(sentS))
(* the hazard: the process panics *)
NoPanic == ~panicked
=============================================================================
