CONSTANT SLen = 2 Wide = FALSE
SPECIFICATION ISpec
INVARIANTS ThRoundTrip ThPrefixes ThFraming ThWritable
CHECK_DEADLOCK FALSE
