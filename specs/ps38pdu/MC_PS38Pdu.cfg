CONSTANT SLen = 2
SPECIFICATION ISpec
INVARIANTS ThRoundTrip ThPrefixes ThFraming ThWritable
CHECK_DEADLOCK FALSE
