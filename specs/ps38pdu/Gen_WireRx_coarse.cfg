CONSTANTS Lens = {6,7,10,13} MaxN = 3 Styles = {"coarse"}
SPECIFICATION GSpec
INVARIANT Emit
CHECK_DEADLOCK FALSE
