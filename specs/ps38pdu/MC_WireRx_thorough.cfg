CONSTANTS Lens = {6, 7, 10, 12, 17} MaxN = 4 Styles = {"ones", "edges", "coarse", "all"}
SPECIFICATION FairSpec
INVARIANTS NoLossDupOrder Leftover ClosedAtEnd
PROPERTIES Termination Refines
CHECK_DEADLOCK FALSE
