CONSTANTS Lens = {6, 7, 10, 12, 17} MaxN = 4 Styles = {"ones", "edges", "coarse", "all"}
SPECIFICATION Spec
INVARIANTS NoLossDupOrder Leftover ClosedAtEnd
PROPERTIES Refines
CHECK_DEADLOCK FALSE
