CONSTANTS SLen = 2 BigSizes = {} What = "pdus"
SPECIFICATION GSpec
INVARIANT Emit
CHECK_DEADLOCK FALSE
