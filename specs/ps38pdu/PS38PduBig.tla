----------------------------- MODULE PS38PduBig -----------------------------
(***************************************************************************)
(* PDUs with one large field, named by (shape, n) so that they can travel  *)
(* between TLC and the harness without 70 000-element arrays.  The harness *)
(* builds the same PDU from (shape, n) (drv_pdu.rs `big_pdu`).             *)
(***************************************************************************)
EXTENDS PS38Pdu

BigBase == [k |-> "rq", pv |-> 1, called |-> <<65>>, calling |-> <<66>>, app |-> <<49>>,
            pcs |-> <<>>, uv |-> <<>>]
BigMax == [t |-> "max", hi |-> 0, lo |-> 16384]
Pc1 == [id |-> 1, abs |-> <<49>>, ts |-> <<<<50>>>>]

BigShapes == {"uv_unk", "uv_ext", "uv_ext_uid", "uv_ident_prim", "uv_ident_sec", "uv_two",
              "uv_impl_uid", "uv_impl_ver", "uv_role_uid", "app", "pc_abs", "pc_ts",
              "pc_two_ts", "ac_ts", "ac_uv_unk", "pdv", "unknown"}

BigPdu(shape, n) ==
  CASE shape = "uv_unk" ->
         [BigBase EXCEPT !.uv = <<BigMax, [t |-> "unk", type |-> 153, data |-> Rep(n, 0)]>>]
    [] shape = "uv_ext" ->
         [BigBase EXCEPT !.uv = <<[t |-> "ext", uid |-> <<49>>, data |-> Rep(n, 7)]>>]
    [] shape = "uv_ext_uid" ->
         [BigBase EXCEPT !.uv = <<[t |-> "ext", uid |-> Rep(n, 49), data |-> <<>>]>>]
    [] shape = "uv_ident_prim" ->
         [BigBase EXCEPT !.uv = <<[t |-> "ident", itype |-> 1, pos |-> FALSE, prim |-> Rep(n, 97), sec |-> <<>>]>>]
    [] shape = "uv_ident_sec" ->
         [BigBase EXCEPT !.uv = <<[t |-> "ident", itype |-> 2, pos |-> TRUE, prim |-> <<97>>, sec |-> Rep(n, 98)]>>]
    [] shape = "uv_two" ->
         [BigBase EXCEPT !.uv = <<[t |-> "unk", type |-> 153, data |-> Rep(n \div 2, 1)],
                                  [t |-> "unk", type |-> 154, data |-> Rep(n \div 2, 2)]>>]
    [] shape = "uv_impl_uid" ->
         [BigBase EXCEPT !.uv = <<[t |-> "impl_uid", s |-> Rep(n, 49)]>>]
    [] shape = "uv_impl_ver" ->
         [BigBase EXCEPT !.uv = <<[t |-> "impl_ver", s |-> Rep(n, 86)]>>]
    [] shape = "uv_role_uid" ->
         [BigBase EXCEPT !.uv = <<[t |-> "role", uid |-> Rep(n, 49), scu |-> TRUE, scp |-> FALSE]>>]
    [] shape = "app" -> [BigBase EXCEPT !.app = Rep(n, 49)]
    [] shape = "pc_abs" -> [BigBase EXCEPT !.pcs = <<[Pc1 EXCEPT !.abs = Rep(n, 49)]>>]
    [] shape = "pc_ts" -> [BigBase EXCEPT !.pcs = <<[Pc1 EXCEPT !.ts = <<Rep(n, 49)>>]>>]
    [] shape = "pc_two_ts" ->
         [BigBase EXCEPT !.pcs = <<[Pc1 EXCEPT !.ts = <<Rep(n \div 2, 49), Rep(n \div 2, 50)>>]>>]
    [] shape = "ac_ts" ->
         [BigBase EXCEPT !.k = "ac", !.pcs = <<[id |-> 1, reason |-> 0, ts |-> Rep(n, 49)]>>]
    [] shape = "ac_uv_unk" ->
         [BigBase EXCEPT !.k = "ac", !.uv = <<BigMax, [t |-> "unk", type |-> 153, data |-> Rep(n, 0)]>>]
    [] shape = "pdv" ->
         [k |-> "pdata", pdvs |-> <<[id |-> 1, cmd |-> FALSE, last |-> TRUE, data |-> Rep(n, 5)]>>]
    [] shape = "unknown" -> [k |-> "unknown", type |-> 9, data |-> Rep(n, 3)]

(* run-length coded byte strings: <<<<count, byte>>, ...>> *)
RECURSIVE RLExpand(_)
RLExpand(rl) == IF rl = <<>> THEN <<>> ELSE Rep(Head(rl)[1], Head(rl)[2]) \o RLExpand(Tail(rl))
=============================================================================
