CONSTANTS Lens = {6,10,13} MaxN = 2 Styles = {"edges"}
SPECIFICATION GSpec
INVARIANT Emit
CHECK_DEADLOCK FALSE
