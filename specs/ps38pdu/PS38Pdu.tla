------------------------------- MODULE PS38Pdu -------------------------------
(***************************************************************************)
(* DICOM PS3.8 (Upper Layer) PDU byte layout, written from the standard    *)
(* (PS3.8 section 9.3, Tables 9-11 .. 9-26, Annex D of PS3.7 for the user  *)
(* information sub-items 51H..58H).  Two independent directions:           *)
(*                                                                         *)
(*   PduBytes(pdu)              the encoding of an abstract PDU value      *)
(*   ReadPdu(bytes,max,strict)  a structural parser:                       *)
(*                              Incomplete | Ok(pdu, n) | Err              *)
(*                                                                         *)
(* The parser does not use the encoder: it tiles the byte string by the    *)
(* length fields (every item must end exactly where its parent ends) and   *)
(* interprets the items by the tables of the standard.  It is therefore    *)
(* the "independent PS3.8 parser" of property C25: ReadPdu(b) = Ok(p, Len) *)
(* says that all length fields in b match the content they describe and    *)
(* that b denotes p.                                                       *)
(*                                                                         *)
(* Abstract PDU values (records; JSON objects on the wire to the harness). *)
(* Text (AE titles, UIDs, names) is a sequence of character codes, bytes   *)
(* are sequences of 0..255.                                                *)
(*   [k |-> "rq", pv, called, calling, app, pcs, uv]                       *)
(*        pcs: << [id, abs, ts: <<uid, ...>>] ... >>                       *)
(*   [k |-> "ac", pv, called, calling, app, pcs, uv]                       *)
(*        pcs: << [id, reason: 0..4, ts: uid] ... >>                       *)
(*   [k |-> "rj", result: 1..2, source: 1..3, reason]                      *)
(*   [k |-> "pdata", pdvs: << [id, cmd: BOOLEAN, last: BOOLEAN, data] >>]  *)
(*   [k |-> "rrq"]   [k |-> "rrp"]                                         *)
(*   [k |-> "abort", source: 0..2, reason]   (reason 0 unless source = 2)  *)
(*   [k |-> "unknown", type, data]           (type not in 1..7)            *)
(* user information sub-items (uv):                                        *)
(*   [t |-> "max", hi, lo]          51H maximum length (two 16-bit halves) *)
(*   [t |-> "impl_uid", s]          52H implementation class UID           *)
(*   [t |-> "role", uid, scu, scp]  54H SCP/SCU role selection             *)
(*   [t |-> "impl_ver", s]          55H implementation version name        *)
(*   [t |-> "ext", uid, data]       56H SOP class extended negotiation     *)
(*   [t |-> "ident", itype: 1..5, pos: BOOLEAN, prim, sec]  58H identity   *)
(*   [t |-> "unk", type, data]      any other sub-item type                *)
(* The abstract value cannot distinguish "no user information item" from   *)
(* "an empty one": uv = <<>> is encoded without the item and both read     *)
(* back as uv = <<>>.                                                      *)
(***************************************************************************)
EXTENDS Naturals, Sequences

----------------------------------------------------------------------------
(* bytes *)
Rep(n, x) == [i \in 1..n |-> x]
BE16(n) == <<n \div 256, n % 256>>
BE32(n) == <<n \div 16777216, (n \div 65536) % 256, (n \div 256) % 256, n % 256>>
U16(b, i) == b[i] * 256 + b[i + 1]
(* 32-bit length at b[i..i+3]; TLC integers are 32-bit signed, so a length  *)
(* with the top bit set is reported as Huge (never reached by a buffer)     *)
Huge == 2147483647
U32(b, i) == IF b[i] >= 128 THEN Huge
             ELSE ((b[i] * 256 + b[i + 1]) * 256 + b[i + 2]) * 256 + b[i + 3]
B2N(x) == IF x THEN 1 ELSE 0

RECURSIVE Flat(_)
Flat(ss) == IF ss = <<>> THEN <<>> ELSE Head(ss) \o Flat(Tail(ss))

RECURSIVE LStrip(_)
LStrip(s) == IF s # <<>> /\ Head(s) = 32 THEN LStrip(Tail(s)) ELSE s
RECURSIVE RStrip(_)
RStrip(s) == IF s # <<>> /\ s[Len(s)] = 32 THEN RStrip(SubSeq(s, 1, Len(s) - 1)) ELSE s
Strip(s) == RStrip(LStrip(s))

----------------------------------------------------------------------------
(* Encoder                                                                 *)

(* item / sub-item with a 16-bit length: type, reserved, length, body *)
Item(type, body) == <<type, 0>> \o BE16(Len(body)) \o body
(* PDU: type, reserved, 32-bit length, body *)
PDU(type, body) == <<type, 0>> \o BE32(Len(body)) \o body
(* AE title field: 16 characters, padded with trailing spaces *)
PadAE(s) == s \o Rep(16 - Len(s), 32)

UserItemType(u) ==
  CASE u.t = "max"      -> 81
    [] u.t = "impl_uid" -> 82
    [] u.t = "role"     -> 84
    [] u.t = "impl_ver" -> 85
    [] u.t = "ext"      -> 86
    [] u.t = "ident"    -> 88
    [] u.t = "unk"      -> u.type

UserItemBody(u) ==
  CASE u.t = "max"      -> BE16(u.hi) \o BE16(u.lo)
    [] u.t = "impl_uid" -> u.s
    [] u.t = "impl_ver" -> u.s
    [] u.t = "role"     -> BE16(Len(u.uid)) \o u.uid \o <<B2N(u.scu), B2N(u.scp)>>
    [] u.t = "ext"      -> BE16(Len(u.uid)) \o u.uid \o u.data
    [] u.t = "ident"    -> <<u.itype, B2N(u.pos)>> \o BE16(Len(u.prim)) \o u.prim
                           \o BE16(Len(u.sec)) \o u.sec
    [] u.t = "unk"      -> u.data

UserInfoBody(uv) == Flat([i \in 1..Len(uv) |-> Item(UserItemType(uv[i]), UserItemBody(uv[i]))])
UserInfoItem(uv) == IF uv = <<>> THEN <<>> ELSE Item(80, UserInfoBody(uv))

PcRqBody(pc) == <<pc.id, 0, 0, 0>> \o Item(48, pc.abs)
                \o Flat([i \in 1..Len(pc.ts) |-> Item(64, pc.ts[i])])
PcAcBody(pc) == <<pc.id, 0, pc.reason, 0>> \o Item(64, pc.ts)

AssocBody(p) ==
  BE16(p.pv) \o <<0, 0>> \o PadAE(p.called) \o PadAE(p.calling) \o Rep(32, 0)
  \o Item(16, p.app)
  \o Flat([i \in 1..Len(p.pcs) |->
            IF p.k = "rq" THEN Item(32, PcRqBody(p.pcs[i])) ELSE Item(33, PcAcBody(p.pcs[i]))])
  \o UserInfoItem(p.uv)

PdvBytes(v) == BE32(Len(v.data) + 2) \o <<v.id, B2N(v.cmd) + 2 * B2N(v.last)>> \o v.data

PduBytes(p) ==
  CASE p.k = "rq"      -> PDU(1, AssocBody(p))
    [] p.k = "ac"      -> PDU(2, AssocBody(p))
    [] p.k = "rj"      -> PDU(3, <<0, p.result, p.source, p.reason>>)
    [] p.k = "pdata"   -> PDU(4, Flat([i \in 1..Len(p.pdvs) |-> PdvBytes(p.pdvs[i])]))
    [] p.k = "rrq"     -> PDU(5, <<0, 0, 0, 0>>)
    [] p.k = "rrp"     -> PDU(6, <<0, 0, 0, 0>>)
    [] p.k = "abort"   -> PDU(7, <<0, 0, p.source, p.reason>>)
    [] p.k = "unknown" -> PDU(p.type, p.data)

(* Writable(p): every field fits the length field that has to describe it   *)
(* (16-bit item lengths; AE titles fit their 16-character field).  A PDU    *)
(* that is not Writable has no encoding: a writer must refuse it.           *)
Fits16(body) == Len(body) <= 65535
UserItemFits(u) ==
  /\ Fits16(UserItemBody(u))
  /\ (u.t \in {"role", "ext"}) => Fits16(u.uid)
  /\ (u.t = "ident") => (Fits16(u.prim) /\ Fits16(u.sec))
UserInfoFits(uv) == /\ \A i \in 1..Len(uv) : UserItemFits(uv[i])
                    /\ Fits16(UserInfoBody(uv))
PcRqFits(pc) == /\ Fits16(pc.abs) /\ \A i \in 1..Len(pc.ts) : Fits16(pc.ts[i])
                /\ Fits16(PcRqBody(pc))
PcAcFits(pc) == Fits16(pc.ts) /\ Fits16(PcAcBody(pc))
Writable(p) ==
  IF p.k \in {"rq", "ac"}
    THEN /\ Len(p.called) <= 16 /\ Len(p.calling) <= 16
         /\ Fits16(p.app)
         /\ \A i \in 1..Len(p.pcs) : IF p.k = "rq" THEN PcRqFits(p.pcs[i]) ELSE PcAcFits(p.pcs[i])
         /\ UserInfoFits(p.uv)
    ELSE TRUE    \* 32-bit lengths: beyond what TLC integers (and this harness) can reach

----------------------------------------------------------------------------
(* Parser                                                                  *)

Incomplete == [k |-> "Incomplete"]
ErrR == [k |-> "Err"]
OkR(p, n) == [k |-> "Ok", pdu |-> p, n |-> n]

Bad == [ok |-> FALSE]
Good(v) == [ok |-> TRUE, v |-> v]

(* tile b[i..e] into items (type, reserved, 16-bit length, body) *)
RECURSIVE TLV(_, _, _)
TLV(b, i, e) ==
  IF i > e THEN Good(<<>>)
  ELSE IF e - i + 1 < 4 THEN Bad
  ELSE LET L == U16(b, i + 2) IN
       IF e - i + 1 < 4 + L THEN Bad
       ELSE LET rest == TLV(b, i + 4 + L, e) IN
            IF ~rest.ok THEN Bad
            ELSE Good(<<[type |-> b[i], body |-> SubSeq(b, i + 4, i + 3 + L)]>> \o rest.v)

(* apply a partial parser to every element *)
MapAll(xs, F(_)) ==
  LET rs == [i \in 1..Len(xs) |-> F(xs[i])] IN
  IF \A i \in 1..Len(xs) : rs[i].ok
    THEN Good(IF xs = <<>> THEN <<>> ELSE [i \in 1..Len(xs) |-> rs[i].v])
    ELSE Bad

OfType(items, T) == SelectSeq(items, LAMBDA x : x.type \in T)

ParseUserItem(it) ==
  LET b == it.body  n == Len(it.body) IN
  CASE it.type = 81 ->
         IF n = 4 THEN Good([t |-> "max", hi |-> U16(b, 1), lo |-> U16(b, 3)]) ELSE Bad
    [] it.type = 82 -> Good([t |-> "impl_uid", s |-> b])
    [] it.type = 85 -> Good([t |-> "impl_ver", s |-> b])
    [] it.type = 84 ->
         IF n < 2 THEN Bad
         ELSE LET ul == U16(b, 1) IN
              IF n # 2 + ul + 2 \/ b[n - 1] > 1 \/ b[n] > 1 THEN Bad
              ELSE Good([t |-> "role", uid |-> SubSeq(b, 3, 2 + ul),
                         scu |-> (b[n - 1] = 1), scp |-> (b[n] = 1)])
    [] it.type = 86 ->
         IF n < 2 THEN Bad
         ELSE LET ul == U16(b, 1) IN
              IF n < 2 + ul THEN Bad
              ELSE Good([t |-> "ext", uid |-> SubSeq(b, 3, 2 + ul), data |-> SubSeq(b, 3 + ul, n)])
    [] it.type = 88 ->
         IF n < 4 THEN Bad
         ELSE LET pl == U16(b, 3) IN
              IF n < 4 + pl + 2 THEN Bad
              ELSE LET sl == U16(b, 5 + pl) IN
                   IF n # 4 + pl + 2 + sl \/ b[1] \notin 1..5 \/ b[2] > 1 THEN Bad
                   ELSE Good([t |-> "ident", itype |-> b[1], pos |-> (b[2] = 1),
                              prim |-> SubSeq(b, 5, 4 + pl), sec |-> SubSeq(b, 7 + pl, n)])
    [] OTHER -> Good([t |-> "unk", type |-> it.type, data |-> b])

ParsePcRq(it) ==
  LET b == it.body IN
  IF Len(b) < 4 THEN Bad
  ELSE LET t == TLV(b, 5, Len(b)) IN
       IF ~t.ok THEN Bad
       ELSE LET abs == OfType(t.v, {48})  tss == OfType(t.v, {64}) IN
            IF Len(abs) # 1 \/ Len(abs) + Len(tss) # Len(t.v) THEN Bad
            ELSE Good([id |-> b[1], abs |-> abs[1].body,
                       ts |-> IF tss = <<>> THEN <<>> ELSE [i \in 1..Len(tss) |-> tss[i].body]])

ParsePcAc(it) ==
  LET b == it.body IN
  IF Len(b) < 4 \/ b[3] > 4 THEN Bad
  ELSE LET t == TLV(b, 5, Len(b)) IN
       IF ~t.ok THEN Bad
       ELSE IF Len(t.v) # 1 \/ t.v[1].type # 64 THEN Bad
            ELSE Good([id |-> b[1], reason |-> b[3], ts |-> t.v[1].body])

ParseAssoc(kind, b) ==
  IF Len(b) < 68 THEN Bad
  ELSE LET t == TLV(b, 69, Len(b)) IN
       IF ~t.ok THEN Bad
       ELSE LET pcType == IF kind = "rq" THEN 32 ELSE 33
                apps == OfType(t.v, {16})
                pcs  == OfType(t.v, {pcType})
                uis  == OfType(t.v, {80})
            IN IF Len(apps) # 1 \/ Len(uis) > 1 \/ Len(apps) + Len(pcs) + Len(uis) # Len(t.v) THEN Bad
               ELSE LET ppcs == IF kind = "rq" THEN MapAll(pcs, ParsePcRq) ELSE MapAll(pcs, ParsePcAc)
                        uvt  == IF uis = <<>> THEN Good(<<>>) ELSE TLV(uis[1].body, 1, Len(uis[1].body))
                    IN IF ~ppcs.ok \/ ~uvt.ok THEN Bad
                       ELSE LET puv == MapAll(uvt.v, ParseUserItem) IN
                            IF ~puv.ok THEN Bad
                            ELSE Good([k |-> kind, pv |-> U16(b, 1),
                                       called |-> Strip(SubSeq(b, 5, 20)),
                                       calling |-> Strip(SubSeq(b, 21, 36)),
                                       app |-> apps[1].body, pcs |-> ppcs.v, uv |-> puv.v])

(* presentation data values b[i..e]: 32-bit length, context id, control header, data *)
RECURSIVE ParsePdvs(_, _, _)
ParsePdvs(b, i, e) ==
  IF i > e THEN Good(<<>>)
  ELSE IF e - i + 1 < 6 THEN Bad
  ELSE LET L == U32(b, i) IN
       IF L < 2 \/ L > e - i + 1 - 4 THEN Bad
       ELSE LET rest == ParsePdvs(b, i + 4 + L, e) IN
            IF ~rest.ok THEN Bad
            ELSE Good(<<[id |-> b[i + 4], cmd |-> (b[i + 5] % 2 = 1), last |-> ((b[i + 5] \div 2) % 2 = 1),
                         data |-> SubSeq(b, i + 6, i + 3 + L)]>> \o rest.v)

RjReasonTable(source) == CASE source = 1 -> {1, 2, 3, 4, 5, 6, 7, 8, 9, 10}
                       [] source = 2 -> {1, 2}
                       [] source = 3 -> {0, 1, 2, 3, 4, 5, 6, 7}
                       [] OTHER -> {}

ParseBody(type, b) ==
  CASE type = 1 -> ParseAssoc("rq", b)
    [] type = 2 -> ParseAssoc("ac", b)
    [] type = 3 -> IF Len(b) # 4 \/ b[2] \notin {1, 2} \/ b[4] \notin RjReasonTable(b[3]) THEN Bad
                   ELSE Good([k |-> "rj", result |-> b[2], source |-> b[3], reason |-> b[4]])
    [] type = 4 -> LET r == ParsePdvs(b, 1, Len(b)) IN
                   IF r.ok THEN Good([k |-> "pdata", pdvs |-> r.v]) ELSE Bad
    [] type = 5 -> IF Len(b) = 4 THEN Good([k |-> "rrq"]) ELSE Bad
    [] type = 6 -> IF Len(b) = 4 THEN Good([k |-> "rrp"]) ELSE Bad
    [] type = 7 -> IF Len(b) # 4 \/ b[3] > 2 \/ (b[3] = 2 /\ b[4] > 6) THEN Bad
                   ELSE Good([k |-> "abort", source |-> b[3], reason |-> IF b[3] = 2 THEN b[4] ELSE 0])
    [] OTHER    -> Good([k |-> "unknown", type |-> type, data |-> b])

(* read one PDU from the first n bytes of b (so prefixes need no copy)      *)
ReadPduN(b, n, max, strict) ==
  IF n < 6 THEN Incomplete
  ELSE LET L == U32(b, 3) IN
       IF strict /\ L > max THEN ErrR
       ELSE IF L = Huge \/ n - 6 < L THEN Incomplete
       ELSE LET r == ParseBody(b[1], SubSeq(b, 7, 6 + L)) IN
            IF r.ok THEN OkR(r.v, 6 + L) ELSE ErrR

ReadPdu(b, max, strict) == ReadPduN(b, Len(b), max, strict)

(* the non-strict reader with no limit *)
NoMax == 2147483647
Read(b) == ReadPdu(b, NoMax, FALSE)

----------------------------------------------------------------------------
(* Theorems checked by TLC on small instances (MC_PS38Pdu):                 *)
RoundTrip(p) == LET b == PduBytes(p) IN Read(b) = OkR(p, Len(b))
PrefixesIncomplete(p) ==
  LET b == PduBytes(p) IN \A n \in 0..(Len(b) - 1) : ReadPduN(b, n, NoMax, FALSE) = Incomplete
(* appended bytes (of a following PDU) are left alone *)
Framing(p, tail) == LET b == PduBytes(p) IN Read(b \o tail) = OkR(p, Len(b))
=============================================================================
