CONSTANTS MaxC = 3 MaxS = 2
SPECIFICATION Spec
INVARIANTS InOrder CloseAfterContent
PROPERTY RefinesObs
CHECK_DEADLOCK FALSE
