------------------------------ MODULE Trace_Proxy ------------------------------
(***************************************************************************)
(* Trace validator for the scpproxy growth run: both wires of              *)
(*     real SCU (harness)  <->  scpproxy binary  <->  real SCP (harness)   *)
(* are checked to be a behaviour of ProxyObs with Xf = ClampMax (scpproxy  *)
(* lowers the first Maximum Length sub-item of A-ASSOCIATE-RQ/AC to its    *)
(* own maximum).  Events (sides "c", "s"):                                 *)
(*   preset {max: [hi, lo], strict}          a new connection through the proxy *)
(*   psend  {by, frame}      the peer wrote this PDU (bytes)               *)
(*   pfwd   {to, frame}      this complete PDU frame arrived at the peer   *)
(*   pstray {to, n}          n bytes that are not a complete PDU arrived   *)
(*   pclose {by}             the peer closed its connection                *)
(*   peof   {at}             the peer saw the end of the stream            *)
(*   pend   {closer}                                                       *)
(* Frames are parsed with the PS38Pdu operators.                           *)
(***************************************************************************)
EXTENDS PS38Pdu, TLC, Json, IOUtils

Rec == ndJsonDeserialize(IOEnv.TRACE)

VARIABLES l, sent, fwd, closed, eof, pmax, pstrict
tvars == <<l, sent, fwd, closed, eof, pmax, pstrict>>

(* min(m, max) on 16-bit halves, on the first Maximum Length sub-item *)
Gt(a, b) == a[1] > b[1] \/ (a[1] = b[1] /\ a[2] > b[2])
RECURSIVE ClampFirst(_, _, _)
ClampFirst(uv, i, mx) ==
  IF i > Len(uv) THEN uv
  ELSE IF uv[i].t = "max"
         THEN IF Gt(<<uv[i].hi, uv[i].lo>>, mx) THEN [uv EXCEPT ![i] = [t |-> "max", hi |-> mx[1], lo |-> mx[2]]] ELSE uv
         ELSE ClampFirst(uv, i + 1, mx)
ClampMax(p) == IF p.k \in {"rq", "ac"} THEN [p EXCEPT !.uv = ClampFirst(p.uv, 1, pmax)] ELSE p

(* ProxyObs!PForward is instantiated by TFwd below with Xf = ClampMax (which depends on *)
(* the proxy's maximum of the current connection, so it cannot be a constant operator) *)
IdT(p) == p
Obs == INSTANCE ProxyObs WITH Xf <- IdT
Other(x) == Obs!Other(x)

TInit == /\ l = 1 /\ Obs!PInit /\ pmax = <<0, 0>> /\ pstrict = FALSE /\ TLCSet(1, 1)
Ev(e) == l <= Len(Rec) /\ Rec[l].ev = e /\ l' = l + 1
R == Rec[l]

TReset == /\ Ev("preset")
          /\ sent' = [x \in {"c", "s"} |-> <<>>] /\ fwd' = [x \in {"c", "s"} |-> <<>>]
          /\ closed' = [x \in {"c", "s"} |-> FALSE] /\ eof' = [x \in {"c", "s"} |-> FALSE]
          /\ pmax' = R.max /\ pstrict' = R.strict

Frame(b) == Read(b)
TSend == /\ Ev("psend")
         /\ LET r == Frame(R.frame) IN r.k = "Ok" /\ r.n = Len(R.frame) /\ Obs!PSend(R.by, [pdu |-> r.pdu, len |-> Len(R.frame) - 6])
         /\ UNCHANGED <<pmax, pstrict>>
(* a forwarded frame: the next PDU of the other side, transformed by ClampMax, exactly framed *)
TFwd == /\ Ev("pfwd")
        /\ LET r == Frame(R.frame)  x == Other(R.to) IN
           /\ r.k = "Ok" /\ r.n = Len(R.frame)
           /\ ~eof[R.to] /\ Len(fwd[R.to]) < Len(sent[x])
           /\ r.pdu = ClampMax(sent[x][Len(fwd[R.to]) + 1].pdu)
           /\ fwd' = [fwd EXCEPT ![R.to] = Append(@, r.pdu)]
        /\ UNCHANGED <<sent, closed, eof, pmax, pstrict>>
TClose == Ev("pclose") /\ Obs!PClose(R.by) /\ UNCHANGED <<pmax, pstrict>>

(* strict mode: the next PDU of side x that the proxy has to read is longer than its maximum *)
TooLong(x) == /\ pstrict /\ Len(fwd[Other(x)]) < Len(sent[x])
              /\ LET n == sent[x][Len(fwd[Other(x)]) + 1].len IN n > pmax[1] * 65536 + pmax[2]
TEof == /\ Ev("peof")
        /\ LET y == R.at  x == Other(R.at) IN
           \/ Obs!PPropagate(x)
           \/ Obs!PDrop(y)
           \/ (eof[y] /\ UNCHANGED <<sent, fwd, closed, eof>>)
           \/ (\E z \in {"c", "s"} : TooLong(z) /\ Obs!PReject(z))
        /\ UNCHANGED <<pmax, pstrict>>
(* end of a connection: the close of the closer has reached the other peer *)
TEnd == /\ Ev("pend")
        /\ eof[Other(R.closer)]
        /\ UNCHANGED <<sent, fwd, closed, eof, pmax, pstrict>>

(* informational harness events *)
TNote == Ev("pnote") /\ UNCHANGED <<sent, fwd, closed, eof, pmax, pstrict>>

TNext == TNote \/ TReset \/ TSend \/ TFwd \/ TClose \/ TEof \/ TEnd
TSpec == TInit /\ [][TNext]_tvars

Track == TLCSet(1, IF l > TLCGet(1) THEN l ELSE TLCGet(1))
Accepted == IF TLCGet(1) = Len(Rec) + 1 THEN TRUE
            ELSE Print(<<"REJECTED", TLCGet(1), ToJson(Rec[TLCGet(1)])>>, FALSE)
=============================================================================
