CONSTANTS SLen = 3 Wide = TRUE BigSizes = {60000, 65519, 65522, 65523, 65524, 65527, 65531, 65535, 65536, 70000, 131072} What = {"pdus", "big", "strict"}
SPECIFICATION GSpec
INVARIANTS Emit GTheorems
CHECK_DEADLOCK FALSE
