CONSTANT SLen = 3 Wide = TRUE
SPECIFICATION ISpec
INVARIANTS ThRoundTrip ThPrefixes ThFraming ThWritable
CHECK_DEADLOCK FALSE
