CONSTANT SLen = 3
SPECIFICATION ISpec
INVARIANTS ThRoundTrip ThPrefixes ThFraming ThWritable
CHECK_DEADLOCK FALSE
