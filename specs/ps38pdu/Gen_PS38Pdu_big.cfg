CONSTANTS SLen = 2 BigSizes = {65523, 65524, 65536, 70000} What = "big"
SPECIFICATION GSpec
INVARIANT Emit
CHECK_DEADLOCK FALSE
