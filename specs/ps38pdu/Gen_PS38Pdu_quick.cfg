CONSTANTS SLen = 2 Wide = FALSE BigSizes = {65524, 70000} What = {"pdus", "big", "strict"}
SPECIFICATION GSpec
INVARIANTS Emit GTheorems
CHECK_DEADLOCK FALSE
