------------------------------- MODULE Gen_Proxy -------------------------------
(* Scenario generator for the scpproxy growth run: which PDUs the SCU and the   *)
(* SCP write (by kind; the harness builds real PDUs), who closes, whether the   *)
(* closer closes right after its last write ("early"), how the writes are       *)
(* segmented, and whether the proxy runs in strict mode.                        *)
EXTENDS Naturals, Sequences, TLC, Json

CKinds == {"rq0", "rq16384", "rqmax", "pdata", "pdata2", "rrq", "abort", "unknown", "pdatabig"}
SLists == {<<>>, <<"acmax">>, <<"ac16384", "pdata", "rrp">>, <<"rj">>, <<"pdatabig", "abort">>}
CLists == {<<>>} \cup {<<a>> : a \in CKinds} \cup {<<a, b>> : a \in CKinds, b \in CKinds}
          \cup {<<"rqmax", "pdata", "rrq">>, <<"rq16384", "pdata2", "pdata", "abort">>, <<"rq0", "pdatabig", "pdata", "rrq">>}
Segs == <<"whole", "pdu", "ones">>

VARIABLE c
Scen == {[c2s |-> a, s2c |-> b, closer |-> w, early |-> FALSE, strict |-> st] :
            a \in CLists, b \in SLists, w \in {"c", "s"}, st \in BOOLEAN}
        \cup {[c2s |-> a, s2c |-> <<>>, closer |-> "c", early |-> TRUE, strict |-> st] : a \in CLists \ {<<>>}, st \in BOOLEAN}
(* hazard scenarios: the SCP closes right after accepting while the SCU keeps writing *)
Many(n) == [i \in 1..n |-> "pdata"]
Hazards == {[c2s |-> Many(n), s2c |-> <<>>, closer |-> "s", early |-> FALSE, strict |-> st, hazard |-> TRUE] : n \in {1, 5} \cup 40..52, st \in BOOLEAN}
GInit == c \in {[x EXCEPT !.early = x.early] : x \in Scen} \cup Hazards
GSpec == GInit /\ [][UNCHANGED c]_c
Emit == PrintT(<<"CASE", ToJson([proxy |-> TRUE, c2s |-> c.c2s, s2c |-> c.s2c, closer |-> c.closer, early |-> c.early,
                                 strict |-> c.strict, hazard |-> ("hazard" \in DOMAIN c),
                                 seg |-> Segs[((Len(c.c2s) * 7 + Len(c.s2c) * 3 + (IF c.closer = "c" THEN 1 ELSE 0)) % 3) + 1]])>>)
=============================================================================
