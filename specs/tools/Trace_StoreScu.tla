---------------------------- MODULE Trace_StoreScu ----------------------------
(***************************************************************************)
(* Property-level trace validator for C33.  The real storescu binary sends  *)
(* files to a scripted acceptor that answers the proposed presentation      *)
(* contexts according to the case's policy and records every C-STORE        *)
(* request it receives.                                                     *)
(* Events:                                                                   *)
(*   case  {files: [{cls, ts}], policy: [{abs, ts}], nt, ign, conc}          *)
(*                         a run of the tool: the files on its command line, *)
(*                         the accepted (abstract, transfer syntax) pairs,   *)
(*                         --never-transcode, --ignore-sop-class,            *)
(*                         --concurrency                                     *)
(*   store {file, ctx_abs, ctx_ts, accepted, file_cls, data_ok}              *)
(*                         one complete C-STORE request: file = index of the *)
(*                         file with the command's Affected SOP Instance UID *)
(*                         (0: none); ctx_abs / ctx_ts / accepted = what the *)
(*                         acceptor answered for the context id the request  *)
(*                         came on; data_ok = the data set bytes decode in   *)
(*                         ctx_ts to the file's data set                     *)
(*   end   {}              the tool has exited                               *)
(* C33: every request is on an accepted context of the policy; unless        *)
(* --ignore-sop-class its abstract syntax is the file's SOP class; the data  *)
(* set decodes in the context's transfer syntax to the file's data set.      *)
(* Violating requests are collected in `bad` as [l, why] (all are reported). *)
(***************************************************************************)
EXTENDS Naturals, Sequences, TLC, Json, IOUtils

Rec == ndJsonDeserialize(IOEnv.TRACE)

VARIABLES l, files, policy, ign, open, bad
tvars == <<l, files, policy, ign, open, bad>>

TInit == l = 1 /\ files = <<>> /\ policy = <<>> /\ ign = FALSE /\ open = FALSE /\ bad = <<>>
         /\ TLCSet(1, 1) /\ TLCSet(2, <<>>)
Ev(e) == l <= Len(Rec) /\ Rec[l].ev = e /\ l' = l + 1
R == Rec[l]

InPolicy(a, t) == \E k \in 1..Len(policy) : policy[k].abs = a /\ policy[k].ts = t

Why(s) ==
  IF s.file \notin 1..Len(files) THEN "unknown_file"
  ELSE IF ~(s.accepted /\ InPolicy(s.ctx_abs, s.ctx_ts)) THEN "not_accepted"
  ELSE IF ~ign /\ s.ctx_abs # files[s.file].cls THEN "class"
  ELSE IF ~s.data_ok THEN "data"
  ELSE "ok"

TCase == /\ Ev("case") /\ ~open
         /\ files' = R.files /\ policy' = R.policy /\ ign' = R.ign /\ open' = TRUE
         /\ UNCHANGED bad
TStore == /\ Ev("store") /\ open
          /\ (R.file \in 1..Len(files) => R.file_cls = files[R.file].cls)    \* recording is self-consistent
          /\ bad' = IF Why(R) = "ok" \/ Len(bad) >= 400 THEN bad ELSE Append(bad, [l |-> l, why |-> Why(R)])
          /\ UNCHANGED <<files, policy, ign, open>>
TEnd == Ev("end") /\ open /\ open' = FALSE /\ UNCHANGED <<files, policy, ign, bad>>

TNext == TCase \/ TStore \/ TEnd
TSpec == TInit /\ [][TNext]_tvars
Track == /\ TLCSet(1, IF l > TLCGet(1) THEN l ELSE TLCGet(1))
         /\ (l = Len(Rec) + 1 => TLCSet(2, bad))
Accepted == IF TLCGet(1) = Len(Rec) + 1
            THEN PrintT(<<"BADCASES", ToJson(TLCGet(2))>>)
            ELSE Print(<<"REJECTED", TLCGet(1), ToJson(Rec[TLCGet(1)])>>, FALSE)
=============================================================================
