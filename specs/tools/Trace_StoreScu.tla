---------------------------- MODULE Trace_StoreScu ----------------------------
(***************************************************************************)
(* Property-level trace validator for C33.  The real storescu binary sends  *)
(* files to a scripted acceptor that answers the proposed presentation      *)
(* contexts according to the case's policy and records every C-STORE        *)
(* request it receives.                                                     *)
(* Events:                                                                   *)
(*   case  {files: [{cls, ts}], policy: [{abs, ts}], nt, ign, conc}          *)
(*                         a run of the tool: the files on its command line, *)
(*                         the accepted (abstract, transfer syntax) pairs,   *)
(*                         --never-transcode, --ignore-sop-class,            *)
(*                         --concurrency                                     *)
(*   store {file, ctx_abs, ctx_ts, accepted, file_cls, data_ok}              *)
(*                         one complete C-STORE request: file = index of the *)
(*                         file with the command's Affected SOP Instance UID *)
(*                         (0: none); ctx_abs / ctx_ts / accepted = what the *)
(*                         acceptor answered for the context id the request  *)
(*                         came on; data_ok = the data set bytes decode in   *)
(*                         ctx_ts to the file's data set                     *)
(*   end   {}              the tool has exited                               *)
(* C33: every request is on an accepted context of the policy; unless        *)
(* --ignore-sop-class its abstract syntax is the file's SOP class; the data  *)
(* set decodes in the context's transfer syntax to the file's data set.      *)
(* Violating requests are collected in `bad` as [l, why] (all are reported). *)
(*                                                                           *)
(* Growth beyond C33 (runs recorded with wire = TRUE, thorough tier): the    *)
(* DIMSE / upper-layer events of each association are checked against PS3.7  *)
(* sequencing rules and against what the exchange model StoreScuExch.tla     *)
(* says about the run (case.expect_x, computed by TLC from the model):       *)
(*   assoc   {assoc, result: "ac"|"rj"|"none_accepted"}                      *)
(*   rq      {assoc, seq, file, ctx, ctx_ok, field, msgid, dstype, prio,     *)
(*            glen, cmd_len, cmd_cls, pdvs: [[ctx, kind, last, len]..],      *)
(*            pdus: [length field of each P-DATA-TF PDU..], early}           *)
(*                     one complete request; kind 0 = command, 1 = data;     *)
(*                     early = bytes of the tool already waiting when the    *)
(*                     request was complete and not yet answered             *)
(*   rq_part {assoc, seq}   a request cut short by the acceptor's A-ABORT    *)
(*   rsp     {assoc, seq, kind}   the acceptor's C-STORE-RSP: "ok" | "warn"  *)
(*                     | "fail" | "wrong_msgid"                              *)
(*   peer    {assoc, what: "close"|"abort"}   scripted misbehaviour          *)
(*   fin     {assoc, how: "release"|"abort"|"eof"|.., after_rp, pending}     *)
(*                     how the tool ended the association                    *)
(*   end     {exit, timed_out}                                               *)
(* Findings of this part are collected in `extra` as [l, tag]; they are      *)
(* observations, never C33 violations.                                       *)
(***************************************************************************)
EXTENDS Naturals, Sequences, FiniteSets, TLC, Json, IOUtils

Rec == ndJsonDeserialize(IOEnv.TRACE)

VARIABLES l, files, policy, ign, open, bad,
          cs,      \* the case event of the run
          as,      \* the association being observed
          tot,     \* totals of the run
          extra    \* beyond C33: [l, tag] observations
tvars == <<l, files, policy, ign, open, bad, cs, as, tot, extra>>

NoAs == [n |-> 0, result |-> "", used |-> {}, k |-> 0, last |-> "none", cur |-> 0]
NoTot == [assocs |-> 0, reqs |-> 0, okfiles |-> {}, broken |-> FALSE, irregular |-> FALSE]
NoCs == [wire |-> FALSE]

TInit == l = 1 /\ files = <<>> /\ policy = <<>> /\ ign = FALSE /\ open = FALSE /\ bad = <<>>
         /\ cs = NoCs /\ as = NoAs /\ tot = NoTot /\ extra = <<>>
         /\ TLCSet(1, 1) /\ TLCSet(2, <<>>) /\ TLCSet(3, <<>>)
Ev(e) == l <= Len(Rec) /\ Rec[l].ev = e /\ l' = l + 1
R == Rec[l]

InPolicy(a, t) == \E k \in 1..Len(policy) : policy[k].abs = a /\ policy[k].ts = t

Why(s) ==
  IF s.file \notin 1..Len(files) THEN "unknown_file"
  ELSE IF ~(s.accepted /\ InPolicy(s.ctx_abs, s.ctx_ts)) THEN "not_accepted"
  ELSE IF ~ign /\ s.ctx_abs # files[s.file].cls THEN "class"
  ELSE IF ~s.data_ok THEN "data"
  ELSE "ok"

TCase == /\ Ev("case") /\ ~open
         /\ files' = R.files /\ policy' = R.policy /\ ign' = R.ign /\ open' = TRUE
         /\ cs' = R /\ as' = NoAs /\ tot' = NoTot
         /\ UNCHANGED <<bad, extra>>
TStore == /\ Ev("store") /\ open
          /\ (R.file \in 1..Len(files) => R.file_cls = files[R.file].cls)    \* recording is self-consistent
          /\ bad' = IF Why(R) = "ok" \/ Len(bad) >= 400 THEN bad ELSE Append(bad, [l |-> l, why |-> Why(R)])
          /\ UNCHANGED <<files, policy, ign, open, cs, as, tot, extra>>

---------------------------------------------------------------------------
(* beyond C33 *)
(* notes: a sequence of <<violated?, tag>>; the violated ones are appended to `extra` *)
RECURSIVE Tagged(_)
Tagged(ts) == IF ts = <<>> THEN <<>>
              ELSE (IF ts[1][1] THEN <<[l |-> l, tag |-> ts[1][2]]>> ELSE <<>>) \o Tagged(Tail(ts))
Note(ts) == extra' = IF Len(extra) >= 2000 THEN extra ELSE extra \o Tagged(ts)

MaxAssocs == IF cs.conc = 0 THEN 1 ELSE cs.conc

(* PS3.7 / PS3.8 9.3.1: the command set fragments (last flag on the final one only), then the *)
(* data set fragments (last flag on the final one only); pdv = <<ctx, kind, last, len>>         *)
ShapeOk(p) ==
  LET n == Len(p)
      cmd == {j \in 1..n : p[j][2] = 0}
      c == Cardinality(cmd)
  IN /\ c >= 1 /\ cmd = 1..c /\ n > c
     /\ \A j \in 1..n : p[j][3] = (IF j = c \/ j = n THEN 1 ELSE 0)

TAssoc == /\ Ev("assoc") /\ open /\ cs.wire
          /\ as' = [NoAs EXCEPT !.n = R.assoc, !.result = R.result]
          /\ tot' = [tot EXCEPT !.assocs = @ + 1]
          /\ Note(<< <<tot.assocs + 1 > MaxAssocs, "more_associations_than_concurrency">> >>)
          /\ UNCHANGED <<files, policy, ign, open, bad, cs>>

TRq == /\ Ev("rq") /\ open /\ cs.wire /\ R.assoc = as.n /\ R.seq = as.k + 1
       /\ Note(<< <<R.field # 1, "rq_command_field_not_0001H">>,
                  <<R.dstype = 257, "rq_announces_no_data_set">>,
                  <<R.prio \notin {0, 1, 2}, "rq_priority_invalid">>,
                  <<R.msgid \in as.used \/ R.msgid \notin 0..65535, "rq_message_id_reused">>,
                  <<R.file \notin 1..Len(files), "rq_affected_instance_unknown">>,
                  <<R.file \in 1..Len(files) /\ R.cmd_cls # files[R.file].cls, "rq_affected_sop_class_differs">>,
                  <<R.glen # R.cmd_len - 12, "rq_command_group_length_wrong">>,
                  <<~ShapeOk(R.pdvs), "rq_fragment_flags_or_order_wrong">>,
                  <<\E j \in 1..Len(R.pdvs) : R.pdvs[j][1] # R.ctx, "rq_data_on_another_context">>,
                  <<~R.ctx_ok, "rq_on_context_not_accepted">>,
                  <<\E j \in 1..Len(R.pdus) : R.pdus[j] > cs.max_len, "pdu_longer_than_acceptor_max_length">>,
                  <<R.early > 0, "next_message_sent_before_response">>,
                  <<as.last = "pending", "rq_while_request_outstanding">>,
                  <<as.last = "fail" /\ cs.ff, "continued_after_failure_despite_fail_first">>,
                  <<as.last = "wrong_msgid", "obs_continued_after_response_with_wrong_message_id">> >>)
       /\ as' = [as EXCEPT !.k = @ + 1, !.used = @ \cup {R.msgid}, !.last = "pending", !.cur = R.file]
       /\ tot' = [tot EXCEPT !.reqs = @ + 1]
       /\ UNCHANGED <<files, policy, ign, open, bad, cs>>

TRqPart == /\ Ev("rq_part") /\ open /\ cs.wire /\ R.assoc = as.n /\ R.seq = as.k + 1
           /\ as' = [as EXCEPT !.k = @ + 1, !.last = "pending", !.cur = 0]
           /\ tot' = [tot EXCEPT !.reqs = @ + 1]
           /\ UNCHANGED <<files, policy, ign, open, bad, cs, extra>>

TRsp == /\ Ev("rsp") /\ open /\ cs.wire /\ R.assoc = as.n /\ R.seq = as.k /\ as.last = "pending"
        /\ as' = [as EXCEPT !.last = R.kind]
        /\ tot' = IF R.kind \in {"ok", "warn", "wrong_msgid"} THEN [tot EXCEPT !.okfiles = @ \cup {as.cur}] ELSE tot
        /\ UNCHANGED <<files, policy, ign, open, bad, cs, extra>>

TPeer == /\ Ev("peer") /\ open /\ cs.wire /\ R.assoc = as.n
         /\ as' = [as EXCEPT !.last = R.what]
         /\ UNCHANGED <<files, policy, ign, open, bad, cs, tot, extra>>

(* how the model's ending shows on the wire *)
HowOf(ended) == CASE ended = "release" -> "release" [] ended = "abort" -> "abort" [] ended = "abort_reply" -> "abort"
                  [] ended = "drop" -> "eof" [] ended = "refused" -> "abort" [] OTHER -> "?"
Refused == as.result \in {"rj", "none_accepted"}

TFin == /\ Ev("fin") /\ open /\ cs.wire /\ R.assoc = as.n
        /\ Note(<< <<R.how = "release" /\ (R.pending \/ as.last = "pending"), "release_with_request_outstanding">>,
                   <<as.last = "close" /\ R.how # "eof", "sent_after_peer_closed">>,
                   <<cs.expect_x.exact /\ R.how # HowOf(cs.expect_x.ended), "ending_differs_from_model">>,
                   (* observations on the endings the model has as named deviations *)
                   <<as.last = "abort" /\ R.how = "abort", "obs_abort_sent_in_reply_to_peer_abort">>,
                   <<Refused /\ R.how = "abort", "obs_abort_sent_after_association_refused">>,
                   <<as.last = "wrong_msgid" /\ R.how = "release", "obs_continued_after_response_with_wrong_message_id">> >>)
        /\ tot' = [tot EXCEPT !.broken = @ \/ R.how # "release",
                              !.irregular = @ \/ R.how \notin {"release", "abort", "eof"} \/ (R.how = "release" /\ R.after_rp # "eof")]
        /\ as' = NoAs
        /\ UNCHANGED <<files, policy, ign, open, bad, cs>>

AllOk == Cardinality(tot.okfiles \cap (1..Len(files))) = Len(files)
TEnd == /\ Ev("end") /\ open /\ open' = FALSE
        /\ IF cs.wire
           THEN Note(<< <<R.timed_out, "tool_killed_by_guard">>,
                        <<cs.expect_x.exact /\ ((R.exit = 0) # (cs.expect_x.exit = "ok")), "exit_status_differs_from_model">>,
                        <<cs.expect_x.exact /\ tot.reqs # cs.expect_x.nreq, "number_of_requests_differs_from_model">>,
                        (* an association that ends neither by release + close, nor A-ABORT, nor plain close; with several *)
                        (* associations a failing exit of the process cuts the others short, which is not judged          *)
                        <<tot.irregular /\ (cs.conc <= 1 \/ R.exit = 0), "association_ended_irregularly">>,
                        (* documentation: --fail-first = fail if not all files can be transferred *)
                        <<cs.ff /\ ~AllOk /\ R.exit = 0, "doc_fail_first_but_exit_0_with_untransferred_files">>,
                        <<~cs.ff /\ ~AllOk /\ tot.broken /\ R.exit = 0, "obs_exit_0_after_broken_association_files_untransferred">> >>)
           ELSE UNCHANGED extra
        /\ UNCHANGED <<files, policy, ign, bad, cs, as, tot>>

TNext == TCase \/ TStore \/ TAssoc \/ TRq \/ TRqPart \/ TRsp \/ TPeer \/ TFin \/ TEnd
TSpec == TInit /\ [][TNext]_tvars
Track == /\ TLCSet(1, IF l > TLCGet(1) THEN l ELSE TLCGet(1))
         /\ (l = Len(Rec) + 1 => TLCSet(2, bad) /\ TLCSet(3, extra))
Accepted == IF TLCGet(1) = Len(Rec) + 1
            THEN PrintT(<<"BADCASES", ToJson(TLCGet(2))>>) /\ PrintT(<<"EXTRA", ToJson(TLCGet(3))>>)
            ELSE Print(<<"REJECTED", TLCGet(1), ToJson(Rec[TLCGet(1)])>>, FALSE)
=============================================================================
