CONSTANTS FallbackMode = "as_coded" MaxFiles = 2
SPECIFICATION Spec
INVARIANTS ClassMatches OnAccepted TsReachable SelectAgrees
CHECK_DEADLOCK FALSE
