----------------------------- MODULE Gen_StoreScu -----------------------------
(* Case generator for C33: runs of the storescu tool = 1-2 files x acceptor    *)
(* policy (the subset of the proposed contexts that is accepted) x flags.      *)
(* Each case is printed with the outcome the model (class-checked fallback,    *)
(* i.e. the behaviour the property demands) expects per file: the stage of     *)
(* check_presentation_contexts and the set of contexts it may pick ({} = not   *)
(* sent).  The expected outcome is used for drift notes only; the verdict is   *)
(* Trace_StoreScu's.                                                           *)
EXTENDS StoreScu, Json

CONSTANT Tier        \* "quick" | "thorough"

TsIdx(ts) == CASE ts = "ivrle" -> 1 [] ts = "evrle" -> 2 [] ts = "evrbe" -> 3 [] ts = "deflated" -> 4 [] ts = "encaps" -> 5
FIdx(f) == (IF f.cls = "A" THEN 0 ELSE 5) + TsIdx(f.ts)
UpTo(S, k) == {p \in SUBSET S : Cardinality(p) <= k}

Expect(fs, pol, g, n) == [k \in 1..Len(fs) |-> [stage |-> SelectStage(fs[k], pol, g, n), cands |-> Select(fs[k], pol, g, n)]]
Case(fs, pol, n, g, cc) == [files |-> fs, policy |-> pol, nt |-> n, ign |-> g, conc |-> cc, expect |-> Expect(fs, pol, g, n)]

FA == {f \in Files : f.cls = "A"}
FB == {f \in Files : f.cls = "B"}

(* single files x all policies x 4 flag combinations *)
Singles == {Case(<<f>>, pol, fl[1], fl[2], 0) :
              <<f, fl, pol>> \in {<<f, fl, pol>> \in Files \X (BOOLEAN \X BOOLEAN) \X SUBSET Ctx :
                                    pol \subseteq Proposed(<<f>>, fl[1])}}

PairCases(pairs, flagset, k, cc) ==
  UNION {UNION {{Case(fs, pol, fl[1], fl[2], cc) : pol \in UpTo(Proposed(fs, fl[1]), k)} : fl \in flagset} : fs \in pairs}

DiffPairs == {<<a, b>> : a \in FA, b \in FB}
SamePairs == {<<a, b>> : <<a, b>> \in {<<a, b>> \in FA \X FA : FIdx(a) < FIdx(b)}}
AllPairs  == {<<a, b>> : <<a, b>> \in {<<a, b>> \in Files \X Files : FIdx(a) <= FIdx(b)}}

QuickCases ==
  Singles
  \cup PairCases(DiffPairs, {<<FALSE, FALSE>>, <<TRUE, FALSE>>, <<FALSE, TRUE>>}, 2, 0)
  \cup PairCases(SamePairs, {<<FALSE, FALSE>>, <<TRUE, FALSE>>}, 2, 0)
  \cup PairCases(DiffPairs, {<<FALSE, FALSE>>}, 1, 2)          \* --concurrency 2: the async path

ThoroughCases ==
  Singles
  \cup PairCases(AllPairs, BOOLEAN \X BOOLEAN, 6, 0)
  \cup PairCases(DiffPairs, {<<FALSE, FALSE>>, <<TRUE, FALSE>>}, 6, 2)
  \cup PairCases(SamePairs, {<<FALSE, FALSE>>}, 2, 2)

Cases == IF Tier = "quick" THEN QuickCases ELSE ThoroughCases

VARIABLE c
GInit == /\ c \in Cases
         /\ files = c.files /\ nt = c.nt /\ ign = c.ign
         /\ phase = "done" /\ prop = {} /\ pcs = c.policy /\ i = 1 /\ sel = NoPc /\ sent = {}
GNext == UNCHANGED <<vars, c>>
GSpec == GInit /\ [][GNext]_<<vars, c>>
Emit == PrintT(<<"CASE", ToJson(c)>>)
=============================================================================
