CONSTANTS FallbackMode = "class_checked" MaxFiles = 3
SPECIFICATION GSpec
INVARIANT Emit
CHECK_DEADLOCK FALSE
