CONSTANTS FallbackMode = "class_checked" MaxFiles = 2
SPECIFICATION Spec
INVARIANTS ClassMatches OnAccepted TsReachable SelectAgrees
CHECK_DEADLOCK FALSE
