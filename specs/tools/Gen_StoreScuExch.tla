--------------------------- MODULE Gen_StoreScuExch ---------------------------
(* Behaviour generator for the exchange model (growth beyond C33, thorough     *)
(* tier): every complete behaviour of StoreScuExch for a few file sets x two   *)
(* acceptor policies (everything proposed accepted / only SOP class A) x the   *)
(* acceptor scripts x --fail-first x {sync, --concurrency 1, --concurrency 2}, *)
(* printed with what the model says about the end of the run (exit status,     *)
(* how the association ends, number of requests).  For --concurrency 2 the     *)
(* single-association expectations are not exact (two associations share the   *)
(* files): exact = FALSE.                                                      *)
EXTENDS StoreScuExch, Json

VARIABLE big     \* larger pixel data + small acceptor PDU length: the data set is sent in several PDUs
F(c, t) == [cls |-> c, ts |-> t]
GenFiles == { <<F("A", "evrle"), F("B", "evrle")>>,
              <<F("B", "ivrle"), F("A", "evrle"), F("A", "evrbe")>> }
GenScripts == {s \in Scripts : s.at <= 2}
OnlyA(P) == {pc \in P : pc.abs = "A"}

GInit == /\ XInit /\ nt = FALSE /\ ign = FALSE
         /\ files \in GenFiles /\ script \in GenScripts
         /\ big \in BOOLEAN /\ (big => script.kind \in {"ok", "abort", "abort_mid", "close", "fail"})
GConc == conc' \in {0, 1, 2}
PolicyOk == phase \in {"start", "proposed"} \/ script.kind = "reject" \/ pcs = prop \/ pcs = OnlyA(prop)
(* conc is chosen with the first step so that XInit's {0,1} scope stays what is model-checked *)
GNext == \/ /\ phase = "start" /\ Propose /\ conc' \in {0, 1, 2}
            /\ UNCHANGED <<ff, script, mid, nreq, out, ended, exit, big>>
         \/ /\ phase # "start" /\ XNext /\ PolicyOk' /\ UNCHANGED big
GSpec == GInit /\ [][GNext]_<<xvars, big>>
(* the model's `files` is the processing order; the command line is its reverse on the async path *)
CmdLine == IF conc = 0 THEN files ELSE [k \in 1..Len(files) |-> files[Len(files) + 1 - k]]
Emit == (phase = "done") =>
          PrintT(<<"CASE", ToJson([files |-> CmdLine, policy |-> pcs, nt |-> nt, ign |-> ign, conc |-> conc, ff |-> ff,
                                   script |-> script, big |-> big, wire |-> TRUE,
                                   expect_x |-> [exact |-> conc <= 1, exit |-> exit, ended |-> ended, nreq |-> nreq]])>>)
=============================================================================
