CONSTANTS NameMode = "join" DataSets = {1, 2} Syntaxes = {"ivrle", "evrle", "evrbe"} MaxReq = 2
  UidTexts <- MCUidTexts
SPECIFICATION Spec
INVARIANTS OnlyInOutDir MetaMatches
CHECK_DEADLOCK FALSE
