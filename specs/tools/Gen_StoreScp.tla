----------------------------- MODULE Gen_StoreScp -----------------------------
(* Behaviour generator for C32: every association schedule of the StoreScp    *)
(* model (sanitising name mode, i.e. the behaviour the property demands) up   *)
(* to the bounds, printed as one JSON case.                                   *)
EXTENDS StoreScp, Json

GenUidTexts1 == { <<"n">>, <<"n","NUL">>, <<"n","/","n">>, <<"..","/","n">>, <<"ROOT","n">>, <<>>, <<".">>, <<"..">>,
                  <<"n","/","..","/","..","/","n">>, <<"..","/","..","/","n">>, <<"n","..","n">> }
GenUidTexts2 == { <<"n">>, <<"..","/","n">>, <<"ROOT","n">>, <<"n","/","n">> }

VARIABLE h
GInit == Init /\ h = <<>>
GNext ==
  \/ \E u \in UidTexts, d \in DataSets : CmdStore(u, d) /\ h' = Append(h, [op |-> "store", uid |-> u, ds |-> d])
  \/ CmdEcho /\ resp < 1 /\ h' = Append(h, [op |-> "echo", uid |-> <<>>, ds |-> 0])
  \/ DataPart /\ h' = Append(h, [op |-> "part", uid |-> <<>>, ds |-> 0])
  \/ DataLast /\ h' = Append(h, [op |-> "last", uid |-> <<>>, ds |-> 0])
  \/ Release /\ ~have /\ nreq > 0 /\ h' = Append(h, [op |-> "release", uid |-> <<>>, ds |-> 0])
GSpec == GInit /\ [][GNext]_<<vars, h>>
CONSTANT MaxLen
Bound == Len(h) <= MaxLen
Emit == (~live) => PrintT(<<"CASE", ToJson([ts |-> ts, h |-> h, nstored |-> Cardinality(stored)])>>)
=============================================================================
