CONSTANTS FallbackMode = "class_checked" MaxFiles = 2
INIT XInitMC
NEXT XNext
INVARIANTS DocFailFirst ContinuesWithoutFailFirst OneOutstanding MsgIdsDistinct ReleaseWhenIdle ExitOnlyAtEnd SyncOkMeansReleased
  XClassMatches XOnAccepted XTsReachable
CHECK_DEADLOCK FALSE
