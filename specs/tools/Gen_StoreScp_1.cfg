CONSTANTS NameMode = "sanitise" DataSets = {1} Syntaxes = {"ivrle", "evrle", "evrbe"} MaxReq = 1 MaxLen = 9
  UidTexts <- GenUidTexts1
SPECIFICATION GSpec
INVARIANT Emit
CONSTRAINT Bound
CHECK_DEADLOCK FALSE
