------------------------------- MODULE StoreScp -------------------------------
(***************************************************************************)
(* C32: the storage SCP stores exactly what it receives, only directly in  *)
(* its output directory.                                                   *)
(*                                                                         *)
(* Implementation-shaped model of the per-association loop of the storescp *)
(* tool (storescp/src/store_sync.rs `inner`, store_async.rs): one action   *)
(* per kind of presentation data value, as in the code:                    *)
(*   CmdStore    last command fragment carrying a C-STORE-RQ               *)
(*   CmdEcho     last command fragment carrying a C-ECHO-RQ                *)
(*   DataPart    data fragment, not last: appended to instance_buffer      *)
(*   DataLast    last data fragment: data set decoded in the negotiated    *)
(*               transfer syntax, file meta built, file written, response  *)
(*   Release     A-RELEASE-RQ answered with A-RELEASE-RP, loop ends        *)
(* The Affected SOP Instance UID of the command is arbitrary text: a       *)
(* sequence of path atoms.  NameMode selects how the tool derives the file *)
(* location from it: "join" = push the text onto the output directory as   *)
(* a path (the code before the repair), "sanitise" = turn it into a single *)
(* file-name component.  TLC shows the invariant OnlyInOutDir holds for    *)
(* "sanitise" and gives the traversal counterexample for "join".           *)
(***************************************************************************)
EXTENDS Integers, Sequences, FiniteSets, TLC

CONSTANTS NameMode,     \* "join" | "sanitise"
          UidTexts,     \* set of UID texts, each a sequence of atoms
          DataSets,     \* set of data set identities
          Syntaxes,     \* accepted transfer syntaxes
          MaxReq        \* C-STORE requests per association

(* atoms: "n" plain name characters, "/" separator, ".." parent reference,   *)
(* "." current dir, "ROOT" leading separator (absolute path), "NUL" padding  *)
Atoms == {"n", "/", "..", ".", "ROOT", "NUL"}

VARIABLES ts,        \* negotiated transfer syntax of the (single) presentation context
          uid,       \* sop_instance_uid remembered from the last C-STORE-RQ command
          have,      \* a C-STORE-RQ command was received and not yet completed
          ibuf,      \* instance_buffer: data fragments received (count)
          cur,       \* data set identity being received
          stored,    \* set of [dir, name, ds, ts]: files written; dir is a path relative to outDir
          nreq, live, resp

vars == <<ts, uid, have, ibuf, cur, stored, nreq, live, resp>>

Init == /\ ts \in Syntaxes /\ uid = <<>> /\ have = FALSE /\ ibuf = 0 /\ cur \in DataSets
        /\ stored = {} /\ nreq = 0 /\ live = TRUE /\ resp = 0

Strip(t) == IF t # <<>> /\ t[Len(t)] = "NUL" THEN SubSeq(t, 1, Len(t) - 1) ELSE t

(* Where does pushing text t onto outDir land?  Result: <<dir, ok>> where dir *)
(* is "out" (directly in outDir), "sub" (a sub-directory), "up" (outside:     *)
(* parent or absolute), and ok says whether a file name remains.              *)
RECURSIVE Walk(_, _)
ABS == 99
Walk(t, depth) ==   \* depth: 0 = outDir, >0 below, -1 above; ABS = absolute
  IF t = <<>> THEN depth
  ELSE LET a == t[1] IN
       IF depth = ABS THEN ABS
       ELSE IF a = "ROOT" THEN ABS
       ELSE IF a = "/" THEN Walk(Tail(t), depth)
       ELSE IF a = ".." THEN (IF Len(t) > 1 /\ t[2] = "/" THEN Walk(Tail(t), IF depth = 0 THEN -1 ELSE depth - 1)
                               ELSE Walk(Tail(t), depth))   \* "..dcm" style: part of a name
       ELSE IF a = "n" \/ a = "." THEN
            (IF Len(t) > 1 /\ t[2] = "/" /\ a = "n" THEN Walk(Tail(t), IF depth = -1 THEN -1 ELSE depth + 1)
             ELSE Walk(Tail(t), depth))
       ELSE Walk(Tail(t), depth)

DirOf(t) ==
  IF NameMode = "sanitise" THEN "out"
  ELSE LET d == Walk(Strip(t), 0) IN
       IF d = ABS THEN "up" ELSE IF d = 0 THEN "out" ELSE IF d = -1 THEN "up" ELSE "sub"

CmdStore(u, d) ==
  /\ live /\ nreq < MaxReq /\ u \in UidTexts /\ d \in DataSets
  /\ uid' = u /\ cur' = d /\ have' = TRUE /\ ibuf' = 0 /\ nreq' = nreq + 1
  /\ UNCHANGED <<ts, stored, live, resp>>

CmdEcho == live /\ resp <= MaxReq /\ resp' = resp + 1 /\ ibuf' = 0 /\ UNCHANGED <<ts, uid, have, cur, stored, nreq, live>>

DataPart == live /\ have /\ ibuf < 2 /\ ibuf' = ibuf + 1
            /\ UNCHANGED <<ts, uid, have, cur, stored, nreq, live, resp>>

(* a file is created only if its directory exists: sub-directories of a fresh *)
(* output directory do not                                                   *)
DataLast ==
  /\ live /\ have
  /\ LET dir == DirOf(uid) IN
       IF dir = "sub"
         THEN live' = FALSE /\ UNCHANGED <<stored, resp>>     \* write fails, association ends
         ELSE /\ stored' = stored \cup {[dir |-> dir, uid |-> uid, ds |-> cur, ts |-> ts]}
              /\ resp' = resp + 1 /\ UNCHANGED live
  /\ have' = FALSE /\ ibuf' = 0
  /\ UNCHANGED <<ts, uid, cur, nreq>>

Release == live /\ live' = FALSE /\ UNCHANGED <<ts, uid, have, ibuf, cur, stored, nreq, resp>>

CmdStoreAny == \E u \in UidTexts, d \in DataSets : CmdStore(u, d)
Next == CmdStoreAny \/ CmdEcho \/ DataPart \/ DataLast \/ Release
Spec == Init /\ [][Next]_vars

(* C32 *)
OnlyInOutDir == \A f \in stored : f.dir = "out"
MetaMatches  == \A f \in stored : f.ts = ts
=============================================================================
