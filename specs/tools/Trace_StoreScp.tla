---------------------------- MODULE Trace_StoreScp ----------------------------
(***************************************************************************)
(* Property-level trace validator for C32.  A scripted requestor talks to   *)
(* the real storescp binary; after every association the harness lists the  *)
(* sentinel directory tree that encloses the output directory.              *)
(* Events:                                                                   *)
(*   assoc {mode, ts}              association established, negotiated TS    *)
(*   store {req, ts, cls, inst}    a complete C-STORE request was sent on a  *)
(*                                 context whose negotiated TS is ts; its    *)
(*                                 data set carries SOP class cls / instance *)
(*                                 inst (short ids), is unique per request   *)
(*   fs    {where, readable, ds, meta_ts, meta_cls, meta_inst}               *)
(*                                 one event per NEW file found in the tree: *)
(*                                 where = "out" (directly in the output     *)
(*                                 directory) | "sub" | "up" (elsewhere);    *)
(*                                 ds = req number of the sent data set the  *)
(*                                 file's data set equals (0: none)          *)
(*   store_rsp / echo_rsp {...}    a DIMSE response was received (projected) *)
(*   end   {}                      end of the association's observation      *)
(* C32: every file is directly in the output directory, holds a received     *)
(* data set, its meta TS is the negotiated one and its media storage SOP     *)
(* class / instance are those of that data set.  Violating associations are  *)
(* collected in `bad` (all are reported).                                    *)
(***************************************************************************)
EXTENDS Naturals, Sequences, TLC, Json, IOUtils

Rec == ndJsonDeserialize(IOEnv.TRACE)

VARIABLES l, ts, sent, cl, bad,
          acked,   \* requests acknowledged with status Success
          filed,   \* requests whose data set was found in a stored file
          extra    \* beyond C32 (DIMSE conformance of the responses): lines of non-conforming events
tvars == <<l, ts, sent, cl, bad, acked, filed, extra>>

TInit == l = 1 /\ ts = "" /\ sent = <<>> /\ cl = 0 /\ bad = <<>> /\ acked = {} /\ filed = {} /\ extra = <<>>
         /\ TLCSet(1, 1) /\ TLCSet(2, <<>>) /\ TLCSet(3, <<>>)
Ev(e) == l <= Len(Rec) /\ Rec[l].ev = e /\ l' = l + 1
R == Rec[l]
Mark(ok) == bad' = IF ok \/ (bad # <<>> /\ bad[Len(bad)] = cl) \/ Len(bad) >= 300 THEN bad ELSE Append(bad, cl)

Note(ok) == extra' = IF ok \/ Len(extra) >= 200 THEN extra ELSE Append(extra, l)
TAssoc == Ev("assoc") /\ ts' = R.ts /\ sent' = <<>> /\ cl' = l /\ acked' = {} /\ filed' = {} /\ UNCHANGED <<bad, extra>>
TStore == /\ Ev("store") /\ R.req = Len(sent) + 1
          /\ sent' = Append(sent, [cls |-> R.cls, inst |-> R.inst, ts |-> R.ts])
          /\ UNCHANGED <<ts, cl, bad, acked, filed, extra>>
FileOk(f) == /\ f.where = "out"
             /\ f.readable
             /\ f.ds \in 1..Len(sent)
             /\ f.meta_ts = sent[f.ds].ts       \* the transfer syntax negotiated for THAT request's context
             /\ f.meta_cls = sent[f.ds].cls
             /\ f.meta_inst = sent[f.ds].inst
TFs == /\ Ev("fs") /\ Mark(FileOk(R))
       /\ filed' = IF R.ds \in 1..Len(sent) THEN filed \cup {R.ds} ELSE filed
       /\ UNCHANGED <<ts, sent, cl, acked, extra>>
(* DIMSE (PS3.7) shape of the responses - specification growth beyond C32:    *)
(* one command PDV on the request's presentation context, C-STORE-RSP (8001H) *)
(* / C-ECHO-RSP (8030H), Message ID Being Responded To = the request's        *)
(* Message ID, no data set (0101H).                                           *)
RspOk(field) == /\ R.npdv = 1 /\ R.pc_ok /\ R.is_cmd /\ R.decoded
                /\ R.field = field /\ R.msgid_resp = R.msgid /\ R.dstype = 257
TStoreRsp == /\ Ev("store_rsp") /\ Note(RspOk(32769))
             /\ acked' = IF R.status = 0 THEN acked \cup {R.req} ELSE acked
             /\ UNCHANGED <<ts, sent, cl, bad, filed>>
TEchoRsp == Ev("echo_rsp") /\ Note(RspOk(32816) /\ R.status = 0) /\ UNCHANGED <<ts, sent, cl, bad, acked, filed>>
(* a request acknowledged with Success has been stored *)
TEnd == Ev("end") /\ Note(acked \subseteq filed) /\ UNCHANGED <<ts, sent, cl, bad, acked, filed>>

TNext == TAssoc \/ TStore \/ TFs \/ TStoreRsp \/ TEchoRsp \/ TEnd
TSpec == TInit /\ [][TNext]_tvars
Track == /\ TLCSet(1, IF l > TLCGet(1) THEN l ELSE TLCGet(1))
         /\ (l = Len(Rec) + 1 => TLCSet(2, bad) /\ TLCSet(3, extra))
Accepted == IF TLCGet(1) = Len(Rec) + 1
            THEN PrintT(<<"BADCASES", ToJson(TLCGet(2))>>) /\ PrintT(<<"EXTRA", ToJson(TLCGet(3))>>)
            ELSE Print(<<"REJECTED", TLCGet(1), ToJson(Rec[TLCGet(1)])>>, FALSE)
=============================================================================
