---------------------------- MODULE Trace_StoreScp ----------------------------
(***************************************************************************)
(* Property-level trace validator for C32.  A scripted requestor talks to   *)
(* the real storescp binary; after every association the harness lists the  *)
(* sentinel directory tree that encloses the output directory.              *)
(* Events:                                                                   *)
(*   assoc {mode, ts}              association established, negotiated TS    *)
(*   store {req, cls, inst}        a complete C-STORE request was sent; its  *)
(*                                 data set carries SOP class cls / instance *)
(*                                 inst (short ids), is unique per request   *)
(*   fs    {where, readable, ds, meta_ts, meta_cls, meta_inst}               *)
(*                                 one event per NEW file found in the tree: *)
(*                                 where = "out" (directly in the output     *)
(*                                 directory) | "sub" | "up" (elsewhere);    *)
(*                                 ds = req number of the sent data set the  *)
(*                                 file's data set equals (0: none)          *)
(*   end   {}                      end of the association's observation      *)
(* C32: every file is directly in the output directory, holds a received     *)
(* data set, its meta TS is the negotiated one and its media storage SOP     *)
(* class / instance are those of that data set.  Violating associations are  *)
(* collected in `bad` (all are reported).                                    *)
(***************************************************************************)
EXTENDS Naturals, Sequences, TLC, Json, IOUtils

Rec == ndJsonDeserialize(IOEnv.TRACE)

VARIABLES l, ts, sent, cl, bad
tvars == <<l, ts, sent, cl, bad>>

TInit == l = 1 /\ ts = "" /\ sent = <<>> /\ cl = 0 /\ bad = <<>> /\ TLCSet(1, 1) /\ TLCSet(2, <<>>)
Ev(e) == l <= Len(Rec) /\ Rec[l].ev = e /\ l' = l + 1
R == Rec[l]
Mark(ok) == bad' = IF ok \/ (bad # <<>> /\ bad[Len(bad)] = cl) \/ Len(bad) >= 300 THEN bad ELSE Append(bad, cl)

TAssoc == Ev("assoc") /\ ts' = R.ts /\ sent' = <<>> /\ cl' = l /\ UNCHANGED bad
TStore == /\ Ev("store") /\ R.req = Len(sent) + 1
          /\ sent' = Append(sent, [cls |-> R.cls, inst |-> R.inst])
          /\ UNCHANGED <<ts, cl, bad>>
FileOk(f) == /\ f.where = "out"
             /\ f.readable
             /\ f.ds \in 1..Len(sent)
             /\ f.meta_ts = ts
             /\ f.meta_cls = sent[f.ds].cls
             /\ f.meta_inst = sent[f.ds].inst
TFs == Ev("fs") /\ Mark(FileOk(R)) /\ UNCHANGED <<ts, sent, cl>>
TEnd == Ev("end") /\ UNCHANGED <<ts, sent, cl, bad>>

TNext == TAssoc \/ TStore \/ TFs \/ TEnd
TSpec == TInit /\ [][TNext]_tvars
Track == /\ TLCSet(1, IF l > TLCGet(1) THEN l ELSE TLCGet(1))
         /\ (l = Len(Rec) + 1 => TLCSet(2, bad))
Accepted == IF TLCGet(1) = Len(Rec) + 1
            THEN PrintT(<<"BADCASES", ToJson(TLCGet(2))>>)
            ELSE Print(<<"REJECTED", TLCGet(1), ToJson(Rec[TLCGet(1)])>>, FALSE)
=============================================================================
