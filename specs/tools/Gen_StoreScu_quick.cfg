CONSTANTS FallbackMode = "class_checked" MaxFiles = 2 Tier = "quick"
SPECIFICATION GSpec
INVARIANT Emit
CHECK_DEADLOCK FALSE
