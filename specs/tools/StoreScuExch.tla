----------------------------- MODULE StoreScuExch -----------------------------
(***************************************************************************)
(* Growth of StoreScu.tla beyond C33: the whole exchange of one run of the  *)
(* storescu tool on one association, as a state machine, with a scripted    *)
(* (possibly misbehaving) acceptor.  Selection (StoreScu.tla) is reused;    *)
(* sending now waits for the C-STORE-RSP, and every way the exchange can    *)
(* end is a named action, as the code does it (storescu/src/main.rs `run`,  *)
(* `run_async`; store_sync.rs / store_async.rs `inner`, `send_file`):       *)
(*   XReject / XNoneAccepted   association not established: the tool still  *)
(*                  sends A-ABORT (AbortAfterRefusal) and ends              *)
(*   XNoContextSkip / XNoContextFailFirst   no usable context for a file    *)
(*   XSendRq        C-STORE-RQ command + data set on the selected context   *)
(*   RspSuccess, RspWarning, RspFailureContinue, RspFailureFailFirst        *)
(*   RspMsgIdMismatchAccepted   the tool does not compare Message ID Being  *)
(*                  Responded To with the request's Message ID              *)
(*   PeerClosed     no response, connection closed by the acceptor          *)
(*   PeerAborted    A-ABORT from the acceptor; the tool answers with its    *)
(*                  own A-ABORT (AbortAfterPeerAbort)                       *)
(*   XRelease       A-RELEASE-RQ, wait for RP, close                        *)
(* `files` is the order in which the files are processed: the command line   *)
(* order on the synchronous path, its reverse on the --concurrency path      *)
(* (the tasks `pop` from the end of the shared list).                        *)
(* conc = 0 is the synchronous path, conc >= 1 the --concurrency path (one  *)
(* association of it is modelled).  The exit status differs between the two *)
(* paths when the association breaks without --fail-first: AssocErrorExit.  *)
(* What the documentation (--help: "--fail-first  fail if not all DICOM     *)
(* files can be transferred") demands is DocFailFirst; the rest are         *)
(* sequencing invariants (PS3.7: one outstanding request, distinct Message  *)
(* IDs, release only when idle).                                            *)
(***************************************************************************)
EXTENDS StoreScu

Kinds == {"fail", "warn", "wrong_msgid", "close", "abort", "abort_mid"}
Scripts == {[kind |-> "ok", at |-> 0], [kind |-> "reject", at |-> 0]}
           \cup {[kind |-> k, at |-> n] : k \in Kinds, n \in 1..MaxFiles}

VARIABLES conc,     \* 0: sync path; >= 1: --concurrency
          ff,       \* --fail-first
          script,   \* acceptor misbehaviour: kind at the at-th request
          mid,      \* next Message ID
          nreq,     \* C-STORE requests started
          out,      \* outcome per processed file: "ok" | "warn" | "ok_unchecked" | "fail" | "norsp" | "skipped"
          ended,    \* how the association ended: "none" | "release" | "abort" | "abort_reply" | "drop" | "refused"
          exit      \* "run" | "ok" | "fail"
xv == <<conc, ff, script, mid, nreq, out, ended, exit>>
xvars == <<vars, xv>>

Path == IF conc = 0 THEN "sync" ELSE "async"
(* as coded: run() propagates every association error to exit(-2); run_async() only logs a *)
(* failed task unless --fail-first                                                          *)
AssocErrorExit == IF Path = "sync" \/ ff THEN "fail" ELSE "ok"

XInit == /\ Init
         /\ conc \in {0, 1} /\ ff \in BOOLEAN /\ script \in Scripts
         /\ mid = 1 /\ nreq = 0 /\ out = <<>> /\ ended = "none" /\ exit = "run"

(* model-checking scope: selection flags are exercised by StoreScu.tla itself *)
XInitMC == XInit /\ nt = FALSE /\ ign = FALSE

XPropose == Propose /\ UNCHANGED xv

XReject == /\ phase = "proposed" /\ script.kind = "reject"
           /\ phase' = "done" /\ ended' = "refused" /\ exit' = AssocErrorExit     \* AbortAfterRefusal
           /\ UNCHANGED <<files, nt, ign, prop, pcs, i, sel, sent, conc, ff, script, mid, nreq, out>>

XNegotiate == /\ script.kind # "reject"
              /\ \E acc \in (SUBSET prop) \ {{}} : Negotiate(acc)
              /\ UNCHANGED xv
XNoneAccepted == /\ script.kind # "reject" /\ Negotiate({})
                 /\ ended' = "refused" /\ exit' = AssocErrorExit                  \* AbortAfterRefusal
                 /\ UNCHANGED <<conc, ff, script, mid, nreq, out>>

XSelExact     == SelExact /\ UNCHANGED xv
XSelCodecFree == SelCodecFree /\ UNCHANGED xv
XSelExplicit  == SelExplicit /\ UNCHANGED xv
XSelImplicit  == SelImplicit /\ UNCHANGED xv

NoCtx == phase = "files" /\ i <= Len(files) /\ SelectStage(files[i], pcs, ign, nt) = "none"
(* both paths number the files they process: a skipped file uses up a Message ID *)
XNoContextSkip == /\ NoCtx /\ ~ff
                  /\ i' = i + 1 /\ out' = Append(out, "skipped")
                  /\ mid' = mid + 1
                  /\ UNCHANGED <<files, nt, ign, phase, prop, pcs, sel, sent, conc, ff, script, nreq, ended, exit>>
XNoContextFailFirst == /\ NoCtx /\ ff
                       /\ out' = Append(out, "skipped") /\ phase' = "done" /\ ended' = "abort" /\ exit' = "fail"
                       /\ UNCHANGED <<files, nt, ign, prop, pcs, i, sel, sent, conc, ff, script, mid, nreq>>

XSendRq == /\ phase = "selected"
           /\ sent' = sent \cup {[file |-> i, pc |-> sel, msgid |-> mid]}
           /\ nreq' = nreq + 1 /\ phase' = "await"
           /\ UNCHANGED <<files, nt, ign, prop, pcs, i, sel, conc, ff, script, mid, out, ended, exit>>

Scripted == IF script.at = nreq THEN script.kind ELSE "ok"
Advance(o) == /\ out' = Append(out, o) /\ phase' = "files" /\ i' = i + 1 /\ mid' = mid + 1 /\ sel' = NoPc
              /\ UNCHANGED <<files, nt, ign, prop, pcs, sent, conc, ff, script, nreq, ended, exit>>
Stop(o, e, x) == /\ out' = Append(out, o) /\ phase' = "done" /\ ended' = e /\ exit' = x
                 /\ UNCHANGED <<files, nt, ign, prop, pcs, i, sel, sent, conc, ff, script, mid, nreq>>

RspSuccess               == phase = "await" /\ Scripted = "ok" /\ Advance("ok")
RspWarning               == phase = "await" /\ Scripted = "warn" /\ Advance("warn")
RspMsgIdMismatchAccepted == phase = "await" /\ Scripted = "wrong_msgid" /\ Advance("ok_unchecked")
RspFailureContinue       == phase = "await" /\ Scripted = "fail" /\ ~ff /\ Advance("fail")
RspFailureFailFirst      == phase = "await" /\ Scripted = "fail" /\ ff /\ Stop("fail", "abort", "fail")
PeerClosed               == phase = "await" /\ Scripted = "close" /\ Stop("norsp", "drop", AssocErrorExit)
PeerAborted              == phase = "await" /\ Scripted \in {"abort", "abort_mid"} /\ Stop("norsp", "abort_reply", "fail")   \* AbortAfterPeerAbort

XRelease == /\ Release /\ ended' = "release" /\ exit' = "ok"
            /\ UNCHANGED <<conc, ff, script, mid, nreq, out>>

XNext == \/ XPropose \/ XReject \/ XNegotiate \/ XNoneAccepted
         \/ XSelExact \/ XSelCodecFree \/ XSelExplicit \/ XSelImplicit
         \/ XNoContextSkip \/ XNoContextFailFirst \/ XSendRq
         \/ RspSuccess \/ RspWarning \/ RspMsgIdMismatchAccepted \/ RspFailureContinue \/ RspFailureFailFirst
         \/ PeerClosed \/ PeerAborted \/ XRelease
XSpec == XInit /\ [][XNext]_xvars

Transferred(o) == o \in {"ok", "warn", "ok_unchecked"}
AllTransferred == Len(out) = Len(files) /\ \A k \in 1..Len(out) : Transferred(out[k])

(* documentation: --fail-first = fail if not all files can be transferred *)
DocFailFirst == (phase = "done" /\ ff /\ ~AllTransferred) => exit = "fail"
(* without --fail-first a refused file does not stop the run: a released association has seen every file *)
ContinuesWithoutFailFirst == (phase = "done" /\ ~ff /\ ended = "release") => Len(out) = Len(files)
(* PS3.7 sequencing *)
OneOutstanding   == /\ nreq = Cardinality(sent)
                    /\ Cardinality({k \in 1..Len(out) : out[k] # "skipped"}) = IF phase = "await" THEN nreq - 1 ELSE nreq
MsgIdsDistinct   == \A s, t \in sent : s.msgid = t.msgid => s = t
ReleaseWhenIdle  == ended = "release" => (phase = "done" /\ Len(out) = Len(files))
ExitOnlyAtEnd    == (exit # "run") <=> (phase = "done")
(* the synchronous path reports success only after an orderly release *)
SyncOkMeansReleased == (conc = 0 /\ exit = "ok") => ended = "release"
(* NOT an invariant of the tool as coded: on the --concurrency path without --fail-first a broken  *)
(* association ends with exit status 0 (TLC gives the counterexample; MC_StoreScuExch_okexit.cfg)  *)
OkMeansReleased == exit = "ok" => ended = "release"
(* C33 carries over (sent records gained a msgid field) *)
XClassMatches == ClassMatches
XOnAccepted   == OnAccepted
XTsReachable  == TsReachable
=============================================================================
