CONSTANTS NameMode = "sanitise" DataSets = {1} Syntaxes = {"evrle"} MaxReq = 2 MaxLen = 5
  UidTexts <- GenUidTexts2
SPECIFICATION GSpec
INVARIANT Emit
CONSTRAINT Bound
CHECK_DEADLOCK FALSE
