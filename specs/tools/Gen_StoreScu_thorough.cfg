CONSTANTS FallbackMode = "class_checked" MaxFiles = 2 Tier = "thorough"
SPECIFICATION GSpec
INVARIANT Emit
CHECK_DEADLOCK FALSE
