CONSTANTS FallbackMode = "class_checked" MaxFiles = 1
INIT XInitMC
NEXT XNext
INVARIANTS OkMeansReleased
CHECK_DEADLOCK FALSE
