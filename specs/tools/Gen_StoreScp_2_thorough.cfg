CONSTANTS NameMode = "sanitise" DataSets = {1, 2} Syntaxes = {"ivrle", "evrbe"} MaxReq = 2 MaxLen = 6
  UidTexts <- GenUidTexts2
SPECIFICATION GSpec
INVARIANT Emit
CONSTRAINT Bound
CHECK_DEADLOCK FALSE
