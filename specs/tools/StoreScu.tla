------------------------------- MODULE StoreScu -------------------------------
(***************************************************************************)
(* C33: the storage SCU sends each file on a matching presentation context. *)
(*                                                                         *)
(* Implementation-shaped model of the storescu tool (storescu/src/main.rs  *)
(* `check_files`, `check_presentation_contexts`; store_sync.rs /           *)
(* store_async.rs `inner`, `send_file`):                                   *)
(*   Propose      check_files: one presentation context per (SOP class,    *)
(*                transfer syntax) pair: the file's own transfer syntax,   *)
(*                plus Explicit VR LE and Implicit VR LE unless            *)
(*                --never-transcode                                        *)
(*   Negotiate    the acceptor accepts any subset (its policy); every      *)
(*                proposed context carries exactly one transfer syntax     *)
(*   per file, the stages of check_presentation_contexts:                  *)
(*   SelExact       a context with the file's transfer syntax              *)
(*   SelCodecFree   a codec-free context when the file is codec-free       *)
(*   SelExplicit    (transcoding allowed, file decodable) Explicit VR LE   *)
(*   SelImplicit    ... else Implicit VR LE                                *)
(*   NoContext      nothing found: the file is not sent                    *)
(*   Send           send_file: into_ts + write in the selected TS          *)
(* The negotiated contexts are an unordered collection (the tool keeps the *)
(* proposals in a HashSet), so `find` may return any matching context:     *)
(* each stage yields the SET of contexts it may pick.                      *)
(* FallbackMode selects the last stage: "as_coded" = the Implicit VR LE    *)
(* fallback looks at all contexts (the code before the repair),            *)
(* "class_checked" = it is filtered by SOP class like the other stages.    *)
(* TLC shows ClassMatches for "class_checked" and gives the counterexample *)
(* for "as_coded".                                                         *)
(***************************************************************************)
EXTENDS Integers, Sequences, FiniteSets, TLC

CONSTANTS FallbackMode,   \* "as_coded" | "class_checked"
          MaxFiles        \* files per run (model checking bound)

Classes  == {"A", "B"}
Syntaxes == {"ivrle", "evrle", "evrbe", "deflated", "encaps"}
CodecFree(ts) == ts \in {"ivrle", "evrle", "evrbe"}   \* TransferSyntax::is_codec_free
CanDecode(ts) == ts \in Syntaxes                      \* can_decode_all: all of the universe
Files == [cls : Classes, ts : Syntaxes]
Ctx   == [abs : Classes, ts : Syntaxes]               \* a context is identified by its pair (ids are labels)

(* check_files *)
ProposedFor(f, nt) == {[abs |-> f.cls, ts |-> f.ts]}
                      \cup (IF nt THEN {} ELSE {[abs |-> f.cls, ts |-> "evrle"], [abs |-> f.cls, ts |-> "ivrle"]})
Proposed(fs, nt) == UNION {ProposedFor(fs[i], nt) : i \in 1..Len(fs)}

(* check_presentation_contexts, stage by stage; each yields the candidates `find` may return *)
ClassOk(f, pc, ign) == ign \/ pc.abs = f.cls
StExact(f, pcs, ign)     == {pc \in pcs : ClassOk(f, pc, ign) /\ pc.ts = f.ts}
StCodecFree(f, pcs, ign) == {pc \in pcs : ClassOk(f, pc, ign) /\ (pc.ts = f.ts \/ (CodecFree(f.ts) /\ CodecFree(pc.ts)))}
StExplicit(f, pcs, ign)  == {pc \in pcs : ClassOk(f, pc, ign) /\ pc.ts = "evrle"}
StImplicit(f, pcs, ign)  == {pc \in pcs : (FallbackMode = "as_coded" \/ ClassOk(f, pc, ign)) /\ pc.ts = "ivrle"}

SelectStage(f, pcs, ign, nt) ==
  IF StExact(f, pcs, ign) # {} THEN "exact"
  ELSE IF StCodecFree(f, pcs, ign) # {} THEN "codec_free"
  ELSE IF nt \/ ~CanDecode(f.ts) THEN "none"
  ELSE IF StExplicit(f, pcs, ign) # {} THEN "explicit"
  ELSE IF StImplicit(f, pcs, ign) # {} THEN "implicit"
  ELSE "none"

(* the contexts the tool may select for the file; {} = the file is not sent *)
Select(f, pcs, ign, nt) ==
  LET s == SelectStage(f, pcs, ign, nt) IN
  CASE s = "exact"      -> StExact(f, pcs, ign)
    [] s = "codec_free" -> StCodecFree(f, pcs, ign)
    [] s = "explicit"   -> StExplicit(f, pcs, ign)
    [] s = "implicit"   -> StImplicit(f, pcs, ign)
    [] OTHER            -> {}

(* what `into_ts` + the data set writer can produce from the file: a plain  *)
(* re-encoding between codec-free syntaxes, or - when allowed - decoding    *)
(* into one of the two uncompressed little endian syntaxes                  *)
TranscodeTargets(f, nt) == (IF CodecFree(f.ts) THEN {"ivrle", "evrle", "evrbe"} ELSE {})
                           \cup (IF ~nt /\ CanDecode(f.ts) THEN {"ivrle", "evrle"} ELSE {})

(* C33 for one selection *)
SelectionOk(f, pc, pcs, ign, nt) ==
  /\ pc \in pcs
  /\ ~ign => pc.abs = f.cls
  /\ pc.ts = f.ts \/ pc.ts \in TranscodeTargets(f, nt)

---------------------------------------------------------------------------
VARIABLES files, nt, ign,    \* the run: files (sequence), --never-transcode, --ignore-sop-class
          phase,             \* "start" | "proposed" | "files" | "selected" | "done"
          prop,              \* proposed contexts
          pcs,               \* negotiated (accepted) contexts
          i,                 \* file being processed
          sel,               \* selected context of file i (when phase = "selected")
          sent               \* set of [file, pc]: C-STORE requests sent

vars == <<files, nt, ign, phase, prop, pcs, i, sel, sent>>

NoPc == [abs |-> "-", ts |-> "-"]

Init == /\ files \in UNION {[1..n -> Files] : n \in 1..MaxFiles}
        /\ nt \in BOOLEAN /\ ign \in BOOLEAN
        /\ phase = "start" /\ prop = {} /\ pcs = {} /\ i = 1 /\ sel = NoPc /\ sent = {}

Propose == /\ phase = "start" /\ phase' = "proposed" /\ prop' = Proposed(files, nt)
           /\ UNCHANGED <<files, nt, ign, pcs, i, sel, sent>>

(* an association without accepted contexts is not established *)
Negotiate(acc) == /\ phase = "proposed" /\ acc \subseteq prop
                  /\ pcs' = acc /\ phase' = IF acc = {} THEN "done" ELSE "files"
                  /\ UNCHANGED <<files, nt, ign, prop, i, sel, sent>>
NegotiateAny == \E acc \in SUBSET prop : Negotiate(acc)

Picking(stage) == /\ phase = "files" /\ i <= Len(files)          \* (state predicate)
                  /\ SelectStage(files[i], pcs, ign, nt) = stage

SelExact     == /\ Picking("exact") /\ sel' \in StExact(files[i], pcs, ign) /\ phase' = "selected"
                /\ UNCHANGED <<files, nt, ign, prop, pcs, i, sent>>
SelCodecFree == /\ Picking("codec_free") /\ sel' \in StCodecFree(files[i], pcs, ign) /\ phase' = "selected"
                /\ UNCHANGED <<files, nt, ign, prop, pcs, i, sent>>
SelExplicit  == /\ Picking("explicit") /\ sel' \in StExplicit(files[i], pcs, ign) /\ phase' = "selected"
                /\ UNCHANGED <<files, nt, ign, prop, pcs, i, sent>>
SelImplicit  == /\ Picking("implicit") /\ sel' \in StImplicit(files[i], pcs, ign) /\ phase' = "selected"
                /\ UNCHANGED <<files, nt, ign, prop, pcs, i, sent>>
NoContext    == /\ phase = "files" /\ i <= Len(files)
                /\ SelectStage(files[i], pcs, ign, nt) = "none"
                /\ i' = i + 1 /\ UNCHANGED <<files, nt, ign, phase, prop, pcs, sel, sent>>

Send == /\ phase = "selected"
        /\ sent' = sent \cup {[file |-> i, pc |-> sel]}
        /\ i' = i + 1 /\ phase' = "files" /\ sel' = NoPc
        /\ UNCHANGED <<files, nt, ign, prop, pcs>>

Release == /\ phase = "files" /\ i > Len(files) /\ phase' = "done"
           /\ UNCHANGED <<files, nt, ign, prop, pcs, i, sel, sent>>

Next == Propose \/ NegotiateAny \/ SelExact \/ SelCodecFree \/ SelExplicit \/ SelImplicit \/ NoContext \/ Send \/ Release
Spec == Init /\ [][Next]_vars

(* C33 *)
ClassMatches == \A s \in sent : ~ign => s.pc.abs = files[s.file].cls
OnAccepted   == \A s \in sent : s.pc \in pcs
TsReachable  == \A s \in sent : s.pc.ts = files[s.file].ts \/ s.pc.ts \in TranscodeTargets(files[s.file], nt)
(* the operator form agrees with the state machine *)
SelectAgrees == phase = "selected" => sel \in Select(files[i], pcs, ign, nt)
=============================================================================
