--------------------------- MODULE DicomJsonVectors ---------------------------
(* Test vectors for the Annex F operators of DicomJson, checked by TLC as     *)
(* assumptions: RFC 4648 section 10 base64 vectors, two's complement little-  *)
(* endian bytes, decimal parsing, hexadecimal tag keys, padding, an Annex F   *)
(* example, and inputs the validators must reject.                            *)
EXTENDS DicomJson
VN(neg, i, f) == [sp |-> "", neg |-> neg, int |-> i, frac |-> f]

ASSUME Base64(<<>>) = ""
ASSUME Base64(<<102>>) = "Zg=="
ASSUME Base64(<<102, 111>>) = "Zm8="
ASSUME Base64(<<102, 111, 111>>) = "Zm9v"
ASSUME Base64(<<102, 111, 111, 98>>) = "Zm9vYg=="
ASSUME Base64(<<102, 111, 111, 98, 97>>) = "Zm9vYmE="
ASSUME Base64(<<102, 111, 111, 98, 97, 114>>) = "Zm9vYmFy"
ASSUME Base64(<<207, 76, 125, 115, 203, 251>>) = "z0x9c8v7"
ASSUME Base64(<<255, 255, 254>>) = "///+"
ASSUME Base64(<<0, 1>>) = "AAE="
ASSUME Base64(<<102, 111, 111, 98, 97, 114, 102>>) = "Zm9vYmFyZg=="
ASSUME Base64([i \in 1..10 |-> i - 1]) = "AAECAwQFBgcICQ=="
ASSUME Base64([i \in 1..20 |-> 255]) = "//////////////////////////8="
(* 4096 zero bytes: 1365 full triples "AAAA", then one byte "AA=="; 4097: two bytes "AAA=": *)
(* padding only at the end                                                                 *)
ASSUME LET z == Base64([i \in 1..4096 |-> 0]) IN Len(z) = 5464 /\ SubSeq(z, 5457, 5464) = "AAAAAA=="
ASSUME LET z == Base64([i \in 1..4097 |-> 0]) IN Len(z) = 5464 /\ SubSeq(z, 5457, 5464) = "AAAAAAA="
ASSUME LET z == Base64([i \in 1..4098 |-> 0]) IN Len(z) = 5464 /\ SubSeq(z, 5457, 5464) = "AAAAAAAA"
ASSUME BytesOf([g |-> 1, e |-> 1, vr |-> "OB", rep |-> "pat8", vals |-> <<[n |-> 5, a |-> 100, b |-> 7]>>]) = <<7, 107, 207, 51, 151>>
ASSUME BytesOf([g |-> 1, e |-> 1, vr |-> "OW", rep |-> "pat16", vals |-> <<[n |-> 3, a |-> 30000, b |-> 258]>>]) = <<2, 1, 50, 118, 98, 235>>

ASSUME LEInt(VN(FALSE, "258", ""), 2) = <<2, 1>>
ASSUME LEInt(VN(FALSE, "16909060", ""), 4) = <<4, 3, 2, 1>>
ASSUME LEInt(VN(FALSE, "4294967295", ""), 4) = <<255, 255, 255, 255>>
ASSUME LEInt(VN(TRUE, "1", ""), 2) = <<255, 255>>
ASSUME LEInt(VN(TRUE, "32768", ""), 2) = <<0, 128>>
ASSUME LEInt(VN(TRUE, "2147483648", ""), 4) = <<0, 0, 0, 128>>
ASSUME LEInt(VN(FALSE, "72623859790382856", ""), 8) = <<8, 7, 6, 5, 4, 3, 2, 1>>
ASSUME LEInt(VN(FALSE, "18446744073709551615", ""), 8) = <<255, 255, 255, 255, 255, 255, 255, 255>>
ASSUME LEInt(VN(TRUE, "9223372036854775808", ""), 8) = <<0, 0, 0, 0, 0, 0, 0, 128>>
ASSUME LEInt(VN(FALSE, "9223372036854775807", ""), 8) = <<255, 255, 255, 255, 255, 255, 255, 127>>
ASSUME LEInt(VN(TRUE, "256", ""), 8) = <<0, 255, 255, 255, 255, 255, 255, 255>>

ASSUME ParseDec("5") = VN(FALSE, "5", "")
ASSUME ParseDec("+007") = VN(FALSE, "7", "")
ASSUME ParseDec("-12") = VN(TRUE, "12", "")
ASSUME ParseDec("0.50") = VN(FALSE, "0", "5")
ASSUME ParseDec("160.000 ") = VN(FALSE, "160", "")
ASSUME ParseDec("-1.5E+2") = VN(TRUE, "150", "")
ASSUME ParseDec("1.25e1") = VN(FALSE, "12", "5")
ASSUME ParseDec("125e-2") = VN(FALSE, "1", "25")
ASSUME ParseDec("5e-3") = VN(FALSE, "0", "005")
ASSUME ParseDec("-0.0") = VN(FALSE, "0", "")
ASSUME ParseDec(" 42") = VN(FALSE, "42", "")
ASSUME ParseDec(".5") = VN(FALSE, "0", "5")
ASSUME ParseDec("abc").sp = "bad" /\ ParseDec("").sp = "bad" /\ ParseDec("1e").sp = "bad" /\ ParseDec("1.2.3").sp = "bad"
ASSUME PlainText(VN(TRUE, "150", "")) = "-150" /\ PlainText(VN(FALSE, "0", "5")) = "0.5"

ASSUME FitsI32(VN(FALSE, "2147483647", "")) /\ ~FitsI32(VN(FALSE, "2147483648", ""))
ASSUME FitsI32(VN(TRUE, "2147483648", "")) /\ ~FitsI32(VN(TRUE, "2147483649", "")) /\ FitsI32(VN(FALSE, "0", ""))
ASSUME ~FitsI32(VN(FALSE, "9223372036854775807", ""))

ASSUME Hex8(8, 24) = "00080018" /\ Hex8(32736, 16) = "7FE00010" /\ Hex8(43981, 239) = "ABCD00EF" /\ Hex8(65535, 65535) = "FFFFFFFF"
ASSUME StripPad("ab  ") = "ab" /\ StripPad(" a") = " a" /\ StripPad("") = "" /\ StripPad("  ") = ""

(* Annex F.4 example fragments *)
VEl(g, e, vr, rep, vals) == [g |-> g, e |-> e, vr |-> vr, rep |-> rep, vals |-> vals]
Ex == <<VEl(16, 16, "PN", "strs", <<"Wang^XiaoDong">>), VEl(8, 24, "UI", "strs", <<"1.2.392.200036.9116.2.2.2.1762893313.1029997326.945873">>),
        VEl(8, 97, "CS", "strs", <<"CT", "PET">>), VEl(32, 4614, "IS", "i32", <<VN(FALSE, "4", "")>>), VEl(8, 144, "PN", "empty", <<>>)>>
ASSUME Shape(Ex) = JObj(<<
   Mem("00080018", JObj(<<Mem("vr", JStr("UI")), Mem("Value", JArr(<<JStr("1.2.392.200036.9116.2.2.2.1762893313.1029997326.945873")>>))>>)),
   Mem("00080061", JObj(<<Mem("vr", JStr("CS")), Mem("Value", JArr(<<JStr("CT"), JStr("PET")>>))>>)),
   Mem("00080090", JObj(<<Mem("vr", JStr("PN"))>>)),
   Mem("00100010", JObj(<<Mem("vr", JStr("PN")), Mem("Value", JArr(<<JObj(<<Mem("Alphabetic", JStr("Wang^XiaoDong"))>>)>>))>>)),
   Mem("00201206", JObj(<<Mem("vr", JStr("IS")), Mem("Value", JArr(<<JNum(VN(FALSE, "4", ""))>>))>>))>>)
ASSUME Conforms(Ex, Shape(Ex))
(* the validator rejects the display form of a tag, lower case keys, a number for a PN *)
AtEl == <<VEl(32, 20480, "AT", "tags", <<[g |-> 8, e |-> 24]>>)>>
ASSUME Conforms(AtEl, JObj(<<Mem("00205000", JObj(<<Mem("vr", JStr("AT")), Mem("Value", JArr(<<JStr("00080018")>>))>>))>>))
ASSUME ~Conforms(AtEl, JObj(<<Mem("00205000", JObj(<<Mem("vr", JStr("AT")), Mem("Value", JArr(<<JStr("(0008,0018)")>>))>>))>>))
ASSUME ~Conforms(AtEl, JObj(<<Mem("00205000", JObj(<<Mem("Value", JArr(<<JStr("00080018")>>))>>))>>))
ASSUME ~Conforms(<<VEl(43981, 239, "UN", "empty", <<>>)>>, JObj(<<Mem("abcd00ef", JObj(<<Mem("vr", JStr("UN"))>>))>>))
ASSUME ~Conforms(<<VEl(8, 128, "LO", "empty", <<>>)>>, JObj(<<Mem("00080080", JObj(<<Mem("vr", JStr("LO")), Mem("Value", JArr(<<>>))>>))>>))
ASSUME ~Conforms(<<VEl(40, 16, "US", "u16", <<VN(FALSE, "5", "")>>)>>,
                 JObj(<<Mem("00280010", JObj(<<Mem("vr", JStr("US")), Mem("Value", JArr(<<JStr("5")>>))>>))>>))
ASSUME Conforms(<<VEl(32, 19, "IS", "strs", <<"5 ">>)>>,
                 JObj(<<Mem("00200013", JObj(<<Mem("vr", JStr("IS")), Mem("Value", JArr(<<JNum(VN(FALSE, "5", ""))>>))>>))>>))
ASSUME ~SameDs(AtEl, <<VEl(32, 20480, "AT", "tags", <<[g |-> 8, e |-> 25]>>)>>)
ASSUME SameDs(<<VEl(32, 19, "IS", "i32", <<VN(FALSE, "5", "")>>)>>, <<VEl(32, 19, "IS", "strs", <<"5">>)>>)
ASSUME ~SameDs(<<VEl(32, 19, "IS", "i32", <<VN(FALSE, "5", "")>>)>>, <<VEl(32, 19, "IS", "strs", <<"6">>)>>)
ASSUME SameDs(<<VEl(32736, 16, "OW", "u16", <<VN(FALSE, "258", "")>>)>>, <<VEl(32736, 16, "OW", "u8", <<VN(FALSE, "2", ""), VN(FALSE, "1", "")>>)>>)

=============================================================================
