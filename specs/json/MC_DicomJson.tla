---------------------------- MODULE MC_DicomJson ----------------------------
(* Stand-alone run of the test vectors in DicomJsonVectors. *)
EXTENDS DicomJsonVectors
VARIABLE x
Init == x = 0
Next == UNCHANGED x
Spec == Init /\ [][Next]_x
=============================================================================
