CONSTANTS Part = "all" MaxMult = 3 Rich = TRUE
SPECIFICATION Spec
INVARIANT SelfConsistent
CHECK_DEADLOCK FALSE
