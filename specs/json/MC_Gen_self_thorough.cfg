CONSTANTS Part = "all" MaxMult = 3 Rich = TRUE Check = TRUE
SPECIFICATION Spec
CHECK_DEADLOCK FALSE
