CONSTANTS Part = "all" MaxMult = 3 Rich = FALSE
SPECIFICATION Spec
INVARIANT SelfConsistent
CHECK_DEADLOCK FALSE
