CONSTANTS Part = "all" MaxMult = 3 Rich = FALSE Check = TRUE
SPECIFICATION Spec
CHECK_DEADLOCK FALSE
