CONSTANTS Part = "all" MaxMult = 3 Rich = FALSE
SPECIFICATION Spec
CHECK_DEADLOCK FALSE
