CONSTANTS Part = "all" MaxMult = 3 Rich = FALSE Check = FALSE
SPECIFICATION Spec
CHECK_DEADLOCK FALSE
