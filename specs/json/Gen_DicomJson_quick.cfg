CONSTANTS Part = "all" MaxMult = 3 Rich = FALSE
SPECIFICATION Spec
INVARIANT Emit
CHECK_DEADLOCK FALSE
