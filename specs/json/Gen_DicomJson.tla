---------------------------- MODULE Gen_DicomJson ----------------------------
(***************************************************************************)
(* Case generator for C23 / C24: TLC enumerates abstract data sets (one    *)
(* initial state each) and prints every one together with the JSON tree    *)
(* Shape(ds) and the round-trip result NormJson(ds) computed by the Annex F*)
(* operators of DicomJson.  The invariant also model-checks the            *)
(* specification against itself on every case: the implementation-shaped   *)
(* operators satisfy the property-level ones.                              *)
(*   Part = "vr"      one element: every VR x in-memory representation x   *)
(*                    multiplicity 0..MaxMult x value alphabet             *)
(*                    (the alphabets of every VR held as character strings *)
(*                    - the text VRs, PN, and IS/DS held as strings -      *)
(*                    include the empty string: an empty value at any      *)
(*                    position of a multi-valued element, a single blank)  *)
(*   Part = "struct"  several elements in any insertion order, sequences   *)
(*                    with 0..2 items, nested to depth 2, empty items      *)
(*   both parts       long binary values around the block sizes a chunked  *)
(*                    base64 encoder would use (LongBin)                   *)
(***************************************************************************)
EXTENDS DicomJsonVectors, Json, FiniteSets

CONSTANTS Part,        \* "vr" | "struct" | "all"
          MaxMult,     \* multiplicity bound of the VR sweep
          Rich         \* TRUE: larger value alphabets
VARIABLE c

El(g, e, vr, rep, vals) == [g |-> g, e |-> e, vr |-> vr, rep |-> rep, vals |-> vals]
P(s) == IntNum(FALSE, s)
M(s) == IntNum(TRUE, s)
Fl(neg, i, f) == MkNum(neg, i, f)
NaN == [sp |-> "nan", neg |-> FALSE, int |-> "0", frac |-> ""]
Inf(neg) == [sp |-> "inf", neg |-> neg, int |-> "0", frac |-> ""]
T(g, e) == [g |-> g, e |-> e]

Seqs(A, lo, hi) == UNION {[1..m -> A] : m \in lo..hi}

(* one tag per VR, some with hex letters (the VR travels with the element; the *)
(* data dictionary is not consulted by the JSON mapping)                      *)
TagOf(vr) == CASE vr = "AE" -> T(8, 84)        \* (0008,0054) RetrieveAETitle
   [] vr = "AS" -> T(16, 4112)                 \* (0010,1010)
   [] vr = "AT" -> T(32, 20480)                \* (0020,5000)
   [] vr = "CS" -> T(8, 8)                     \* (0008,0008)
   [] vr = "DA" -> T(8, 32)
   [] vr = "DS" -> T(24, 4400)                 \* (0018,1130)
   [] vr = "DT" -> T(8, 42)                    \* (0008,002A)
   [] vr = "FL" -> T(24, 24666)                \* (0018,605A)
   [] vr = "FD" -> T(24, 37635)                \* (0018,9303)
   [] vr = "IS" -> T(32, 19)                   \* (0020,0013)
   [] vr = "LO" -> T(8, 128)
   [] vr = "LT" -> T(16, 16384)                \* (0010,4000)
   [] vr = "OB" -> T(66, 17)                   \* (0042,0011)
   [] vr = "OD" -> T(32736, 9)                 \* (7FE0,0009)
   [] vr = "OF" -> T(32736, 8)                 \* (7FE0,0008)
   [] vr = "OL" -> T(102, 64)                  \* (0066,0040)
   [] vr = "OV" -> T(32736, 1)                 \* (7FE0,0001)
   [] vr = "OW" -> T(32736, 16)                \* (7FE0,0010)
   [] vr = "PN" -> T(16, 16)
   [] vr = "SH" -> T(8, 80)
   [] vr = "SL" -> T(24, 24608)                \* (0018,6020)
   [] vr = "SS" -> T(24, 38425)                \* (0018,9619)
   [] vr = "ST" -> T(8, 129)
   [] vr = "SV" -> T(43981, 4113)              \* (ABCD,1011) private
   [] vr = "TM" -> T(8, 48)
   [] vr = "UC" -> T(24, 39319)                \* (0018,9997)
   [] vr = "UI" -> T(8, 24)
   [] vr = "UL" -> T(24, 24598)                \* (0018,6016)
   [] vr = "UN" -> T(43981, 239)               \* (ABCD,00EF) private
   [] vr = "UR" -> T(8, 4496)                  \* (0008,1190)
   [] vr = "US" -> T(40, 16)
   [] vr = "UT" -> T(64, 41312)                \* (0040,A160)
   [] vr = "UV" -> T(65519, 65535)             \* (FFEF,FFFF) private, top of the range
   [] vr = "SQ" -> T(8, 4416)                  \* (0008,1140)

TextAlpha(vr) == CASE vr = "AE" -> {"MAIN", "AE TITLE ", "X", ""}
   [] vr = "AS" -> {"030Y", "006M", "001D", ""}
   [] vr = "CS" -> {"CT", "ISO_IR 192", "A ", ""}
   [] vr = "DA" -> {"20230610", "19991231", "20000229", ""}
   [] vr = "DT" -> {"20230610123000.5+0100", "2023", "202306101230", ""}
   [] vr = "LO" -> {"Hospital A", " lead", "pad  ", ""}
   [] vr = "SH" -> {"SH1", "a b", "Z ", ""}
   [] vr = "TM" -> {"120000", "235959.999999", "07", ""}
   [] vr = "UC" -> {"unlimited chars", "x", "y ", ""}
   [] vr = "UI" -> {"1.2.840.10008.1.2", "1.2.3", "2.25.1", ""}
   [] vr = "PN" -> {"Doe^John", "^Bob^^Dr.", "Yamada^Tarou=YT=yt", "A^B ", ""}
SingleText == {"Some text.", "a\\b with a backslash", "trailing  ", "say \"hi\"", "http://example.com/a?b=c", ""}
MultiTextVRs == {"AE", "AS", "CS", "DA", "DT", "LO", "SH", "TM", "UC", "UI", "PN"}
SingleTextVRs == {"LT", "ST", "UT", "UR"}

I32s == {P("0"), M("1"), P("17"), P("2147483647"), M("2147483648")}
I16s == {P("0"), M("1"), P("32767"), M("32768")}
U16s == {P("0"), P("1"), P("256"), P("65535")}
U32s == {P("0"), P("65536"), P("2147483648"), P("4294967295")}
I64s == {M("1"), P("2147483647"), P("2147483648"), M("2147483648"), M("2147483649"),
         P("9223372036854775807"), M("9223372036854775808")} \cup (IF Rich THEN {P("0"), P("4294967296")} ELSE {})
U64s == {P("0"), P("2147483647"), P("2147483648"), P("18446744073709551615")}
         \cup (IF Rich THEN {P("4294967296"), P("9223372036854775808")} ELSE {})
FinFloats == {Fl(FALSE, "0", "5"), Fl(TRUE, "2", "25"), Fl(FALSE, "1024", "")}
             \cup (IF Rich THEN {Fl(FALSE, "0", ""), Fl(FALSE, "1", "5"), Fl(TRUE, "0", "125"), Fl(FALSE, "16777216", "")} ELSE {})
Floats == FinFloats \cup {NaN, Inf(FALSE), Inf(TRUE)}
Tags == {T(8, 24), T(32736, 16), T(43981, 239), T(0, 0)}
U8s == {P("0"), P("1"), P("128"), P("255")}

ISStrs == {"5", "-12", "+007", ""}
DSStrs == {"0.50", "-1.5E+2", "160.000 ", ""}

One(vr, rep, A, lo, hi) == {El(TagOf(vr).g, TagOf(vr).e, vr, rep, v) : v \in Seqs(A, lo, hi)}
Empty(vr) == {El(TagOf(vr).g, TagOf(vr).e, vr, "empty", <<>>)}

VRElems ==
  UNION {Empty(vr) : vr \in MultiTextVRs \cup SingleTextVRs \cup NumVRs \cup NumStrVRs \cup BinVRs \cup {"AT", "SQ"}}
  \cup UNION {One(vr, "strs", TextAlpha(vr), 1, MaxMult) \cup One(vr, "str", TextAlpha(vr), 1, 1) : vr \in MultiTextVRs}
  \cup UNION {One(vr, "str", SingleText, 1, 1) \cup One(vr, "strs", SingleText \ {"a\\b with a backslash"}, 1, 1) : vr \in SingleTextVRs}
  \cup One("IS", "strs", ISStrs, 1, MaxMult) \cup One("IS", "i32", I32s, 1, MaxMult) \cup One("IS", "str", ISStrs, 1, 1)
  \cup One("DS", "strs", DSStrs, 1, MaxMult) \cup One("DS", "f64", FinFloats, 1, MaxMult)
  \cup One("DS", "i32", I32s, 1, 1) \cup One("DS", "str", DSStrs, 1, 1)
  \cup One("SL", "i32", I32s, 1, MaxMult) \cup One("SS", "i16", I16s, 1, MaxMult)
  \cup One("UL", "u32", U32s, 1, MaxMult) \cup One("US", "u16", U16s, 1, MaxMult)
  \cup One("SV", "i64", I64s, 1, MaxMult) \cup One("UV", "u64", U64s, 1, MaxMult)
  \cup One("FL", "f32", Floats, 1, MaxMult) \cup One("FD", "f64", Floats, 1, MaxMult)
  \cup One("AT", "tags", Tags, 1, MaxMult)
  \cup One("OB", "u8", U8s, 1, MaxMult + 1) \cup One("UN", "u8", U8s, 1, MaxMult + 1)
  \cup One("OW", "u16", U16s, 1, MaxMult) \cup One("OW", "u8", U8s, 2, 2)
  \cup One("OL", "u32", U32s, 1, MaxMult) \cup One("OL", "u8", U8s, 4, 4)
  \cup One("OV", "u64", U64s, 1, MaxMult) \cup One("OF", "f32", Floats, 1, MaxMult)
  \cup One("OD", "f64", Floats, 1, MaxMult)

(* long binary values: lengths 3k, 3k+1, 3k+2 around 1024, 4096, 8192, 12288 *)
(* and 65536 bytes, given by the rule byte i = (a*i + b) mod 256             *)
Pat(n, a, b) == [n |-> n, a |-> a, b |-> b]
Long(vr, rep, n, a, b) == El(TagOf(vr).g, TagOf(vr).e, vr, rep, <<Pat(n, a, b)>>)
LongBin ==
  {Long("OB", "pat8", n, 37, 11) : n \in {1022, 1023, 1024, 1025, 3073, 4095, 4096, 4097, 4098, 8192, 8193, 12289, 65537}}
  \cup {Long("UN", "pat8", n, 101, 250) : n \in {4097, 8194, 65537}}
  \cup {Long("OW", "pat16", n, 257, 3) : n \in {512, 513, 2049, 4097}}
  \cup {Long("OW", "pat8", n, 1, 0) : n \in {4098, 65538}}
  \cup {Long("OF", "pat8", n, 255, 1) : n \in {4100, 8196, 65540}}
  \cup {Long("OD", "pat8", n, 3, 128) : n \in {4104, 12296}}
  \cup {Long("OL", "pat8", n, 17, 0) : n \in {4100}} \cup {Long("OV", "pat8", n, 19, 5) : n \in {8200}}
(* structure sweep *)
Leaves == {El(16, 16, "PN", "strs", <<"Doe^John">>), El(40, 16, "US", "u16", <<P("512")>>),
           El(32, 20480, "AT", "tags", <<T(8, 24)>>), El(66, 17, "OB", "u8", <<P("1"), P("2"), P("3")>>),
           El(8, 128, "LO", "empty", <<>>), El(8, 24, "UI", "str", <<"1.2.3">>)}
Orders(S) == {s \in [1..Cardinality(S) -> S] : \A i, j \in 1..Cardinality(S) : i # j => s[i] # s[j]}
LeafSets(k) == UNION {Orders(S) : S \in {X \in SUBSET Leaves : Cardinality(X) <= k}}
SQ(g, e, items) == El(g, e, "SQ", "items", items)
LongCases == {<<el>> : el \in LongBin}
             \cup {<<SQ(8, 4416, <<<<Long("OB", "pat8", 4097, 7, 1)>>, <<Long("OW", "pat8", 4100, 9, 2)>>>>), Long("UN", "pat8", 5000, 3, 3)>>}
Inner == {<<>>, <<El(8, 4432, "UI", "strs", <<"1.2.840.10008.5.1.4.1.1.7">>)>>,
          <<El(8, 4437, "UI", "strs", <<"1.2.3.4">>), El(8, 4432, "UI", "strs", <<"1.2">>)>>}
Items1 == LeafSets(1) \cup {<<El(40, 16, "US", "u16", <<P("512")>>), El(16, 16, "PN", "strs", <<"Doe^John">>)>>}
          \cup {<<SQ(64, 42800, it)>> : it \in Seqs(Inner, 0, 2)}                       \* (0040,A730)
          \cup {<<SQ(64, 42800, <<i>>), El(8, 256, "SH", "strs", <<"CODE">>)>> : i \in Inner}
StructCases ==
  LeafSets(3)
  \cup {<<SQ(8, 4416, it)>> : it \in Seqs(Items1, 0, 2)}                                 \* (0008,1140)
  \cup {<<El(32736, 16, "OW", "u16", <<P("258")>>), SQ(8, 4416, <<i>>), El(8, 24, "UI", "str", <<"1.2.3">>)>> : i \in Items1}
  \cup {<<SQ(21504, 256, <<i>>), SQ(8, 4416, <<i, i>>)>> : i \in Items1}                \* (5400,0100) before (0008,1140)
  \cup {<<SQ(8, 4416, <<<<El(16, 16, "PN", "strs", v)>>>>)>> : v \in {<<"">>, <<"Smith^Anna", "", "Jones^Bob">>, <<"", "A^B">>, <<"A^B", "">>}}
  \cup {<<SQ(8, 4416, <<<<El(16, 16, "PN", "str", <<"">>), El(8, 128, "LO", "strs", <<"", "x">>)>>>>)>>}
  \cup {<<SQ(8, 4416, <<<<El(24, 4400, "DS", "strs", v), El(32, 19, "IS", "strs", w)>>>>)>> :
           v \in {<<"1.5", "", "-2.25">>, <<"">>}, w \in {<<"", "7">>, <<"7", "">>}}

Cases == IF Part = "vr" THEN {<<el>> : el \in VRElems} \cup LongCases ELSE IF Part = "struct" THEN StructCases
         ELSE {<<el>> : el \in VRElems} \cup StructCases \cup LongCases

(* One behaviour-free "state machine": the work is done when TLC evaluates  *)
(* the assumption below (operator arguments and LET definitions are cached  *)
(* at constant level, which is much faster than an invariant over one       *)
(* initial state per case).  The test vectors of DicomJsonVectors are       *)
(* assumptions of this module too, so one TLC run checks the vectors,       *)
(* checks the specification against itself on every case, and prints the    *)
(* cases.                                                                   *)
Init == c = 0
Next == UNCHANGED c
Spec == Init /\ [][Next]_c

(* the specification checked against itself: the implementation-shaped      *)
(* operators satisfy the property-level ones                                *)
SelfConsistentCase(d, sh, nj) == /\ DistinctTags(d)
                                 /\ Conforms(d, sh)
                                 /\ SameDs(d, nj)
                                 /\ NormJson(nj) = nj
Case(d) == LET sh == Shape(d)
               nj == NormJson(d)
           IN /\ PrintT(<<"CASE", ToJson([ds |-> d, shape |-> sh, norm |-> nj])>>)
              /\ SelfConsistentCase(d, sh, nj) \/ Print(<<"INCONSISTENT", d>>, FALSE)
ASSUME \A d \in Cases : Case(d)
=============================================================================
