--------------------------- MODULE Trace_DicomJson ---------------------------
(***************************************************************************)
(* Trace validator for C23 / C24.  Every line of the ndjson file is one    *)
(* independent event recorded from the real code:                          *)
(*   {ev:"case", ds, ser, shape, rt, rtds, ...}                            *)
(*       ds     the abstract data set that was built in memory             *)
(*       ser    "ok" | "err" | "panic"   outcome of dicom_json::to_string  *)
(*       shape  the JSON text re-read by a generic JSON parser as a        *)
(*              neutral tree ([t |-> "none"] when there is no text)        *)
(*       rt     "ok" | "err" | "panic"   outcome of from_str on that text  *)
(*       rtds   the data set that came back, projected ( <<>> if none)     *)
(*   {ev:"parse", res, ...}  from_str on an arbitrary / mutated document:  *)
(*       res    "ok" | "err" | "panic" | "hang"                            *)
(* Mode = "shape": a case event is good iff Conforms(ds, shape)      (C24) *)
(* Mode = "rt"   : a case event is good iff SameDs(ds, rtds)         (C23) *)
(* a parse event is good iff the call returned (Ok or Err).                *)
(* Events are independent (pure functions), so a bad event does not stop   *)
(* the validation: it is consumed by TBad, which prints                    *)
(*    <<"BADCASE", line, ToJson(diagnosis)>>                               *)
(* and the check turns every such line into a violation.  Acceptance of    *)
(* the whole file (all lines consumed) uses the TLCSet/Track/Accepted      *)
(* idiom of Trace_PData.                                                   *)
(***************************************************************************)
EXTENDS DicomJson, Json, IOUtils

CONSTANT Mode
Rec == ndJsonDeserialize(IOEnv.TRACE)
VARIABLE l

ShapeOK(r) == r.ser = "ok" /\ Conforms(r.ds, r.shape)
RtOK(r) == r.ser = "ok" /\ r.rt = "ok" /\ SameDs(r.ds, r.rtds)
ParseOK(r) == r.res \in {"ok", "err"}

Good(r) == CASE r.ev = "case" /\ Mode = "shape" -> ShapeOK(r)
             [] r.ev = "case" /\ Mode = "rt" -> RtOK(r)
             [] r.ev = "parse" -> ParseOK(r)
             [] OTHER -> FALSE
Diagnosis(r) == CASE r.ev = "case" /\ Mode = "shape" -> IF r.ser # "ok" THEN {"ser:" \o r.ser} ELSE BadParts(r.ds, r.shape)
                  [] r.ev = "case" /\ Mode = "rt" ->
                       IF r.ser # "ok" THEN {"ser:" \o r.ser} ELSE IF r.rt # "ok" THEN {"rt:" \o r.rt} ELSE DiffVRs(r.ds, r.rtds)
                  [] r.ev = "parse" -> {"parse:" \o r.res}
                  [] OTHER -> {"unknown event"}

(* The verdict of every event is a constant-level definition: TLC caches   *)
(* operator arguments only at constant level, which makes the judgement of *)
(* a large data set some 300 times faster than inside an action (measured).*)
Verdict == [i \in 1..Len(Rec) |-> Good(Rec[i])]
Diag == [i \in 1..Len(Rec) |-> IF Verdict[i] THEN {} ELSE Diagnosis(Rec[i])]

TInit == l = 1 /\ TLCSet(1, 1)
TGood == l <= Len(Rec) /\ Verdict[l] /\ l' = l + 1
TBad == l <= Len(Rec) /\ ~Verdict[l] /\ PrintT(<<"BADCASE", l, ToJson(Diag[l])>>) /\ l' = l + 1
TNext == TGood \/ TBad
TSpec == TInit /\ [][TNext]_l

Track == TLCSet(1, IF l > TLCGet(1) THEN l ELSE TLCGet(1))
Accepted == IF TLCGet(1) = Len(Rec) + 1 THEN TRUE
            ELSE Print(<<"REJECTED", TLCGet(1), ToJson(Rec[TLCGet(1)])>>, FALSE)
=============================================================================
