CONSTANTS Part = "all" MaxMult = 3 Rich = TRUE Check = FALSE
SPECIFICATION Spec
CHECK_DEADLOCK FALSE
