CONSTANTS Part = "all" MaxMult = 4 Rich = TRUE
SPECIFICATION Spec
CHECK_DEADLOCK FALSE
