CONSTANTS Part = "all" MaxMult = 3 Rich = TRUE
SPECIFICATION Spec
INVARIANT Emit
CHECK_DEADLOCK FALSE
