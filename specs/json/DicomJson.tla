------------------------------ MODULE DicomJson ------------------------------
(***************************************************************************)
(* The DICOM JSON Model of PS3.18 Annex F as TLA+ operators (C23, C24).    *)
(*                                                                         *)
(* Abstract data set: a sequence of elements with pairwise distinct tags   *)
(* (in *insertion* order, any order), each                                 *)
(*     [g, e : 0..65535, vr : STRING, rep : STRING, vals : Seq(..)]        *)
(* `rep` says how the value is held in memory (this is what a DICOM        *)
(* library hands to a JSON serialiser):                                    *)
(*   "empty"            no value (zero length)           vals = <<>>       *)
(*   "strs"             character strings, one per value                   *)
(*   "str"              exactly one character string (single-valued text)  *)
(*   "u8" "u16" "i16" "i32" "u32" "i64" "u64"   binary integers, as Num    *)
(*   "f32" "f64"        binary floats, as Num                              *)
(*   "tags"             attribute tags [g, e]                              *)
(*   "items"            sequence items: vals is a sequence of data sets    *)
(*   "pat8" "pat16"     a long run of 8/16-bit unsigned integers given by  *)
(*                      a rule: vals = << [n, a, b] >>, value number i     *)
(*                      (from 0) is (a*i + b) mod 256 / mod 65536          *)
(*   "u8c"              bytes as plain integers 0..255 (long byte values)  *)
(*   "b64"              a long byte value (more than 256 bytes) named by   *)
(*                      its RFC 4648 base64 text: vals = << text >>; used  *)
(*                      only for values that come back from the code       *)
(* Num == [sp, neg, int, frac]: a decimal number in canonical form:        *)
(*   sp = "" finite: value = (-1)^neg * int.frac, `int` without leading    *)
(*   zeros ("0" for zero), `frac` without trailing zeros, zero not neg;    *)
(*   sp = "nan", sp = "inf" (with neg) are the non-finite floats.          *)
(* Numbers are decimal digit strings because TLC integers are 32-bit.      *)
(*                                                                         *)
(* Neutral JSON tree (what any JSON parser sees, members in text order):   *)
(*   [t |-> "obj", m |-> << [k |-> name, v |-> node], ... >>]              *)
(*   [t |-> "arr", a |-> << node, ... >>]                                  *)
(*   [t |-> "str", s |-> string]      [t |-> "num", n |-> Num]             *)
(*   [t |-> "true"], [t |-> "false"], [t |-> "null"]                       *)
(*                                                                         *)
(* Operators:                                                              *)
(*   Shape(ds)        the JSON tree the mapping prescribes, with the       *)
(*                    choices Annex F leaves open fixed the way dicom-rs   *)
(*                    documents them (implementation-shaped; a difference  *)
(*                    here is "drift")                                     *)
(*   Conforms(ds, j)  property level (C24): j is an Annex F rendering of   *)
(*                    ds; accepts every choice Annex F / C24 leaves open   *)
(*   NormJson(ds)     the data set expected back from serialise +          *)
(*                    deserialise (implementation-shaped)                  *)
(*   SameDs(a, b)     property level (C23): equal up to the documented     *)
(*                    normalisations                                       *)
(***************************************************************************)
EXTENDS Naturals, Sequences, TLC

Ch(s, i) == SubSeq(s, i, i)
Drop(s, k) == SubSeq(s, k + 1, Len(s))          \* works on strings and sequences

Digits == "0123456789"
DigitSet == {"0", "1", "2", "3", "4", "5", "6", "7", "8", "9"}
DV == ("0" :> 0) @@ ("1" :> 1) @@ ("2" :> 2) @@ ("3" :> 3) @@ ("4" :> 4) @@ ("5" :> 5) @@ ("6" :> 6)
      @@ ("7" :> 7) @@ ("8" :> 8) @@ ("9" :> 9)
DVal(c) == DV[c]
DChr(i) == Ch(Digits, i + 1)

HexD == "0123456789ABCDEF"
Hex4(n) == Ch(HexD, (n \div 4096) + 1) \o Ch(HexD, ((n \div 256) % 16) + 1)
           \o Ch(HexD, ((n \div 16) % 16) + 1) \o Ch(HexD, (n % 16) + 1)
Hex8(g, e) == Hex4(g) \o Hex4(e)

---------------------------------------------------------------------------
(* VR classes of PS3.18 Table F.2.3-1 *)
TextVRs   == {"AE", "AS", "CS", "DA", "DT", "LO", "LT", "SH", "ST", "TM", "UC", "UI", "UR", "UT"}
NumVRs    == {"FL", "FD", "SL", "SS", "UL", "US"}          \* always JSON numbers
NumStrVRs == {"IS", "DS", "SV", "UV"}                      \* JSON number or numeric string
BinVRs    == {"OB", "OD", "OF", "OL", "OV", "OW", "UN"}    \* InlineBinary
IntReps   == {"u8", "u16", "i16", "i32", "u32", "i64", "u64"}
FltReps   == {"f32", "f64"}
LongReps  == {"pat8", "pat16", "u8c"}
Width(rep) == CASE rep = "u8" -> 1 [] rep \in {"u16", "i16"} -> 2 [] rep \in {"i32", "u32", "f32"} -> 4
                [] rep \in {"i64", "u64", "f64"} -> 8

---------------------------------------------------------------------------
(* strings *)
RECURSIVE StripPad(_)
StripPad(s) == IF Len(s) > 0 /\ Ch(s, Len(s)) = " " THEN StripPad(SubSeq(s, 1, Len(s) - 1)) ELSE s
RECURSIVE StripLead(_, _)
StripLead(s, c) == IF Len(s) > 0 /\ Ch(s, 1) = c THEN StripLead(Drop(s, 1), c) ELSE s
RECURSIVE StripTrail(_, _)
StripTrail(s, c) == IF Len(s) > 0 /\ Ch(s, Len(s)) = c THEN StripTrail(SubSeq(s, 1, Len(s) - 1), c) ELSE s
RECURSIVE AllDigits(_)
AllDigits(s) == Len(s) = 0 \/ (Ch(s, 1) \in DigitSet /\ AllDigits(Drop(s, 1)))
RECURSIVE IndexOf(_, _, _)          \* first i >= from with Ch(s,i) \in cs, else 0
IndexOf(s, cs, from) == IF from > Len(s) THEN 0 ELSE IF Ch(s, from) \in cs THEN from ELSE IndexOf(s, cs, from + 1)
RECURSIVE Zeros(_)
Zeros(k) == IF k <= 0 THEN "" ELSE "0" \o Zeros(k - 1)

---------------------------------------------------------------------------
(* decimal numbers *)
MkNum(neg, int, frac) ==
  LET i == StripLead(int, "0")  f == StripTrail(frac, "0")
      ii == IF i = "" THEN "0" ELSE i
  IN [sp |-> "", neg |-> (neg /\ ~(ii = "0" /\ f = "")), int |-> ii, frac |-> f]
IntNum(neg, digits) == MkNum(neg, digits, "")
IsNum(n) == n.sp = ""
IsIntNum(n) == n.sp = "" /\ n.frac = ""

(* plain decimal text of a finite number (no exponent) *)
PlainText(n) == (IF n.neg THEN "-" ELSE "") \o n.int \o (IF n.frac = "" THEN "" ELSE "." \o n.frac)

RECURSIVE SmallInt(_, _)            \* value of a short digit string
SmallInt(s, acc) == IF s = "" THEN acc ELSE SmallInt(Drop(s, 1), acc * 10 + DVal(Ch(s, 1)))

(* ParseDec: the number denoted by a decimal string of the DS/IS repertoire *)
(* [ ]*[+-]?digits[.digits]?([eE][+-]?digits)?[ ]*  ; anything else denotes *)
(* only itself ([sp |-> "bad", int |-> the text]).                          *)
ParseDec(str) ==
  LET s0 == StripPad(StripLead(str, " "))
      neg == Len(s0) > 0 /\ Ch(s0, 1) = "-"
      s1 == IF Len(s0) > 0 /\ Ch(s0, 1) \in {"+", "-"} THEN Drop(s0, 1) ELSE s0
      ie == IndexOf(s1, {"e", "E"}, 1)
      mant == IF ie = 0 THEN s1 ELSE SubSeq(s1, 1, ie - 1)
      ex0 == IF ie = 0 THEN "" ELSE Drop(s1, ie)
      eneg == Len(ex0) > 0 /\ Ch(ex0, 1) = "-"
      ex1 == IF Len(ex0) > 0 /\ Ch(ex0, 1) \in {"+", "-"} THEN Drop(ex0, 1) ELSE ex0
      ip == IndexOf(mant, {"."}, 1)
      int == IF ip = 0 THEN mant ELSE SubSeq(mant, 1, ip - 1)
      frac == IF ip = 0 THEN "" ELSE Drop(mant, ip)
      ok == /\ AllDigits(int) /\ AllDigits(frac) /\ Len(int) + Len(frac) > 0
            /\ (ie = 0 \/ (Len(ex1) \in 1..3 /\ AllDigits(ex1)))
      k == IF ie = 0 THEN 0 ELSE SmallInt(ex1, 0)
      bad == [sp |-> "bad", neg |-> FALSE, int |-> str, frac |-> ""]
  IN IF ~ok THEN bad
     ELSE IF k = 0 THEN MkNum(neg, int, frac)
     ELSE IF ~eneg THEN
        (* shift the point k places to the right *)
        LET f2 == frac \o Zeros(k - Len(frac))
        IN MkNum(neg, int \o SubSeq(f2, 1, k), Drop(f2, k))
     ELSE
        LET i2 == Zeros(k - Len(int)) \o int
        IN MkNum(neg, SubSeq(i2, 1, Len(i2) - k), Drop(i2, Len(i2) - k) \o frac)

(* a <= b for digit strings without leading zeros *)
RECURSIVE LexLeq(_, _)
LexLeq(a, b) == IF a = "" THEN TRUE
                ELSE IF DVal(Ch(a, 1)) < DVal(Ch(b, 1)) THEN TRUE
                ELSE IF DVal(Ch(a, 1)) > DVal(Ch(b, 1)) THEN FALSE
                ELSE LexLeq(Drop(a, 1), Drop(b, 1))
DecLeq(a, b) == Len(a) < Len(b) \/ (Len(a) = Len(b) /\ LexLeq(a, b))
FitsI32(n) == IsIntNum(n) /\ (IF n.neg THEN DecLeq(n.int, "2147483648") ELSE DecLeq(n.int, "2147483647"))

---------------------------------------------------------------------------
(* little-endian two's complement bytes of an integer given in decimal *)
RECURSIVE DivD(_, _, _)             \* long division of a digit string by 256
DivD(s, rem, q) == IF s = "" THEN [q |-> q, r |-> rem]
                   ELSE LET cur == rem * 10 + DVal(Ch(s, 1))
                        IN DivD(Drop(s, 1), cur % 256, q \o DChr(cur \div 256))
RECURSIVE LEU(_, _)
LEU(s, w) == IF w = 0 THEN <<>> ELSE LET d == DivD(s, 0, "") IN <<d.r>> \o LEU(d.q, w - 1)
RECURSIVE Inc(_)
Inc(b) == IF b = <<>> THEN <<>> ELSE IF b[1] = 255 THEN <<0>> \o Inc(Tail(b)) ELSE <<b[1] + 1>> \o Tail(b)
LEInt(n, w) == LET u == LEU(n.int, w) IN IF n.neg THEN Inc([i \in 1..w |-> 255 - u[i]]) ELSE u

(* IEEE 754 binary32 / binary64 encodings (little-endian bytes) of the floats *)
(* the generators use; written from the standard's definition               *)
(* (sign, biased exponent, fraction).                                        *)
FKey(n) == n.sp \o (IF n.neg THEN "-" ELSE "") \o (IF n.sp = "" THEN n.int \o "." \o n.frac ELSE "")
F32LE == [k \in {"0.", "0.5", "1.5", "-2.25", "1024.", "-0.125", "16777216.", "inf", "inf-", "nan"} |->
   CASE k = "0."        -> <<0, 0, 0, 0>>
     [] k = "0.5"       -> <<0, 0, 0, 63>>          \* 3F000000
     [] k = "1.5"       -> <<0, 0, 192, 63>>        \* 3FC00000
     [] k = "-2.25"     -> <<0, 0, 16, 192>>        \* C0100000
     [] k = "1024."     -> <<0, 0, 128, 68>>        \* 44800000
     [] k = "-0.125"    -> <<0, 0, 0, 190>>         \* BE000000
     [] k = "16777216." -> <<0, 0, 128, 75>>        \* 4B800000
     [] k = "inf"       -> <<0, 0, 128, 127>>       \* 7F800000
     [] k = "inf-"      -> <<0, 0, 128, 255>>       \* FF800000
     [] k = "nan"       -> <<0, 0, 192, 127>>]      \* 7FC00000 (quiet NaN, zero payload)
F64LE == [k \in DOMAIN F32LE |->
   CASE k = "0."        -> <<0, 0, 0, 0, 0, 0, 0, 0>>
     [] k = "0.5"       -> <<0, 0, 0, 0, 0, 0, 224, 63>>     \* 3FE0...
     [] k = "1.5"       -> <<0, 0, 0, 0, 0, 0, 248, 63>>     \* 3FF8...
     [] k = "-2.25"     -> <<0, 0, 0, 0, 0, 0, 2, 192>>      \* C002...
     [] k = "1024."     -> <<0, 0, 0, 0, 0, 0, 144, 64>>     \* 4090...
     [] k = "-0.125"    -> <<0, 0, 0, 0, 0, 0, 192, 191>>    \* BFC0...
     [] k = "16777216." -> <<0, 0, 0, 0, 0, 0, 112, 65>>     \* 4170...
     [] k = "inf"       -> <<0, 0, 0, 0, 0, 0, 240, 127>>    \* 7FF0...
     [] k = "inf-"      -> <<0, 0, 0, 0, 0, 0, 240, 255>>    \* FFF0...
     [] k = "nan"       -> <<0, 0, 0, 0, 0, 0, 248, 127>>]   \* 7FF8...
KnownFloat(n) == FKey(n) \in DOMAIN F32LE

RECURSIVE Flat(_)
Flat(ss) == IF ss = <<>> THEN <<>> ELSE Head(ss) \o Flat(Tail(ss))

(* the value of a binary-VR element as little-endian bytes *)
BytesOf(el) ==
  IF el.rep = "empty" THEN <<>>
  ELSE IF el.rep = "u8" THEN [i \in 1..Len(el.vals) |-> LEInt(el.vals[i], 1)[1]]
  ELSE IF el.rep \in IntReps THEN Flat([i \in 1..Len(el.vals) |-> LEInt(el.vals[i], Width(el.rep))])
  ELSE IF el.rep = "f32" THEN Flat([i \in 1..Len(el.vals) |-> F32LE[FKey(el.vals[i])]])
  ELSE IF el.rep = "f64" THEN Flat([i \in 1..Len(el.vals) |-> F64LE[FKey(el.vals[i])]])
  ELSE IF el.rep = "u8c" THEN el.vals
  ELSE IF el.rep = "pat8" THEN LET p == el.vals[1] IN [i \in 1..p.n |-> (p.a * (i - 1) + p.b) % 256]
  ELSE IF el.rep = "pat16" THEN
       LET p == el.vals[1]
           V(k) == (p.a * k + p.b) % 65536
       IN [i \in 1..(2 * p.n) |-> IF i % 2 = 1 THEN V((i - 1) \div 2) % 256 ELSE V((i - 2) \div 2) \div 256]
  ELSE <<>>

(* RFC 4648 base64 with padding *)
B64A == "ABCDEFGHIJKLMNOPQRSTUVWXYZabcdefghijklmnopqrstuvwxyz0123456789+/"
B6(i) == Ch(B64A, i + 1)
(* Base64 of the n bytes of b starting at index lo.  Long inputs are split  *)
(* at a multiple of three bytes (where the encoding of the halves simply    *)
(* concatenates), so that TLC builds O(n log n) characters of intermediate  *)
(* strings instead of O(n^2).                                               *)
RECURSIVE B64R(_, _, _)
B64R(b, lo, n) ==
  IF n = 0 THEN ""
  ELSE IF n = 1 THEN B6(b[lo] \div 4) \o B6((b[lo] % 4) * 16) \o "=="
  ELSE IF n = 2 THEN B6(b[lo] \div 4) \o B6((b[lo] % 4) * 16 + b[lo + 1] \div 16) \o B6((b[lo + 1] % 16) * 4) \o "="
  ELSE IF n = 3 THEN B6(b[lo] \div 4) \o B6((b[lo] % 4) * 16 + b[lo + 1] \div 16)
                     \o B6((b[lo + 1] % 16) * 4 + b[lo + 2] \div 64) \o B6(b[lo + 2] % 64)
  ELSE LET h == 3 * ((n + 5) \div 6) IN B64R(b, lo, h) \o B64R(b, lo + h, n - h)
Base64(b) == B64R(b, 1, Len(b))

---------------------------------------------------------------------------
(* ordering by tag *)
TagLt(a, b) == a.g < b.g \/ (a.g = b.g /\ a.e < b.e)
RECURSIVE Insert(_, _)
Insert(el, s) == IF s = <<>> THEN <<el>>
                 ELSE IF TagLt(el, Head(s)) THEN <<el>> \o s ELSE <<Head(s)>> \o Insert(el, Tail(s))
RECURSIVE SortByTag(_)
SortByTag(ds) == IF ds = <<>> THEN <<>> ELSE Insert(Head(ds), SortByTag(Tail(ds)))
DistinctTags(ds) == \A i, j \in 1..Len(ds) : i # j => (ds[i].g # ds[j].g \/ ds[i].e # ds[j].e)

---------------------------------------------------------------------------
(* JSON tree constructors *)
JStr(s) == [t |-> "str", s |-> s]
JNum(n) == [t |-> "num", n |-> n]
JArr(a) == [t |-> "arr", a |-> a]
JObj(m) == [t |-> "obj", m |-> m]
Mem(k, v) == [k |-> k, v |-> v]

NonFiniteText(n) == IF n.sp = "nan" THEN "NaN" ELSE IF n.neg THEN "-inf" ELSE "inf"

(* one value of a numeric VR as dicom-rs documents it: strings stay strings, *)
(* 64-bit integers become numbers when they fit 32 bits and decimal strings  *)
(* otherwise, non-finite floats the strings NaN / inf / -inf                 *)
NumValueShape(rep, v) ==
  IF rep \in {"str", "strs"} THEN JStr(v)
  ELSE IF v.sp # "" THEN JStr(NonFiniteText(v))
  ELSE IF rep \in {"i64", "u64"} /\ ~FitsI32(v) THEN JStr(PlainText(v))
  ELSE JNum(v)

RECURSIVE Shape(_)
ElemShape(el) ==
  LET n == Len(el.vals)
      vr == Mem("vr", JStr(el.vr))
      Val(f(_)) == Mem("Value", JArr([i \in 1..n |-> f(el.vals[i])]))
  IN JObj(
     IF el.rep = "empty" THEN <<vr>>
     ELSE IF el.rep = "items" THEN <<vr, Mem("Value", JArr([i \in 1..n |-> Shape(el.vals[i])]))>>
     ELSE IF el.vr \in BinVRs THEN <<vr, Mem("InlineBinary", JStr(Base64(BytesOf(el))))>>
     ELSE IF el.vr = "PN" THEN <<vr, Val(LAMBDA v : JObj(<<Mem("Alphabetic", JStr(StripPad(v)))>>))>>
     ELSE IF el.vr = "AT" THEN <<vr, Val(LAMBDA v : JStr(Hex8(v.g, v.e)))>>
     ELSE IF el.vr \in TextVRs THEN <<vr, Val(LAMBDA v : JStr(StripPad(v)))>>
     ELSE <<vr, Val(LAMBDA v : NumValueShape(el.rep, v))>>)
Shape(ds) == LET s == SortByTag(ds) IN JObj([i \in 1..Len(s) |-> Mem(Hex8(s[i].g, s[i].e), ElemShape(s[i]))])

---------------------------------------------------------------------------
(* Property level (C24).  Member lookup in a JSON object node.              *)
Members(j, name) == {i \in 1..Len(j.m) : j.m[i].k = name}
Has(j, name) == Members(j, name) # {}
Get(j, name) == j.m[CHOOSE i \in Members(j, name) : TRUE].v
IsStrNode(j, s) == j.t = "str" /\ j.s = s
IsNumNode(j, n) == j.t = "num" /\ j.n = n

(* the number an in-memory value of a numeric VR denotes *)
Denot(rep, v) == IF rep \in {"str", "strs"} THEN ParseDec(v) ELSE v

PNJoin(j) ==     \* the PN value an Annex F person-name object stands for
  LET g(name) == IF Has(j, name) /\ Get(j, name).t = "str" THEN Get(j, name).s ELSE ""
  IN StripTrail(g("Alphabetic") \o "=" \o g("Ideographic") \o "=" \o g("Phonetic"), "=")

ValueConforms(el, v, j) ==
  IF el.vr = "PN" /\ j.t = "null" THEN StripPad(v) = ""
  ELSE IF el.vr = "PN" THEN
       /\ j.t = "obj" /\ Has(j, "Alphabetic") /\ Get(j, "Alphabetic").t = "str"
       /\ \A i \in 1..Len(j.m) : j.m[i].k \in {"Alphabetic", "Ideographic", "Phonetic"}
       /\ \/ (IsStrNode(Get(j, "Alphabetic"), StripPad(v)) /\ Len(j.m) = 1)
          \/ PNJoin(j) = StripTrail(StripPad(v), "=")
  ELSE IF el.vr = "AT" THEN IsStrNode(j, Hex8(v.g, v.e))
  ELSE IF el.vr \in TextVRs THEN (j.t = "str" /\ StripPad(j.s) = StripPad(v)) \/ (j.t = "null" /\ StripPad(v) = "")
  ELSE IF el.vr \in {"FL", "FD"} THEN
       IF Denot(el.rep, v).sp = "" THEN IsNumNode(j, Denot(el.rep, v))
       ELSE IsStrNode(j, NonFiniteText(v))
  ELSE IF el.vr \in NumVRs THEN IsNumNode(j, Denot(el.rep, v))
  ELSE IF el.vr \in NumStrVRs THEN
       \/ IsNumNode(j, Denot(el.rep, v))
       \/ j.t = "str" /\ ParseDec(j.s) = Denot(el.rep, v)
       \/ j.t = "str" /\ el.rep \in {"str", "strs"} /\ StripPad(j.s) = StripPad(v)
       \/ j.t = "null" /\ el.rep \in {"str", "strs"} /\ StripPad(v) = ""      \* F.2.5: an empty value may be null
  ELSE FALSE

RECURSIVE Conforms(_, _)
(* the element object itself: allowed members, each once, the vr member *)
ElemHead(el, j) ==
  /\ j.t = "obj"
  /\ \A i \in 1..Len(j.m) : j.m[i].k \in {"vr", "Value", "InlineBinary", "BulkDataURI"}
  /\ \A i, k \in 1..Len(j.m) : j.m[i].k = j.m[k].k => i = k
  /\ Has(j, "vr") /\ IsStrNode(Get(j, "vr"), el.vr)
  /\ ~Has(j, "BulkDataURI")
(* a sequence with as many JSON items as the element has *)
ItemsFrame(el, j) == /\ el.rep = "items" /\ ~Has(j, "InlineBinary") /\ Has(j, "Value")
                     /\ Get(j, "Value").t = "arr" /\ Len(Get(j, "Value").a) = Len(el.vals)
ElemBody(el, j) ==
  LET n == Len(el.vals) IN
     IF el.rep = "empty" THEN ~Has(j, "Value") /\ ~Has(j, "InlineBinary")
     ELSE IF el.rep = "items" THEN
          \/ n = 0 /\ ~Has(j, "Value") /\ ~Has(j, "InlineBinary")
          \/ ItemsFrame(el, j) /\ LET a == Get(j, "Value").a IN \A i \in 1..n : Conforms(el.vals[i], a[i])
     ELSE IF el.vr \in BinVRs THEN
          /\ ~Has(j, "Value") /\ Has(j, "InlineBinary")
          /\ IsStrNode(Get(j, "InlineBinary"), Base64(BytesOf(el)))
     ELSE /\ ~Has(j, "InlineBinary") /\ Has(j, "Value")
          /\ LET v == Get(j, "Value") IN
             /\ v.t = "arr" /\ Len(v.a) = n
             /\ \A i \in 1..n : ValueConforms(el, el.vals[i], v.a[i])
ElemConforms(el, j) == ElemHead(el, j) /\ ElemBody(el, j)

KeysConform(s, j) == /\ j.t = "obj" /\ Len(j.m) = Len(s)
                     /\ \A i \in 1..Len(s) : j.m[i].k = Hex8(s[i].g, s[i].e)
Conforms(ds, j) == LET s == SortByTag(ds) IN
                   KeysConform(s, j) /\ \A i \in 1..Len(s) : ElemConforms(s[i], j.m[i].v)

(* diagnosis: the VRs of the innermost elements whose rendering does not *)
(* conform (for fingerprints)                                            *)
RECURSIVE BadParts(_, _)
BadElem(el, j) ==
   IF ~ElemHead(el, j) THEN {el.vr}
   ELSE IF ItemsFrame(el, j) THEN LET a == Get(j, "Value").a IN UNION {BadParts(el.vals[i], a[i]) : i \in 1..Len(el.vals)}
   ELSE IF ElemBody(el, j) THEN {} ELSE {el.vr}
BadParts(ds, j) == LET s == SortByTag(ds) IN
   IF ~KeysConform(s, j) THEN {"keys"}
   ELSE UNION {BadElem(s[i], j.m[i].v) : i \in 1..Len(s)}

---------------------------------------------------------------------------
(* Round trip (C23).                                                       *)
(* NormJson: what dicom-rs documents to come back (implementation-shaped): *)
(* strings as "strs" without trailing padding, IS/DS as numeric strings,   *)
(* binary VRs as bytes, everything else in its own binary type.            *)
U8Vals(bytes) == [i \in 1..Len(bytes) |-> IntNum(FALSE, IF bytes[i] = 0 THEN "0" ELSE
                     StripLead(DChr(bytes[i] \div 100) \o DChr((bytes[i] \div 10) % 10) \o DChr(bytes[i] % 10), "0"))]
NatRep(vr) == CASE vr = "FL" -> "f32" [] vr = "FD" -> "f64" [] vr = "SL" -> "i32" [] vr = "SS" -> "i16"
                [] vr = "UL" -> "u32" [] vr = "US" -> "u16" [] vr = "SV" -> "i64" [] vr = "UV" -> "u64"

RECURSIVE NormJson(_)
NormElem(el) ==
  LET n == Len(el.vals)
      With(rep, f(_)) == [g |-> el.g, e |-> el.e, vr |-> el.vr, rep |-> rep, vals |-> [i \in 1..n |-> f(el.vals[i])]]
  IN IF el.rep = "empty" THEN el
     ELSE IF el.rep = "items" THEN With("items", LAMBDA v : NormJson(v))
     ELSE IF el.vr \in BinVRs THEN
          IF el.rep = "b64" THEN el ELSE
          LET bytes == BytesOf(el) IN
          IF bytes = <<>> THEN [el EXCEPT !.rep = "empty", !.vals = <<>>]
          ELSE IF Len(bytes) > 256 THEN [el EXCEPT !.rep = "b64", !.vals = <<Base64(bytes)>>]
          ELSE [el EXCEPT !.rep = "u8", !.vals = U8Vals(bytes)]
     ELSE IF el.vr = "AT" THEN el
     ELSE IF el.vr \in TextVRs \cup {"PN"} THEN With("strs", LAMBDA v : StripPad(v))
     ELSE IF el.vr \in {"IS", "DS"} THEN
          With("strs", LAMBDA v : IF el.rep \in {"str", "strs"} THEN v ELSE PlainText(v))
     ELSE With(NatRep(el.vr), LAMBDA v : Denot(el.rep, v))
NormJson(ds) == LET s == SortByTag(ds) IN [i \in 1..Len(s) |-> NormElem(s[i])]

(* Property level: the abstract value of an element, forgetting how it is  *)
(* held in memory: trailing padding, numeric strings vs numbers for IS/DS, *)
(* typed binary vs bytes, integer width.                                   *)
RECURSIVE AbsDs(_)
AbsElem(el) ==
  LET n == Len(el.vals)
      Mk(kind, vals) == [g |-> el.g, e |-> el.e, vr |-> el.vr, kind |-> kind, vals |-> vals]
      Map(f(_)) == [i \in 1..n |-> f(el.vals[i])]
  IN IF el.rep = "empty" \/ n = 0 THEN Mk("none", <<>>)
     ELSE IF el.rep = "items" THEN Mk("items", Map(LAMBDA v : AbsDs(v)))
     ELSE IF el.rep = "tags" THEN Mk("tags", el.vals)
     ELSE IF el.rep = "b64" THEN Mk("b64", el.vals)
     ELSE IF el.rep \in LongReps \/ (el.vr \in BinVRs /\ el.rep \in IntReps \cup FltReps) THEN
          (* long byte values are compared through their base64 text (injective) *)
          LET bytes == BytesOf(el) IN IF Len(bytes) > 256 THEN Mk("b64", <<Base64(bytes)>>) ELSE Mk("bytes", bytes)
     ELSE IF el.rep \in {"str", "strs"} THEN
          (* one value that is blank is a zero-length value *)
          IF n = 1 /\ StripPad(el.vals[1]) = "" THEN Mk("none", <<>>)
          ELSE IF el.vr \in NumStrVRs \cup NumVRs THEN Mk("num", Map(LAMBDA v : ParseDec(v)))
          ELSE Mk("text", Map(LAMBDA v : StripPad(v)))
     ELSE Mk("num", el.vals)
AbsDs(ds) == LET s == SortByTag(ds) IN [i \in 1..Len(s) |-> AbsElem(s[i])]

RECURSIVE SameAbs(_, _)
SameAbsElem(a, b) == /\ a.g = b.g /\ a.e = b.e /\ a.vr = b.vr /\ a.kind = b.kind /\ Len(a.vals) = Len(b.vals)
                     /\ IF a.kind = "items" THEN \A i \in 1..Len(a.vals) : SameAbs(a.vals[i], b.vals[i])
                        ELSE a.vals = b.vals
SameAbs(x, y) == Len(x) = Len(y) /\ \A i \in 1..Len(x) : SameAbsElem(x[i], y[i])
SameDs(a, b) == SameAbs(AbsDs(a), AbsDs(b))

(* diagnosis: VRs of the innermost elements that differ *)
RECURSIVE DiffAbs(_, _)
DiffElem(a, b) ==
   IF SameAbsElem(a, b) THEN {}
   ELSE IF a.g = b.g /\ a.e = b.e /\ a.kind = "items" /\ b.kind = "items" /\ Len(a.vals) = Len(b.vals)
        THEN UNION {DiffAbs(a.vals[i], b.vals[i]) : i \in 1..Len(a.vals)}
   ELSE {a.vr}
DiffAbs(x, y) == IF Len(x) # Len(y) THEN {"element count"} ELSE UNION {DiffElem(x[i], y[i]) : i \in 1..Len(x)}
DiffVRs(a, b) == DiffAbs(AbsDs(a), AbsDs(b))
=============================================================================
