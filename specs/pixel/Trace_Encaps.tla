----------------------------- MODULE Trace_Encaps -----------------------------
(***************************************************************************)
(* Trace validator for C18.  Events:                                       *)
(*                                                                         *)
(*  "helper"    an encapsulation helper (encapsulate, encapsulate_single_  *)
(*              frame, Fragments::new + From<Vec<Fragments>>) was run on   *)
(*              the frames `frames` with fragment size `frag_size`;        *)
(*  "transcode" a native image was transcoded to transfer syntax `ts`.     *)
(*                                                                         *)
(* Both carry what the code produced: the offset table `bot`, the          *)
(* fragments `frags` (bytes), the attributes NumberOfFrames / (7FE0,0003)  *)
(* (-1 = absent), `wire` = the offset table and the item positions and     *)
(* lengths found by scanning the bytes the object writer produced, and     *)
(* `fpd` = frame_pixel_data(k) for every frame.                            *)
(*                                                                         *)
(* An event satisfies the property iff every named check of Checks holds;  *)
(* the events are independent cases, so the validator consumes every event *)
(* and prints <<"FAILED", line, names of the failed checks>> for each one   *)
(* that does not (the check turns every FAILED line into a violation).     *)
(* Frame grouping: for helpers the frame data is known, so frame f owns    *)
(* the next fragments until its bytes are covered; for transcoding the     *)
(* codec output is opaque and the (default) encoder emits one fragment per *)
(* frame, so fragments = frames is required to group (else "grouping").    *)
(***************************************************************************)
EXTENDS EncapsOps, Integers, TLC, Json, IOUtils, FiniteSets

Rec == ndJsonDeserialize(IOEnv.TRACE)

VARIABLE l
TInit == l = 1 /\ TLCSet(1, 1)
R == Rec[l]

Lens(ss) == [i \in 1..Len(ss) |-> Len(ss[i])]

(* number of leading fragments needed to cover `need` bytes, 0 if impossible *)
RECURSIVE Grp(_, _)
Grp(fl, need) == IF Len(fl) = 0 THEN 0
                 ELSE IF fl[1] >= need THEN 1
                 ELSE LET r == Grp(Tail(fl), need - fl[1]) IN IF r = 0 THEN 0 ELSE r + 1
RECURSIVE GroupsBy(_, _)
GroupsBy(fl, lens) ==
  IF Len(lens) = 0 THEN <<>>
  ELSE LET k == Grp(fl, lens[1])
       IN IF k = 0 THEN <<<<>>>>
          ELSE <<SubSeq(fl, 1, k)>> \o GroupsBy(SubSeq(fl, k + 1, Len(fl)), Tail(lens))

OneToOne(fl) == [f \in 1..Len(fl) |-> <<fl[f]>>]

(* "assembled": a hand-assembled object, the attribution of fragments to frames (r.groups, *)
(* fragment lengths per frame) and the exact offset table are part of the input           *)
GroupsOf(r) == IF r.ev = "helper" THEN GroupsBy(Lens(r.frags), Lens(r.frames))
               ELSE IF r.ev = "assembled" THEN r.groups ELSE OneToOne(Lens(r.frags))
NFrames(r) == IF r.ev = "helper" THEN Len(r.frames) ELSE IF r.ev = "assembled" THEN Len(r.groups) ELSE r.frames

GroupingOk(r) == LET g == GroupsOf(r) IN
                 /\ Len(g) = NFrames(r)
                 /\ \A f \in 1..Len(g) : Len(g[f]) >= 1
                 /\ Len(Flatten(g)) = Len(r.frags)

GroupBytes(r, g, f) == Flatten(SubSeq(r.frags, FirstFragOf(g, f), FirstFragOf(g, f) + Len(g[f]) - 1))
IsPadded(x, d) == /\ Len(x) >= Len(d) /\ SubSeq(x, 1, Len(d)) = d
                  /\ \A i \in (Len(d) + 1)..Len(x) : x[i] = 0

Checks(r) ==
  LET g == GroupsOf(r)
      gok == GroupingOk(r)
  IN [ran      |-> r.res = "ok",
      even     |-> AllEven(Lens(r.frags)),
      grouping |-> gok,
      botlen   |-> Len(r.bot) = NFrames(r),
      bot      |-> gok => (r.bot = OffsetTable(g)),
      first    |-> Len(r.bot) >= 1 => r.bot[1] = 0,
      nframes  |-> r.nframes_attr = -1 \/ r.nframes_attr = NFrames(r),
      total    |-> r.total_attr = -1 \/ r.total_attr = Sum(Lens(r.frags)),
      content  |-> (r.ev = "helper" /\ gok) => \A f \in 1..Len(g) : IsPadded(GroupBytes(r, g, f), r.frames[f]),
      wire     |-> /\ r.wire.res = "ok"
                   /\ r.wire.bot = r.bot
                   /\ Len(r.wire.items) = Len(r.frags)
                   /\ \A k \in 1..Len(r.wire.items) :
                        k <= Len(r.frags) => /\ r.wire.items[k][2] = Len(r.frags[k])
                                             /\ r.wire.items[k][1] = ItemPositions(Lens(r.frags))[k]
                   /\ (gok /\ Len(r.bot) = Len(g) /\ Len(r.wire.items) = Len(r.frags)) =>
                        BotMatchesWire(r.bot, g, [k \in 1..Len(r.wire.items) |-> r.wire.items[k][1]]),
      fpd      |-> /\ Len(r.fpd) = NFrames(r)
                   /\ gok => \A f \in 1..Len(r.fpd) :
                               f <= Len(g) => (r.fpd[f].res = "ok" /\ r.fpd[f].data = GroupBytes(r, g, f)),
      (* the same retrieval on the object written to a file and read back *)
      fpd_reread |-> r.ev = "assembled" =>
                   /\ Len(r.fpd_reread) = NFrames(r)
                   /\ gok => \A f \in 1..Len(r.fpd_reread) :
                               f <= Len(g) => (r.fpd_reread[f].res = "ok" /\ r.fpd_reread[f].data = GroupBytes(r, g, f))]

(* "helper_big": one frame of frame_len bytes holding B(i) = i % 251 + 1 at   *)
(* 0-based position i; fragment lengths run-length coded as <<count, len>>;  *)
(* probes = <<position, byte found in the concatenated fragments or -1>>.    *)
BigChecks(r) ==
  LET total == Sum([k \in 1..Len(r.runs) |-> r.runs[k][1] * r.runs[k][2]])
  IN [ran     |-> r.res = "ok",
      even    |-> \A k \in 1..Len(r.runs) : r.runs[k][2] % 2 = 0,
      total   |-> r.total = total,
      bot     |-> r.bot = <<0>>,
      content |-> /\ total >= r.frame_len
                  /\ \E k \in 1..Len(r.probes) : r.probes[k][1] = r.frame_len - 1
                  /\ \A k \in 1..Len(r.probes) :
                        LET p == r.probes[k][1]
                            b == r.probes[k][2]
                        IN IF p < r.frame_len THEN b = (p % 251) + 1
                           ELSE IF p < total THEN b = 0 ELSE b = -1]

Why(r) == IF r.ev = "helper_big" THEN {k \in DOMAIN BigChecks(r) : ~BigChecks(r)[k]}
          ELSE {k \in DOMAIN Checks(r) : ~Checks(r)[k]}

TCase == /\ l <= Len(Rec) /\ R.ev \in {"helper", "helper_big", "transcode", "assembled"}
         /\ IF Why(R) = {} THEN TRUE ELSE PrintT(<<"FAILED", l, ToJson(Why(R))>>)
         /\ l' = l + 1

TNext == TCase
TSpec == TInit /\ [][TNext]_l

Track == TLCSet(1, IF l > TLCGet(1) THEN l ELSE TLCGet(1))
Accepted == IF TLCGet(1) = Len(Rec) + 1 THEN TRUE
            ELSE Print(<<"REJECTED", TLCGet(1), ToJson(Rec[TLCGet(1)])>>, FALSE)
=============================================================================
