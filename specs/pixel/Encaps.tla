------------------------------- MODULE Encaps -------------------------------
(***************************************************************************)
(* The encapsulation helper as a state machine (C18, part 2 of EncapsOps): *)
(* frames are added one after the other with the fragmentation of          *)
(* Fragments::new and the running offset of From<Vec<Fragments>>; TLC      *)
(* checks that the result satisfies the property-level operators of        *)
(* EncapsOps (EncapsOk: even fragments, one table entry per frame, entry = *)
(* wire offset of the frame's first item) after every step.                *)
(***************************************************************************)
EXTENDS EncapsOps

CONSTANTS FrameLens,     \* frame lengths a frame may have
          FragSizes,     \* fragment sizes (0 = whole frame)
          MaxFrames

VARIABLES fsize, flens, groups, bot, cur
vars == <<fsize, flens, groups, bot, cur>>

Init == fsize \in FragSizes /\ flens = <<>> /\ groups = <<>> /\ bot = <<>> /\ cur = 0


AddFrame(n) ==
  /\ Len(flens) < MaxFrames
  /\ LET g == FragLens(n, fsize) IN
     /\ (Len(flens) >= 1 => (Len(g) = 1 /\ Len(groups[1]) = 1))   \* multi-frame: 1 fragment per frame
     /\ flens' = Append(flens, n)
     /\ groups' = Append(groups, g)
     /\ bot' = Append(bot, cur)                  \* offset of this frame = running offset
     /\ cur' = cur + GroupWireLen(g)
  /\ UNCHANGED fsize

Next == \E n \in FrameLens : AddFrame(n)
Spec == Init /\ [][Next]_vars

(* invariants: the helper's result satisfies the property at every step *)
HelperOk == EncapsOk(bot, groups)
Covers == \A f \in 1..Len(flens) : /\ Sum(groups[f]) >= flens[f]
                                  /\ Sum(groups[f]) < flens[f] + EffSize(flens[f], fsize)
TotalOk == TotalLength(groups) = Sum(Flatten(groups)) /\ cur = GroupWireLen(Flatten(groups))
=============================================================================
