------------------------------- MODULE Gen_Lut -------------------------------
(* Parameter grid for C22 (binding A inputs): bits stored x signedness x     *)
(* allocation x dyadic rescale x window parameters incl. degenerate widths.  *)
EXTENDS Lut, Json, TLC

CONSTANTS BitsStored, Tier

Slopes4 == {4, 8, 2, -4}                 \* 1, 2, 1/2, -1
Icpts4 == {0, 4096, -4096, 2}            \* 0, 1024, -1024, 1/2
Alloc(bs) == IF bs <= 8 THEN {8, 16} ELSE {16}

RescaleCases == {[kind |-> "interp", ba |-> ba, bs |-> bs, signed |-> sg, slope4 |-> s, icpt4 |-> i] :
                   bs \in BitsStored, ba \in {8, 16}, sg \in BOOLEAN, s \in Slopes4, i \in Icpts4}
RescaleOk(c) == c.ba \in Alloc(c.bs) /\ (Tier = "thorough" \/ (c.slope4 = 4 /\ c.icpt4 = 0) \/ c.bs \in {1, 5, 8, 12, 16})

(* window: centre in quarters relative to mid-range, width with w-1 (linear) *)
(* or w (exact) a power of two, plus the degenerate widths 0 and 1           *)
Cqs == IF Tier = "thorough" THEN {0, 2, -3, 5} ELSE {-3, 2}
Wks == IF Tier = "thorough" THEN {-2, -1, 0, 1, 2, 3, 6, 10, 12} ELSE {-2, -1, 0, 3, 10}
Width(fn, wk) == IF wk = -2 THEN 0 ELSE IF wk = -1 THEN 1 ELSE IF fn = "LINEAR" THEN Pow2(wk) + 1 ELSE Pow2(wk)
MidX(bs, sg) == IF sg THEN 0 ELSE Pow2(bs - 1)
WinCases == {[kind |-> "win", fn |-> fn, ba |-> ba, bs |-> bs, signed |-> sg, slope4 |-> s, icpt4 |-> i,
              c4 |-> Rescale4(MidX(bs, sg), s, i) + cq, w |-> Width(fn, wk), ymax |-> YMax(bs)] :
               fn \in {"LINEAR", "LINEAR_EXACT"}, bs \in BitsStored, ba \in {8, 16}, sg \in BOOLEAN,
               s \in {4, 2}, i \in {0, -4096}, cq \in Cqs, wk \in Wks}
WinOk(c) == c.ba \in Alloc(c.bs) /\ (Tier = "thorough" \/ c.bs \in {1, 4, 7, 8, 12, 16})
                                 /\ (Tier = "thorough" \/ c.slope4 = 4 \/ c.bs = 12)

(* window edges: LINEAR windows of width 1 (and widths below 1, clamped to 1) and a   *)
(* few wider ones, with fractional rescales (slope 1/2, 1, 2; intercept 0, +-1/2) and *)
(* the centre placed so that the rescaled value of the stored value MidX + d lies     *)
(* exactly on the lower edge c - 0.5 - (w-1)/2 (d = 0) resp. on the upper edge        *)
(* c - 0.5 + (w-1)/2; the comparisons of C.11.2.1.2 decide these points exactly.      *)
EdgeBs == IF Tier = "thorough" THEN BitsStored ELSE BitsStored \cap {4, 8, 12}
EdgeCases == {[kind |-> "win", fn |-> "LINEAR", ba |-> ba, bs |-> bs, signed |-> sg, slope4 |-> s, icpt4 |-> i,
               c4 |-> Rescale4(MidX(bs, sg), s, i) + 2 + 2 * (Width("LINEAR", wk) - 1) * (IF Width("LINEAR", wk) >= 1 THEN 1 ELSE 0),
               w |-> Width("LINEAR", wk), ymax |-> YMax(bs)] :
               bs \in EdgeBs, ba \in {8, 16}, sg \in BOOLEAN, s \in {2, 4, 8}, i \in {0, 2, -2}, wk \in {-2, -1, 1}}
EdgeOk(c) == c.ba \in Alloc(c.bs)

VARIABLE c
Init == c \in {x \in RescaleCases : RescaleOk(x)} \cup {x \in WinCases : WinOk(x)} \cup {x \in EdgeCases : EdgeOk(x)}
Next == UNCHANGED c
Spec == Init /\ [][Next]_c
Emit == PrintT(<<"CASE", ToJson(c)>>)
=============================================================================
