CONSTANTS Family = "long" MaxVar = 6 MaxRuns = 3 FramesSet = {1} BpsSet = {1,2} SppSet = {1}
SPECIFICATION Spec
INVARIANTS Emit
CHECK_DEADLOCK FALSE
