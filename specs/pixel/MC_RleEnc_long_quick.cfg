CONSTANTS Planes <- LongPlanesQuick LitLens <- LongLens RepLens <- LongLens MaxNoop = 0
SPECIFICATION Spec
INVARIANTS TypeOK PrefixDecodes SegmentDecodes SizeBound
CHECK_DEADLOCK FALSE
