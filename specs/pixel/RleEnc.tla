------------------------------- MODULE RleEnc -------------------------------
(***************************************************************************)
(* The nondeterministic PackBits encoder of one RLE segment (PS3.5 G.3.1): *)
(* at every point the encoder may emit a literal run (1..128 bytes), a     *)
(* replicate run (2..128 equal bytes) or a no-op (-128); at the end the    *)
(* segment is padded to even length.  TLC explores every behaviour, i.e.   *)
(* every run segmentation, and checks that the G.3.2 decoder of module Rle *)
(* recovers the plane (C20, "any split into literal and replicate runs").  *)
(***************************************************************************)
EXTENDS Rle

CONSTANTS Planes,      \* set of byte planes to encode
          LitLens,     \* literal run lengths the encoder may choose
          RepLens,     \* replicate run lengths the encoder may choose
          MaxNoop      \* bound on the number of no-ops per segment

VARIABLES d, pos, out, nops, done
vars == <<d, pos, out, nops, done>>

Init == d \in Planes /\ pos = 0 /\ out = <<>> /\ nops = 0 /\ done = FALSE

Literal(k) == /\ ~done /\ k <= 128 /\ pos + k <= Len(d)
              /\ out' = out \o <<k - 1>> \o SubSeq(d, pos + 1, pos + k)
              /\ pos' = pos + k /\ UNCHANGED <<d, nops, done>>

Replicate(k) == /\ ~done /\ k >= 2 /\ k <= 128 /\ pos + k <= Len(d)
                /\ \A j \in 1..k : d[pos + j] = d[pos + 1]
                /\ out' = out \o <<257 - k, d[pos + 1]>>
                /\ pos' = pos + k /\ UNCHANGED <<d, nops, done>>

NoOp == /\ ~done /\ nops < MaxNoop
        /\ out' = out \o <<128>> /\ nops' = nops + 1 /\ UNCHANGED <<d, pos, done>>

Finish == /\ ~done /\ pos = Len(d)
          /\ out' = PadEven(out) /\ done' = TRUE /\ UNCHANGED <<d, pos, nops>>

Next == \/ \E k \in LitLens : Literal(k)
        \/ \E k \in RepLens : Replicate(k)
        \/ NoOp
        \/ Finish
Spec == Init /\ [][Next]_vars

TypeOK == pos \in 0..Len(d) /\ nops \in 0..MaxNoop /\ done \in BOOLEAN

(* the decoder recovers exactly the bytes encoded so far *)
PrefixDecodes == PackBitsDec(out, 1, pos) = SubSeq(d, 1, pos)
(* a finished segment has even length and decodes to the plane; asking for *)
(* more bytes than were encoded yields nothing more than the plane plus at *)
(* most what the pad byte stands for                                       *)
SegmentDecodes == done => /\ Len(out) % 2 = 0
                          /\ PackBitsDec(out, 1, Len(d)) = d
(* bound of G.3.1: the output is never longer than 2 bytes per input byte + no-ops + pad *)
SizeBound == Len(out) <= 2 * pos + nops + 1
=============================================================================
