----------------------------- MODULE Gen_Pipeline -----------------------------
(***************************************************************************)
(* Case generator for the conversion pipeline (thorough tier): tiny        *)
(* two-frame images x sources of the rescale / window parameters           *)
(* (top-level attributes, shared / per-frame functional groups) x API x    *)
(* ConvertOptions combinations, with exact dyadic parameters.  The driver  *)
(* executes each case; Trace_Pipeline judges the outputs with the          *)
(* operators of module Pipeline.                                           *)
(***************************************************************************)
EXTENDS Pipeline, Json, TLC

CONSTANT Family      \* "mono" | "colour"

Bases == {<<8, 8, FALSE>>, <<8, 8, TRUE>>, <<8, 5, TRUE>>, <<16, 12, FALSE>>, <<16, 12, TRUE>>, <<16, 16, TRUE>>, <<16, 7, FALSE>>}

(* four stored values per frame: extremes of the range, the sign bit, bits above the high bit *)
Raws(ba, bs) == << <<0, Pow2(bs - 1) - 1, Pow2(bs - 1), Pow2(bs) - 1>>,
                   <<1, (Pow2(bs - 1) + 1) % Pow2(ba), Pow2(ba) - 1, 3>> >>

RescVariants == {<<"none", <<>>>>, <<"top", <<<<8, -4096>>>>>>, <<"perframe", <<<<4, 0>>, <<8, 2>>>>>>, <<"shared", <<<<2, -8>>>>>>}

(* window: centre near the middle of the rescaled range of frame 1, width with a power-of-two divisor *)
WK(bs) == IF bs - 1 > 12 THEN 12 ELSE bs - 1
MidX(bs, sg) == IF sg THEN 0 ELSE Pow2(bs - 1)
WinOf(fn, bs, sg, r, shift) == <<Rescale4(MidX(bs, sg), r[1], r[2]) + 2 + shift, IF fn = "LINEAR" THEN Pow2(WK(bs)) + 1 ELSE Pow2(WK(bs))>>
WinVariants(bs, sg, resc) ==
  LET r == IF Len(resc) = 0 THEN <<4, 0>> ELSE resc[1] IN
  {<<"none", "", <<>>>>,
   <<"top", "", <<WinOf("LINEAR", bs, sg, r, 0)>>>>,
   <<"top", "LINEAR_EXACT", <<WinOf("LINEAR_EXACT", bs, sg, r, 0)>>>>,
   <<"perframe", "", <<WinOf("LINEAR", bs, sg, r, 0), WinOf("LINEAR", bs, sg, r, 16)>>>>}

VecOpts == {<<"vec", 0, m, v, "Auto", "Invert">> : m \in {"Default", "Override", "None"},
                                               v \in {"Default", "First", "Custom", "CustomFn", "Identity", "Normalize"}}
FrameVecOpts == {<<"framevec", f, "Default", v, "Auto", "Invert">> : f \in {0, 1}, v \in {"Default", "First", "Custom"}}
ImgOpts == {<<"img", f, m, v, "Auto", "Invert">> : f \in {0, 1}, m \in {"Default", "Override", "None"},
                                                 v \in {"Default", "First", "Custom", "CustomFn", "Identity", "Normalize"}}
           \cup {<<"img", f, "Default", v, d, p>> : f \in {0, 1}, v \in {"First", "Identity"},
                                                   d \in {"Auto", "Force8", "Force16"}, p \in {"Invert", "Ignore"}}
           \cup {<<"img", 0, "None", "Default", d, p>> : d \in {"Force8", "Force16"}, p \in {"Invert", "Ignore"}}

MonoCase(b, pi, rv, wv, o) ==
  [ba |-> b[1], bs |-> b[2], signed |-> b[3], pi |-> pi, spp |-> 1, planar |-> 0, frames |-> 2, npix |-> 4,
   raws |-> Raws(b[1], b[2]),
   resc_src |-> rv[1], resc |-> rv[2], win_src |-> wv[1], vfn |-> wv[2], win |-> wv[3],
   api |-> o[1], frame |-> o[2], mod |-> o[3], ovr |-> <<2, 2>>, voi |-> o[4],
   cw |-> WinOf(IF o[4] = "CustomFn" THEN "LINEAR_EXACT" ELSE (IF wv[2] = "" THEN "LINEAR" ELSE wv[2]), b[2], b[3],
                IF o[3] = "Override" THEN <<2, 2>> ELSE (IF Len(rv[2]) = 0 THEN <<4, 0>> ELSE rv[2][1]), 8),
   cfn |-> "LINEAR_EXACT", depth |-> o[5], piopt |-> o[6]]

MonoCases == UNION {UNION {{MonoCase(b, pi, rv, wv, o) : pi \in {"MONOCHROME2", "MONOCHROME1"}, wv \in WinVariants(b[2], b[3], rv[2]),
                                                        o \in VecOpts \cup FrameVecOpts \cup ImgOpts} : rv \in RescVariants} : b \in Bases}

(* colour and palette images: the LUT options do not apply *)
CRaws(ba, n) == << [i \in 1..n |-> (i * 37 + 11) % Pow2(ba)], [i \in 1..n |-> (i * 91 + 200) % Pow2(ba)] >>
ColourCase(ba, pi, spp, planar, o) ==
  [ba |-> ba, bs |-> ba, signed |-> FALSE, pi |-> pi, spp |-> spp, planar |-> planar, frames |-> 2, npix |-> 4,
   raws |-> CRaws(ba, 4 * spp),
   resc_src |-> "top", resc |-> <<<<8, -4096>>>>, win_src |-> "none", vfn |-> "", win |-> <<>>,
   api |-> o[1], frame |-> o[2], mod |-> "Default", ovr |-> <<4, 0>>, voi |-> o[3], cw |-> <<0, 1>>, cfn |-> "LINEAR",
   depth |-> o[4], piopt |-> "Invert"]
ColourOpts == {<<"vec", 0, "Default", "Auto">>, <<"vec", 0, "First", "Auto">>, <<"framevec", 1, "Default", "Auto">>}
              \cup {<<"img", f, "Default", d>> : f \in {0, 1}, d \in {"Auto", "Force8", "Force16"}}
ColourCases == {ColourCase(ba, pi, 3, pl, o) : ba \in {8, 16}, pi \in {"RGB", "YBR_FULL"}, pl \in {0, 1}, o \in ColourOpts}
               \cup {ColourCase(8, "PALETTE COLOR", 1, 0, o) : o \in ColourOpts}

TranscodeCases == {ColourCase(ba, pi, 3, pl, <<"transcode", 0, "Default", "Auto">>) @@ [target |-> t] :
                     ba \in {8, 16}, pi \in {"RGB", "YBR_FULL"}, pl \in {0, 1}, t \in {"EVRBE", "EncUncomp", "DeflFrame"}}
                  \cup {ColourCase(8, pi, 1, 0, <<"transcode", 0, "Default", "Auto">>) @@ [target |-> t] :
                     pi \in {"PALETTE COLOR", "MONOCHROME1"}, t \in {"EVRBE", "EncUncomp", "DeflFrame"}}

(* Extended Offset Table: an encapsulated object that carries (7FE0,0001)/(7FE0,0002) is transcoded *)
EotCases == {ColourCase(8, "RGB", 3, 0, <<"eot", 0, "Default", "Auto">>) @@ [target |-> t] : t \in {"DeflFrame", "EVRLE"}}

VARIABLE c
Init == c \in (IF Family = "mono" THEN MonoCases ELSE IF Family = "colour" THEN ColourCases ELSE TranscodeCases \cup EotCases)
Next == UNCHANGED c
Spec == Init /\ [][Next]_c
Emit == PrintT(<<"CASE", ToJson(c)>>)
=============================================================================
