---------------------------- MODULE Trace_Transcode ----------------------------
(***************************************************************************)
(* Trace validator for C19.  An event "chain" is a native image (geometry, *)
(* pixel bytes `data`), the transfer syntax it started in, the chain of    *)
(* transcoding steps / file hops that was replayed on the real code, and   *)
(* the final object: transfer syntax, whether the pixel data is native,    *)
(* its bytes and the image attributes.                                     *)
(* The property (for chains through lossless / native syntaxes ending in   *)
(* Explicit VR Little Endian): the final pixel data is byte-identical to   *)
(* the original - a file hop may leave the one null byte that pads an      *)
(* odd-length value to even length at its very end, nothing else - and the *)
(* attributes are consistent with the pixel data length.                   *)
(* The events are independent cases: every event is consumed and the names *)
(* of the failed checks are printed as <<"FAILED", line, names>>.          *)
(***************************************************************************)
EXTENDS Naturals, Sequences, TLC, Json, IOUtils

Rec == ndJsonDeserialize(IOEnv.TRACE)

VARIABLE l
TInit == l = 1 /\ TLCSet(1, 1)
R == Rec[l]

(* the documented normalisation: an odd-length value may carry the even-length pad *)
PadNorm(x, d) == x = d \/ (Len(d) % 2 = 1 /\ x = d \o <<0>>)

Checks(r) ==
  LET f == r.final
      imglen == f.nframes * f.rows * f.cols * f.spp * (f.bits \div 8)
  IN [ran    |-> r.res = "ok",
      ts     |-> f.ts = "EVRLE",
      native |-> f.native,
      pixels |-> PadNorm(f.pixels, r.data),
      attrs  |-> Len(f.pixels) = imglen \/ (imglen % 2 = 1 /\ Len(f.pixels) = imglen + 1),
      premise |-> r.frames * r.rows * r.cols * r.spp * (r.bits \div 8) = Len(r.data)]

Why(r) == {k \in DOMAIN Checks(r) : ~Checks(r)[k]}

TCase == /\ l <= Len(Rec) /\ R.ev = "chain"
         /\ IF Why(R) = {} THEN TRUE ELSE PrintT(<<"FAILED", l, ToJson(Why(R))>>)
         /\ l' = l + 1
TNext == TCase
TSpec == TInit /\ [][TNext]_l

Track == TLCSet(1, IF l > TLCGet(1) THEN l ELSE TLCGet(1))
Accepted == IF TLCGet(1) = Len(Rec) + 1 THEN TRUE
            ELSE Print(<<"REJECTED", TLCGet(1), ToJson(Rec[TLCGet(1)])>>, FALSE)
=============================================================================
