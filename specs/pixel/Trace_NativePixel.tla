-------------------------- MODULE Trace_NativePixel --------------------------
(***************************************************************************)
(* Trace validator for C21 (binding B): each event is a native image       *)
(* (seeded random geometry up to 17x17x7 frames and random stored bytes)   *)
(* with what dicom-rs returned for decode_pixel_data (whole),              *)
(* decode_pixel_data_frame(k) (per), DecodedPixelData::frame_data(k) on    *)
(* the whole result (fd) and PixelDataObject::frame_pixel_data(k) (fpd).   *)
(* An event is accepted iff NativePixel!NativeOk holds and the stored      *)
(* frame bytes are NativePixel!StoredFrame.                                *)
(***************************************************************************)
EXTENDS NativePixel, TLC, Json, IOUtils

Rec == ndJsonDeserialize(IOEnv.TRACE)

VARIABLE l
TInit == l = 1 /\ TLCSet(1, 1)
R == Rec[l]
Img == [bits |-> R.bits, spp |-> R.spp, rows |-> R.rows, cols |-> R.cols, frames |-> R.frames, data |-> R.data]

AllOk(xs) == \A k \in 1..Len(xs) : xs[k].res = "ok"
Datas(xs) == [k \in 1..Len(xs) |-> xs[k].data]

TCase == /\ l <= Len(Rec) /\ R.ev = "case"
         /\ WellFormed(Img)
         /\ R.whole.res = "ok"
         /\ Len(R.per) = R.frames /\ AllOk(R.per)
         /\ Len(R.fd) = R.frames /\ AllOk(R.fd)
         /\ NativeOk(Img, R.whole.data, Datas(R.per), Datas(R.fd))
         /\ Len(R.fpd) = R.frames /\ AllOk(R.fpd)
         /\ \A k \in 1..R.frames : R.fpd[k].data = StoredFrame(Img, k - 1)
         /\ l' = l + 1

TMalformed == /\ l <= Len(Rec) /\ R.ev = "case" /\ ~WellFormed(Img)
              /\ PrintT(<<"MALFORMED", l>>) /\ l' = l + 1

TNext == TCase \/ TMalformed
TSpec == TInit /\ [][TNext]_l

Track == TLCSet(1, IF l > TLCGet(1) THEN l ELSE TLCGet(1))
Accepted == IF TLCGet(1) = Len(Rec) + 1 THEN TRUE
            ELSE Print(<<"REJECTED", TLCGet(1), ToJson(Rec[TLCGet(1)])>>, FALSE)
=============================================================================
