----------------------------- MODULE EncapsOps -----------------------------
(***************************************************************************)
(* Encapsulated pixel data, PS3.5 Annex A.4 (C18).                         *)
(*                                                                         *)
(* After the Pixel Data element header (undefined length) comes a sequence *)
(* of items: the first item is the Basic Offset Table, every further item  *)
(* is a fragment; each item is an 8-byte header (tag FFFE,E000 + 32-bit    *)
(* length) and its value, whose length is even.  A frame consists of one   *)
(* or more consecutive fragments.  The Basic Offset Table, when not empty, *)
(* has one 32-bit entry per frame: the byte offset of the first byte of    *)
(* the item tag of the frame's first fragment, counted from the first byte *)
(* of the first item tag that follows the table.  The Encapsulated Pixel   *)
(* Data Value Total Length (7FE0,0003) is the sum of the fragment value    *)
(* lengths (item headers and the table not counted).                       *)
(*                                                                         *)
(* Part 1: property-level operators over "frame groups": a sequence (one   *)
(*         entry per frame) of sequences of fragment lengths.              *)
(* Part 2: the implementation-shaped fragmentation of the helper           *)
(*         (Fragments::new) and the incremental offset computation of      *)
(*         From<Vec<Fragments>>, as a state machine that adds frame after  *)
(*         frame; TLC checks that it satisfies part 1 at every step.       *)
(***************************************************************************)
EXTENDS Naturals, Sequences

RECURSIVE Sum(_)
Sum(s) == IF Len(s) = 0 THEN 0 ELSE Head(s) + Sum(Tail(s))
RECURSIVE Flatten(_)
Flatten(ss) == IF Len(ss) = 0 THEN <<>> ELSE Head(ss) \o Flatten(Tail(ss))
CeilDiv(a, b) == (a + b - 1) \div b

---------------------------------------------------------------------------
(* Part 1 *)

(* bytes a frame group occupies on the wire: item headers + values *)
GroupWireLen(g) == Sum([i \in 1..Len(g) |-> 8 + g[i]])

(* position of every item (all frames flattened) from the first item after the table *)
ItemPositions(lens) == [k \in 1..Len(lens) |-> Sum([j \in 1..(k - 1) |-> 8 + lens[j]])]

(* the Basic Offset Table of a sequence of frame groups, from the definition: *)
(* entry f = wire length of all groups before f                               *)
OffsetTable(groups) == [f \in 1..Len(groups) |-> Sum([j \in 1..(f - 1) |-> GroupWireLen(groups[j])])]

TotalLength(groups) == Sum(Flatten(groups))
AllEven(lens) == \A i \in 1..Len(lens) : lens[i] % 2 = 0

(* the property on an encapsulation result: bot (sequence), groups *)
EncapsOk(bot, groups) ==
  /\ AllEven(Flatten(groups))
  /\ \A f \in 1..Len(groups) : Len(groups[f]) >= 1
  /\ Len(bot) = Len(groups)
  /\ bot = OffsetTable(groups)
  /\ (Len(bot) >= 1 => bot[1] = 0)

(* index (into the flattened fragment list) of the first fragment of frame f *)
FirstFragOf(groups, f) == Sum([j \in 1..(f - 1) |-> Len(groups[j])]) + 1

(* the offset table agrees with item positions actually found on the wire *)
BotMatchesWire(bot, groups, wirepos) ==
  \A f \in 1..Len(groups) : bot[f] = wirepos[FirstFragOf(groups, f)]

---------------------------------------------------------------------------
(* Part 2: the helper *)

EffSize(frameLen, fragSize) == LET s == IF fragSize = 0 THEN frameLen ELSE fragSize IN s + (s % 2)
NFrags(frameLen, fragSize) == CeilDiv(frameLen, EffSize(frameLen, fragSize))
FragLens(frameLen, fragSize) == [i \in 1..NFrags(frameLen, fragSize) |-> EffSize(frameLen, fragSize)]
=============================================================================
