---------------------------- MODULE Gen_Transcode ----------------------------
(* Behaviour generator for C19: Transcode with a history variable; every     *)
(* behaviour that has made at least one step and currently is in Explicit VR *)
(* Little Endian is printed as one chain for the replay driver.              *)
EXTENDS Transcode, Json, TLC

VARIABLES h, start0
GInit == Init /\ h = <<>> /\ start0 = ts
GNext == /\ \/ \E t \in Targets : Transcode(t) /\ h' = Append(h, t)
            \/ Hop /\ h' = Append(h, "hop")
         /\ UNCHANGED start0
GSpec == GInit /\ [][GNext]_<<vars, h, start0>>

Emit == (ts = "EVRLE" /\ steps >= 1) =>
          PrintT(<<"CASE", ToJson([rows |-> g.rows, cols |-> g.cols, spp |-> g.spp, bits |-> g.bits,
                                   frames |-> g.frames, data |-> Orig(g), start |-> start0, chain |-> h])>>)
=============================================================================
