--------------------------- MODULE MC_GenTranscode ---------------------------
EXTENDS Gen_Transcode
Dims2 == [rows : {1, 3}, cols : {1, 3}, spp : {1, 3}, bits : {8, 16}, frames : {1, 2, 3}]
GeomsA == {x \in Dims2 : x.rows = x.cols}
GeomsB == {[rows |-> 3, cols |-> 3, spp |-> 1, bits |-> 8, frames |-> 2],
           [rows |-> 1, cols |-> 1, spp |-> 3, bits |-> 16, frames |-> 3],
           [rows |-> 3, cols |-> 1, spp |-> 3, bits |-> 8, frames |-> 1]}
GeomsT == [rows : {1, 2, 3}, cols : {1, 3, 5}, spp : {1, 3}, bits : {8, 16}, frames : {1, 2, 3}]
=============================================================================
