------------------------------ MODULE Pipeline ------------------------------
(***************************************************************************)
(* The decoded-image conversion pipeline of dicom-pixeldata as a function  *)
(* of the image, the API and the ConvertOptions (growth beyond C22).       *)
(*                                                                         *)
(* Sources: the documentation of ConvertOptions / ModalityLutOption /      *)
(* VoiLutOption / BitDepthOption / PhotometricInterpretationOption and of  *)
(* to_vec*, to_dynamic_image* in pixeldata/src/lib.rs, of Lut in lut.rs,   *)
(* and PS3.3 C.7.6.3 (stored values, planar configuration, photometric     *)
(* interpretation), C.7.6.16 (functional groups), C.11.1, C.11.2.          *)
(*                                                                         *)
(* Order of the stages (ConvertOptions doc):                               *)
(*   0. stored value  x = Interp(raw, bits stored, pixel representation)   *)
(*   1. Modality LUT  v = slope * x + intercept    (Default: the frame's   *)
(*      rescale parameters, per-frame functional group first, shared or    *)
(*      top-level otherwise; Override: the given ones; None: no modality   *)
(*      and no VOI transformation at all)                                  *)
(*   2. VOI LUT       (vector APIs: Default = none; image API: Default =   *)
(*      First; First = the frame's window with the object's VOI LUT        *)
(*      function, min-max normalisation when the object has no window;     *)
(*      Custom / CustomWithFunction; Normalize; Identity = none)           *)
(*   3. conversion to the output type; image API only: bit depth           *)
(*      (Force8Bit: 16 -> 8 by dropping the low byte; Force16Bit: 8 -> 16  *)
(*      by replicating the byte) and MONOCHROME1 inversion                 *)
(* Colour images (3 samples): modality and VOI are not applied; planar     *)
(* configuration 1 is interleaved by the image API and refused by the      *)
(* vector APIs; YBR_FULL is converted to RGB by the image API.             *)
(*                                                                         *)
(* All numbers are exact: values "in quarters" (v4 = 4 v) and window       *)
(* outputs as fractions <<num, den>> (module Lut), dyadic parameters only. *)
(***************************************************************************)
EXTENDS Lut

Mono(c) == c.pi \in {"MONOCHROME1", "MONOCHROME2"}

(* parameter of frame f (1-based) from a list with one entry or one per frame *)
OfFrame(list, f) == IF Len(list) > 1 THEN list[f] ELSE list[1]

Resc(c, f) == IF c.mod = "Override" THEN c.ovr
              ELSE IF Len(c.resc) = 0 THEN <<4, 0>> ELSE OfFrame(c.resc, f)

(* samples not passed through any LUT: "extracted based on the bits         *)
(* allocated and pixel representation" (to_vec doc)                        *)
NoLut(c, raw) == Interp(raw, c.ba, c.signed)

(* stage 1 *)
V4(c, f, raw) == LET r == Resc(c, f) IN Rescale4(Interp(raw, c.bs, c.signed), r[1], r[2])

(* stage 2: the effective VOI transformation: <<kind, fn, c4, w>> *)
ObjFn(c) == IF c.vfn = "" THEN "LINEAR" ELSE c.vfn
EffVoi(c, f) ==
  LET v == IF c.voi = "Default" THEN (IF c.api = "img" THEN "First" ELSE "Identity") ELSE c.voi
  IN CASE v = "Identity"  -> <<"none", "", 0, 0>>
       [] v = "Normalize" -> <<"normalize", "", 0, 0>>
       [] v = "First"     -> IF Len(c.win) = 0 THEN <<"normalize", "", 0, 0>>
                             ELSE <<"window", ObjFn(c), OfFrame(c.win, f)[1], OfFrame(c.win, f)[2]>>
       [] v = "Custom"    -> <<"window", ObjFn(c), c.cw[1], c.cw[2]>>
       [] v = "CustomFn"  -> <<"window", c.cfn, c.cw[1], c.cw[2]>>

(* output range of a window: documented for Lut::new_rescale_and_window;    *)
(* an 8-bit image is produced through an 8-bit table                        *)
WinYMax(c) == IF c.api = "img" /\ c.ba = 8 THEN 255 ELSE YMax(c.bs)

(* exact value before the conversion to the output type, as a fraction *)
Exact(c, f, raw) ==
  LET e == EffVoi(c, f) IN
  IF e[1] = "window" THEN Window(e[2], V4(c, f, raw), e[3], e[4], WinYMax(c))
  ELSE <<V4(c, f, raw), 4>>

LutApplies(c) == Mono(c) /\ c.mod # "None"

---------------------------------------------------------------------------
(* vector APIs (to_vec_with_options::<f64>, to_vec_frame_with_options,      *)
(* decode_pixel_data_frame(k).to_vec_with_options): value of one sample     *)
VecRefused(c) == c.spp = 3 /\ c.planar = 1
VecExact(c, f, raw) == IF LutApplies(c) THEN Exact(c, f, raw) ELSE <<NoLut(c, raw), 1>>

(* a reported f64 value yi + yf/16384 equals the fraction *)
FracEq(yi, yf, frac) == /\ yi = FloorDiv(frac[1], frac[2])
                        /\ yf * frac[2] = (frac[1] - yi * frac[2]) * 16384

---------------------------------------------------------------------------
(* image API: the set of admissible sample values (the conversion of an     *)
(* exact value to the integer sample type may round either way)             *)
ImgBits(c) == c.ba                                     \* sample width before BitDepthOption
OutBits(c) == CASE c.depth = "Force8" -> 8 [] c.depth = "Force16" -> 16 [] OTHER -> ImgBits(c)
Depth(c, y) == IF ImgBits(c) = 16 /\ c.depth = "Force8" THEN y \div 256
               ELSE IF ImgBits(c) = 8 /\ c.depth = "Force16" THEN y * 257
               ELSE y
Invert(c, y) == IF c.spp = 1 /\ c.piopt = "Invert" /\ c.pi = "MONOCHROME1" THEN (Pow2(OutBits(c)) - 1) - y ELSE y

(* no LUT at all (ModalityLutOption::None): unsigned samples as they are,   *)
(* signed samples shifted to an unsigned scale                              *)
NoLutImg(c, raw) == IF c.signed THEN Interp(raw, c.ba, TRUE) + Pow2(c.ba - 1) ELSE raw

MonoImgSet(c, f, raw) ==
  LET base == IF c.mod = "None" THEN {NoLutImg(c, raw)}
              ELSE LET fr == Exact(c, f, raw) IN {FloorDiv(fr[1], fr[2]), CeilDiv(fr[1], fr[2])}
  IN {Invert(c, Depth(c, y)) : y \in base}

(* every value the table could hold fits the sample type (else the          *)
(* construction of the table may legitimately fail)                         *)
Fits(c, y) == y >= 0 /\ y <= Pow2(ImgBits(c)) - 1

(* colour: YBR_FULL -> RGB, PS3.3 C.7.6.3.1.2, 8 bits; exact in 1/587000 *)
YbrR(y, cb, cr) == <<1000 * y + 1402 * (cr - 128), 1000>>
YbrB(y, cb, cr) == <<1000 * y + 1772 * (cb - 128), 1000>>
YbrG(y, cb, cr) == <<587000 * y - 202008 * (cb - 128) - 419198 * (cr - 128), 587000>>
Clamp8(v) == IF v < 0 THEN 0 ELSE IF v > 255 THEN 255 ELSE v
(* rounded to the nearest integer; a value within 1/1000 of a tie may go either way *)
RoundSet(fr) == {Clamp8(FloorDiv(2 * fr[1] + fr[2], 2 * fr[2])), Clamp8(FloorDiv(2 * fr[1] + fr[2] - 1, 2 * fr[2]))}

(* pixel p (1-based), component k (1..3) of a colour frame given as stored *)
Comp(c, fdata, p, k) == IF c.planar = 1 THEN fdata[(k - 1) * c.npix + p] ELSE fdata[(p - 1) * 3 + k]

ColorImgSet(c, fdata, p, k) ==
  LET a == Comp(c, fdata, p, 1)
      b == Comp(c, fdata, p, 2)
      d == Comp(c, fdata, p, 3)
      vals == IF c.pi = "RGB" THEN {Comp(c, fdata, p, k)}
              ELSE RoundSet(CASE k = 1 -> YbrR(a, b, d) [] k = 2 -> YbrG(a, b, d) [] k = 3 -> YbrB(a, b, d))
  IN {Depth(c, y) : y \in vals}
ColorImgRefused(c) == ~(c.pi \in {"RGB", "YBR_FULL"})
(* YBR_FULL with 16 bits allocated is left unspecified (the conversion above is stated for 8 bits) *)
ColorValueSpecified(c) == c.pi = "RGB" \/ c.ba = 8

---------------------------------------------------------------------------
(* Transcoding of colour / palette images (native -> target -> Explicit VR   *)
(* LE): nothing in the pixel data changes for the native and the lossless    *)
(* targets, so the attributes that say how to read it must not change        *)
(* either: Photometric Interpretation, Planar Configuration, Samples per     *)
(* Pixel; and what decode_pixel_data reports for the intermediate object     *)
(* (DecodedPixelData::photometric_interpretation / planar_configuration)     *)
(* must describe the bytes it returns.                                       *)
PadNorm(x, d) == x = d \/ (Len(d) % 2 = 1 /\ x = d \o <<0>>)
KeepsReading(c, o) == [pi |-> o.pi = c.pi, planar |-> o.planar = c.planar, spp |-> o.spp = c.spp]

(* min-max normalisation (VoiLutOption::Normalize doc): the lowest value is *)
(* 0, the highest value is the maximum of the range, nothing decreases      *)
NormalizeOk(xs, ys, ymax) ==
  /\ Len(xs) = Len(ys)
  /\ \A i \in 1..Len(xs) : ys[i] >= 0 /\ ys[i] <= ymax
  /\ \A i, j \in 1..Len(xs) : xs[i] < xs[j] => ys[i] <= ys[j]
  /\ \A i \in 1..Len(xs) : (\A j \in 1..Len(xs) : xs[i] <= xs[j]) => (ys[i] = 0 \/ \A j \in 1..Len(xs) : xs[j] = xs[i])
  /\ \A i \in 1..Len(xs) : (\A j \in 1..Len(xs) : xs[i] >= xs[j]) => (ys[i] = ymax \/ \A j \in 1..Len(xs) : xs[j] = xs[i])
=============================================================================
