CONSTANTS Family = "small" MaxVar = 6 MaxRuns = 3 FramesSet = {1,2} BpsSet = {1,2} SppSet = {1,3}
SPECIFICATION Spec
INVARIANTS Emit
CHECK_DEADLOCK FALSE
