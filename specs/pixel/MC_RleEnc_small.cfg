CONSTANTS Planes <- SmallPlanes LitLens = {1,2,3,4,5} RepLens = {2,3,4,5} MaxNoop = 1
SPECIFICATION Spec
INVARIANTS TypeOK PrefixDecodes SegmentDecodes SizeBound
CHECK_DEADLOCK FALSE
