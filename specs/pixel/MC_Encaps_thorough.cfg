CONSTANTS FrameLens = {1,2,3,4,5,6,7,8} FragSizes = {0,1,2,3,4,5,6,7,8} MaxFrames = 6
SPECIFICATION Spec
INVARIANTS HelperOk Covers TotalOk
CHECK_DEADLOCK FALSE
