CONSTANTS MaxDim = 4 MaxFrames = 3
SPECIFICATION Spec
INVARIANTS SpecConsistent Emit
CHECK_DEADLOCK FALSE
