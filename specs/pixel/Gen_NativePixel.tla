-------------------------- MODULE Gen_NativePixel --------------------------
(* Case generator for C21 (binding A): every small geometry x two byte      *)
(* patterns x {exact, padded to even} stored value, with the expected       *)
(* decoded whole object, frames and stored frame bytes.                     *)
EXTENDS NativePixel, Json, TLC

CONSTANTS MaxDim, MaxFrames

Pat(kind, i) == IF kind = "a" THEN (i * 83 + 22) % 256 ELSE (i * i * 7 + 3 * i + 129) % 256

Geoms == {g \in [bits : {1, 8, 16}, spp : {1, 3}, rows : 1..MaxDim, cols : 1..MaxDim, frames : 1..MaxFrames] :
            g.bits = 1 => g.spp = 1}

ImageOf(g, kind, pad) ==
  LET base == [bits |-> g.bits, spp |-> g.spp, rows |-> g.rows, cols |-> g.cols, frames |-> g.frames, data |-> <<>>]
      n == StoredLen(base) + (IF pad THEN StoredLen(base) % 2 ELSE 0)
  IN [base EXCEPT !.data = [i \in 1..n |-> IF i <= StoredLen(base) THEN Pat(kind, i) ELSE 0]]

VARIABLE c
Init == c \in {<<g, kind, pad>> \in Geoms \X {"a", "b"} \X BOOLEAN :
                 pad => StoredLen([bits |-> g.bits, spp |-> g.spp, rows |-> g.rows, cols |-> g.cols,
                                   frames |-> g.frames, data |-> <<>>]) % 2 = 1}
Next == UNCHANGED c
Spec == Init /\ [][Next]_c

Img == ImageOf(c[1], c[2], c[3])

(* the specification's own theorem, checked on every generated image *)
SpecConsistent == WellFormed(Img) /\ WholeIsConcat(Img)
                  /\ NativeOk(Img, Whole(Img), [k \in 1..Img.frames |-> Frame(Img, k - 1)],
                              [k \in 1..Img.frames |-> Frame(Img, k - 1)])

Emit == PrintT(<<"CASE", ToJson([bits |-> Img.bits, spp |-> Img.spp, rows |-> Img.rows, cols |-> Img.cols,
                                 frames |-> Img.frames, kind |-> c[2], pad |-> c[3], data |-> Img.data,
                                 whole |-> Whole(Img),
                                 per |-> [k \in 1..Img.frames |-> Frame(Img, k - 1)],
                                 stored |-> [k \in 1..Img.frames |-> StoredFrame(Img, k - 1)]])>>)
=============================================================================
