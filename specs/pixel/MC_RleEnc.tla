----------------------------- MODULE MC_RleEnc -----------------------------
EXTENDS RleEnc

RECURSIVE SeqsOver(_, _)
SeqsOver(A, n) == IF n = 0 THEN {<<>>} ELSE {<<a>> \o s : a \in A, s \in SeqsOver(A, n - 1)}

(* every plane of 1..5 bytes over a two-letter alphabet *)
SmallPlanes == UNION {SeqsOver({7, 200}, n) : n \in 1..5}
(* planes of 1..6 bytes, three letters (thorough) *)
MediumPlanes == UNION {SeqsOver({0, 7, 200}, n) : n \in 1..6}
(* runs around the 128 limit *)
LongPlanes == {Rep(7, 127), Rep(7, 128), Rep(7, 129), Rep(7, 128) \o <<9>>, <<9>> \o Rep(7, 128),
               Rep(7, 128) \o Rep(9, 128), [i \in 1..129 |-> i], Rep(7, 130), Rep(7, 256), Rep(7, 257)}
LongPlanesQuick == {Rep(7, 127), Rep(7, 128), Rep(7, 129), Rep(7, 128) \o <<9>>, <<9>> \o Rep(7, 128), [i \in 1..129 |-> i]}
LongLens == {1, 127, 128}
=============================================================================
