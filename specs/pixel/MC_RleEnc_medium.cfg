CONSTANTS Planes <- MediumPlanes LitLens = {1,2,3,4,5,6} RepLens = {2,3,4,5,6} MaxNoop = 1
SPECIFICATION Spec
INVARIANTS TypeOK PrefixDecodes SegmentDecodes SizeBound
CHECK_DEADLOCK FALSE
