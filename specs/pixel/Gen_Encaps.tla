------------------------------ MODULE Gen_Encaps ------------------------------
(***************************************************************************)
(* Input generator for C18: (a) frame lists x fragment sizes for the       *)
(* encapsulation helpers, with the fragment lengths / offset table the     *)
(* implementation-shaped model predicts (used for drift reporting only);   *)
(* (b) small native images to be transcoded into every transfer syntax     *)
(* that has an encoder.  The verdict is taken by Trace_Encaps on what the  *)
(* code produced.                                                          *)
(***************************************************************************)
EXTENDS EncapsOps, Json, TLC

CONSTANTS MaxFrames, Lens1, LensN, FragSizes, MaxDim

Byte(f, i) == ((f * 53 + i * 7) % 255) + 1          \* never 0: padding stays recognisable

RECURSIVE SeqsOver(_, _)
SeqsOver(A, n) == IF n = 0 THEN {<<>>} ELSE {<<a>> \o s : a \in A, s \in SeqsOver(A, n - 1)}

(* premise of the helper (documented): with several frames each frame is one fragment *)
HelperPremise(lens, fs) == Len(lens) > 1 => \A f \in 1..Len(lens) : NFrags(lens[f], fs) = 1

HelperInputs ==
  {<<lens, fs>> \in ((UNION {SeqsOver(LensN, n) : n \in 2..MaxFrames}) \cup SeqsOver(Lens1, 1)) \X FragSizes :
     HelperPremise(lens, fs)}

HelperCase(lens, fs) ==
  LET groups == [f \in 1..Len(lens) |-> FragLens(lens[f], fs)]
  IN [kind |-> "helper", frag_size |-> fs,
      frames |-> [f \in 1..Len(lens) |-> [i \in 1..lens[f] |-> Byte(f, i)]],
      exp_groups |-> groups, exp_bot |-> OffsetTable(groups), exp_total |-> TotalLength(groups)]

Geoms == [rows : 1..MaxDim, cols : 1..MaxDim, spp : {1, 3}, bits : {8, 16}, frames : 1..MaxFrames]
ImageCase(g) ==
  LET n == g.rows * g.cols * g.spp * (g.bits \div 8) * g.frames
  IN [kind |-> "image", rows |-> g.rows, cols |-> g.cols, spp |-> g.spp, bits |-> g.bits, frames |-> g.frames,
      data |-> [i \in 1..n |-> Byte(g.frames, i)]]

(* (c) hand-assembled pixel fragment sequences: frames split into 1..3 fragments each   *)
(* (mixed, so the fragment count differs from the frame count), even fragment sizes,  *)
(* and the exact basic offset table of PS3.5 A.4 computed by EncapsOps!OffsetTable.   *)
FragCounts == UNION {SeqsOver({1, 2, 3}, n) : n \in 2..MaxFrames}
AssembledInputs == {<<cnt, sz>> \in FragCounts \X {2, 4} : \E f \in 1..Len(cnt) : cnt[f] > 1}
AssembledCase(cnt, sz) ==
  LET groups == [f \in 1..Len(cnt) |-> [k \in 1..cnt[f] |-> sz + 2 * ((f + k) % 2)]]
  IN [kind |-> "assembled", groups |-> groups, bot |-> OffsetTable(groups),
      frags |-> [f \in 1..Len(cnt) |-> [k \in 1..cnt[f] |-> [i \in 1..groups[f][k] |-> Byte(f * 7 + k, i)]]]]

VARIABLE c
Init == c \in ({<<"h", x>> : x \in HelperInputs} \cup {<<"i", g>> : g \in Geoms} \cup {<<"a", x>> : x \in AssembledInputs})
Next == UNCHANGED c
Spec == Init /\ [][Next]_c

Emit == PrintT(<<"CASE", ToJson(IF c[1] = "h" THEN HelperCase(c[2][1], c[2][2])
                                ELSE IF c[1] = "a" THEN AssembledCase(c[2][1], c[2][2]) ELSE ImageCase(c[2]))>>)
=============================================================================
