--------------------------------- MODULE Lut ---------------------------------
(***************************************************************************)
(* Modality and VOI LUT (C22): PS3.3 C.7.6.3.1 (stored values), C.11.1     *)
(* (rescale), C.11.2.1.2 (linear window), C.11.2.1.3.2 (linear exact).     *)
(*                                                                         *)
(* TLC has no reals.  All quantities are kept as exact rationals with a    *)
(* power-of-two denominator, written as integers "in quarters" (v4 = 4*v): *)
(* the specification is restricted to DYADIC parameters (slope, intercept, *)
(* centre multiples of 1/4; divisor w-1 resp. w a power of two) for which  *)
(* the f64 computation of the implementation is exact too, so equality can *)
(* be demanded.  Not expressible here: the sigmoid formula and non-dyadic  *)
(* parameters (only range and monotonicity are stated for them, below).    *)
(***************************************************************************)
EXTENDS Integers, Sequences

Pow2(n) == 2 ^ n

(* (a) stored value interpretation: bits above the high bit (= bits stored *)
(* - 1) ignored; two's complement with bits stored bits when signed        *)
Interp(raw, bs, signed) ==
  LET m == raw % Pow2(bs)
  IN IF signed /\ m >= Pow2(bs - 1) THEN m - Pow2(bs) ELSE m

(* (b) modality rescale, in quarters: 4y = slope4 * x + icpt4 *)
Rescale4(x, slope4, icpt4) == slope4 * x + icpt4

(* output range documented by the implementation: 0 .. 2^n - 1, n the power *)
(* of two that follows bits stored                                          *)
NextPow2(n) == CHOOSE p \in {1, 2, 4, 8, 16, 32} : p >= n /\ \A q \in {1, 2, 4, 8, 16, 32} : q >= n => p <= q
YMax(bs) == Pow2(NextPow2(bs)) - 1

(* The window functions return the exact output as a fraction <<num, den>> *)
(* (den > 0).  x4, c4 in quarters; w an integer.                           *)
(* C.11.2.1.2.1 linear; a width below 1 is taken as 1 (documented clamp)   *)
Linear(x4, c4, w0, ymax) ==
  LET w == IF w0 < 1 THEN 1 ELSE w0
      lo4 == c4 - 2 - 2 * (w - 1)
      hi4 == c4 - 2 + 2 * (w - 1)
  IN IF x4 <= lo4 THEN <<0, 1>>
     ELSE IF x4 > hi4 THEN <<ymax, 1>>
     ELSE <<(x4 - c4 + 2 + 2 * (w - 1)) * ymax, 4 * (w - 1)>>     \* ((x-(c-0.5))/(w-1) + 0.5) * ymax

(* C.11.2.1.3.2 linear exact; a width below 0 is taken as 0 *)
LinearExact(x4, c4, w0, ymax) ==
  LET w == IF w0 < 0 THEN 0 ELSE w0
  IN IF x4 <= c4 - 2 * w THEN <<0, 1>>
     ELSE IF x4 > c4 + 2 * w THEN <<ymax, 1>>
     ELSE <<(x4 - c4 + 2 * w) * ymax, 4 * w>>                      \* ((x-c)/w + 0.5) * ymax

Window(fn, x4, c4, w, ymax) == IF fn = "LINEAR" THEN Linear(x4, c4, w, ymax) ELSE LinearExact(x4, c4, w, ymax)

(* conversion to an integer output type: any rounding of the exact value    *)
FloorDiv(n, d) == n \div d                         \* TLC: floor for d > 0
CeilDiv(n, d) == -((-n) \div d)
ConvertedOk(out, frac) == out \in {FloorDiv(frac[1], frac[2]), CeilDiv(frac[1], frac[2])}
(* exact equality of a value given as an integer multiple of 1/q *)
ExactOk(yq, q, frac) == yq * frac[2] = frac[1] * q

=============================================================================
