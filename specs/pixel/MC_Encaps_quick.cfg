CONSTANTS FrameLens = {1,2,3,4,5,6} FragSizes = {0,1,2,3,4,5,6} MaxFrames = 4
SPECIFICATION Spec
INVARIANTS HelperOk Covers TotalOk
CHECK_DEADLOCK FALSE
