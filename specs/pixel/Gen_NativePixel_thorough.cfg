CONSTANTS MaxDim = 6 MaxFrames = 4
SPECIFICATION Spec
INVARIANTS SpecConsistent Emit
CHECK_DEADLOCK FALSE
