CONSTANT Family = "transcode"
SPECIFICATION Spec
INVARIANTS Emit
CHECK_DEADLOCK FALSE
