CONSTANTS MaxFrames = 3 Lens1 = {1,2,3,4,5,6,7} LensN = {1,2,3,4,5} FragSizes = {0,1,2,3,4,5,6} MaxDim = 3
SPECIFICATION Spec
INVARIANTS Emit
CHECK_DEADLOCK FALSE
