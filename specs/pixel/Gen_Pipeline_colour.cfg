CONSTANT Family = "colour"
SPECIFICATION Spec
INVARIANTS Emit
CHECK_DEADLOCK FALSE
