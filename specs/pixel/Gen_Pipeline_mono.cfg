CONSTANT Family = "mono"
SPECIFICATION Spec
INVARIANTS Emit
CHECK_DEADLOCK FALSE
