CONSTANTS Geoms <- ThoroughGeoms Starts = {"IVRLE", "EVRLE", "EVRBE"}
  Targets = {"IVRLE", "EVRLE", "EVRBE", "EncUncomp", "DeflFrame"} MaxSteps = 4
SPECIFICATION Spec
INVARIANTS TypeOK PixelsPreserved NativeShape EncapsShape AttrConsistent
CHECK_DEADLOCK FALSE
