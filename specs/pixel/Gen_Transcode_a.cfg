CONSTANTS Geoms <- GeomsA Starts = {"IVRLE", "EVRLE", "EVRBE"}
  Targets = {"IVRLE", "EVRLE", "EVRBE", "EncUncomp", "DeflFrame"} MaxSteps = 2
SPECIFICATION GSpec
INVARIANTS Emit
CHECK_DEADLOCK FALSE
