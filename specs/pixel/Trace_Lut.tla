------------------------------ MODULE Trace_Lut ------------------------------
(***************************************************************************)
(* Trace validator for C22.  Events recorded from the real pipeline        *)
(* (decode_pixel_data().to_vec..., i.e. convert_pixel_slice + Lut):        *)
(*                                                                         *)
(*  "interp" default pipeline (modality LUT only), output type f64:        *)
(*           pts = <<raw stored value, 4*y>>; demanded:                    *)
(*           y = slope * Interp(raw) + intercept                           *)
(*  "win"    window applied (LINEAR / LINEAR_EXACT, dyadic parameters):    *)
(*           pts = <<raw, q*y (f64 output), yu (u16 output)>>; demanded:   *)
(*           y equals the PS3.3 formula exactly, yu is y converted to the  *)
(*           integer type (floor or ceiling) and 0 <= yu <= ymax           *)
(*  "scan" / "pt"  any function incl. SIGMOID, arbitrary parameters with   *)
(*           slope >= 0, u16 output, points in increasing input value:     *)
(*           the output never decreases and stays in 0..ymax (action       *)
(*           property TPoint over the recorded scan).                      *)
(*                                                                         *)
(* interp/win events are independent cases: each is consumed and the       *)
(* failing ones are printed as <<"FAILED", line, names>>.  A scan point    *)
(* that breaks monotonicity/range has no matching action (REJECTED).       *)
(***************************************************************************)
EXTENDS Lut, TLC, Json, IOUtils

Rec == ndJsonDeserialize(IOEnv.TRACE)

VARIABLES l, sx, sy, symax, sactive, sbs, ssigned
tvars == <<l, sx, sy, symax, sactive, sbs, ssigned>>
TInit == /\ l = 1 /\ sx = 0 /\ sy = 0 /\ symax = 0 /\ sactive = FALSE /\ sbs = 1 /\ ssigned = FALSE
         /\ TLCSet(1, 1)
R == Rec[l]
SUnch == UNCHANGED <<sx, sy, symax, sactive, sbs, ssigned>>

X4(r, raw) == Rescale4(Interp(raw, r.bs, r.signed), r.slope4, r.icpt4)

ExactOk2(yq, q, frac) == IF frac[2] = q THEN yq = frac[1]
                         ELSE IF frac[2] = 1 THEN yq = frac[1] * q
                         ELSE FALSE

InterpChecks(r) ==
  [ran    |-> r.res = "ok",
   premise |-> r.bs >= 1 /\ r.bs <= r.ba /\ \A k \in 1..Len(r.pts) : r.pts[k][1] >= 0 /\ r.pts[k][1] < Pow2(r.ba),
   value  |-> \A k \in 1..Len(r.pts) : r.pts[k][2] = X4(r, r.pts[k][1])]

WinChecks(r) ==
  [ran    |-> r.res = "ok",
   premise |-> r.ymax = YMax(r.bs) /\ r.q >= 4,
   exact  |-> \A k \in 1..Len(r.pts) : ExactOk2(r.pts[k][2], r.q, Window(r.fn, X4(r, r.pts[k][1]), r.c4, r.w, r.ymax)),
   converted |-> \A k \in 1..Len(r.pts) : ConvertedOk(r.pts[k][3], Window(r.fn, X4(r, r.pts[k][1]), r.c4, r.w, r.ymax)),
   range  |-> \A k \in 1..Len(r.pts) : r.pts[k][3] >= 0 /\ r.pts[k][3] <= r.ymax]

Why(r) == IF r.ev = "interp" THEN {k \in DOMAIN InterpChecks(r) : ~InterpChecks(r)[k]}
          ELSE {k \in DOMAIN WinChecks(r) : ~WinChecks(r)[k]}

TCase == /\ l <= Len(Rec) /\ R.ev \in {"interp", "win"}
         /\ IF Why(R) = {} THEN TRUE ELSE PrintT(<<"FAILED", l, ToJson(Why(R))>>)
         /\ l' = l + 1 /\ SUnch

(* the scan over increasing input values *)
TScan == /\ l <= Len(Rec) /\ R.ev = "scan"
         /\ R.res = "ok"
         /\ sactive' = TRUE /\ symax' = YMax(R.bs) /\ sx' = -2147483647 /\ sy' = 0
         /\ sbs' = R.bs /\ ssigned' = R.signed
         /\ l' = l + 1

TPoint == /\ l <= Len(Rec) /\ R.ev = "pt" /\ sactive
          /\ LET x == Interp(R.raw, sbs, ssigned) IN
             /\ IF x > sx THEN TRUE ELSE PrintT(<<"MALFORMED", l>>)      \* premise: the driver scans upwards
             /\ x > sx
             /\ R.y >= sy                    \* never decreases
             /\ 0 <= R.y /\ R.y <= symax     \* within the output range
             /\ sx' = x /\ sy' = R.y
          /\ l' = l + 1 /\ UNCHANGED <<symax, sactive, sbs, ssigned>>

TNext == TCase \/ TScan \/ TPoint
TSpec == TInit /\ [][TNext]_tvars

Track == TLCSet(1, IF l > TLCGet(1) THEN l ELSE TLCGet(1))
Accepted == IF TLCGet(1) = Len(Rec) + 1 THEN TRUE
            ELSE Print(<<"REJECTED", TLCGet(1), ToJson(Rec[TLCGet(1)])>>, FALSE)
=============================================================================
