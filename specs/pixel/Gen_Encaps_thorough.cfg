CONSTANTS MaxFrames = 4 Lens1 = {1,2,3,4,5,6,7,8,9} LensN = {1,2,3,4,5,6} FragSizes = {0,1,2,3,4,5,6,7,8} MaxDim = 4
SPECIFICATION Spec
INVARIANTS Emit
CHECK_DEADLOCK FALSE
