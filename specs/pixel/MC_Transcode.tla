----------------------------- MODULE MC_Transcode -----------------------------
EXTENDS Transcode
QuickGeoms == [rows : {1, 3}, cols : {1, 3}, spp : {1, 3}, bits : {8, 16}, frames : {1, 2, 3}]
ThoroughGeoms == [rows : {1, 2, 3}, cols : {1, 2, 3, 5}, spp : {1, 3}, bits : {8, 16}, frames : {1, 2, 3, 4}]
=============================================================================
