-------------------------------- MODULE Rle --------------------------------
(***************************************************************************)
(* RLE Lossless, PS3.5 Annex G, written from the standard (C20).           *)
(*                                                                         *)
(*  G.2  a frame is split into byte planes ("segments"): for every sample  *)
(*       (colour component) in order, the most significant byte plane      *)
(*       first, then the less significant one(s);                          *)
(*  G.3  each segment is PackBits coded: a run is                          *)
(*         n in 0..127      : the next n+1 bytes are literal               *)
(*         n in -1..-127    : the next byte is replicated -n+1 times       *)
(*         n = -128         : no operation                                 *)
(*       and the segment is padded with a zero byte to even length;        *)
(*  G.5  a 64-byte header: number of segments and 15 offsets (uint32 LE),  *)
(*       unused offsets zero, first segment at offset 64.                  *)
(*                                                                         *)
(* The operators are the independent reference: EncodeFrame (with an       *)
(* explicit, arbitrary run segmentation per segment), DecodeFrame (the     *)
(* decoder of G.3.2 + the composition into little-endian, pixel-           *)
(* interleaved samples) and Interleave (the expected decoded bytes stated  *)
(* directly on the image).                                                 *)
(*                                                                         *)
(* The state machine below is the nondeterministic PackBits *encoder* of   *)
(* one segment: TLC explores every split of a byte plane into literal and  *)
(* replicate runs and no-ops and checks that the G.3.2 decoder recovers    *)
(* the plane from each of them.                                            *)
(***************************************************************************)
EXTENDS Naturals, Sequences, FiniteSets, TLC

Min(a, b) == IF a < b THEN a ELSE b

LE32(n) == << n % 256, (n \div 256) % 256, (n \div 65536) % 256, (n \div 16777216) % 256 >>
RdLE32(s, i) == s[i] + 256 * s[i + 1] + 65536 * s[i + 2] + 16777216 * s[i + 3]

RECURSIVE Concat(_)
Concat(ss) == IF Len(ss) = 0 THEN <<>> ELSE Head(ss) \o Concat(Tail(ss))

PadEven(s) == IF Len(s) % 2 = 1 THEN s \o <<0>> ELSE s

Rep(b, k) == [j \in 1..k |-> b]

---------------------------------------------------------------------------
(* The image.  An image is a record                                        *)
(*   [npix, spp, bps, frames, v]   with v[f][p][s][b] a byte:              *)
(*   frame f (1-based), pixel p (1-based, row major), sample s (1-based),  *)
(*   byte b of the sample (1 = least significant).                         *)

(* expected decoded bytes of frame f: pixel interleaved, little endian     *)
Interleave(img, f) ==
  [i \in 1..(img.npix * img.spp * img.bps) |->
     LET z == i - 1
         b == z % img.bps
         s == (z \div img.bps) % img.spp
         p == z \div (img.bps * img.spp)
     IN img.v[f][p + 1][s + 1][b + 1]]

(* G.2: the byte planes of frame f in segment order *)
NSeg(img) == img.spp * img.bps
Plane(img, f, j) ==       \* j in 1..NSeg, segment order: sample major, MSB first
  LET s == (j - 1) \div img.bps
      b == img.bps - 1 - ((j - 1) % img.bps)       \* significance, 0 = LSB
  IN [p \in 1..img.npix |-> img.v[f][p][s + 1][b + 1]]

---------------------------------------------------------------------------
(* G.3.1 with an explicit run list: runs are <<"L",k>>, <<"R",k>>, <<"N">> *)
RunOk(d, r) == CASE r[1] = "L" -> r[2] \in 1..128 /\ r[2] <= Len(d)
                 [] r[1] = "R" -> r[2] \in 2..128 /\ r[2] <= Len(d) /\ \A j \in 1..r[2] : d[j] = d[1]
                 [] r[1] = "N" -> TRUE

RECURSIVE EncRuns(_, _)
EncRuns(d, runs) ==
  IF Len(runs) = 0 THEN <<>>
  ELSE LET r == Head(runs) IN
       CASE r[1] = "L" -> <<r[2] - 1>> \o SubSeq(d, 1, r[2]) \o EncRuns(SubSeq(d, r[2] + 1, Len(d)), Tail(runs))
         [] r[1] = "R" -> <<257 - r[2], d[1]>> \o EncRuns(SubSeq(d, r[2] + 1, Len(d)), Tail(runs))
         [] r[1] = "N" -> <<128>> \o EncRuns(d, Tail(runs))

RECURSIVE RunsCover(_, _)
RunsCover(d, runs) ==       \* the run list is a valid segmentation of d
  IF Len(runs) = 0 THEN Len(d) = 0
  ELSE LET r == Head(runs) IN
       /\ RunOk(d, r)
       /\ RunsCover(IF r[1] = "N" THEN d ELSE SubSeq(d, r[2] + 1, Len(d)), Tail(runs))

EncSegment(d, runs) == PadEven(EncRuns(d, runs))

(* G.5 header + segments *)
RECURSIVE SegOffsets(_, _)
SegOffsets(segs, at) == IF Len(segs) = 0 THEN <<>> ELSE <<at>> \o SegOffsets(Tail(segs), at + Len(Head(segs)))

Header(segs) ==
  LET offs == SegOffsets(segs, 64)
  IN LE32(Len(segs)) \o Concat([k \in 1..15 |-> IF k <= Len(offs) THEN LE32(offs[k]) ELSE LE32(0)])

(* planes: sequence of byte planes in segment order; runs: one run list per plane *)
EncodeFrame(planes, runs) ==
  LET segs == [j \in 1..Len(planes) |-> EncSegment(planes[j], runs[j])]
  IN Header(segs) \o Concat(segs)

---------------------------------------------------------------------------
(* G.3.2 decoder: decode until `need` bytes were produced *)
RECURSIVE PackBitsDec(_, _, _)
PackBitsDec(seg, i, need) ==
  IF need = 0 \/ i > Len(seg) THEN <<>>
  ELSE LET h == seg[i] IN
       IF h < 128 THEN LET k == Min(Min(h + 1, need), Len(seg) - i)
                       IN SubSeq(seg, i + 1, i + k) \o PackBitsDec(seg, i + h + 2, need - k)
       ELSE IF h = 128 THEN PackBitsDec(seg, i + 1, need)
       ELSE IF i + 1 > Len(seg) THEN <<>>
       ELSE LET k == Min(257 - h, need)
            IN Rep(seg[i + 1], k) \o PackBitsDec(seg, i + 2, need - k)

FragNSeg(frag) == RdLE32(frag, 1)
FragOff(frag, j) == RdLE32(frag, 1 + 4 * j)          \* j in 1..15
FragSegment(frag, j) ==
  LET n == FragNSeg(frag)
      from == FragOff(frag, j)
      to == IF j < n THEN FragOff(frag, j + 1) ELSE Len(frag)
  IN SubSeq(frag, from + 1, to)

(* premise of the property: the fragment is a well-formed Annex G stream   *)
(* for the image geometry                                                  *)
WellFormedFrag(frag, npix, spp, bps) ==
  /\ Len(frag) >= 64 /\ Len(frag) % 2 = 0
  /\ FragNSeg(frag) = spp * bps
  /\ FragOff(frag, 1) = 64
  /\ \A j \in 1..(spp * bps) :
       /\ FragOff(frag, j) <= Len(frag)
       /\ (j < spp * bps) => FragOff(frag, j) <= FragOff(frag, j + 1)
       /\ Len(PackBitsDec(FragSegment(frag, j), 1, npix)) = npix

(* decoded frame: little-endian, pixel-interleaved *)
DecodeFrame(frag, npix, spp, bps) ==
  LET pl == [j \in 1..(spp * bps) |-> PackBitsDec(FragSegment(frag, j), 1, npix)]
  IN [i \in 1..(npix * spp * bps) |->
        LET z == i - 1
            b == z % bps                        \* significance, 0 = LSB
            s == (z \div bps) % spp
            p == z \div (bps * spp)
        IN pl[s * bps + (bps - 1 - b) + 1][p + 1]]

---------------------------------------------------------------------------
(* All run segmentations of d with at most m data runs, literal lengths    *)
(* from lits and replicate lengths from reps.                              *)
FirstRuns(d, lits, reps) ==
  {<<"L", k>> : k \in {x \in lits : x <= Len(d) /\ x <= 128}} \cup
  {<<"R", k>> : k \in {x \in reps : x >= 2 /\ x <= 128 /\ x <= Len(d) /\ \A j \in 1..x : d[j] = d[1]}}

RECURSIVE Segms(_, _, _, _)
Segms(d, m, lits, reps) ==
  IF Len(d) = 0 THEN {<<>>}
  ELSE IF m = 0 THEN {}
  ELSE UNION {{<<r>> \o t : t \in Segms(SubSeq(d, r[2] + 1, Len(d)), m - 1, lits, reps)} :
              r \in FirstRuns(d, lits, reps)}

(* insert a no-op: mode 0 none, 1 in front, 2 after the first run, 3 at the end *)
WithNoop(runs, mode) ==
  CASE mode = 0 -> runs
    [] mode = 1 -> <<<<"N">>>> \o runs
    [] mode = 2 -> IF Len(runs) = 0 THEN runs ELSE <<Head(runs), <<"N">>>> \o Tail(runs)
    [] mode = 3 -> runs \o <<<<"N">>>>

===========================================================================
