---- MODULE Trace_Pipeline_TTrace_1790081205 ----
EXTENDS Sequences, TLCExt, Toolbox, Trace_Pipeline, Naturals, TLC

_expression ==
    LET Trace_Pipeline_TEExpression == INSTANCE Trace_Pipeline_TEExpression
    IN Trace_Pipeline_TEExpression!expression
----

_trace ==
    LET Trace_Pipeline_TETrace == INSTANCE Trace_Pipeline_TETrace
    IN Trace_Pipeline_TETrace!trace
----

_inv ==
    ~(
        TLCGet("level") = Len(_TETrace)
        /\
        l = (64)
    )
----

_init ==
    /\ l = _TETrace[1].l
----

_next ==
    /\ \E i,j \in DOMAIN _TETrace:
        /\ \/ /\ j = i + 1
              /\ i = TLCGet("level")
        /\ l  = _TETrace[i].l
        /\ l' = _TETrace[j].l

\* Uncomment the ASSUME below to write the states of the error trace
\* to the given file in Json format. Note that you can pass any tuple
\* to `JsonSerialize`. For example, a sub-sequence of _TETrace.
    \* ASSUME
    \*     LET J == INSTANCE Json
    \*         IN J!JsonSerialize("Trace_Pipeline_TTrace_1790081205.json", _TETrace)

=============================================================================

 Note that you can extract this module `Trace_Pipeline_TEExpression`
  to a dedicated file to reuse `expression` (the module in the 
  dedicated `Trace_Pipeline_TEExpression.tla` file takes precedence 
  over the module `Trace_Pipeline_TEExpression` below).

---- MODULE Trace_Pipeline_TEExpression ----
EXTENDS Sequences, TLCExt, Toolbox, Trace_Pipeline, Naturals, TLC

expression == 
    [
        \* To hide variables of the `Trace_Pipeline` spec from the error trace,
        \* remove the variables below.  The trace will be written in the order
        \* of the fields of this record.
        l |-> l
        
        \* Put additional constant-, state-, and action-level expressions here:
        \* ,_stateNumber |-> _TEPosition
        \* ,_lUnchanged |-> l = l'
        
        \* Format the `l` variable as Json value.
        \* ,_lJson |->
        \*     LET J == INSTANCE Json
        \*     IN J!ToJson(l)
        
        \* Lastly, you may build expressions over arbitrary sets of states by
        \* leveraging the _TETrace operator.  For example, this is how to
        \* count the number of times a spec variable changed up to the current
        \* state in the trace.
        \* ,_lModCount |->
        \*     LET F[s \in DOMAIN _TETrace] ==
        \*         IF s = 1 THEN 0
        \*         ELSE IF _TETrace[s].l # _TETrace[s-1].l
        \*             THEN 1 + F[s-1] ELSE F[s-1]
        \*     IN F[_TEPosition - 1]
    ]

=============================================================================



Parsing and semantic processing can take forever if the trace below is long.
 In this case, it is advised to uncomment the module below to deserialize the
 trace from a generated binary file.

\*
\*---- MODULE Trace_Pipeline_TETrace ----
\*EXTENDS IOUtils, Trace_Pipeline, TLC
\*
\*trace == IODeserialize("Trace_Pipeline_TTrace_1790081205.bin", TRUE)
\*
\*=============================================================================
\*

---- MODULE Trace_Pipeline_TETrace ----
EXTENDS Trace_Pipeline, TLC

trace == 
    <<
    ([l |-> 1]),
    ([l |-> 2]),
    ([l |-> 3]),
    ([l |-> 4]),
    ([l |-> 5]),
    ([l |-> 6]),
    ([l |-> 7]),
    ([l |-> 8]),
    ([l |-> 9]),
    ([l |-> 10]),
    ([l |-> 11]),
    ([l |-> 12]),
    ([l |-> 13]),
    ([l |-> 14]),
    ([l |-> 15]),
    ([l |-> 16]),
    ([l |-> 17]),
    ([l |-> 18]),
    ([l |-> 19]),
    ([l |-> 20]),
    ([l |-> 21]),
    ([l |-> 22]),
    ([l |-> 23]),
    ([l |-> 24]),
    ([l |-> 25]),
    ([l |-> 26]),
    ([l |-> 27]),
    ([l |-> 28]),
    ([l |-> 29]),
    ([l |-> 30]),
    ([l |-> 31]),
    ([l |-> 32]),
    ([l |-> 33]),
    ([l |-> 34]),
    ([l |-> 35]),
    ([l |-> 36]),
    ([l |-> 37]),
    ([l |-> 38]),
    ([l |-> 39]),
    ([l |-> 40]),
    ([l |-> 41]),
    ([l |-> 42]),
    ([l |-> 43]),
    ([l |-> 44]),
    ([l |-> 45]),
    ([l |-> 46]),
    ([l |-> 47]),
    ([l |-> 48]),
    ([l |-> 49]),
    ([l |-> 50]),
    ([l |-> 51]),
    ([l |-> 52]),
    ([l |-> 53]),
    ([l |-> 54]),
    ([l |-> 55]),
    ([l |-> 56]),
    ([l |-> 57]),
    ([l |-> 58]),
    ([l |-> 59]),
    ([l |-> 60]),
    ([l |-> 61]),
    ([l |-> 62]),
    ([l |-> 63]),
    ([l |-> 64])
    >>
----


=============================================================================

---- CONFIG Trace_Pipeline_TTrace_1790081205 ----

INVARIANT
    _inv

CHECK_DEADLOCK
    \* CHECK_DEADLOCK off because of PROPERTY or INVARIANT above.
    FALSE

INIT
    _init

NEXT
    _next

CONSTANT
    _TETrace <- _trace

ALIAS
    _expression
=============================================================================
\* Generated on Tue Sep 22 12:47:06 UTC 2026