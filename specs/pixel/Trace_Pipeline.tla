---------------------------- MODULE Trace_Pipeline ----------------------------
(***************************************************************************)
(* Validator for the conversion-pipeline cases (growth beyond C22).  Every *)
(* event is one Gen_Pipeline case plus what the real API returned (res,    *)
(* variant, out).  Named checks compare it with module Pipeline; every     *)
(* event is consumed and <<"FAILED", line, names>> is printed for those    *)
(* that deviate.  The check that owns this validator decides which         *)
(* deviations fall inside the statement of a listed property (C22) and     *)
(* which are reported as observations only.                                *)
(***************************************************************************)
EXTENDS Pipeline, TLC, Json, IOUtils

Rec == ndJsonDeserialize(IOEnv.TRACE)
VARIABLE l
TInit == l = 1 /\ TLCSet(1, 1)
R == Rec[l]

N(r) == r.npix * r.spp
FramesOf(r) == IF r.api = "vec" THEN 1..r.frames ELSE {r.frame + 1}
Idx(r, f, i) == IF r.api = "vec" THEN (f - 1) * N(r) + i ELSE i
IsNorm(r, f) == LutApplies(r) /\ EffVoi(r, f)[1] = "normalize"

Val16(p) == IF p[1] < 0 \/ p[1] > 70000 THEN 0 - 1 ELSE p[1] * 16384 + p[2]
VecValueOk(r) ==
  \A f \in FramesOf(r) :
    IF IsNorm(r, f)
    THEN NormalizeOk([i \in 1..N(r) |-> V4(r, f, r.raws[f][i])],
                     [i \in 1..N(r) |-> Val16(r.out[Idx(r, f, i)])], WinYMax(r) * 16384)
    ELSE \A i \in 1..N(r) : FracEq(r.out[Idx(r, f, i)][1], r.out[Idx(r, f, i)][2], VecExact(r, f, r.raws[f][i]))

VecChecks(r) ==
  [refusal |-> IF VecRefused(r) THEN r.res # "ok" ELSE r.res = "ok",
   length  |-> r.res = "ok" => Len(r.out) = N(r) * (IF r.api = "vec" THEN r.frames ELSE 1),
   value   |-> (r.res = "ok" /\ Len(r.out) = N(r) * (IF r.api = "vec" THEN r.frames ELSE 1)) => VecValueOk(r)]

XMin(r) == IF r.signed THEN 0 - Pow2(r.bs - 1) ELSE 0
XMax(r) == IF r.signed THEN Pow2(r.bs - 1) - 1 ELSE Pow2(r.bs) - 1
AllFit(r, f) == \A x \in {XMin(r), XMax(r)} :
                  LET v4 == Rescale4(x, Resc(r, f)[1], Resc(r, f)[2])
                  IN Fits(r, FloorDiv(v4, 4)) /\ Fits(r, CeilDiv(v4, 4))
NormCheckable(r) == r.depth = "Auto" /\ ~(r.pi = "MONOCHROME1" /\ r.piopt = "Invert")

MonoImgChecks(r) ==
  LET f == r.frame + 1
      mayfail == r.mod # "None" /\ EffVoi(r, f)[1] = "none" /\ ~AllFit(r, f)
  IN [refusal |-> IF r.pi = "PALETTE COLOR" THEN r.res # "ok" ELSE (r.res = "ok" \/ mayfail),
      variant |-> r.res = "ok" => r.variant = (IF OutBits(r) = 8 THEN "Luma8" ELSE "Luma16"),
      length  |-> r.res = "ok" => Len(r.out) = N(r),
      value   |-> (r.res = "ok" /\ Len(r.out) = N(r) /\ r.pi # "PALETTE COLOR") =>
                    IF r.mod # "None" /\ EffVoi(r, f)[1] = "normalize"
                    THEN (NormCheckable(r) => NormalizeOk([i \in 1..N(r) |-> V4(r, f, r.raws[f][i])], r.out, WinYMax(r)))
                    ELSE \A i \in 1..N(r) : r.out[i] \in MonoImgSet(r, f, r.raws[f][i])]

ColourImgChecks(r) ==
  LET f == r.frame + 1 IN
  [refusal |-> IF ColorImgRefused(r) THEN r.res # "ok" ELSE r.res = "ok",
   variant |-> r.res = "ok" => r.variant = (IF OutBits(r) = 8 THEN "Rgb8" ELSE "Rgb16"),
   length  |-> r.res = "ok" => Len(r.out) = N(r),
   value   |-> (r.res = "ok" /\ Len(r.out) = N(r) /\ ~ColorImgRefused(r) /\ ColorValueSpecified(r)) =>
                 \A p \in 1..r.npix : \A k \in 1..3 : r.out[(p - 1) * 3 + k] \in ColorImgSet(r, r.raws[f], p, k)]

(* "transcode": native colour / palette image -> r.target -> Explicit VR LE *)
Flat(r) == r.raws[1] \o r.raws[2]
Bytes(r) == IF r.ba = 8 THEN Flat(r)
            ELSE [i \in 1..(2 * Len(Flat(r))) |-> IF i % 2 = 1 THEN Flat(r)[(i + 1) \div 2] % 256 ELSE Flat(r)[i \div 2] \div 256]
TranscodeChecks(r) ==
  [ran        |-> r.mid.res = "ok" /\ r.final.res = "ok",
   bytes      |-> r.final.res = "ok" => PadNorm(r.final.pixels, Bytes(r)),
   pi         |-> r.final.res = "ok" => KeepsReading(r, r.final).pi,
   planar     |-> r.final.res = "ok" => KeepsReading(r, r.final).planar,
   spp        |-> r.final.res = "ok" => KeepsReading(r, r.final).spp,
   mid_pi     |-> r.mid.res = "ok" => KeepsReading(r, r.mid).pi,
   mid_planar |-> r.mid.res = "ok" => KeepsReading(r, r.mid).planar,
   decoded_view |-> (r.mid.res = "ok" /\ r.mid.dres = "ok") =>
                      /\ r.mid.dbytes = Bytes(r)
                      /\ r.mid.dpi = r.pi /\ r.mid.dplanar = r.planar]

(* "eot": an Encapsulated Uncompressed object carrying an Extended Offset Table (7FE0,0001) and *)
(* Extended Offset Table Lengths (7FE0,0002) was transcoded to r.target: afterwards the two     *)
(* attributes are absent, or they describe the fragments the object now has (PS3.3 C.7.6.3).   *)
E == INSTANCE EncapsOps
EotChecks(r) ==
  [ran |-> r.res = "ok",
   eot |-> r.res = "ok" =>
             \/ ~r.after.present
             \/ /\ r.after.native = FALSE
                /\ r.after.lengths = r.after.frag_lens
                /\ r.after.offsets = E!OffsetTable([k \in 1..Len(r.after.frag_lens) |-> <<r.after.frag_lens[k]>>])]

EffKind(r) == IF r.api \in {"transcode", "eot"} THEN r.api
              ELSE IF ~Mono(r) THEN "colour"
              ELSE IF r.mod = "None" THEN "nolut"
              ELSE EffVoi(r, IF r.api = "vec" THEN 1 ELSE r.frame + 1)[1]

Checks(r) == IF r.api = "eot" THEN EotChecks(r) ELSE IF r.api = "transcode" THEN TranscodeChecks(r) ELSE IF r.api # "img" THEN VecChecks(r) ELSE IF r.spp = 1 THEN MonoImgChecks(r) ELSE ColourImgChecks(r)
Why(r) == {k \in DOMAIN Checks(r) : ~Checks(r)[k]}

TCase == /\ l <= Len(Rec) /\ R.ev = "case"
         /\ IF Why(R) = {} THEN TRUE ELSE PrintT(<<"FAILED", l, ToJson(Why(R) \cup {"eff:" \o EffKind(R)})>>)
         /\ l' = l + 1
TSpec == TInit /\ [][TCase]_l

Track == TLCSet(1, IF l > TLCGet(1) THEN l ELSE TLCGet(1))
Accepted == IF TLCGet(1) = Len(Rec) + 1 THEN TRUE
            ELSE Print(<<"REJECTED", TLCGet(1), ToJson(Rec[TLCGet(1)])>>, FALSE)
=============================================================================
