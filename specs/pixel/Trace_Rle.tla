------------------------------ MODULE Trace_Rle ------------------------------
(***************************************************************************)
(* Trace validator for C20 (binding B).  Each event holds the RLE          *)
(* fragments the driver fed to dicom-rs (one per frame, produced by a      *)
(* randomised PackBits encoder that is only an input generator) and what   *)
(* decode_pixel_data / decode_pixel_data_frame(k) returned, plus what the  *)
(* registry's RLE reader returned when called directly (frames accumulated *)
(* in one vector; output appended to a pre-filled vector).  TLC decodes    *)
(* the fragments with the Annex G reference decoder of module Rle and      *)
(* accepts the event iff the code returned exactly those bytes, for every  *)
(* frame and for the whole object (= concatenation of the frames).         *)
(* A fragment that is not a well-formed Annex G stream is outside the      *)
(* property's premise: it is consumed by TMalformed, which prints a marker *)
(* the check turns into a tool error (the input generator is broken).      *)
(***************************************************************************)
EXTENDS Rle, Json, IOUtils

Rec == ndJsonDeserialize(IOEnv.TRACE)

VARIABLE l
TInit == l = 1 /\ TLCSet(1, 1)

R == Rec[l]
NPix == R.rows * R.cols
Bps == R.bits \div 8
Exp(f) == DecodeFrame(R.frags[f], NPix, R.spp, Bps)
Premise == \A f \in 1..R.frames : WellFormedFrag(R.frags[f], NPix, R.spp, Bps)

TCase == /\ l <= Len(Rec) /\ R.ev = "case"
         /\ Len(R.frags) = R.frames
         /\ Premise
         /\ \A f \in 1..R.frames : R.per[f].res = "ok" /\ R.per[f].data = Exp(f)
         /\ R.whole.res = "ok"
         /\ R.whole.data = Concat([f \in 1..R.frames |-> Exp(f)])
         (* the adapter's own interface appends to the destination vector:      *)
         (* frames decoded one after another into one vector give the whole,    *)
         (* and bytes already in the vector (the sentinel) stay untouched       *)
         /\ R.acc.res = "ok" /\ R.acc.data = Concat([f \in 1..R.frames |-> Exp(f)])
         /\ \A f \in 1..R.frames : R.pre[f].res = "ok" /\ R.pre[f].data = R.sentinel \o Exp(f)
         /\ R.pre_whole.res = "ok" /\ R.pre_whole.data = R.sentinel \o Concat([f \in 1..R.frames |-> Exp(f)])
         /\ l' = l + 1

TMalformed == /\ l <= Len(Rec) /\ R.ev = "case"
              /\ ~(Len(R.frags) = R.frames /\ Premise)
              /\ PrintT(<<"MALFORMED", l>>)
              /\ l' = l + 1

TNext == TCase \/ TMalformed
TSpec == TInit /\ [][TNext]_l

Track == TLCSet(1, IF l > TLCGet(1) THEN l ELSE TLCGet(1))
Accepted == IF TLCGet(1) = Len(Rec) + 1 THEN TRUE
            ELSE Print(<<"REJECTED", TLCGet(1), ToJson(Rec[TLCGet(1)])>>, FALSE)
=============================================================================
