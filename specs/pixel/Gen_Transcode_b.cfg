CONSTANTS Geoms <- GeomsB Starts = {"EVRLE", "EVRBE"}
  Targets = {"IVRLE", "EVRLE", "EVRBE", "EncUncomp", "DeflFrame"} MaxSteps = 3
SPECIFICATION GSpec
INVARIANTS Emit
CHECK_DEADLOCK FALSE
