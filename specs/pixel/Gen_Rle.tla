------------------------------ MODULE Gen_Rle ------------------------------
(***************************************************************************)
(* Case generator for C20 (binding A): TLC enumerates small images x run   *)
(* segmentations, encodes each with the reference encoder of module Rle    *)
(* and prints the fragments together with the expected decoded bytes       *)
(* (Interleave).  RoundTrip re-checks on every case that the reference     *)
(* decoder agrees with Interleave (the specification's own consistency).   *)
(***************************************************************************)
EXTENDS Rle, SequencesExt, Json

CONSTANTS Family,      \* "small" | "long"
          MaxVar,      \* cap on the variants (segmentation choices) per image
          MaxRuns,     \* data runs per segment
          FramesSet, BpsSet, SppSet

Shapes == IF Family = "small" THEN {<<1, 2>>, <<1, 3>>, <<2, 2>>, <<1, 5>>, <<2, 3>>}
          ELSE {<<1, 127>>, <<1, 128>>, <<1, 129>>, <<2, 65>>}
Kinds == IF Family = "small" THEN {"distinct", "const", "pairs"} ELSE {"const", "twoval", "ramp"}
Lits == IF Family = "small" THEN 1..6 ELSE {1, 2, 126, 127, 128}
Reps == IF Family = "small" THEN 2..6 ELSE {2, 126, 127, 128}

(* sample byte: frame f, pixel p, plane index q = (s-1)*bps + (b-1), all 1-based but q *)
Val(kind, f, p, q) ==
  CASE kind = "distinct" -> p + 8 * q + 64 * (f - 1)
    [] kind = "const"    -> 250 - 8 * q - (f - 1)
    [] kind = "pairs"    -> ((p + 1) \div 2) + 8 * q + 64 * (f - 1)
    [] kind = "twoval"   -> IF p <= 128 THEN 10 + q + 20 * (f - 1) ELSE 90 + q + 20 * (f - 1)
    [] kind = "ramp"     -> (p + 40 * q + 100 * (f - 1)) % 251

Image(par) ==
  [npix |-> par.shape[1] * par.shape[2], spp |-> par.spp, bps |-> par.bps, frames |-> par.frames,
   v |-> [f \in 1..par.frames |-> [p \in 1..(par.shape[1] * par.shape[2]) |->
           [s \in 1..par.spp |-> [b \in 1..par.bps |-> Val(par.kind, f, p, (s - 1) * par.bps + (b - 1))]]]]]

Params == [shape : Shapes, bps : BpsSet, spp : SppSet, frames : FramesSet, kind : Kinds]

SegSeq(d) == SetToSeq(Segms(d, MaxRuns, Lits, Reps))

(* number of variants of a parameter record = the largest number of segmentations of a plane *)
NVar(par) ==
  LET img == Image(par)
      ns == {Cardinality(Segms(Plane(img, f, j), MaxRuns, Lits, Reps)) : f \in 1..img.frames, j \in 1..NSeg(img)}
  IN Min(CHOOSE n \in ns : \A m \in ns : m <= n, MaxVar)

VARIABLE c
Init == c \in UNION {{<<par, i>> : i \in 1..NVar(par)} : par \in Params}
Next == UNCHANGED c
Spec == Init /\ [][Next]_c

RunsFor(img, f, j, i) ==
  LET sq == SegSeq(Plane(img, f, j))
      idx == ((i - 1 + 3 * (j - 1) + 5 * (f - 1)) % Len(sq)) + 1
  IN WithNoop(sq[idx], (i + j) % 4)

(* consistency of the specification itself, checked on every generated case, *)
(* then the case is printed                                                  *)
Emit ==
  LET par == c[1]
      i == c[2]
      img == Image(par)
      runs == [f \in 1..img.frames |-> [j \in 1..NSeg(img) |-> RunsFor(img, f, j, i)]]
      frags == [f \in 1..img.frames |-> EncodeFrame([j \in 1..NSeg(img) |-> Plane(img, f, j)], runs[f])]
      expect == [f \in 1..img.frames |-> Interleave(img, f)]
  IN /\ \A f \in 1..img.frames :
          /\ \A j \in 1..NSeg(img) : RunsCover(Plane(img, f, j), runs[f][j])
          /\ WellFormedFrag(frags[f], img.npix, img.spp, img.bps)
          /\ DecodeFrame(frags[f], img.npix, img.spp, img.bps) = expect[f]
     /\ PrintT(<<"CASE", ToJson(
          [fam |-> Family, rows |-> par.shape[1], cols |-> par.shape[2], spp |-> par.spp, bits |-> 8 * par.bps,
           frames |-> par.frames, kind |-> par.kind, i |-> i, runs |-> runs, frags |-> frags, expect |-> expect])>>)
=============================================================================
