CONSTANTS Geoms <- QuickGeoms Starts = {"IVRLE", "EVRLE", "EVRBE"}
  Targets = {"IVRLE", "EVRLE", "EVRBE", "EncUncomp", "DeflFrame"} MaxSteps = 3
SPECIFICATION Spec
INVARIANTS TypeOK PixelsPreserved NativeShape EncapsShape AttrConsistent
CHECK_DEADLOCK FALSE
