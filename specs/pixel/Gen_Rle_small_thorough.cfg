CONSTANTS Family = "small" MaxVar = 1000 MaxRuns = 4 FramesSet = {1,2} BpsSet = {1,2} SppSet = {1,3}
SPECIFICATION Spec
INVARIANTS Emit
CHECK_DEADLOCK FALSE
