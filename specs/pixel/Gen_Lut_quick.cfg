CONSTANTS BitsStored = {1,2,4,5,7,8,9,12,15,16} Tier = "quick"
SPECIFICATION Spec
INVARIANTS Emit
CHECK_DEADLOCK FALSE
