---------------------------- MODULE NativePixel ----------------------------
(***************************************************************************)
(* Native (uncompressed) pixel data, PS3.5 section 8.2 / Annex D, as far   *)
(* as C21 needs it.                                                        *)
(*                                                                         *)
(*  - a frame has rows x cols x samples-per-pixel samples;                 *)
(*  - Bits Allocated 8 / 16: a sample is 1 / 2 bytes, frames follow each   *)
(*    other without padding; only the whole Pixel Data value is padded to  *)
(*    even length;                                                         *)
(*  - Bits Allocated 1: samples are packed 8 to a byte, the first sample   *)
(*    in the least significant bit, and the packing is continuous across   *)
(*    frame boundaries (a frame may start in the middle of a byte).        *)
(*                                                                         *)
(* An image is [bits, spp, rows, cols, frames, data] with data the stored  *)
(* Pixel Data value as a byte sequence (possibly with the trailing pad).   *)
(* "Decoding" yields one byte per stored byte for 8/16 bits and one byte   *)
(* (0 or 255) per sample for 1 bit.                                        *)
(***************************************************************************)
EXTENDS Naturals, Sequences

FrameSamples(img) == img.rows * img.cols * img.spp
BytesPerSample(img) == IF img.bits = 1 THEN 1 ELSE (img.bits + 7) \div 8
(* length of one decoded frame in bytes *)
FrameLen(img) == FrameSamples(img) * BytesPerSample(img)

CeilDiv(a, b) == (a + b - 1) \div b
Pow2(k) == CASE k = 0 -> 1 [] k = 1 -> 2 [] k = 2 -> 4 [] k = 3 -> 8 [] k = 4 -> 16
             [] k = 5 -> 32 [] k = 6 -> 64 [] k = 7 -> 128

(* bit i (0-based) of the continuous bit stream, least significant bit first *)
Bit(data, i) == (data[(i \div 8) + 1] \div Pow2(i % 8)) % 2

(* number of stored bytes the image needs (before padding to even length) *)
StoredLen(img) == IF img.bits = 1 THEN CeilDiv(img.frames * FrameSamples(img), 8)
                  ELSE img.frames * FrameLen(img)

(* premise: the stored value holds the image, and nothing but the even-length pad in addition *)
WellFormed(img) == /\ img.bits \in {1, 8, 16} /\ img.spp \in {1, 3} /\ img.frames >= 1
                   /\ img.rows >= 1 /\ img.cols >= 1
                   /\ Len(img.data) \in {StoredLen(img), StoredLen(img) + (StoredLen(img) % 2)}

(* decoded samples of frame k (0-based) *)
Frame(img, k) ==
  IF img.bits = 1
  THEN [i \in 1..FrameSamples(img) |-> 255 * Bit(img.data, k * FrameSamples(img) + i - 1)]
  ELSE SubSeq(img.data, k * FrameLen(img) + 1, (k + 1) * FrameLen(img))

(* decoded samples of the whole object: frames x frame size samples *)
Whole(img) ==
  IF img.bits = 1
  THEN [i \in 1..(img.frames * FrameSamples(img)) |-> 255 * Bit(img.data, i - 1)]
  ELSE SubSeq(img.data, 1, img.frames * FrameLen(img))

(* slicing frame k out of a whole-object result *)
Slice(img, whole, k) == SubSeq(whole, k * FrameLen(img) + 1, (k + 1) * FrameLen(img))

(* the stored (encoded) bytes of frame k: for 1-bit images the smallest     *)
(* byte range that contains all bits of the frame                           *)
StoredFrame(img, k) ==
  IF img.bits = 1
  THEN SubSeq(img.data, ((k * FrameSamples(img)) \div 8) + 1, CeilDiv((k + 1) * FrameSamples(img), 8))
  ELSE SubSeq(img.data, k * FrameLen(img) + 1, (k + 1) * FrameLen(img))

(* the property, as a predicate over what an implementation returned:       *)
(*   whole   - decoded whole object                                         *)
(*   per[k]  - decoded single frame k                                       *)
(*   fd[k]   - frame k sliced from the whole-object result by the code      *)
NativeOk(img, whole, per, fd) ==
  /\ Len(whole) = img.frames * FrameLen(img)
  /\ whole = Whole(img)
  /\ \A k \in 0..(img.frames - 1) :
       /\ Slice(img, whole, k) = Frame(img, k)
       /\ per[k + 1] = Slice(img, whole, k)
       /\ fd[k + 1] = Slice(img, whole, k)

(* theorem of the specification, model-checked by MC_NativePixel: the whole *)
(* is the concatenation of the frames                                       *)
RECURSIVE CatFrames(_, _)
CatFrames(img, k) == IF k = img.frames THEN <<>> ELSE Frame(img, k) \o CatFrames(img, k + 1)
WholeIsConcat(img) == Whole(img) = CatFrames(img, 0)
=============================================================================
