------------------------------ MODULE Transcode ------------------------------
(***************************************************************************)
(* Transcoding as a sequence of object transformations (C19).              *)
(*                                                                         *)
(* An object holds an image of `frames` frames of FrameLen bytes each,     *)
(* either in native form (one value: the frames back to back, padded with  *)
(* one null byte to even length when it went through a file) or in         *)
(* encapsulated form (one fragment per frame, produced by a lossless       *)
(* codec; fragments have even length, so a frame of odd size is followed   *)
(* by one padding byte which is not pixel data).                           *)
(*                                                                         *)
(* Actions: Transcode(t) with the four-way case split of                   *)
(* transcode_with_options (native->native: only the transfer syntax        *)
(* changes; encapsulated->native: decode; anything->encapsulated: decode   *)
(* to native first, then encode frame by frame), and Hop (the object is    *)
(* written to a file and read back, which is where padding appears).       *)
(* Lossless codecs are the identity on the frame bytes (their real         *)
(* compression is executed in the conformance run, never modelled).        *)
(*                                                                         *)
(* Invariants: the pixel bytes are those of the original image in every    *)
(* reachable state, padding never ends up inside a frame, and the image    *)
(* attributes (which no action changes) stay consistent with the length.   *)
(***************************************************************************)
EXTENDS Naturals, Sequences

CONSTANTS Geoms,        \* set of [rows, cols, spp, bits, frames]
          Starts,       \* native transfer syntaxes an object may start in
          Targets,      \* transfer syntaxes to transcode to
          MaxSteps      \* bound on the number of Transcode steps

Native == {"IVRLE", "EVRLE", "EVRBE"}
IsNative(t) == t \in Native

FrameLen(g) == g.rows * g.cols * g.spp * (g.bits \div 8)
Pat(i) == ((i * 89 + 17) % 255) + 1              \* pixel byte at 1-based position i, never 0
Orig(g) == [i \in 1..(g.frames * FrameLen(g)) |-> Pat(i)]
PAD == 0

PadEven(s) == IF Len(s) % 2 = 1 THEN s \o <<PAD>> ELSE s
RECURSIVE Cat(_)
Cat(ss) == IF Len(ss) = 0 THEN <<>> ELSE Head(ss) \o Cat(Tail(ss))

VARIABLES g, ts, form, value, frags, steps, hops
vars == <<g, ts, form, value, frags, steps, hops>>

Init == /\ g \in Geoms /\ ts \in Starts /\ form = "native"
        /\ value = Orig(g) /\ frags = <<>> /\ steps = 0 /\ hops = 0

(* what decode_pixel_data yields for the current object *)
ImageLen == g.frames * FrameLen(g)
DecodeNative == IF Len(value) = ImageLen + 1 /\ ImageLen % 2 = 1 THEN SubSeq(value, 1, ImageLen) ELSE value
DecodeFragment(f) == IF Len(f) = FrameLen(g) + 1 /\ FrameLen(g) % 2 = 1 THEN SubSeq(f, 1, FrameLen(g)) ELSE f
DecodeEncaps == Cat([k \in 1..Len(frags) |-> DecodeFragment(frags[k])])
Decoded == IF form = "native" THEN DecodeNative ELSE DecodeEncaps

EncodeFrames(nat) == [k \in 1..g.frames |-> PadEven(SubSeq(nat, (k - 1) * FrameLen(g) + 1, k * FrameLen(g)))]

NativeToNative(t) == /\ form = "native" /\ IsNative(t)
                     /\ ts' = t /\ UNCHANGED <<form, value, frags>>
EncapsToNative(t) == /\ form = "encaps" /\ IsNative(t)
                     /\ ts' = t /\ form' = "native" /\ value' = DecodeEncaps /\ frags' = <<>>
ToEncaps(t) == /\ ~IsNative(t)
               /\ ts' = t /\ form' = "encaps" /\ frags' = EncodeFrames(Decoded) /\ value' = <<>>

Transcode(t) == /\ steps < MaxSteps /\ t # ts
                /\ (NativeToNative(t) \/ EncapsToNative(t) \/ ToEncaps(t))
                /\ steps' = steps + 1 /\ UNCHANGED <<g, hops>>

(* write to a file and read back: native values are padded to even length *)
Hop == /\ hops <= steps              \* at most one hop between two steps
       /\ value' = (IF form = "native" THEN PadEven(value) ELSE value)
       /\ hops' = steps + 1
       /\ UNCHANGED <<g, ts, form, frags, steps>>

Next == (\E t \in Targets : Transcode(t)) \/ Hop
Spec == Init /\ [][Next]_vars

TypeOK == /\ form \in {"native", "encaps"} /\ (form = "native") = IsNative(ts)
          /\ steps \in 0..MaxSteps
(* the pixel bytes are preserved exactly *)
PixelsPreserved == Decoded = Orig(g)
(* a native value is the image, plus at most the even-length pad at its very end *)
NativeShape == form = "native" => value \in {Orig(g), Orig(g) \o <<PAD>>}
(* fragments are even and there is one per frame *)
EncapsShape == form = "encaps" => /\ Len(frags) = g.frames
                                  /\ \A k \in 1..Len(frags) : Len(frags[k]) % 2 = 0
(* attributes consistent with the pixel data length *)
AttrConsistent == Len(Decoded) = g.frames * g.rows * g.cols * g.spp * (g.bits \div 8)
=============================================================================
