---------------------------- MODULE Gen_Malform ----------------------------
(* Case generator for C05: TLC enumerates the mutation space of Malform.tla   *)
(* for every seed (read from the ndjson file named by the SEEDS environment   *)
(* variable, written by `drv_malform seeds`): all single mutations, and with  *)
(* Pairs = TRUE all ordered-by-position pairs of core mutations.              *)
EXTENDS Malform, Json, IOUtils

CONSTANTS Thorough,   \* TRUE: the full mutation set for every seed
          Pairs       \* TRUE: emit pairs of core mutations instead of single mutations

Seeds == ndJsonDeserialize(IOEnv.SEEDS)

Singles(s) ==
  /\ \A m \in MutsOf(s, Thorough) : PrintT(<<"CASE", ToJson(CaseOf(s, <<m>>))>>)
  /\ (s.name = "t_empty" => \A t \in Strs3 : PrintT(<<"CASE", ToJson(StrCase(s, t))>>))

(* pairs of distinct core mutations, the first one at the smaller (or equal) offset *)
Before(s, m1, m2) ==
  LET e1 == EditOf(s, m1) e2 == EditOf(s, m2)
  IN m1 # m2 /\ (e1.at < e2.at \/ (e1.at = e2.at /\ m1.m # m2.m))
PairsOf(s) ==
  LET C == MutsCore(s)
  IN \A m1 \in C : \A m2 \in C : Before(s, m1, m2) => PrintT(<<"CASE", ToJson(CaseOf(s, <<m1, m2>>))>>)

VARIABLE i
Init == i = 1
Next == /\ i <= Len(Seeds)
        /\ IF Pairs THEN PairsOf(Seeds[i]) ELSE Singles(Seeds[i])
        /\ i' = i + 1
Spec == Init /\ [][Next]_i
=============================================================================
