---------------------------- MODULE Gen_Malform ----------------------------
(* Case generator for C05: TLC enumerates the mutation space of Malform.tla   *)
(* for every seed (read from the ndjson file named by the SEEDS environment   *)
(* variable, written by `drv_malform seeds`): all single mutations, and with  *)
(* Pairs = TRUE all ordered-by-position pairs of core mutations.              *)
EXTENDS Malform, Json, IOUtils

CONSTANTS Thorough,   \* TRUE: the full mutation set for every seed
          Pairs       \* TRUE: emit pairs of core mutations instead of single mutations

Seeds == ndJsonDeserialize(IOEnv.SEEDS)

Singles(s) ==
  /\ \A m \in MutsOf(s, Thorough) : PrintT(<<"CASE", ToJson(CaseOf(s, <<m>>))>>)
  /\ (s.name = "t_empty" => \A t \in Strs3 : PrintT(<<"CASE", ToJson(StrCase(s, t))>>))

(* pairs of distinct core mutations, the first one at the smaller (or equal) offset.   *)
(* All pairs would be quadratic in the size of the seed; emitted are the pairs that can *)
(* interact: edits at most NearBy(s) bytes apart, any two SetValue mutations (image     *)
(* attributes multiply), and SetValue with anything inside the Pixel Data element.      *)
NearBy(s) == IF s.kind = "text" THEN 6 ELSE 48
Coupled(s, m1, m2, e1, e2, ps) ==
  \/ e2.at - e1.at <= NearBy(s)
  \/ (m1.m = "SetValue" /\ m2.m = "SetValue")
  \/ (m1.m = "SetValue" /\ e2.at >= ps /\ ps < s.n)
PairsOf(s) ==
  LET C  == MutsCore(s)
      ps == PixStart(s)
  IN \A m1 \in C : LET e1 == EditOf(s, m1) IN
       \A m2 \in C : LET e2 == EditOf(s, m2) IN
         (m1 # m2 /\ (e1.at < e2.at \/ (e1.at = e2.at /\ m1.m # m2.m)) /\ Coupled(s, m1, m2, e1, e2, ps))
            => PrintT(<<"CASE", ToJson(CaseOf(s, <<m1, m2>>))>>)

VARIABLE i
Init == i = 1
Next == /\ i <= Len(Seeds)
        /\ IF Pairs THEN PairsOf(Seeds[i]) ELSE Singles(Seeds[i])
        /\ i' = i + 1
Spec == Init /\ [][Next]_i
=============================================================================
