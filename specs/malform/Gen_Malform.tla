---------------------------- MODULE Gen_Malform ----------------------------
(* Case generator for C05: TLC enumerates the mutation space of Malform.tla   *)
(* for every seed (read from the ndjson file named by the SEEDS environment   *)
(* variable, written by `drv_malform seeds`): all single mutations, and with  *)
(* Pairs = TRUE all ordered-by-position pairs of core mutations.              *)
EXTENDS Malform, Json, IOUtils

CONSTANTS Thorough,   \* TRUE: the full mutation set for every seed
          Pairs       \* TRUE: emit pairs of core mutations instead of single mutations

Seeds == ndJsonDeserialize(IOEnv.SEEDS)

Singles(s) ==
  /\ \A m \in MutsOf(s, Thorough) : PrintT(<<"CASE", ToJson(CaseOf(s, <<m>>))>>)
  /\ (s.name = "t_empty" => \A t \in Strs3 : PrintT(<<"CASE", ToJson(StrCase(s, t))>>))

(* Pairs of core mutations (thorough).  All pairs would be quadratic in the size of   *)
(* the seed; emitted are the pairs that can interact: mutations anchored at two fields *)
(* at most Window(s) positions apart in the field sequence (same field included), any  *)
(* two SetValue mutations (image attributes multiply), and SetValue with any mutation  *)
(* inside the Pixel Data element.  The core mutations anchored at a field are built    *)
(* directly (CoreAt) so that the enumeration is linear in the number of pairs.         *)
Window(s) == IF s.kind = "text" THEN 4 ELSE 8
StartKinds == {"tag", "item_tag", "delim", "item_type", "pdv_len"}
CoreAt(s, i) ==
  LET f == s.fields[i] IN
  (IF f.k \in LenKinds THEN {Mut("SetLength", i, 0, c) : c \in {d \in CoreLen \cap ClassesOf(f) : ClassApplies(f, d)}} ELSE {})
  \cup (IF f.k \in IntKinds \/ IsUSValue(f) THEN {Mut("SetValue", i, 0, c) : c \in CoreVal} ELSE {})
  \cup (IF f.k = "vr" THEN {Mut("SwapVR", i, 0, c) : c \in CoreVR} ELSE {})
  \cup (IF f.k = "delim" THEN {Mut("DropDelimiter", i, 0, "")} ELSE {})
  \cup (IF f.k \in Pseudo \cup {"ch", "punct"} THEN {Mut("DropField", i, 0, ""), Mut("DuplicateField", i, 0, "")} ELSE {})
  \cup (IF IsText(s) THEN {Mut("SetChar", i, 0, c) : c \in CoreSym} \cup {Mut("InsertChar", 0, f.o, c) : c \in CoreSym} ELSE {})
  \cup (IF f.k \in StartKinds THEN {Mut("Truncate", 0, f.o, "")} ELSE {})
  \cup (IF f.k \in StartKinds /\ IsDicom(s) THEN {Mut("StrayDelimiter", 0, f.o, c) : c \in {"item", "seq_delim"}} ELSE {})

EmitPair(s, m1, m2) == m1 # m2 => PrintT(<<"CASE", ToJson(CaseOf(s, <<m1, m2>>))>>)
PairsOf(s) ==
  LET n  == Len(s.fields)
      ps == PixStart(s)
      SV == {i \in 1..n : s.fields[i].k \in IntKinds \/ IsUSValue(s.fields[i])}
      PX == IF ps < s.n THEN {j \in 1..n : s.fields[j].o >= ps} ELSE {}
  IN /\ \A i \in 1..n : \A j \in i..Min(n, i + Window(s)) :
          \A m1 \in CoreAt(s, i) : \A m2 \in CoreAt(s, j) : EmitPair(s, m1, m2)
     /\ \A i \in SV : \A j \in (SV \cup PX) :
          (j > i + Window(s) \/ j < i) =>
             \A m1 \in {m \in CoreAt(s, i) : m.m = "SetValue"} : \A m2 \in CoreAt(s, j) : EmitPair(s, m1, m2)

VARIABLE i
Init == i = 1
Next == /\ i <= Len(Seeds)
        /\ IF Pairs THEN PairsOf(Seeds[i]) ELSE Singles(Seeds[i])
        /\ i' = i + 1
Spec == Init /\ [][Next]_i
=============================================================================
