---------------------------- MODULE Gen_Malform ----------------------------
(* Case generator for C05: TLC enumerates the mutation space of Malform.tla   *)
(* for every seed (read from the ndjson file named by the SEEDS environment   *)
(* variable, written by `drv_malform seeds`): all single mutations, and with  *)
(* Pairs = TRUE all ordered-by-position pairs of core mutations.              *)
EXTENDS Malform, Json, IOUtils

CONSTANTS Thorough,   \* TRUE: the full mutation set for every seed
          Pairs       \* TRUE: emit pairs of core mutations instead of single mutations

Seeds == ndJsonDeserialize(IOEnv.SEEDS)

Singles(s) ==
  /\ \A m \in MutsOf(s, Thorough) : PrintT(<<"CASE", ToJson(CaseOf(s, <<m>>))>>)
  /\ (s.name = "t_empty" => \A t \in Strs3 : PrintT(<<"CASE", ToJson(StrCase(s, t))>>))

(* pairs of distinct core mutations, the first one at the smaller (or equal) offset.   *)
(* All pairs would be quadratic in the size of the seed; emitted are the pairs that can *)
(* interact: edits at most NearBy(s) bytes apart, any two SetValue mutations (image     *)
(* attributes multiply), and SetValue with anything inside the Pixel Data element.      *)
NearBy(s) == IF s.kind = "text" THEN 4 ELSE 32
Coupled(s, x, y, ps) ==
  \/ y.e.at - x.e.at <= NearBy(s)
  \/ (x.m.m = "SetValue" /\ y.m.m = "SetValue")
  \/ (x.m.m = "SetValue" /\ y.e.at >= ps /\ ps < s.n)
PairCase(s, x, y) ==
  LET es == <<x.e, y.e>>
      small == s.n <= 64 /\ NoGarbage(es) /\ \A i \in 1..2 : es[i].rep * Len(es[i].ins) <= 64
  IN IF small THEN [seed |-> s.name, muts |-> <<x.m, y.m>>, edits |-> es, bytes |-> ApplyAll(s.bytes, es)]
     ELSE [seed |-> s.name, muts |-> <<x.m, y.m>>, edits |-> es]
PairsOf(s) ==
  LET CE   == {[m |-> m, e |-> EditOf(s, m)] : m \in MutsCore(s)}   \* every edit is computed once
      ps   == PixStart(s)
      Ats  == {x.e.at : x \in CE}
      ByAt == [a \in Ats |-> {x \in CE : x.e.at = a}]                \* index by offset
      SV   == {x \in CE : x.m.m = "SetValue"}
      Pix  == IF ps < s.n THEN {x \in CE : x.e.at >= ps} ELSE {}
      Cand(x) == UNION {ByAt[a] : a \in (x.e.at .. x.e.at + NearBy(s)) \cap Ats}
                 \cup (IF x.m.m = "SetValue" THEN SV \cup Pix ELSE {})
  IN \A x \in CE : \A y \in Cand(x) :
       (x.m # y.m /\ (x.e.at < y.e.at \/ (x.e.at = y.e.at /\ x.m.m # y.m.m)) /\ Coupled(s, x, y, ps))
          => PrintT(<<"CASE", ToJson(PairCase(s, x, y))>>)

VARIABLE i
Init == i = 1
Next == /\ i <= Len(Seeds)
        /\ IF Pairs THEN PairsOf(Seeds[i]) ELSE Singles(Seeds[i])
        /\ i' = i + 1
Spec == Init /\ [][Next]_i
=============================================================================
