CONSTANT Thorough = TRUE
CONSTANT Pairs = FALSE
SPECIFICATION Spec
CHECK_DEADLOCK FALSE
