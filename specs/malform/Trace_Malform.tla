---------------------------- MODULE Trace_Malform ----------------------------
(***************************************************************************)
(* Property-level trace validator for C05: untrusted input never makes a   *)
(* reader panic, abort or hang.                                            *)
(*                                                                         *)
(* Events (written by `drv_malform run`, one line each):                   *)
(*   eps   {kind, names}      the entry points executed for inputs of a    *)
(*                            seed kind, in execution order                *)
(*   case  {id, kind, outs}   case `id` of the TLC-generated case file was *)
(*                            materialised and fed to every entry point of *)
(*                            its kind; outs[j] is what entry point j did: *)
(*                            "ok"    returned a value                     *)
(*                            "err"   returned an error                    *)
(*                            "panic" unwound with a panic                 *)
(*                            "abort" the process died (signal / abort)    *)
(*                            "hang"  no progress within the budget        *)
(* The property: every outcome is "ok" or "err".  A violating case is not  *)
(* a dead end: its line number is appended to `bad`, so that one TLC run   *)
(* reports every violating case.  A structurally wrong trace (ids not      *)
(* consecutive, unknown kind, wrong number of outcomes, unknown     *)
(* outcome word) is REJECTED (tool error).                                 *)
(***************************************************************************)
EXTENDS Naturals, Sequences, TLC, Json, IOUtils

Rec == ndJsonDeserialize(IOEnv.TRACE)

Acceptable == {"ok", "err"}
Outcomes   == Acceptable \cup {"panic", "abort", "hang"}

VARIABLES l,      \* next line
          neps,   \* kind -> number of entry points
          last,   \* id of the last case
          bad     \* lines of the violating cases
tvars == <<l, neps, last, bad>>

TInit == l = 1 /\ neps = [k \in {} |-> 0] /\ last = 0 /\ bad = <<>> /\ TLCSet(1, 1) /\ TLCSet(2, <<>>)

Ev(e) == l <= Len(Rec) /\ Rec[l].ev = e /\ l' = l + 1
R == Rec[l]

TEps == /\ Ev("eps") /\ R.kind \notin DOMAIN neps /\ Len(R.names) > 0
        /\ neps' = [k \in DOMAIN neps \cup {R.kind} |-> IF k = R.kind THEN Len(R.names) ELSE neps[k]]
        /\ UNCHANGED <<last, bad>>

Holds(outs) == \A j \in 1..Len(outs) : outs[j] \in Acceptable

TCase == /\ Ev("case")
         /\ (last = 0 \/ R.id = last + 1)
         /\ R.kind \in DOMAIN neps
         /\ Len(R.outs) = neps[R.kind]
         /\ \A j \in 1..Len(R.outs) : R.outs[j] \in Outcomes
         /\ last' = R.id
         /\ bad' = IF Holds(R.outs) \/ Len(bad) >= 20000 THEN bad ELSE Append(bad, l)
         /\ UNCHANGED neps

TNext == TEps \/ TCase
TSpec == TInit /\ [][TNext]_tvars

Track == /\ TLCSet(1, IF l > TLCGet(1) THEN l ELSE TLCGet(1))
         /\ (l = Len(Rec) + 1 => TLCSet(2, bad))
Accepted == IF TLCGet(1) = Len(Rec) + 1
            THEN PrintT(<<"BADCASES", ToJson(TLCGet(2))>>)
            ELSE Print(<<"REJECTED", TLCGet(1), ToJson(Rec[TLCGet(1)])>>, FALSE)
=============================================================================
