CONSTANT Thorough = FALSE
CONSTANT Pairs = TRUE
SPECIFICATION Spec
CHECK_DEADLOCK FALSE
