CONSTANT Thorough = FALSE
CONSTANT Pairs = FALSE
SPECIFICATION Spec
CHECK_DEADLOCK FALSE
