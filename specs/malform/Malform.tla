------------------------------ MODULE Malform ------------------------------
(***************************************************************************)
(* Fault layer for C05 (untrusted input never makes a reader panic, abort  *)
(* or hang).                                                               *)
(*                                                                         *)
(* A SEED is a valid encoding (file, bare data set, file meta group, PDU,  *)
(* DICOM JSON document, text form) given abstractly as a byte sequence     *)
(* plus its sequence of FIELDS  [k: kind, o: 0-based offset, w: width,     *)
(* be: big endian?, v: declared value of a length-like / small integer     *)
(* field (-1: none or >= 2^31), n: note (VR code of a value, ...)].        *)
(*                                                                         *)
(* A MUTATION is a descriptor  [m: operator, f: field index (0: none),     *)
(* p: integer parameter, v: value class]; its meaning is the byte-sequence *)
(* EDIT  [at, del, ins, rep, rnd] computed by EditOf:  replace `del` bytes *)
(* at 0-based offset `at` by `rep` copies of `ins` followed by `rnd`       *)
(* bytes of seeded garbage (the only part filled in by the driver).        *)
(* Apply / ApplyAll give the mutated byte sequence; the driver performs    *)
(* exactly this splice (and is checked against ApplyAll on small seeds).   *)
(*                                                                         *)
(* Operators: Truncate, SetLength, SetValue, SetCount, Shrink and           *)
(* ShrinkLast (coupled),                                                   *)
(* SwapVR, DropDelimiter,                                                  *)
(* StrayDelimiter, ZeroField, FlipByte, Garbage, DuplicateField,           *)
(* DropField, InsertBytes, InsertRun (over-long / deep nesting), SetChar,  *)
(* InsertChar, Str (a whole string over the text alphabet).                *)
(*                                                                         *)
(* The only postcondition of the property is in Trace_Malform.tla: every   *)
(* entry point returns a value or an error.                                *)
(***************************************************************************)
EXTENDS Naturals, Integers, Sequences, FiniteSets, TLC

Min(a, b) == IF a < b THEN a ELSE b
Max(a, b) == IF a > b THEN a ELSE b

RECURSIVE Rep(_, _)
Rep(s, n) == IF n = 0 THEN <<>> ELSE s \o Rep(s, n - 1)

-----------------------------------------------------------------------------
(* edits on byte sequences *)

Edit(at, del, ins, rep, rnd) == [at |-> at, del |-> del, ins |-> ins, rep |-> rep, rnd |-> rnd]

(* the mutated bytes (seeded garbage is not modelled: defined for rnd = 0) *)
Apply(b, e) ==
  LET at  == Min(e.at, Len(b))
      del == Min(e.del, Len(b) - at)
  IN SubSeq(b, 1, at) \o Rep(e.ins, e.rep) \o SubSeq(b, at + del + 1, Len(b))

(* edits are relative to the seed: the one with the largest offset is applied first so
   that the offsets of the others stay valid; ties: the earlier edit of the list first *)
RECURSIVE ApplyAll(_, _)
ApplyAll(b, es) ==
  IF Len(es) = 0 THEN b
  ELSE LET i == CHOOSE j \in 1..Len(es) : /\ \A k \in 1..Len(es) : es[j].at >= es[k].at
                                          /\ \A k \in 1..(j - 1) : es[k].at < es[j].at
           rest == [k \in 1..(Len(es) - 1) |-> IF k < i THEN es[k] ELSE es[k + 1]]
       IN ApplyAll(Apply(b, es[i]), rest)

NoGarbage(es) == \A i \in 1..Len(es) : es[i].rnd = 0

-----------------------------------------------------------------------------
(* integer encodings (values < 2^31) *)

RECURSIVE LE(_, _)
LE(v, w) == IF w = 0 THEN <<>> ELSE <<v % 256>> \o LE(v \div 256, w - 1)
RECURSIVE Reverse(_)
Reverse(s) == IF s = <<>> THEN <<>> ELSE Reverse(Tail(s)) \o <<Head(s)>>
Enc(v, w, be) == IF be THEN Reverse(LE(v, w)) ELSE LE(v, w)

(* length value classes; the byte patterns are written most significant first *)
LenClasses16 == {"zero", "one", "odd", "dec", "inc", "half", "8000", "fffe", "ffff"}
LenClasses32 == LenClasses16 \cup {"10000", "7fffffff", "80000000", "fffffffe", "ffffffff"}

HasDeclared(f) == f.v >= 0
ClassApplies(f, c) ==
  CASE c = "dec"  -> f.v >= 1
    [] c = "inc"  -> HasDeclared(f)
    [] c = "odd"  -> HasDeclared(f)
    [] c = "half" -> f.v >= 4
    [] c = "zero" -> f.v # 0
    [] c = "one"  -> f.v # 1
    [] c = "ffffffff" -> f.v # -1 \/ f.k # "len32"
    [] OTHER -> TRUE

Pad(msb, w) == IF Len(msb) >= w THEN SubSeq(msb, Len(msb) - w + 1, Len(msb)) ELSE Rep(<<0>>, w - Len(msb)) \o msb
ClassBytes(f, c) ==
  LET num(x) == Enc(x, f.w, f.be)
      pat(msb) == IF f.be THEN Pad(msb, f.w) ELSE Reverse(Pad(msb, f.w))
  IN CASE c = "zero" -> num(0)
       [] c = "one"  -> num(1)
       [] c = "odd"  -> num(IF f.v % 2 = 1 THEN f.v + 2 ELSE f.v + 1)
       [] c = "dec"  -> num(f.v - 1)
       [] c = "inc"  -> num(f.v + 1)
       [] c = "half" -> num(f.v \div 2)
       [] c = "8000" -> pat(<<128, 0>>)
       [] c = "fffe" -> pat(<<255, 254>>)
       [] c = "ffff" -> pat(<<255, 255>>)
       [] c = "10000" -> pat(<<1, 0, 0>>)
       [] c = "7fffffff" -> pat(<<127, 255, 255, 255>>)
       [] c = "80000000" -> pat(<<128, 0, 0, 0>>)
       [] c = "fffffffe" -> pat(<<255, 255, 255, 254>>)
       [] c = "ffffffff" -> pat(<<255, 255, 255, 255>>)

(* small integer values (US attributes of the image module, PDU bytes, JPEG frame header) *)
ValueClasses == {"0", "1", "2", "3", "7", "8", "9", "12", "16", "17", "32", "64", "255", "ff7f", "ffff"}
ValueBytes(f, c) ==
  LET num(x) == Enc(x, f.w, f.be)
  IN CASE c = "0" -> num(0) [] c = "1" -> num(1) [] c = "2" -> num(2) [] c = "3" -> num(3)
       [] c = "7" -> num(7) [] c = "8" -> num(8) [] c = "9" -> num(9) [] c = "12" -> num(12)
       [] c = "16" -> num(16) [] c = "17" -> num(17) [] c = "32" -> num(32) [] c = "64" -> num(64)
       [] c = "255" -> num(255)
       [] c = "ff7f" -> IF f.w = 1 THEN <<127>> ELSE IF f.be THEN <<127, 255>> ELSE <<255, 127>>
       [] c = "ffff" -> Rep(<<255>>, f.w)

(* count fields with a maximum fixed by the format: boundary values around the limit *)
Limit(f) == IF f.k = "rle_count" THEN 15                            \* PS3.5 G.5: at most 15 RLE segments
            ELSE IF f.k = "byte" /\ f.n = "sof_ncomp" THEN 4        \* JPEG frame header: at most 4 components in a scan
            ELSE -1
CountClasses == {"lim-1", "lim", "lim+1", "lim+2"}
CountBytes(f, c) ==
  Enc(Limit(f) + (CASE c = "lim-1" -> 0 - 1 [] c = "lim" -> 0 [] c = "lim+1" -> 1 [] c = "lim+2" -> 2), f.w, f.be)

(* VR codes for SwapVR (ASCII), incl. the long-header VRs, an unknown code and NULs *)
VRCodes == {"SQ", "UN", "OB", "OW", "UT", "UC", "US", "UL", "LO", "DA", "TM", "DT", "AT", "FD", "PN", "IS", "DS", "ZZ", "nul"}
VRBytes(c) ==
  CASE c = "SQ" -> <<83, 81>> [] c = "UN" -> <<85, 78>> [] c = "OB" -> <<79, 66>> [] c = "OW" -> <<79, 87>>
    [] c = "UT" -> <<85, 84>> [] c = "UC" -> <<85, 67>> [] c = "US" -> <<85, 83>> [] c = "UL" -> <<85, 76>>
    [] c = "LO" -> <<76, 79>> [] c = "DA" -> <<68, 65>> [] c = "TM" -> <<84, 77>> [] c = "DT" -> <<68, 84>>
    [] c = "AT" -> <<65, 84>> [] c = "FD" -> <<70, 68>> [] c = "PN" -> <<80, 78>> [] c = "IS" -> <<73, 83>>
    [] c = "DS" -> <<68, 83>> [] c = "ZZ" -> <<90, 90>> [] c = "nul" -> <<0, 0>>

(* delimiters and item headers (tag FFFE,E000 / E00D / E0DD + 32-bit length) *)
DelimBytes(c, be) ==
  LET t(e) == IF be THEN <<255, 254, 224, e>> ELSE <<254, 255, e, 224>>
  IN CASE c = "item"       -> t(0)   \o <<255, 255, 255, 255>>
       [] c = "item0"      -> t(0)   \o <<0, 0, 0, 0>>
       [] c = "item_delim" -> t(13)  \o <<0, 0, 0, 0>>
       [] c = "seq_delim"  -> t(221) \o <<0, 0, 0, 0>>
StrayKinds == {"item", "item0", "item_delim", "seq_delim"}

(* one level of nesting: a sequence element of undefined length + an item of undefined length *)
NestUnit(ts) ==
  CASE ts = "ivrle" -> <<8, 0, 50, 16, 255, 255, 255, 255>> \o DelimBytes("item", FALSE)
    [] ts = "evrbe" -> <<0, 8, 16, 50, 83, 81, 0, 0, 255, 255, 255, 255>> \o DelimBytes("item", TRUE)
    [] OTHER        -> <<8, 0, 50, 16, 83, 81, 0, 0, 255, 255, 255, 255>> \o DelimBytes("item", FALSE)

(* byte snippets for InsertBytes / InsertRun *)
Snippets(kind) ==
  CASE kind = "json" -> {"lbrack", "lbrace", "quote", "null", "bignum", "comma", "nest"}
    [] kind = "pdu"  -> {"nul", "ff4", "item50"}
    [] kind = "text" -> {}
    [] OTHER         -> {"nul", "ff4", "itemtag"}
SnippetBytes(c, s) ==
  CASE c = "nul"     -> <<0>>
    [] c = "ff4"     -> <<255, 255, 255, 255>>
    [] c = "itemtag" -> IF s.ts = "evrbe" THEN <<255, 254, 224, 0>> ELSE <<254, 255, 0, 224>>
    [] c = "item50"  -> <<80, 0, 255, 255>>
    [] c = "lbrack"  -> <<91>>
    [] c = "lbrace"  -> <<123>>
    [] c = "quote"   -> <<34>>
    [] c = "null"    -> <<110, 117, 108, 108>>
    [] c = "bignum"  -> <<49, 101, 57, 57, 57, 57>>
    [] c = "comma"   -> <<44>>
    [] c = "nest"    -> <<123, 34, 48, 48, 48, 56, 49, 48, 51, 50, 34, 58, 123, 34, 118, 114, 34, 58, 34, 83, 81, 34, 44, 34, 86, 97, 108, 117, 101, 34, 58, 91>>
                        \* {"00081032":{"vr":"SQ","Value":[

(* text alphabet: digits, separators, signs, brackets, letters, NUL, non-ASCII (UTF-8) *)
Alphabet == {"0", "9", "A", "g", "-", "+", ".", ",", "(", ")", "[", "]", " ", "bs", "nul", "euro", "emoji", "xff"}
SymBytes(c) ==
  CASE c = "0" -> <<48>> [] c = "9" -> <<57>> [] c = "A" -> <<65>> [] c = "g" -> <<103>>
    [] c = "-" -> <<45>> [] c = "+" -> <<43>> [] c = "." -> <<46>> [] c = "," -> <<44>>
    [] c = "(" -> <<40>> [] c = ")" -> <<41>> [] c = "[" -> <<91>> [] c = "]" -> <<93>>
    [] c = " " -> <<32>> [] c = "bs" -> <<92>> [] c = "nul" -> <<0>>
    [] c = "euro" -> <<226, 130, 172>> [] c = "emoji" -> <<240, 159, 152, 128>> [] c = "xff" -> <<255>>
SmallAlphabet == {"0", "9", "A", "-", "+", ".", ",", "(", "[", "]", "euro"}

-----------------------------------------------------------------------------
(* the mutation space of a seed *)

Mut(m, f, p, v) == [m |-> m, f |-> f, p |-> p, v |-> v]

LenKinds == {"len16", "len32", "pdu_len", "pdv_len", "bot", "rle_count", "rle_off"}
IntKinds == {"byte", "be16", "pdu_type", "item_type", "jpg_marker"}
Pseudo   == {"elem", "item", "pitem"}
IsUSValue(f) == f.k = "value" /\ f.n = "US" /\ f.w = 2

FieldIdx(s) == 1..Len(s.fields)
OfKind(s, K) == {i \in FieldIdx(s) : s.fields[i].k \in K}
ClassesOf(f) == IF f.w = 2 THEN LenClasses16 ELSE LenClasses32

CutPoints(s) ==
  ({s.fields[i].o : i \in FieldIdx(s)} \cup {s.fields[i].o + 1 : i \in {j \in FieldIdx(s) : s.fields[j].w > 1}}
     \cup {s.fields[i].o + s.fields[i].w - 1 : i \in {j \in FieldIdx(s) : s.fields[j].w > 2}}
     \cup {IF s.n > 0 THEN s.n - 1 ELSE 0}) \ {s.n}
Boundaries(s) == {s.fields[i].o : i \in FieldIdx(s)} \cup {s.n}
ElemStarts(s) == {s.fields[i].o : i \in OfKind(s, {"tag", "item_tag", "delim", "item_type", "pdv_len"})} \cup {s.n}

IsText(s) == s.kind = "text"
IsDicom(s) == s.kind \in {"file", "dataset", "meta"}

MTruncate(s)   == {Mut("Truncate", 0, k, "") : k \in CutPoints(s)}
MSetLength(s)  == {Mut("SetLength", i, 0, c) : i \in OfKind(s, LenKinds), c \in LenClasses32}
MSetValue(s)   == {Mut("SetValue", i, 0, c) : i \in {j \in FieldIdx(s) : s.fields[j].k \in IntKinds \/ IsUSValue(s.fields[j])}, c \in ValueClasses}
MSwapVR(s)     == {Mut("SwapVR", i, 0, c) : i \in OfKind(s, {"vr"}), c \in VRCodes}
MDropDelim(s)  == {Mut("DropDelimiter", i, 0, "") : i \in OfKind(s, {"delim"})}
MStray(s)      == IF IsDicom(s) THEN {Mut("StrayDelimiter", 0, k, c) : k \in ElemStarts(s), c \in StrayKinds} ELSE {}
MZero(s)       == {Mut("ZeroField", i, 0, "") : i \in {j \in FieldIdx(s) : s.fields[j].k \notin Pseudo /\ ~IsText(s)}}
MFlip(s)       == {Mut("FlipByte", i, p, c) : i \in {j \in FieldIdx(s) : s.fields[j].k \notin Pseudo /\ ~IsText(s)}, p \in {0, 1}, c \in {"01", "80", "ff"}}
MGarbage(s)    == {Mut("Garbage", i, 0, c) : i \in {j \in FieldIdx(s) : ~IsText(s)}, c \in {"same", "grow"}}
                  \cup {Mut("Garbage", 0, n, "append") : n \in {1, 7, 64}}
                  \cup {Mut("Garbage", 0, n, "whole") : n \in {0, 1, 8, 132, 140, 600}}
MDuplicate(s)  == {Mut("DuplicateField", i, 0, "") : i \in FieldIdx(s)}
MDrop(s)       == {Mut("DropField", i, 0, "") : i \in FieldIdx(s)}
MInsert(s)     == {Mut("InsertBytes", 0, k, c) : k \in Boundaries(s), c \in Snippets(s.kind)}
DeepSeeds      == {"f_small_ivrle", "d_small_evrle", "d_deflen_evrbe"}   \* 30000 levels are slow to read: three seeds only
MRun(s)        == CASE s.kind \in {"file", "dataset"} -> {Mut("InsertRun", 0, n, "nest") : n \in {40, 3000} \cup (IF s.name \in DeepSeeds THEN {30000} ELSE {})}
                    [] s.kind = "json" -> {Mut("InsertRun", 0, n, c) : n \in {100, 200, 5000}, c \in {"lbrack", "nest"}}
                    [] s.kind = "text" -> {Mut("InsertRun", 0, n, c) : n \in {300, 70000}, c \in {"9", "A", "[", "euro", "."}}
                    [] OTHER -> {}
MSetCount(s)   == {Mut("SetCount", i, 0, c) : i \in {j \in FieldIdx(s) : Limit(s.fields[j]) >= 0}, c \in CountClasses}

(* Shrink: a COUPLED mutation.  The structure (item, PDU item, PDU, element) that encloses a  *)
(* count / inner length field is cut down to its fixed header (everything up to the first  *)
(* value inside it after the field) plus p further bytes, the length fields of all enclosing *)
(* structures are corrected so that the result is well-framed, and the field itself is set  *)
(* to a class v ("keep": unchanged).  E.g. an RLE fragment of exactly 64 / 66 / 68 bytes      *)
(* that declares 14..17 segments; a user identity sub-item cut after its primary length.    *)
Encl(s, i) == LET f == s.fields[i] IN
  {j \in FieldIdx(s) : s.fields[j].k \in Pseudo /\ s.fields[j].o <= f.o /\ f.o + f.w <= s.fields[j].o + s.fields[j].w}
Inner(s, i) == CHOOSE j \in Encl(s, i) : \A j2 \in Encl(s, i) : s.fields[j].w <= s.fields[j2].w
SetMin(S) == CHOOSE x \in S : \A y \in S : x <= y
HeaderEnd(s, i) ==
  LET f == s.fields[i]
      p == s.fields[Inner(s, i)]
      A == {s.fields[j].o : j \in {q \in FieldIdx(s) : /\ s.fields[q].o >= f.o + f.w
                                                        /\ s.fields[q].o < p.o + p.w
                                                        /\ s.fields[q].k \in {"value", "text"} \cup Pseudo}}
  IN IF A = {} THEN p.o + p.w ELSE SetMin(A)
(* the length field of a structure: the first length-like field inside it, if its value is
   the number of bytes from its own end to the end of the structure *)
LenFieldOf(s, j) ==
  LET p == s.fields[j]
      L == {q \in FieldIdx(s) : s.fields[q].k \in LenKinds /\ s.fields[q].o >= p.o /\ s.fields[q].o < p.o + p.w}
  IN IF L = {} THEN 0
     ELSE LET q == CHOOSE x \in L : \A y \in L : s.fields[x].o <= s.fields[y].o
          IN IF s.fields[q].v = p.o + p.w - (s.fields[q].o + s.fields[q].w) THEN q ELSE 0
ShrinkNotes == {"uid_len", "primary_len", "secondary_len", "pdu_subitem", "jpg", "frag"}
ShrinkField(s, i) ==
  LET f == s.fields[i]
  IN /\ Limit(f) >= 0 \/ (f.k \in LenKinds /\ (f.k \in {"rle_off", "bot", "pdv_len"} \/ f.n \in ShrinkNotes))
     /\ Encl(s, i) # {}
ShrinkClasses(f) == IF Limit(f) >= 0 THEN CountClasses \cup {"keep"} ELSE {"keep", "zero", "inc", "ffff"}
MShrink(s)     == {Mut("Shrink", i, p, c) : i \in {j \in FieldIdx(s) : ShrinkField(s, j)}, p \in {0, 2, 4}, c \in LenClasses32 \cup CountClasses \cup {"keep"}}

(* ShrinkLast: a sibling COUPLED mutation.  The structure q holding a length field is made  *)
(* the LAST one of its parent: everything from p bytes after the field up to the end of the *)
(* parent (the rest of q and all following siblings; of q itself when it has no parent) is   *)
(* removed, the field is set to a short class v (0, 1, 2, 3, declared-1, "keep") and every   *)
(* enclosing length field is corrected.  E.g. an A-ASSOCIATE-RQ whose User Information item  *)
(* ends with a Maximum Length sub-item declaring 0..3 bytes and followed by 0..3 bytes; a     *)
(* P-DATA PDU ending inside the 2-byte PDV header; an A-ABORT with a 1-byte body.            *)
Parent(s, j) ==   \* index of the smallest pseudo structure strictly enclosing structure j (0: none)
  LET q == s.fields[j]
      E == {x \in FieldIdx(s) : /\ x # j /\ s.fields[x].k \in Pseudo
                                /\ s.fields[x].o <= q.o /\ q.o + q.w <= s.fields[x].o + s.fields[x].w
                                /\ s.fields[x].w > q.w}
  IN IF E = {} THEN 0 ELSE CHOOSE x \in E : \A y \in E : s.fields[x].w <= s.fields[y].w
ScopeEnd(s, i) == LET j == Inner(s, i) pj == Parent(s, j)
                  IN IF pj = 0 THEN s.fields[j].o + s.fields[j].w ELSE s.fields[pj].o + s.fields[pj].w
ShortClasses == {"zero", "one", "two", "three", "dec", "keep"}
ShortValue(f, c) == CASE c = "zero" -> 0 [] c = "one" -> 1 [] c = "two" -> 2 [] c = "three" -> 3 [] c = "dec" -> f.v - 1 [] c = "keep" -> f.v
ShrinkLastField(s, i) ==
  /\ s.kind \in {"pdu", "dataset"}
  /\ s.fields[i].k \in LenKinds /\ s.fields[i].v >= 0
  /\ Encl(s, i) # {}
MShrinkLast(s) == {Mut("ShrinkLast", i, p, c) : i \in {j \in FieldIdx(s) : ShrinkLastField(s, j)}, p \in {0, 1, 2, 3}, c \in ShortClasses}

MSetChar(s)    == IF IsText(s) THEN {Mut("SetChar", i, 0, c) : i \in FieldIdx(s), c \in Alphabet} ELSE {}
MInsertChar(s) == IF IsText(s) THEN {Mut("InsertChar", 0, k, c) : k \in Boundaries(s), c \in Alphabet} ELSE {}
(* every string of length <= 3 over the small alphabet (only on the empty text seed) *)
Strs3 == {<<a>> : a \in SmallAlphabet} \cup {<<a, b>> : a, b \in SmallAlphabet} \cup {<<a, b, c>> : a, b, c \in SmallAlphabet}
StrName(t) == IF Len(t) = 1 THEN t[1] ELSE IF Len(t) = 2 THEN t[1] \o "|" \o t[2] ELSE t[1] \o "|" \o t[2] \o "|" \o t[3]
RECURSIVE StrBytes(_)
StrBytes(t) == IF t = <<>> THEN <<>> ELSE SymBytes(Head(t)) \o StrBytes(Tail(t))

Applicable(s, m) ==
  CASE m.m = "SetLength" -> (LET f == s.fields[m.f] IN m.v \in ClassesOf(f) /\ ClassApplies(f, m.v))
    [] m.m = "FlipByte" -> m.p = 0 \/ s.fields[m.f].w > 1
    [] m.m = "ShrinkLast" -> (LET f == s.fields[m.f]
                              IN /\ ShortValue(f, m.v) >= 0
                                 /\ (m.v # "keep" => ShortValue(f, m.v) # f.v)
                                 /\ f.o + f.w + m.p <= ScopeEnd(s, m.f))
    [] m.m = "Shrink" -> (LET f == s.fields[m.f]
                          IN /\ m.v \in ShrinkClasses(f)
                             /\ (m.v \in {"zero", "inc", "ffff"} => ClassApplies(f, m.v))
                             /\ HeaderEnd(s, m.f) + m.p < s.fields[Inner(s, m.f)].o + s.fields[Inner(s, m.f)].w)
    [] OTHER -> TRUE

(* the full single-mutation space *)
MutsFull(s) ==
  {m \in MTruncate(s) \cup MSetLength(s) \cup MSetValue(s) \cup MSwapVR(s) \cup MDropDelim(s) \cup MStray(s) \cup MZero(s)
         \cup MFlip(s) \cup MGarbage(s) \cup MDuplicate(s) \cup MDrop(s) \cup MInsert(s) \cup MRun(s) \cup MSetChar(s) \cup MInsertChar(s)
         \cup MSetCount(s) \cup MShrink(s) \cup MShrinkLast(s)
     : Applicable(s, m)}

(* the structural core (used for pairs, and for the seeds of tier "core") *)
CoreLen == {"zero", "odd", "dec", "inc", "ffff", "fffffffe", "ffffffff"}
CoreVR  == {"SQ", "UN", "US", "LO", "ZZ"}
CoreVal == {"0", "1", "3", "17", "ffff"}
CoreSym == {"9", "-", "[", "euro"}
IsCore(s, m, B) ==
  CASE m.m = "Truncate"  -> m.p \in B
    [] m.m = "SetLength" -> m.v \in CoreLen
    [] m.m = "SetValue"  -> m.v \in CoreVal
    [] m.m = "SwapVR"    -> m.v \in CoreVR
    [] m.m = "DropDelimiter" -> TRUE
    [] m.m = "StrayDelimiter" -> m.v \in {"item", "seq_delim"}
    [] m.m = "DropField" -> s.fields[m.f].k \in Pseudo \cup {"ch", "punct"}
    [] m.m = "DuplicateField" -> s.fields[m.f].k \in Pseudo \cup {"ch", "punct"}
    [] m.m = "SetChar" -> m.v \in CoreSym
    [] m.m = "InsertChar" -> m.v \in CoreSym
    [] m.m = "Garbage" -> m.v = "append" /\ m.p = 7
    [] OTHER -> FALSE
MutsCore(s) == LET B == Boundaries(s) IN {m \in MutsFull(s) : IsCore(s, m, B)}

(* pixel data objects: the core, every length and image attribute value, and everything
   from the Pixel Data element on *)
PixStart(s) == LET P == {s.fields[i].o : i \in {j \in FieldIdx(s) : s.fields[j].k = "tag" /\ s.fields[j].n = "7FE00010"}}
               IN IF P = {} THEN s.n ELSE CHOOSE x \in P : \A y \in P : x <= y
MutsPixel(s) ==
  LET ps == PixStart(s)
      B  == Boundaries(s)
  IN {m \in MutsFull(s) :
        \/ IsCore(s, m, B)
        \/ m.m \in {"SetLength", "SetValue"}
        \/ (m.f > 0 /\ s.fields[m.f].o >= ps)
        \/ (m.f = 0 /\ m.m # "Garbage" /\ m.p >= ps)}

(* which mutation set a seed gets: s.tier is "full" | "core" | "pixel"; thorough runs use the full set everywhere *)
MutsOf(s, thorough) ==
  IF thorough \/ s.tier = "full" THEN MutsFull(s)
  ELSE IF s.tier = "pixel" THEN MutsPixel(s) ELSE MutsCore(s)

-----------------------------------------------------------------------------
(* meaning of a mutation: its edit *)

Xor(x, c) == CASE c = "01" -> IF x % 2 = 0 THEN x + 1 ELSE x - 1
               [] c = "80" -> (x + 128) % 256
               [] c = "ff" -> 255 - x

EditOf(s, m) ==
  LET f == s.fields[m.f]
      b == s.bytes
  IN CASE m.m = "Truncate"       -> Edit(m.p, s.n - m.p, <<>>, 1, 0)
       [] m.m = "SetLength"      -> Edit(f.o, f.w, ClassBytes(f, m.v), 1, 0)
       [] m.m = "SetValue"       -> Edit(f.o, f.w, ValueBytes(f, m.v), 1, 0)
       [] m.m = "SetCount"       -> Edit(f.o, f.w, CountBytes(f, m.v), 1, 0)
       [] m.m = "SwapVR"         -> Edit(f.o, 2, VRBytes(m.v), 1, 0)
       [] m.m = "DropDelimiter"  -> Edit(f.o, f.w, <<>>, 1, 0)
       [] m.m = "StrayDelimiter" -> Edit(m.p, 0, DelimBytes(m.v, s.ts = "evrbe"), 1, 0)
       [] m.m = "ZeroField"      -> Edit(f.o, f.w, <<0>>, f.w, 0)
       [] m.m = "FlipByte"       -> LET at == IF m.p = 0 THEN f.o ELSE f.o + f.w - 1
                                    IN Edit(at, 1, <<Xor(b[at + 1], m.v)>>, 1, 0)
       [] m.m = "Garbage"        -> (CASE m.v = "same"   -> Edit(f.o, f.w, <<>>, 1, f.w)
                                      [] m.v = "grow"   -> Edit(f.o, f.w, <<>>, 1, f.w + 3)
                                      [] m.v = "append" -> Edit(s.n, 0, <<>>, 1, m.p)
                                      [] m.v = "whole"  -> Edit(0, s.n, <<>>, 1, m.p))
       [] m.m = "DuplicateField" -> Edit(f.o + f.w, 0, SubSeq(b, f.o + 1, f.o + f.w), 1, 0)
       [] m.m = "DropField"      -> Edit(f.o, f.w, <<>>, 1, 0)
       [] m.m = "InsertBytes"    -> Edit(m.p, 0, SnippetBytes(m.v, s), 1, 0)
       [] m.m = "InsertRun"      -> (CASE s.kind \in {"file", "dataset"} ->
                                           \* deep nesting right before the last element / at the end of the data set
                                           Edit(s.n, 0, NestUnit(s.ts), m.p, 0)
                                      [] s.kind = "json" -> Edit(IF m.v = "nest" THEN 0 ELSE 1, 0, SnippetBytes(m.v, s), m.p, 0)
                                      [] OTHER -> Edit(s.n \div 2, 0, SymBytes(m.v), m.p, 0))
       [] m.m = "SetChar"        -> Edit(f.o, f.w, SymBytes(m.v), 1, 0)
       [] m.m = "InsertChar"     -> Edit(m.p, 0, SymBytes(m.v), 1, 0)

RECURSIVE SeqOfSet(_)
SeqOfSet(S) == IF S = {} THEN <<>> ELSE LET x == CHOOSE y \in S : TRUE IN <<x>> \o SeqOfSet(S \ {x})

(* the edits of the coupled mutation Shrink: the field, the cut, the enclosing length fields *)
ShrinkEdits(s, m) ==
  LET f     == s.fields[m.f]
      p     == s.fields[Inner(s, m.f)]
      cut   == HeaderEnd(s, m.f) + m.p
      delta == p.o + p.w - cut
      own   == IF m.v = "keep" THEN <<>>
               ELSE IF m.v \in CountClasses THEN <<Edit(f.o, f.w, CountBytes(f, m.v), 1, 0)>>
               ELSE <<Edit(f.o, f.w, ClassBytes(f, m.v), 1, 0)>>
      LF    == {q \in {LenFieldOf(s, j) : j \in Encl(s, m.f)} : q # 0 /\ (q # m.f \/ m.v = "keep") /\ s.fields[q].v >= delta}
      fix   == SeqOfSet({Edit(s.fields[q].o, s.fields[q].w, Enc(s.fields[q].v - delta, s.fields[q].w, s.fields[q].be), 1, 0) : q \in LF})
  IN own \o <<Edit(cut, delta, <<>>, 1, 0)>> \o fix

ShrinkLastEdits(s, m) ==
  LET f    == s.fields[m.f]
      cut  == f.o + f.w + m.p
      send == ScopeEnd(s, m.f)
      own  == IF m.v = "keep" THEN <<>> ELSE <<Edit(f.o, f.w, Enc(ShortValue(f, m.v), f.w, f.be), 1, 0)>>
      \* what an enclosing structure E loses: the part of [cut, send) that lies inside it
      Lost(j) == Min(s.fields[j].o + s.fields[j].w, send) - cut
      LF   == {j \in Encl(s, m.f) : /\ LenFieldOf(s, j) # 0
                                     /\ (LenFieldOf(s, j) # m.f \/ m.v = "keep")
                                     /\ Lost(j) > 0
                                     /\ s.fields[LenFieldOf(s, j)].v >= Lost(j)}
      fix  == SeqOfSet({LET q == s.fields[LenFieldOf(s, j)] IN Edit(q.o, q.w, Enc(q.v - Lost(j), q.w, q.be), 1, 0) : j \in LF})
  IN own \o <<Edit(cut, send - cut, <<>>, 1, 0)>> \o fix

EditsOf(s, m) == IF m.m = "Shrink" THEN ShrinkEdits(s, m)
                 ELSE IF m.m = "ShrinkLast" THEN ShrinkLastEdits(s, m)
                 ELSE <<EditOf(s, m)>>
RECURSIVE Concat(_)
Concat(ss) == IF ss = <<>> THEN <<>> ELSE Head(ss) \o Concat(Tail(ss))

(* a case: seed name, mutation descriptors, edits; the materialised bytes when affordable *)
CaseOf(s, ms) ==
  LET es == Concat([i \in 1..Len(ms) |-> EditsOf(s, ms[i])])
      small == s.n <= 64 /\ NoGarbage(es) /\ \A i \in 1..Len(es) : es[i].rep * Len(es[i].ins) <= 64
  IN IF small
     THEN [seed |-> s.name, muts |-> ms, edits |-> es, bytes |-> ApplyAll(s.bytes, es)]
     ELSE [seed |-> s.name, muts |-> ms, edits |-> es]

StrCase(s, t) == LET e == Edit(0, s.n, StrBytes(t), 1, 0)
                 IN [seed |-> s.name, muts |-> <<Mut("Str", 0, Len(t), StrName(t))>>, edits |-> <<e>>, bytes |-> ApplyAll(s.bytes, <<e>>)]
=============================================================================
