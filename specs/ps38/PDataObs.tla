------------------------------ MODULE PDataObs ------------------------------
(***************************************************************************)
(* Property-level specification of P-DATA fragmentation (C26).             *)
(*                                                                         *)
(* This is what an observer of the writer's public calls and of the byte   *)
(* stream handed to the transport may see.  It says nothing about *how*    *)
(* the writer cuts the payload into PDUs; every conforming implementation  *)
(* (in particular PData.tla, the implementation-shaped model, which is     *)
(* checked by TLC to refine this module) is a behaviour of this spec.      *)
(* Traces recorded from the real writers are validated against THIS        *)
(* module, so a rejection means the property itself is broken, not merely  *)
(* that the implementation cut PDUs at a different place than the model.   *)
(***************************************************************************)
EXTENDS Naturals, Sequences

CONSTANTS Max          \* maximum PDU length (upper bound for the PDU-length field)

Cap == Max - 6         \* payload bytes that fit in one PDU with a single PDV

VARIABLES
  ofed,      \* payload bytes the caller has had accepted (sum of write results)
  oemit,     \* payload bytes that left in completed PDUs
  olast,     \* TRUE once a PDU flagged "last" has been emitted
  ofin,      \* "no" | "ok" | "err": outcome of finish, once called
  ofail      \* TRUE once any call returned an error (then nothing more is promised)

ovars == <<ofed, oemit, olast, ofin, ofail>>

OInit == ofed = 0 /\ oemit = 0 /\ olast = FALSE /\ ofin = "no" /\ ofail = FALSE

(* A write call with a non-empty buffer of n bytes returned k: the Write     *)
(* contract demands 0 < k <= n (a zero result makes write_all fail).         *)
OAccept(n, k) ==
  /\ ofin = "no" /\ ~ofail
  /\ n > 0 /\ k \in 1..n
  /\ ofed' = ofed + k
  /\ UNCHANGED <<oemit, olast, ofin, ofail>>

(* A complete PDU appeared on the transport: one PDV, len payload bytes.     *)
(* It may only carry bytes already accepted, in order (offset = oemit), its  *)
(* PDU-length field (len + 6) must not exceed Max, and nothing follows a     *)
(* PDU marked last.  A PDU marked last must carry everything accepted.       *)
OPdu(len, last) ==
  /\ ~olast
  /\ len + 6 <= Max
  /\ oemit + len <= ofed
  /\ last => (oemit + len = ofed)
  /\ oemit' = oemit + len
  /\ olast' = last
  /\ UNCHANGED <<ofed, ofin, ofail>>

(* finish returned.  Ok is only acceptable if by then the last PDU is out    *)
(* and carries everything.                                                   *)
OFinishOk == ofin = "no" /\ ~ofail /\ olast /\ oemit = ofed /\ ofin' = "ok"
             /\ UNCHANGED <<ofed, oemit, olast, ofail>>

(* any call reporting an error (transport failed / cancelled mid-flight)     *)
OFail == ofail' = TRUE /\ UNCHANGED <<ofed, oemit, olast, ofin>>

ONext == \/ \E n \in 1..(2*Max), k \in 1..(2*Max) : OAccept(n, k)
         \/ \E len \in 0..Cap, last \in BOOLEAN : OPdu(len, last)
         \/ OFinishOk \/ OFail

OSpec == OInit /\ [][ONext]_ovars

(* property-level invariants (implied by the action guards; stated for the   *)
(* reader of the spec and checked on the refined model)                      *)
OEmittedIsPrefix == oemit <= ofed
ODoneComplete    == (ofin = "ok") => (olast /\ oemit = ofed)
=============================================================================
