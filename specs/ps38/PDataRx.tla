------------------------------- MODULE PDataRx -------------------------------
(***************************************************************************)
(* Implementation-shaped model of PDataReader::read (sync) / poll_read     *)
(* (async) in ul/src/association/pdata.rs, reading a P-DATA message from a *)
(* byte stream that the transport segments arbitrarily.                    *)
(*                                                                         *)
(* The stream is the concatenation of the PDUs the writer emitted for a    *)
(* payload of `total` bytes with capacity Cap (all full but the last, the  *)
(* last one flagged), followed by Trail bytes that belong to the next PDU  *)
(* of the association.  Positions only: byte contents are bound in the     *)
(* conformance driver with a position-dependent pattern.                   *)
(***************************************************************************)
EXTENDS Naturals, Sequences, TLC

CONSTANTS Cap,       \* payload bytes per full PDU of the writer that produced the stream
          Totals,    \* set of payload sizes to explore
          Trails,    \* set of trailing byte counts
          ReadSizes, \* set of caller buffer sizes (one is fixed per behaviour)
          Styles     \* subset of {"ones", "edges", "all"}: how the transport segments

HDR == 12

VARIABLES
  total, trail, rsize, style,   \* chosen at Init, then constant
  deliv,     \* bytes the transport has delivered (all are appended to read_buffer)
  parsed,    \* bytes removed from the front of read_buffer by successful PDU parses
  npdu,      \* PDUs parsed so far
  vbuf,      \* Len(self.buffer): payload bytes decoded but not yet returned
  lastSeen,  \* self.last_pdu
  out,       \* payload bytes returned to the caller so far
  rphase,    \* "Idle" | "Fetch" | "Eof" | "Err"
  rret       \* result of the last completed read: <<"n", k>> | <<"Err", 0>> | <<"None", 0>>

rvars == <<total, trail, rsize, style, deliv, parsed, npdu, vbuf, lastSeen, out, rphase, rret>>

Min(a, b) == IF a < b THEN a ELSE b

(* the writer's PDU sequence for a payload of t bytes: lengths of the data *)
NPdus(t)  == IF t = 0 THEN 1 ELSE ((t - 1) \div Cap) + 1
PLen(t, i) == IF i < NPdus(t) THEN Cap ELSE t - (NPdus(t) - 1) * Cap
PduStreamLen(t) == NPdus(t) * HDR + t
StreamLen == PduStreamLen(total) + trail
(* offset in the stream at which PDU i (1-based) starts / ends *)
PStart(t, i) == (i - 1) * (HDR + Cap)
PEnd(t, i)   == PStart(t, i) + HDR + PLen(t, i)

RInit ==
  /\ total \in Totals /\ trail \in Trails /\ rsize \in ReadSizes /\ style \in Styles
  /\ deliv = 0 /\ parsed = 0 /\ npdu = 0 /\ vbuf = 0 /\ lastSeen = FALSE /\ out = 0
  /\ rphase = "Idle" /\ rret = <<"None", 0>>

(* a complete next PDU is available in read_buffer *)
NextComplete == npdu < NPdus(total) /\ deliv >= PEnd(total, npdu + 1)

(* read(buf) with Len(buf) = rsize: serve from `buffer`, or report the end   *)
(* of the message, or go and fetch the next PDU                              *)
RRead ==
  /\ rphase = "Idle"
  /\ IF vbuf > 0
       THEN LET k == Min(rsize, vbuf) IN
            /\ rret' = <<"n", k>> /\ vbuf' = vbuf - k /\ out' = out + k
            /\ UNCHANGED <<rphase>>
       ELSE IF lastSeen
              THEN rret' = <<"n", 0>> /\ rphase' = "Eof" /\ UNCHANGED <<vbuf, out>>
              ELSE rphase' = "Fetch" /\ UNCHANGED <<rret, vbuf, out>>
  /\ UNCHANGED <<total, trail, rsize, style, deliv, parsed, npdu, lastSeen>>

(* read_pdu succeeded on read_buffer: take the PDU out, decode its value,    *)
(* return what fits                                                          *)
RParse ==
  /\ rphase = "Fetch" /\ NextComplete
  /\ LET i == npdu + 1
         len == PLen(total, i)
         k == Min(rsize, len)
     IN /\ parsed' = PEnd(total, i) /\ npdu' = i
        /\ lastSeen' = (i = NPdus(total))
        /\ rret' = <<"n", k>> /\ out' = out + k /\ vbuf' = len - k
        /\ rphase' = "Idle"
  /\ UNCHANGED <<total, trail, rsize, style, deliv>>

(* sizes the transport may hand over in one read, by style *)
ToEdge == IF npdu < NPdus(total) THEN PEnd(total, npdu + 1) - deliv ELSE 0
Sizes ==
  LET rem == StreamLen - deliv IN
  CASE style = "ones"  -> {1}
    [] style = "edges" -> {k \in {ToEdge - 1, ToEdge, ToEdge + 1, 6, rem} : k >= 1 /\ k <= rem}
    [] style = "all"   -> 1..rem

(* read_pdu returned None: read more from the transport (whatever it gives)  *)
RDeliver(k) ==
  /\ rphase = "Fetch" /\ ~NextComplete
  /\ k \in Sizes
  /\ deliv' = deliv + k
  /\ UNCHANGED <<total, trail, rsize, style, parsed, npdu, vbuf, lastSeen, out, rphase, rret>>

(* transport is at end of stream while a PDU is incomplete *)
RClosed ==
  /\ rphase = "Fetch" /\ ~NextComplete /\ deliv = StreamLen
  /\ rret' = <<"Err", 0>> /\ rphase' = "Err"
  /\ UNCHANGED <<total, trail, rsize, style, deliv, parsed, npdu, vbuf, lastSeen, out>>

RDeliverAny == \E k \in 1..StreamLen : RDeliver(k)
RNext == RRead \/ RParse \/ RDeliverAny \/ RClosed
RSpec == RInit /\ [][RNext]_rvars

-----------------------------------------------------------------------------
RTypeOK == deliv \in 0..StreamLen /\ parsed <= deliv /\ out <= total
(* what was parsed is what was returned plus what waits in `buffer` *)
RAccount == out + vbuf = (IF npdu = 0 THEN 0 ELSE
                             IF npdu = NPdus(total) THEN total ELSE npdu * Cap)
(* end of message is reported exactly when the whole payload was returned *)
REofExact == (rphase = "Eof") => (out = total /\ npdu = NPdus(total))
(* the reader never consumes bytes beyond the PDU flagged last: whatever     *)
(* else was delivered stays in read_buffer for the next receive              *)
RLeavesRest == parsed <= PduStreamLen(total)
RRestExact  == (rphase = "Eof") => (deliv - parsed = deliv - PduStreamLen(total))
(* a complete message is always readable: no error when the stream holds it *)
RNoSpuriousErr == rphase # "Err"
(* a non-empty read never returns 0 before the end of the message *)
RNoEarlyZero == (rret = <<"n", 0>>) => (rphase = "Eof" \/ total = 0)
=============================================================================
