CONSTANTS Max = 10 MaxPayload = 13 MaxChunk = 13 Mode = "sync" MaxPending = 0 Faults = FALSE MaxLen = 30
SPECIFICATION GSpec
INVARIANT Emit
CONSTRAINT Bound
CHECK_DEADLOCK FALSE
