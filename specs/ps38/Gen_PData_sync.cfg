CONSTANTS Max = 9 MaxPayload = 8 MaxChunk = 8 Mode = "sync" MaxPending = 0 Faults = FALSE MaxLen = 20
SPECIFICATION GSpec
INVARIANT Emit
CONSTRAINT Bound
CHECK_DEADLOCK FALSE
