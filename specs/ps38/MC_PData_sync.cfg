CONSTANTS Max = 9 MaxPayload = 10 MaxChunk = 10 Mode = "sync" MaxPending = 0 Faults = FALSE
SPECIFICATION Spec
INVARIANTS TypeOK PduBound OnlyLastFlag Conservation Complete NeverZero CanonicalWire RefinesObsInv
CHECK_DEADLOCK FALSE
