CONSTANTS Max = 8 MaxPayload = 5 MaxChunk = 4 Mode = "async" MaxPending = 2 Faults = TRUE MaxLen = 9
SPECIFICATION GSpec
INVARIANT Emit
CONSTRAINT Bound
CHECK_DEADLOCK FALSE
