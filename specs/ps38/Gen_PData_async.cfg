CONSTANTS Max = 8 MaxPayload = 5 MaxChunk = 4 Mode = "async" MaxPending = 2 Faults = TRUE MaxLen = 8
SPECIFICATION GSpec
INVARIANT Emit
CONSTRAINT Bound
CHECK_DEADLOCK FALSE
