------------------------------ MODULE Gen_PData ------------------------------
(* Behaviour generator: PData with a history variable; every complete       *)
(* behaviour (finish returned, or a call failed) is printed as one JSON     *)
(* line for the replay driver.  h is part of the state here on purpose:     *)
(* one distinct state per behaviour prefix.                                 *)
EXTENDS PData, Json

CONSTANT MaxLen     \* bound on the number of events of a generated behaviour
VARIABLE h

(* partial-accept sizes tried by the generator: one byte, half, all but one, all *)
AcceptChoice == LET rem == buf - pos IN ({1, rem \div 2, rem - 1, rem} \ {0})

GInit == Init /\ h = <<>>

Ev(op, arg) == [op |-> op, arg |-> arg, ret |-> ret'[1], retv |-> ret'[2], ph |-> phase']

GNext ==
  \/ \E n \in 1..MaxChunk : SyncWrite(n) /\ h' = Append(h, Ev("write", n))
  \/ SyncFinish /\ h' = Append(h, Ev("finish", 0))
  \/ \E n \in 1..MaxChunk : PollStart(n) /\ h' = Append(h, Ev("poll", n))
  \/ \E k \in AcceptChoice : TAccept(k) /\ h' = Append(h, Ev("accept", k))
  \/ \E k \in AcceptChoice : FAccept(k) /\ h' = Append(h, Ev("accept", k))
  \/ TPending /\ h' = Append(h, Ev("pending", 0))
  \/ FPending /\ h' = Append(h, Ev("pending", 0))
  \/ TFault /\ h' = Append(h, Ev("fault", 0))
  \/ FinStart /\ h' = Append(h, Ev("finish", 0))

GSpec == GInit /\ [][GNext]_<<vars, h>>

Bound == Len(h) <= MaxLen

Emit == (phase \in {"Done", "Failed"}) =>
          PrintT(<<"CASE", ToJson([max |-> Max, mode |-> Mode, h |-> h, pdus |-> pdus, fed |-> fed])>>)
=============================================================================
