CONSTANTS Max = 24 MaxPayload = 60 MaxChunk = 60 Mode = "sync" MaxPending = 0 Faults = FALSE
SPECIFICATION Spec
INVARIANTS TypeOK PduBound OnlyLastFlag Conservation Complete NeverZero CanonicalWire RefinesObsInv
CHECK_DEADLOCK FALSE
