CONSTANTS Cap = 3 Totals = {0,1,2,3,4,6,7,9} Trails = {0,1,7} ReadSizes = {1,2,100} Styles = {"ones","edges"}
SPECIFICATION GSpec
INVARIANT Emit
CHECK_DEADLOCK FALSE
