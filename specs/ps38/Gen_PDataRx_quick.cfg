CONSTANTS Cap = 2 Totals = {0,1,2,3,4} Trails = {0,3} ReadSizes = {1,100} Styles = {"ones","edges"}
SPECIFICATION GSpec
INVARIANT Emit
CHECK_DEADLOCK FALSE
