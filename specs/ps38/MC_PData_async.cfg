CONSTANTS Max = 9 MaxPayload = 8 MaxChunk = 8 Mode = "async" MaxPending = 2 Faults = TRUE
SPECIFICATION Spec
INVARIANTS TypeOK PduBound OnlyLastFlag Conservation Complete NeverZero CanonicalWire RefinesObsInv
CHECK_DEADLOCK FALSE
