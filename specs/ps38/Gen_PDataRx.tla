----------------------------- MODULE Gen_PDataRx -----------------------------
(* Behaviour generator for the reader: PDataRx plus the history of transport *)
(* deliveries; each complete behaviour is printed as one JSON case.          *)
EXTENDS PDataRx, Json

VARIABLE segs

GInit == RInit /\ segs = <<>>
GNext == \/ (RRead \/ RParse \/ RClosed) /\ UNCHANGED segs
         \/ \E k \in 1..StreamLen : RDeliver(k) /\ segs' = Append(segs, k)
GSpec == GInit /\ [][GNext]_<<rvars, segs>>

Emit == (rphase \in {"Eof", "Err"}) =>
          PrintT(<<"CASE", ToJson([rx |-> TRUE, cap |-> Cap, total |-> total, trail |-> trail,
                                   rsize |-> rsize, style |-> style, segs |-> segs, out |-> out])>>)
=============================================================================
