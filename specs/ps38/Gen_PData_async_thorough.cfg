CONSTANTS Max = 8 MaxPayload = 6 MaxChunk = 5 Mode = "async" MaxPending = 3 Faults = TRUE MaxLen = 11
SPECIFICATION GSpec
INVARIANT Emit
CONSTRAINT Bound
CHECK_DEADLOCK FALSE
