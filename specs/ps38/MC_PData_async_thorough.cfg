CONSTANTS Max = 12 MaxPayload = 20 MaxChunk = 20 Mode = "async" MaxPending = 4 Faults = TRUE
SPECIFICATION Spec
INVARIANTS TypeOK PduBound OnlyLastFlag Conservation Complete NeverZero CanonicalWire RefinesObsInv
CHECK_DEADLOCK FALSE
