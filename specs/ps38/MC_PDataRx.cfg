CONSTANTS Cap = 3 Totals = {0,1,2,3,4,6,7} Trails = {0,1,7} ReadSizes = {1,2,100} Styles = {"ones","edges","all"}
SPECIFICATION RSpec
INVARIANTS RTypeOK RAccount REofExact RLeavesRest RRestExact RNoSpuriousErr RNoEarlyZero
CHECK_DEADLOCK FALSE
