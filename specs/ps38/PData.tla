-------------------------------- MODULE PData --------------------------------
(***************************************************************************)
(* Implementation-shaped model of dicom-ul's P-DATA writers and reader     *)
(* (ul/src/association/pdata.rs).  One action per critical section:        *)
(*   SyncWrite    PDataWriter::write                                       *)
(*   SyncFinish   PDataWriter::finish / Drop                               *)
(*   PollStart    AsyncPDataWriter::poll_write entry (Ready or Writing)    *)
(*   TAccept/TPending/TZero/TError   one answer of the transport to one    *)
(*                `poll_write` on the underlying stream (independent       *)
(*                actions, so TLC explores every schedule)                 *)
(*   FinStart/F*  AsyncPDataWriter::finish (write_all of the last PDU)     *)
(*   R*           PDataReader::read over a segmented byte stream           *)
(* Byte contents are abstracted to positions: the payload is 1..N and a    *)
(* PDU is <<len, last>>, carrying payload positions (sum of earlier        *)
(* lens)+1 .. +len.  Header sizes are real (6 + 6).                        *)
(***************************************************************************)
EXTENDS Naturals, Sequences, FiniteSets, TLC

CONSTANTS
  Max,          \* negotiated maximum PDU length (scaled down: 7 .. 12)
  MaxPayload,   \* bound on the payload fed in one behaviour
  MaxChunk,     \* bound on a single write's buffer length
  Mode,         \* "sync" | "async"
  MaxPending,   \* bound on Pending answers of the transport per behaviour
  Faults        \* BOOLEAN: transport may answer Zero / Error

HDR == 12                 \* PDU header (6) + PDV length (4) + context id (1) + control (1)
Tot == Max + 6            \* capacity of `buffer`: PDU header + Max
Cap == Max - 6            \* payload bytes per full PDU

ASSUME Max >= 7

VARIABLES
  buf,    \* Len(self.buffer); 0 once finish cleared it
  fed,    \* payload bytes accepted from the caller (sum of Ok(k) results)
  pdus,   \* PDUs completely accepted by the transport: Seq([len, last])
  ret,    \* result of the most recent completed call: <<"n", k>> | <<"Pending",0>> | <<"Err",0>> | <<"Ok",0>> | <<"None",0>>
  phase,  \* "Idle" | "InPoll" | "InFinish" | "Done" | "Failed"
  wst,    \* async WriteState: "Ready" | "Writing"
  wpos,   \* WriteState::Writing.0  (bytes of buffer already accepted)
  wcons,  \* WriteState::Writing.1  (bytes consumed from the caller's buffer)
  cur,    \* length of the buffer the caller is offering right now (0: none outstanding)
  pos,    \* local `written`/`pos+written` inside the running poll_write / finish
  cons,   \* local `consumed` inside the running poll_write
  npend   \* Pending answers so far

vars == <<buf, fed, pdus, ret, phase, wst, wpos, wcons, cur, pos, cons, npend>>

Pdu(len, last) == [len |-> len, last |-> last]

Init ==
  /\ buf = HDR /\ fed = 0 /\ pdus = <<>> /\ ret = <<"None", 0>> /\ phase = "Idle"
  /\ wst = "Ready" /\ wpos = 0 /\ wcons = 0 /\ cur = 0 /\ pos = 0 /\ cons = 0 /\ npend = 0

-----------------------------------------------------------------------------
(* synchronous writer *)

(* PDataWriter::write(buf) with Len(buf) = n > 0.  A buffer that an earlier  *)
(* call filled exactly is dispatched first, so that a non-empty write always *)
(* takes at least one byte.                                                  *)
SyncWrite(n) ==
  /\ Mode = "sync" /\ phase = "Idle"
  /\ n \in 1..MaxChunk /\ fed + n <= MaxPayload
  /\ LET full == (buf = Tot)
         b0   == IF full THEN HDR ELSE buf
         pre  == IF full THEN <<Pdu(Cap, FALSE)>> ELSE <<>>
     IN IF b0 + n <= Tot
          THEN /\ buf' = b0 + n /\ ret' = <<"n", n>> /\ fed' = fed + n
               /\ pdus' = pdus \o pre
          ELSE LET k == Tot - b0 IN
               /\ buf' = HDR /\ ret' = <<"n", k>> /\ fed' = fed + k
               /\ pdus' = pdus \o pre \o <<Pdu(Cap, FALSE)>>
  /\ UNCHANGED <<phase, wst, wpos, wcons, cur, pos, cons, npend>>

(* PDataWriter::finish: the buffer (header + what is left) goes out as the   *)
(* last PDU.                                                                 *)
SyncFinish ==
  /\ Mode = "sync" /\ phase = "Idle"
  /\ pdus' = pdus \o <<Pdu(buf - HDR, TRUE)>>
  /\ buf' = 0 /\ ret' = <<"Ok", 0>> /\ phase' = "Done"
  /\ UNCHANGED <<fed, wst, wpos, wcons, cur, pos, cons, npend>>

-----------------------------------------------------------------------------
(* asynchronous writer *)

(* Entry of poll_write.  Either a new buffer of n bytes (cur = 0) or the     *)
(* caller re-polling with the buffer it got Pending for (cur > 0).           *)
PollStart(n) ==
  /\ Mode = "async" /\ phase = "Idle"
  /\ IF cur = 0 THEN n \in 1..MaxChunk /\ fed + n <= MaxPayload ELSE n = cur
  /\ cur' = n
  /\ IF wst = "Ready"
       THEN LET full == (buf = Tot) IN
            IF ~full /\ buf + n <= Tot
              THEN \* accumulate, return immediately
                   /\ buf' = buf + n /\ ret' = <<"n", n>> /\ fed' = fed + n /\ cur' = 0
                   /\ UNCHANGED <<phase, pos, cons, pdus, wst, wpos, wcons, npend>>
              ELSE \* fill the buffer (taking 0 bytes if it is already full) and start sending it
                   /\ buf' = Tot /\ cons' = Tot - buf /\ pos' = 0
                   /\ phase' = "InPoll"
                   /\ UNCHANGED <<ret, fed, pdus, wst, wpos, wcons, npend>>
       ELSE \* WriteState::Writing(pos, consumed): continue
            /\ pos' = wpos /\ cons' = wcons /\ phase' = "InPoll"
            /\ UNCHANGED <<buf, ret, fed, pdus, wst, wpos, wcons, npend>>

(* The whole buffer went out: one more PDU is on the wire.  If bytes were    *)
(* consumed from the caller, report them; if none were (the buffer had been  *)
(* filled exactly by an earlier call) carry on with the caller's buffer so   *)
(* that Ok(0) is never returned.                                             *)
PollComplete ==
  /\ pdus' = pdus \o <<Pdu(Cap, FALSE)>>
  /\ wst' = "Ready" /\ wpos' = 0 /\ wcons' = 0 /\ pos' = 0
  /\ IF cons > 0
       THEN /\ buf' = HDR /\ ret' = <<"n", cons>> /\ fed' = fed + cons /\ cur' = 0 /\ cons' = 0
            /\ phase' = "Idle"
       ELSE \* re-enter with an empty buffer (HDR only): cur > 0 bytes offered
            IF HDR + cur <= Tot
              THEN /\ buf' = HDR + cur /\ ret' = <<"n", cur>> /\ fed' = fed + cur /\ cur' = 0 /\ cons' = 0
                   /\ phase' = "Idle"
              ELSE /\ buf' = Tot /\ cons' = Cap /\ phase' = "InPoll"
                   /\ UNCHANGED <<ret, fed, cur>>

(* transport accepts k more bytes of the buffer *)
TAccept(k) ==
  /\ Mode = "async" /\ phase = "InPoll"
  /\ k \in 1..(buf - pos)
  /\ IF pos + k = buf
       THEN PollComplete /\ UNCHANGED npend
       ELSE pos' = pos + k /\ UNCHANGED <<buf, fed, pdus, ret, phase, wst, wpos, wcons, cur, cons, npend>>

(* transport is not ready: remember where we are, report Pending *)
TPending ==
  /\ Mode = "async" /\ phase = "InPoll" /\ npend < MaxPending
  /\ wst' = "Writing" /\ wpos' = pos /\ wcons' = cons
  /\ ret' = <<"Pending", 0>> /\ phase' = "Idle" /\ npend' = npend + 1
  /\ UNCHANGED <<buf, fed, pdus, cur, pos, cons>>

(* transport accepts zero bytes / fails: the call reports an error *)
TFault ==
  /\ Faults /\ Mode = "async" /\ phase \in {"InPoll", "InFinish"}
  /\ ret' = <<"Err", 0>> /\ phase' = "Failed"
  /\ UNCHANGED <<buf, fed, pdus, wst, wpos, wcons, cur, pos, cons, npend>>

(* AsyncPDataWriter::finish; only legal use: no write outstanding *)
FinStart ==
  /\ Mode = "async" /\ phase = "Idle" /\ cur = 0
  /\ IF wst = "Writing"
       THEN ret' = <<"Err", 0>> /\ phase' = "Failed" /\ UNCHANGED pos
       ELSE pos' = 0 /\ phase' = "InFinish" /\ UNCHANGED ret
  /\ UNCHANGED <<buf, fed, pdus, wst, wpos, wcons, cur, cons, npend>>

FAccept(k) ==
  /\ Mode = "async" /\ phase = "InFinish"
  /\ k \in 1..(buf - pos)
  /\ IF pos + k = buf
       THEN /\ pdus' = pdus \o <<Pdu(buf - HDR, TRUE)>>
            /\ buf' = 0 /\ pos' = 0 /\ ret' = <<"Ok", 0>> /\ phase' = "Done"
       ELSE pos' = pos + k /\ UNCHANGED <<buf, pdus, ret, phase>>
  /\ UNCHANGED <<fed, wst, wpos, wcons, cur, cons, npend>>

(* write_all inside finish simply polls again after Pending: no state kept   *)
FPending ==
  /\ Mode = "async" /\ phase = "InFinish" /\ npend < MaxPending
  /\ npend' = npend + 1
  /\ UNCHANGED <<buf, fed, pdus, ret, phase, wst, wpos, wcons, cur, pos, cons>>

SyncWriteAny == \E n \in 1..MaxChunk : SyncWrite(n)
PollStartAny == \E n \in 1..MaxChunk : PollStart(n)
TAcceptAny   == \E k \in 1..Tot : TAccept(k)
FAcceptAny   == \E k \in 1..Tot : FAccept(k)
Next ==
  \/ SyncWriteAny \/ SyncFinish
  \/ PollStartAny \/ TAcceptAny \/ TPending \/ TFault
  \/ FinStart \/ FAcceptAny \/ FPending

Spec == Init /\ [][Next]_vars

(* fairness for liveness: the caller keeps calling and the transport         *)
(* eventually accepts                                                        *)
FairSpec == Spec /\ WF_vars(\E k \in 1..Tot : TAccept(k) \/ FAccept(k))
                 /\ WF_vars(\E n \in 1..MaxChunk : PollStart(n))
                 /\ WF_vars(FinStart)

-----------------------------------------------------------------------------
(* properties *)

RECURSIVE SumLen(_)
SumLen(s) == IF s = <<>> THEN 0 ELSE s[1].len + SumLen(Tail(s))

TypeOK ==
  /\ buf \in 0..Tot /\ fed \in 0..MaxPayload
  /\ phase \in {"Idle", "InPoll", "InFinish", "Done", "Failed"}
  /\ wst \in {"Ready", "Writing"}

(* the PDU-length field (len + 6) never exceeds Max *)
PduBound == \A i \in 1..Len(pdus) : pdus[i].len + 6 <= Max

(* only the final PDU is marked last, and it exists exactly when finished *)
OnlyLastFlag == \A i \in 1..Len(pdus) : pdus[i].last <=> (i = Len(pdus) /\ phase = "Done")

(* what is on the wire plus what sits in the buffer is what was accepted     *)
(* (while a poll is in flight, `cons` bytes are in the buffer but not yet    *)
(* reported to the caller)                                                   *)
InFlight == IF phase = "InPoll" \/ (phase = "Idle" /\ wst = "Writing") THEN
               (IF phase = "InPoll" THEN cons ELSE wcons) ELSE 0
Conservation ==
  phase \in {"Idle", "InPoll", "InFinish"} =>
     SumLen(pdus) + (buf - HDR) = fed + InFlight
Complete == (phase = "Done") => SumLen(pdus) = fed

(* Write contract: a call with a non-empty buffer never returns Ok(0) *)
NeverZero == (ret[1] = "n") => ret[2] > 0

(* every PDU but the final one is full, so the byte stream is a function of  *)
(* the accepted payload alone (up to an empty final PDU, which appears when  *)
(* the caller stops exactly after a dispatch): async = sync whatever the     *)
(* transport schedule                                                        *)
Canon(total, emptyLast) ==
  LET nfull == IF emptyLast THEN total \div Cap
               ELSE IF total = 0 THEN 0 ELSE (total - 1) \div Cap
      rest  == total - nfull * Cap
  IN [i \in 1..(nfull + 1) |-> IF i <= nfull THEN Pdu(Cap, FALSE) ELSE Pdu(rest, TRUE)]
CanonicalWire ==
  (phase = "Done") => \/ pdus = Canon(fed, FALSE)
                      \/ (fed % Cap = 0 /\ pdus = Canon(fed, TRUE))

(* liveness: under fairness, without faults, finish completes *)
Termination == <>(phase \in {"Done", "Failed"})

-----------------------------------------------------------------------------
(* refinement: this model is a behaviour of the property-level spec          *)
Obs == INSTANCE PDataObs WITH
         ofed  <- fed,
         oemit <- SumLen(pdus),
         olast <- (pdus # <<>> /\ pdus[Len(pdus)].last),
         ofin  <- IF phase = "Done" THEN "ok" ELSE "no",
         ofail <- (phase = "Failed")
(* One step of this model may emit a PDU and accept bytes at once (two       *)
(* observer steps), so the refinement is checked on the invariants of the    *)
(* observer rather than step-by-step:                                        *)
RefinesObsInv == Obs!OEmittedIsPrefix /\ Obs!ODoneComplete
=============================================================================
