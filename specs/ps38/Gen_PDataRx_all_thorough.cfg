CONSTANTS Cap = 1 Totals = {1} Trails = {0,1} ReadSizes = {1,100} Styles = {"all"}
SPECIFICATION GSpec
INVARIANT Emit
CHECK_DEADLOCK FALSE
