CONSTANTS Max = 8 MaxPayload = 5 MaxChunk = 5 Mode = "async" MaxPending = 2 Faults = FALSE
SPECIFICATION FairSpec
PROPERTIES Termination
CHECK_DEADLOCK FALSE
