CONSTANTS Cap = 4 Totals = {0,1,2,3,4,5,8,9,12,13} Trails = {0,1,7,12} ReadSizes = {1,2,3,100} Styles = {"ones","edges","all"}
SPECIFICATION RSpec
INVARIANTS RTypeOK RAccount REofExact RLeavesRest RRestExact RNoSpuriousErr RNoEarlyZero
CHECK_DEADLOCK FALSE
