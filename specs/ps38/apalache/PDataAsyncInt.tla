---------------------------- MODULE PDataAsyncInt ----------------------------
(***************************************************************************)
(* Integer-only abstraction of the ASYNCHRONOUS P-DATA writer of PData.tla *)
(* (same actions PollStart / TAccept / TPending / TFault / FinStart /      *)
(* FAccept / FPending; the PDU list is replaced by counters), used to      *)
(* discharge the safety invariants for EVERY maximum PDU length, EVERY     *)
(* chunk size and EVERY transport schedule (any number of partial accepts  *)
(* and Pending answers) with Apalache as an inductive invariant.           *)
(***************************************************************************)
EXTENDS Integers

CONSTANT
  \* @type: Int;
  Max

VARIABLES
  \* @type: Int;
  buf,
  \* @type: Int;
  fed,
  \* @type: Int;
  emitted,
  \* @type: Int;
  lastLen,
  \* @type: Bool;
  lastFlag,
  \* @type: Int;
  lastRet,
  \* @type: Str;
  phase,
  \* @type: Str;
  wst,
  \* @type: Int;
  wpos,
  \* @type: Int;
  wcons,
  \* @type: Int;
  cur,
  \* @type: Int;
  pos,
  \* @type: Int;
  cons

HDR == 12
Tot == Max + 6
Cap == Max - 6

ConstInit == Max \in Nat /\ Max >= 7

Init == /\ buf = HDR /\ fed = 0 /\ emitted = 0 /\ lastLen = -1 /\ lastFlag = FALSE /\ lastRet = -1
        /\ phase = "Idle" /\ wst = "Ready" /\ wpos = 0 /\ wcons = 0 /\ cur = 0 /\ pos = 0 /\ cons = 0

\* @type: (Int) => Bool;
PollStart(n) ==
  /\ phase = "Idle"
  /\ IF cur = 0 THEN n >= 1 ELSE n = cur
  /\ IF wst = "Ready"
       THEN IF buf # Tot /\ buf + n <= Tot
              THEN /\ buf' = buf + n /\ lastRet' = n /\ fed' = fed + n /\ cur' = 0
                   /\ UNCHANGED <<phase, pos, cons, emitted, lastLen, lastFlag, wst, wpos, wcons>>
              ELSE /\ buf' = Tot /\ cons' = Tot - buf /\ pos' = 0 /\ cur' = n
                   /\ phase' = "InPoll"
                   /\ UNCHANGED <<lastRet, fed, emitted, lastLen, lastFlag, wst, wpos, wcons>>
       ELSE /\ pos' = wpos /\ cons' = wcons /\ phase' = "InPoll" /\ cur' = n
            /\ UNCHANGED <<buf, lastRet, fed, emitted, lastLen, lastFlag, wst, wpos, wcons>>

PollComplete ==
  /\ emitted' = emitted + Cap /\ lastLen' = Cap /\ lastFlag' = FALSE
  /\ wst' = "Ready" /\ wpos' = 0 /\ wcons' = 0 /\ pos' = 0
  /\ IF cons > 0
       THEN /\ buf' = HDR /\ lastRet' = cons /\ fed' = fed + cons /\ cur' = 0 /\ cons' = 0
            /\ phase' = "Idle"
       ELSE IF HDR + cur <= Tot
              THEN /\ buf' = HDR + cur /\ lastRet' = cur /\ fed' = fed + cur /\ cur' = 0 /\ cons' = 0
                   /\ phase' = "Idle"
              ELSE /\ buf' = Tot /\ cons' = Cap /\ phase' = "InPoll"
                   /\ UNCHANGED <<lastRet, fed, cur>>

\* @type: (Int) => Bool;
TAccept(k) ==
  /\ phase = "InPoll" /\ k >= 1 /\ k <= buf - pos
  /\ IF pos + k = buf
       THEN PollComplete
       ELSE /\ pos' = pos + k
            /\ UNCHANGED <<buf, fed, emitted, lastLen, lastFlag, lastRet, phase, wst, wpos, wcons, cur, cons>>

TPending ==
  /\ phase = "InPoll"
  /\ wst' = "Writing" /\ wpos' = pos /\ wcons' = cons /\ phase' = "Idle"
  /\ UNCHANGED <<buf, fed, emitted, lastLen, lastFlag, lastRet, cur, pos, cons>>

TFault ==
  /\ phase \in {"InPoll", "InFinish"} /\ phase' = "Failed"
  /\ UNCHANGED <<buf, fed, emitted, lastLen, lastFlag, lastRet, wst, wpos, wcons, cur, pos, cons>>

FinStart ==
  /\ phase = "Idle" /\ cur = 0
  /\ IF wst = "Writing" THEN phase' = "Failed" /\ UNCHANGED pos
                        ELSE pos' = 0 /\ phase' = "InFinish"
  /\ UNCHANGED <<buf, fed, emitted, lastLen, lastFlag, lastRet, wst, wpos, wcons, cur, cons>>

\* @type: (Int) => Bool;
FAccept(k) ==
  /\ phase = "InFinish" /\ k >= 1 /\ k <= buf - pos
  /\ IF pos + k = buf
       THEN /\ emitted' = emitted + (buf - HDR) /\ lastLen' = buf - HDR /\ lastFlag' = TRUE
            /\ buf' = 0 /\ pos' = 0 /\ phase' = "Done"
       ELSE pos' = pos + k /\ UNCHANGED <<buf, emitted, lastLen, lastFlag, phase>>
  /\ UNCHANGED <<fed, lastRet, wst, wpos, wcons, cur, cons>>

FPending == phase = "InFinish" /\ UNCHANGED <<buf, fed, emitted, lastLen, lastFlag, lastRet, phase, wst, wpos, wcons, cur, pos, cons>>

Next == \/ \E n \in Nat : PollStart(n)
        \/ \E k \in Nat : TAccept(k) \/ FAccept(k)
        \/ TPending \/ TFault \/ FinStart \/ FPending

Active == phase \in {"Idle", "InPoll", "InFinish"}
\* bytes sitting in `buffer` that were taken from the caller but not yet reported
InFlightI == IF phase = "InPoll" THEN cons ELSE IF wst = "Writing" THEN wcons ELSE 0

IndInv ==
  /\ Max >= 7
  /\ phase \in {"Idle", "InPoll", "InFinish", "Done", "Failed"}
  /\ wst \in {"Ready", "Writing"}
  /\ fed >= 0 /\ emitted >= 0 /\ cur >= 0
  /\ (phase = "Done" => (buf = 0 /\ emitted = fed /\ lastFlag))
  /\ (Active => (buf >= HDR /\ buf <= Tot /\ ~lastFlag))
  /\ (Active => emitted + (buf - HDR) = fed + InFlightI)
  /\ (phase = "InPoll" => (buf = Tot /\ pos >= 0 /\ pos < buf /\ cons >= 0 /\ cons <= Cap /\ cur >= 1 /\ cons <= cur /\ wpos >= 0))
  /\ (wst = "Writing" /\ phase # "Failed" /\ phase # "Done" =>
         (buf = Tot /\ wpos >= 0 /\ wpos < Tot /\ wcons >= 0 /\ wcons <= Cap /\ wcons <= cur /\ cur >= 1))
  /\ (wst = "Writing" => phase \in {"Idle", "InPoll", "Failed"})
  /\ (phase = "InFinish" => (pos >= 0 /\ pos < buf /\ wst = "Ready" /\ cur = 0))
  /\ (phase = "Idle" /\ wst = "Ready" => cur = 0)
  /\ (wst = "Ready" => (wpos = 0 /\ wcons = 0))
  /\ lastLen <= Cap
  /\ (lastRet = -1 \/ lastRet >= 1)

IndInit ==
  /\ buf \in Int /\ fed \in Int /\ emitted \in Int /\ lastLen \in Int /\ lastRet \in Int
  /\ wpos \in Int /\ wcons \in Int /\ cur \in Int /\ pos \in Int /\ cons \in Int
  /\ lastFlag \in BOOLEAN
  /\ phase \in {"Idle", "InPoll", "InFinish", "Done", "Failed"}
  /\ wst \in {"Ready", "Writing"}
  /\ IndInv
=============================================================================
