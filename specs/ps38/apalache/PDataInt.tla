------------------------------ MODULE PDataInt ------------------------------
(***************************************************************************)
(* Integer-only abstraction of the synchronous P-DATA writer of PData.tla  *)
(* (same actions SyncWrite / SyncFinish, PDU list replaced by counters),   *)
(* used to discharge the writer's safety invariants for EVERY maximum PDU  *)
(* length and EVERY chunk size with Apalache (inductive invariant, SMT),   *)
(* lifting the small-scope bound of the TLC runs.                          *)
(***************************************************************************)
EXTENDS Integers

CONSTANT
  \* @type: Int;
  Max

VARIABLES
  \* @type: Int;
  buf,
  \* @type: Int;
  fed,
  \* @type: Int;
  emitted,      \* payload bytes in PDUs already dispatched
  \* @type: Int;
  lastLen,      \* data length of the most recently dispatched PDU (-1: none)
  \* @type: Bool;
  lastFlag,     \* the most recently dispatched PDU was flagged last
  \* @type: Int;
  lastRet,      \* result of the last write call (-1: none)
  \* @type: Bool;
  done

HDR == 12
Tot == Max + 6
Cap == Max - 6

ConstInit == Max \in Nat /\ Max >= 7

Init == buf = HDR /\ fed = 0 /\ emitted = 0 /\ lastLen = -1 /\ lastFlag = FALSE /\ lastRet = -1 /\ done = FALSE

\* @type: (Int) => Bool;
SyncWrite(n) ==
  /\ ~done /\ n >= 1
  /\ LET full == (buf = Tot)
         b0 == IF full THEN HDR ELSE buf
         pre == IF full THEN Cap ELSE 0
     IN IF b0 + n <= Tot
          THEN /\ buf' = b0 + n /\ lastRet' = n /\ fed' = fed + n
               /\ emitted' = emitted + pre
               /\ lastLen' = IF full THEN Cap ELSE lastLen
               /\ lastFlag' = IF full THEN FALSE ELSE lastFlag
          ELSE /\ buf' = HDR /\ lastRet' = Tot - b0 /\ fed' = fed + (Tot - b0)
               /\ emitted' = emitted + pre + Cap
               /\ lastLen' = Cap /\ lastFlag' = FALSE
  /\ UNCHANGED done

SyncFinish ==
  /\ ~done
  /\ emitted' = emitted + (buf - HDR) /\ lastLen' = buf - HDR /\ lastFlag' = TRUE
  /\ buf' = 0 /\ done' = TRUE /\ UNCHANGED <<fed, lastRet>>

Next == (\E n \in Nat : SyncWrite(n)) \/ SyncFinish

\* the inductive invariant: type/range facts + conservation + PDU bound + Write contract
IndInv ==
  /\ Max >= 7
  /\ fed >= 0 /\ emitted >= 0
  /\ (done => buf = 0) /\ (~done => (buf >= HDR /\ buf <= Tot))
  /\ (~done => emitted + (buf - HDR) = fed)          \* nothing lost, nothing invented
  /\ (done => emitted = fed)                          \* complete after finish
  /\ lastLen <= Cap                                   \* PDU-length field (len + 6) never exceeds Max
  /\ (lastFlag <=> done)                              \* only the final PDU is flagged last
  /\ (lastRet = -1 \/ lastRet >= 1)                   \* a non-empty write never returns 0
\* IndInit: any state satisfying the invariant (for the inductive step)
IndInit ==
  /\ buf \in Int /\ fed \in Int /\ emitted \in Int /\ lastLen \in Int /\ lastRet \in Int
  /\ lastFlag \in BOOLEAN /\ done \in BOOLEAN
  /\ IndInv
=============================================================================
