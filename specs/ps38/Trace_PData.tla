----------------------------- MODULE Trace_PData -----------------------------
(***************************************************************************)
(* Trace validator for C26: events recorded from the real PDataWriter,     *)
(* AsyncPDataWriter and PDataReader are checked to be a behaviour of the   *)
(* property-level specification PDataObs (writer) and of the reader        *)
(* obligations below.  One ndjson file holds many cases separated by       *)
(* "reset"/"rreset" events; all cases of a file share the same Max.        *)
(* Payload byte at 0-based offset i is B(i) = i % 251 by convention of the *)
(* driver; first/last bytes of every PDU and of every read are logged.     *)
(***************************************************************************)
EXTENDS Naturals, Sequences, TLC, Json, IOUtils

Rec == ndJsonDeserialize(IOEnv.TRACE)
TMax == Rec[1].max
B(i) == i % 251

VARIABLES l, ctx, ofed, oemit, olast, ofin, ofail,
          rtotal, rout, rdeliv, rpdubytes, reof

Obs == INSTANCE PDataObs WITH Max <- TMax
tvars == <<l, ctx, ofed, oemit, olast, ofin, ofail, rtotal, rout, rdeliv, rpdubytes, reof>>
rdvars == <<rtotal, rout, rdeliv, rpdubytes, reof>>
owv == <<ofed, oemit, olast, ofin, ofail>>

TInit == /\ l = 1 /\ ctx = 0 /\ Obs!OInit
         /\ rtotal = 0 /\ rout = 0 /\ rdeliv = 0 /\ rpdubytes = 0 /\ reof = FALSE
         /\ TLCSet(1, 1)

Ev(e) == l <= Len(Rec) /\ Rec[l].ev = e /\ l' = l + 1
R == Rec[l]

TReset == /\ Ev("reset") /\ ctx' = R.ctx
          /\ ofed' = 0 /\ oemit' = 0 /\ olast' = FALSE /\ ofin' = "no" /\ ofail' = FALSE
          /\ UNCHANGED rdvars

(* a write/poll_write call returned *)
TWrite == /\ Ev("write")
          /\ CASE R.res = "ok"      -> Obs!OAccept(R.n, R.ret)
               [] R.res = "pending" -> UNCHANGED owv
               [] R.res = "err"     -> Obs!OFail
          /\ UNCHANGED <<ctx>> /\ UNCHANGED rdvars

(* a complete PDU was accepted by the transport *)
TPdu == /\ Ev("pdu")
        /\ Obs!OPdu(R.len, R.last)
        /\ R.type = 4 /\ R.npdv = 1
        /\ R.pdulen = R.len + 6 /\ R.pdvlen = R.len + 2
        /\ R.ctx = ctx
        /\ R.contig
        /\ (R.len > 0) => (R.first = B(oemit) /\ R.lastb = B(oemit + R.len - 1))
        /\ UNCHANGED <<ctx>> /\ UNCHANGED rdvars

TFinish == /\ Ev("finish")
           /\ IF R.ok THEN Obs!OFinishOk ELSE Obs!OFail
           /\ UNCHANGED <<ctx>> /\ UNCHANGED rdvars

(* end of a writer case: bytes on the transport that do not form a complete  *)
(* PDU are only acceptable after a reported failure                          *)
TWEnd == /\ Ev("wend")
         /\ (R.stray = 0 \/ ofail)
         /\ (R.expect_done => ofin = "ok")
         /\ UNCHANGED <<ctx>> /\ UNCHANGED owv /\ UNCHANGED rdvars

---------------------------------------------------------------------------
(* reader *)
TRReset == /\ Ev("rreset")
           /\ rtotal' = R.total /\ rpdubytes' = R.pdubytes
           /\ rout' = 0 /\ rdeliv' = 0 /\ reof' = FALSE
           /\ UNCHANGED <<ctx>> /\ UNCHANGED owv

TDeliver == /\ Ev("deliver") /\ rdeliv' = rdeliv + R.k
            /\ UNCHANGED <<ctx, rtotal, rout, rpdubytes, reof>> /\ UNCHANGED owv

(* read(buf) returned Ok(ret): the bytes are the next ret payload bytes; 0   *)
(* only at the end of the message.  An Err result has no matching action:    *)
(* the stream holds the complete message, so an error is a violation.        *)
TRead == /\ Ev("read") /\ R.res = "ok"
         /\ R.ret <= R.m /\ rout + R.ret <= rtotal
         /\ (R.ret > 0) => (R.contig /\ R.first = B(rout) /\ R.lastb = B(rout + R.ret - 1))
         /\ (R.ret = 0 /\ R.m > 0) => (rout = rtotal)
         /\ rout' = rout + R.ret
         /\ reof' = (R.ret = 0 /\ R.m > 0)
         /\ UNCHANGED <<ctx, rtotal, rdeliv, rpdubytes>> /\ UNCHANGED owv

(* end of a reader case: the whole payload was returned, the end was         *)
(* reported, and read_buffer holds exactly the delivered bytes that follow   *)
(* the message                                                               *)
TREnd == /\ Ev("rend")
         /\ rout = rtotal /\ reof
         /\ rdeliv >= rpdubytes
         /\ R.rest = rdeliv - rpdubytes
         /\ R.restok
         /\ UNCHANGED <<ctx>> /\ UNCHANGED rdvars /\ UNCHANGED owv

TNext == TReset \/ TWrite \/ TPdu \/ TFinish \/ TWEnd \/ TRReset \/ TDeliver \/ TRead \/ TREnd
TSpec == TInit /\ [][TNext]_tvars

Track == TLCSet(1, IF l > TLCGet(1) THEN l ELSE TLCGet(1))
Accepted == IF TLCGet(1) = Len(Rec) + 1 THEN TRUE
            ELSE Print(<<"REJECTED", TLCGet(1), ToJson(Rec[TLCGet(1)])>>, FALSE)
=============================================================================
