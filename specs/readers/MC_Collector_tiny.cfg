CONSTANTS
  PixVariants = {4}
  WithPreamble = {FALSE}
  Files <- AllFiles
  Stops <- AllStops
  MaxUpTo = 2
SPECIFICATION CSpec
INVARIANTS WholeByElements WholeByFragments Progress
CHECK_DEADLOCK FALSE
