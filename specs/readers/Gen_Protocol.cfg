CONSTANTS
  Files <- PFiles
  Stops <- PStops
  MaxCalls = 5
SPECIFICATION GSpec
INVARIANT Emit
CHECK_DEADLOCK FALSE
