CONSTANT Small = FALSE
SPECIFICATION GSpec
INVARIANT Emit
CHECK_DEADLOCK FALSE
