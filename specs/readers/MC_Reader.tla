------------------------------ MODULE MC_Reader ------------------------------
(* Model checking of the token reader over the C07 universe of streams.     *)
EXTENDS DataSetReader, ReaderCases

VARIABLE cs
mcvars == <<rvars, cs>>

(* the expectations of a case are computed once, in the initial state *)
MCInit == \E c \in Cases :
            /\ cs = [exp |-> CaseToks(c), nexp |-> CaseN(c), fails |-> CaseFails(c)]
            /\ RInit(CaseBytes(c), c.ts, c.odd, c.mode)
(* named wrappers so that TLC's coverage reports every reader action *)
MDelimEnd == DelimEnd /\ UNCHANGED cs
MDelimInconsistent == DelimInconsistent /\ UNCHANGED cs
MDelimClear == DelimClear /\ UNCHANGED cs
MItemHeaderStep == ItemHeaderStep /\ UNCHANGED cs
MPixelItemValue == PixelItemValue /\ UNCHANGED cs
MEnterPixel == EnterPixel /\ UNCHANGED cs
MReadValue == ReadValue /\ UNCHANGED cs
MElemHeaderStep == ElemHeaderStep /\ UNCHANGED cs
MDone == Done /\ UNCHANGED cs
MCNext == MDelimEnd \/ MDelimInconsistent \/ MDelimClear \/ MItemHeaderStep \/ MPixelItemValue
          \/ MEnterPixel \/ MReadValue \/ MElemHeaderStep \/ MDone
MCSpec == MCInit /\ [][MCNext]_mcvars

(* every reported token is the one the layout prescribes, with its position: *)
(* the next header is read at base + declared (Accept) / + 1 (NextEven)      *)
TokOK == (tok # Null /\ tok.t # "ERR") => (n <= cs.nexp /\ tok = cs.exp[n])
EndOK == status = "eof" => (~cs.fails /\ n = cs.nexp /\ cons = Len(bytes) /\ delims = <<>>)
ErrOK == status = "err" => (cs.fails /\ n = cs.nexp)
=============================================================================
