CONSTANTS
  HeadVariants = {1, 2, 3, 4, 5, 6, 7, 8}
  PixVariants = {1, 2, 3, 4, 5, 6, 7, 8, 9}
  WithPreamble = {FALSE}
SPECIFICATION MCSpec
INVARIANTS PosIsConsumed StackOK Bounded TokOK EndOK NoErr
