CONSTANTS
  DLs = {0, 1, 2, 3, 4, 5, 6, 7, 9, 10, 11, 13}
  TailDLs = {1, 3, 5, 7}
  SeqVRs = {"US", "UL", "FD", "OB", "LO", "AT", "SS", "OW", "UI", "DA", "OV", "UN"}
  SeqDLs = {1, 3, 6}
  Frag0DLs = {0, 1, 2, 3, 4, 5, 7, 8, 12}
  Frag1DLs = {0, 1, 2, 3, 5}
SPECIFICATION MCSpec
INVARIANTS PosIsConsumed StackOK Bounded TokOK EndOK ErrOK
