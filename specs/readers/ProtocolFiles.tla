----------------------------- MODULE ProtocolFiles -----------------------------
(* A handful of small conforming files for the protocol exploration. *)
EXTENDS Layout
P(tag, vr, dl, salt) == [k |-> "P", tag |-> tag, vr |-> vr, dl |-> dl, salt |-> salt]
X(frags) == [k |-> "X", frags |-> frags]
F(dl, salt) == [dl |-> dl, salt |-> salt]
HeadEls == <<P(<<8, 96>>, "CS", 2, 0), P(<<16, 16>>, "PN", 4, 1), P(<<40, 16>>, "US", 2, 2)>>
Trail == <<P(<<65532, 65532>>, "OB", 2, 3)>>
PFiles == <<[ts |-> "EVRLE", pre |-> FALSE, ds |-> HeadEls],
            [ts |-> "EVRLE", pre |-> TRUE, ds |-> HeadEls \o <<P(PixelTag, "OW", 4, 7)>>],
            [ts |-> "IVRLE", pre |-> FALSE, ds |-> HeadEls \o <<P(PixelTag, "OW", 4, 7)>> \o Trail],
            [ts |-> "EVRLE", pre |-> FALSE, ds |-> HeadEls \o <<X(<<F(0, 0), F(4, 1)>>)>>],
            [ts |-> "EVRBE", pre |-> TRUE, ds |-> HeadEls \o <<X(<<F(0, 0), F(4, 1)>>)>> \o Trail],
            [ts |-> "EVRLE", pre |-> FALSE, ds |-> HeadEls \o <<X(<<F(4, 0), F(0, 1), F(2, 2)>>)>>],
            [ts |-> "IVRLE", pre |-> FALSE, ds |-> HeadEls \o <<X(<<F(4, 0), F(0, 1), F(2, 2)>>)>> \o Trail]>>
PStops == {<<16, 0>>, PixelTag, <<65533, 0>>}
=============================================================================
