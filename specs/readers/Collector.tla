------------------------------- MODULE Collector -------------------------------
(***************************************************************************)
(* The DICOM collector (dicom_object::collector::DicomCollector) as a      *)
(* state machine over a file: how far it has read (CollectorState), which  *)
(* top-level element comes next, how many pixel data items were handed     *)
(* out.  Calls: read_preamble, read_file_meta, read_dataset_up_to(tag),    *)
(* read_dataset_to_end, read_basic_offset_table, read_next_fragment.       *)
(* The specification says what every call must return for a conforming     *)
(* file, and TLC checks the theorem of C06: for every portioning, what was *)
(* collected (elements, offset table, fragments), together with what was   *)
(* deliberately skipped on the way to the pixel data, is the whole file.   *)
(* Calls in states the API documents as illegal are not modelled.          *)
(***************************************************************************)
EXTENDS ObjectBuild

CONSTANTS Files,    \* sequence of files [ts, pre, ds]; ds as in Layout.tla, written by a conforming writer
          Stops,    \* stop tags tried by read_dataset_up_to
          MaxUpTo   \* bound on the number of read_dataset_up_to calls in one behaviour

VARIABLES fid,      \* the file being read
          file,     \* [els, pix, ts, pre]: its whole-file object and where the pixel data is (fixed)
          cstate,   \* "Start" | "Preamble" | "FileMeta" | "InDataset" | "InPixelData"
          idx,      \* index of the next top-level element
          entered,  \* the pixel data element has been entered by a fragment / offset table call
          pitem,    \* number of pixel data items handed out (native pixel data: 1 = value handed out)
          botRead,  \* the offset table was fetched by read_basic_offset_table
          got,      \* elements collected by read_dataset_*
          skipped,  \* elements skipped on the way to the pixel data
          bot,      \* offset table entries obtained
          frags,    \* fragments obtained one by one
          nupto, lastStop, done,
          ret       \* what the last call returned

cvars == <<fid, file, cstate, idx, entered, pitem, botRead, got, skipped, bot, frags, nupto, lastStop, done, ret>>

Infinity == <<65536, 0>>
RECURSIVE PixIdx(_, _)
PixIdx(els, i) == IF i > Len(els) THEN 0 ELSE IF els[i].tag = PixelTag THEN i ELSE PixIdx(els, i + 1)

(* per file: the whole-file object and where the pixel data is *)
InfoOf(f) == LET els == Obj(Files[f].ds, Files[f].ts, "exact") IN
             [els |-> els, pix |-> PixIdx(els, 1), ts |-> Files[f].ts, pre |-> Files[f].pre]
E == file.els
P == file.pix
(* the items of an encapsulated pixel data element, the offset table first *)
Items(e) == IF e.nitems = 0 THEN <<>> ELSE <<e.otraw>> \o e.frags

CInit == /\ fid \in 1..Len(Files) /\ file = InfoOf(fid)
         /\ cstate = "Start" /\ idx = 1 /\ entered = FALSE /\ pitem = 0 /\ botRead = FALSE
         /\ got = <<>> /\ skipped = <<>> /\ bot = <<>> /\ frags = <<>>
         /\ nupto = 0 /\ lastStop = <<0, 0>> /\ done = "no" /\ ret = [call |-> "none"]

---------------------------------------------------------------------------
ReadPreamble ==
  /\ done = "no" /\ cstate = "Start"
  /\ cstate' = "Preamble"
  /\ ret' = [call |-> "pre", some |-> file.pre, bytes |-> IF file.pre THEN Preamble ELSE <<>>]
  /\ UNCHANGED <<fid, file, idx, entered, pitem, botRead, got, skipped, bot, frags, nupto, lastStop, done>>

ReadFileMeta ==
  /\ done = "no" /\ cstate \in {"Start", "Preamble"}
  /\ cstate' = "FileMeta"
  /\ ret' = [call |-> "meta", res |-> MetaObj(file.ts)]
  /\ UNCHANGED <<fid, file, idx, entered, pitem, botRead, got, skipped, bot, frags, nupto, lastStop, done>>

RECURSIVE TakeN(_, _, _)
TakeN(els, i, t) == IF i > Len(els) \/ ~TagLess(els[i].tag, t) THEN 0 ELSE 1 + TakeN(els, i + 1, t)

Collect(t, call) ==
  LET k == TakeN(E, idx, t)
      part == SubSeq(E, idx, idx + k - 1) IN
  /\ got' = got \o part /\ idx' = idx + k
  /\ ret' = [call |-> call, tag |-> t, res |-> part]
  /\ cstate' = IF k = 0 THEN cstate ELSE IF part[k].k = "X" THEN "InPixelData" ELSE "InDataset"

(* read_dataset_up_to(t): the top-level elements below t, in one portion *)
ReadUpTo(t) ==
  /\ done = "no" /\ cstate \in {"FileMeta", "InDataset", "InPixelData"} /\ ~entered
  /\ nupto < MaxUpTo /\ TagLess(lastStop, t)
  /\ Collect(t, "upto")
  /\ nupto' = nupto + 1 /\ lastStop' = t
  /\ UNCHANGED <<fid, file, entered, pitem, botRead, skipped, bot, frags, done>>

ReadToEnd ==
  /\ done = "no" /\ cstate \in {"FileMeta", "InDataset", "InPixelData"} /\ ~entered
  /\ Collect(Infinity, "toend")
  /\ done' = "toend"
  /\ UNCHANGED <<fid, file, entered, pitem, botRead, skipped, bot, frags, nupto, lastStop>>

PixAhead == P # 0 /\ idx <= P
(* fragment / offset table calls first skip to the pixel data element *)
Enter == /\ skipped' = (IF entered THEN skipped
                        ELSE skipped \o SubSeq(E, idx, IF PixAhead THEN P - 1 ELSE Len(E)))
         /\ idx' = (IF entered THEN idx ELSE IF PixAhead THEN P ELSE Len(E) + 1)
         /\ entered' = TRUE /\ cstate' = "InPixelData"

(* read_basic_offset_table: the entries, or nothing for native / absent pixel data *)
ReadBOT ==
  /\ done = "no" /\ ~entered /\ (P = 0 \/ idx <= P)
  /\ Enter
  /\ IF PixAhead /\ E[P].k = "X" /\ E[P].nitems > 0
     THEN /\ ret' = [call |-> "bot", some |-> TRUE, len |-> Len(E[P].otraw), ot |-> E[P].ot]
          /\ bot' = E[P].ot /\ botRead' = TRUE /\ pitem' = 1
     ELSE /\ ret' = [call |-> "bot", some |-> FALSE, len |-> 0, ot |-> <<>>]
          /\ UNCHANGED <<bot, botRead, pitem>>
  /\ UNCHANGED <<fid, file, got, frags, nupto, lastStop, done>>

(* read_next_fragment: the next pixel data item (the offset table counts as one if it   *)
(* was not fetched separately); native pixel data is a single fragment; then nothing    *)
ReadNextFragment ==
  /\ done = "no" /\ (entered \/ P = 0 \/ idx <= P)
  /\ Enter
  /\ LET hasPix == IF entered THEN (P # 0 /\ idx = P) ELSE PixAhead
         items == IF ~hasPix THEN <<>>
                  ELSE IF E[P].k = "X" THEN Items(E[P]) ELSE <<E[P].val>> IN
     IF pitem < Len(items)
     THEN /\ ret' = [call |-> "frag", some |-> TRUE, len |-> Len(items[pitem + 1]), bytes |-> items[pitem + 1]]
          /\ frags' = Append(frags, items[pitem + 1]) /\ pitem' = pitem + 1
          /\ UNCHANGED done
     ELSE /\ ret' = [call |-> "frag", some |-> FALSE, len |-> 0, bytes |-> <<>>]
          /\ done' = "frags" /\ UNCHANGED <<frags, pitem>>
  /\ UNCHANGED <<fid, file, botRead, got, bot, nupto, lastStop>>

CNext == ReadPreamble \/ ReadFileMeta \/ (\E t \in Stops : ReadUpTo(t)) \/ ReadToEnd \/ ReadBOT \/ ReadNextFragment
CSpec == CInit /\ [][CNext]_cvars

---------------------------------------------------------------------------
(* C06: whatever the portioning, the parts make up the whole *)
WholeByElements == done = "toend" => got = E
WholeByFragments ==
  done = "frags" =>
    /\ got \o skipped = SubSeq(E, 1, IF P # 0 /\ idx = P THEN P - 1 ELSE Len(E))
    /\ (P # 0 /\ idx = P) =>
         IF E[P].k = "X"
         THEN IF botRead THEN bot = E[P].ot /\ frags = E[P].frags
              ELSE frags = Items(E[P]) /\ (frags # <<>> => OTEntries(file.ts, frags[1]) = E[P].ot)
         ELSE frags = <<E[P].val>>
    /\ (P = 0 \/ idx # P) => frags = <<>>
Progress == idx <= Len(E) + 1 /\ pitem >= 0
=============================================================================
