--------------------------- MODULE Gen_CollectorPlan ---------------------------
(* Larger, randomly sampled conforming files with randomly sampled portionings  *)
(* (sampled by the check from a fixed seed, passed as ndjson in STRUCTS; each    *)
(* line {ts, pre, ds, plan}).  The plan is executed through the actions of       *)
(* Collector.tla, which supply the expected result of every call; the FILE       *)
(* record is computed as in Gen_Collector.                                       *)
EXTENDS Collector, Json, IOUtils

In == ndJsonDeserialize(IOEnv.STRUCTS)
RandFiles == [i \in 1..Len(In) |-> [ts |-> In[i].ts, pre |-> In[i].pre, ds |-> In[i].ds]]

VARIABLES h, plan
GInit == CInit /\ h = <<>> /\ plan = In[fid].plan
Step(c) == \/ c.call = "pre" /\ ReadPreamble
           \/ c.call = "meta" /\ ReadFileMeta
           \/ c.call = "upto" /\ ReadUpTo(c.tag)
           \/ c.call = "toend" /\ ReadToEnd
           \/ c.call = "bot" /\ ReadBOT
           \/ c.call = "frag" /\ ReadNextFragment
GNext == plan # <<>> /\ Step(Head(plan)) /\ plan' = Tail(plan) /\ h' = Append(h, ret')
GSpec == GInit /\ [][GNext]_<<cvars, h, plan>>

RECURSIVE SetToSeq(_)
SetToSeq(s) == IF s = {} THEN <<>> ELSE LET x == CHOOSE y \in s : TRUE IN <<x>> \o SetToSeq(s \ {x})
(* stop tags of a file: each of its root attributes and the tag right after it *)
StopsOf(obj) == {obj[i].tag : i \in 1..Len(obj)} \cup {<<obj[i].tag[1], obj[i].tag[2] + 1>> : i \in 1..Len(obj)}

Fid == 100000 + fid
FileRec ==
  LET x == Files[fid]
      obj == file.els IN
  [file |-> TRUE, fid |-> Fid, ts |-> x.ts, pre |-> x.pre, ds |-> x.ds, rand |-> TRUE,
   bytes |-> Wire(x.ds, x.ts, "exact"), total |-> Len(Wire(x.ds, x.ts, "exact")),
   whole |-> obj, meta |-> MetaObj(x.ts),
   eager |-> Toks(x.ds, x.ts, "exact", "eager"), lazy |-> Toks(x.ds, x.ts, "exact", "lazy"),
   until |-> SetToSeq({[tag |-> t, res |-> Below(obj, t)] : t \in StopsOf(obj)}),
   to |-> SetToSeq({[tag |-> t, res |-> UpTo(obj, t)] : t \in StopsOf(obj)})]

Emit == /\ (h = <<>> => PrintT(<<"CASE", ToJson(FileRec)>>))
        /\ ((h # <<>> /\ (plan = <<>> \/ done # "no")) =>
              PrintT(<<"CASE", ToJson([beh |-> TRUE, fid |-> Fid, calls |-> h, rand |-> TRUE])>>))
=============================================================================
