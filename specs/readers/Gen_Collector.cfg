CONSTANTS
  HeadVariants = {1, 4, 6}
  PixVariants = {1, 2, 3, 4, 5, 6, 7, 8, 9}
  WithPreamble = {FALSE}
  Files <- AllFiles
  Stops <- QuickStops
  MaxUpTo = 2
SPECIFICATION GSpec
INVARIANT Emit
CHECK_DEADLOCK FALSE
