----------------------------- MODULE AdaptiveCases -----------------------------
(***************************************************************************)
(* The universe for C08: data sets in Explicit and Implicit VR Little      *)
(* Endian whose first element runs through the classes the adaptive probe  *)
(* distinguishes -- known attribute x kind of dictionary entry, unknown    *)
(* attribute, private attribute, stray item delimiter first, sequence      *)
(* first, pixel data first -- crossed with classes of the length field     *)
(* (its two low bytes spell no VR / a VR compatible with the entry / an    *)
(* incompatible VR), followed by a tail that exercises every kind of       *)
(* header under the lock.                                                  *)
(***************************************************************************)
EXTENDS AdaptiveVR

CONSTANT Small   \* TRUE: only the cases without long values (used for the coverage run)

P(tag, vr, dl, salt) == [k |-> "P", tag |-> tag, vr |-> vr, dl |-> dl, salt |-> salt]
S(tag, lm, items) == [k |-> "S", tag |-> tag, lm |-> lm, oddc |-> FALSE, items |-> items]
I(lm, els) == [lm |-> lm, oddc |-> FALSE, els |-> els]
X(frags) == [k |-> "X", frags |-> frags]
F(dl, salt) == [dl |-> dl, salt |-> salt]

(* the length whose two low bytes are the code of VR v *)
LenOf(v) == VRCodeTab[v][1] + 256 * VRCodeTab[v][2]

(* first elements: [tag, vrs = VRs an explicit writer may use, lens] *)
Firsts ==
  { [tag |-> <<40, 16>>, vrs |-> {"US"}, lens |-> {0, 2, LenOf("US"), LenOf("DA"), LenOf("UN")}],        \* Rows: Exact(US)
    [tag |-> <<16, 16>>, vrs |-> {"PN"}, lens |-> {0, 4, LenOf("PN"), LenOf("LO")}],                     \* PatientName
    [tag |-> <<114, 101>>, vrs |-> {"OB"}, lens |-> {0, 4, LenOf("OB"), LenOf("OW")}],                   \* SelectorOBValue
    [tag |-> <<114, 109>>, vrs |-> {"UN"}, lens |-> {4, LenOf("UN"), LenOf("DA")}],                      \* SelectorUNValue: Exact(UN)
    [tag |-> <<40, 262>>, vrs |-> {"US", "SS"}, lens |-> {2, LenOf("US"), LenOf("SS"), LenOf("OW")}],    \* Xs
    [tag |-> <<20, 12368>>, vrs |-> {"OB", "OW"}, lens |-> {4, LenOf("OB"), LenOf("OW"), LenOf("US")}],  \* Ox
    [tag |-> <<40, 12294>>, vrs |-> {"US", "OW"}, lens |-> {4, LenOf("US"), LenOf("OW"), LenOf("OB")}],  \* Lt
    [tag |-> PixelTag, vrs |-> {"OB", "OW"}, lens |-> {4, LenOf("OB"), LenOf("OW"), LenOf("UL")}],       \* Px, native
    [tag |-> <<8, 0>>, vrs |-> {"UL"}, lens |-> {4, LenOf("UL"), LenOf("US")}],                          \* group length
    [tag |-> <<9, 16>>, vrs |-> {"LO"}, lens |-> {4, LenOf("LO"), LenOf("DA")}],                         \* private creator
    [tag |-> <<16, 32>>, vrs |-> {"LO", "UN"}, lens |-> {4}],              \* PatientID; written as UN it is ambiguous in explicit VR
    [tag |-> <<9, 4097>>, vrs |-> {"LO", "OB", "UN"}, lens |-> {0, 4, LenOf("DA"), 16705}],              \* private element: no entry
    [tag |-> <<114, 121>>, vrs |-> {"CS", "UT"}, lens |-> {2, LenOf("FD"), 16705}] }                     \* unknown attribute: no entry

Rest == <<P(<<114, 102>>, "LO", 4, 1),
          S(<<114, 128>>, "U", <<I("U", <<P(<<114, 122>>, "US", 2, 2), P(<<114, 109>>, "UN", 2, 4)>>), I("E", <<>>)>>),
          S(<<114, 128>>, "E", <<I("E", <<P(<<114, 101>>, "OB", 2, 3)>>)>>),
          P(<<114, 131>>, "UV", 8, 5)>>

Encs == {"EVRLE", "IVRLE"}

(* [ds, first = [tag, vr, len], enc, stray = an item delimiter precedes the data set] *)
PrimCases ==
  {[ds |-> <<P(f.tag, v, l, 6)>> \o Rest, first |-> [tag |-> f.tag, vr |-> v, len |-> l], enc |-> e, stray |-> s, fam |-> "first"] :
     f \in Firsts, v \in UNION {g.vrs : g \in Firsts}, l \in UNION {g.lens : g \in Firsts}, e \in Encs, s \in {FALSE}}
RealPrimCases == {c \in PrimCases : \E f \in Firsts : f.tag = c.first.tag /\ c.first.vr \in f.vrs /\ c.first.len \in f.lens
                                                    /\ (c.first.vr \in ShortVR => c.first.len < 65536)}
SeqCases ==
  {[ds |-> <<S(<<8, 4416>>, lm, <<I(lm, <<P(<<8, 24>>, "UI", 4, 5)>>)>>)>> \o Rest,
    first |-> [tag |-> <<8, 4416>>, vr |-> "SQ", len |-> IF lm = "U" THEN UNDEF ELSE 20], enc |-> e, stray |-> s, fam |-> "first"] :
     lm \in {"U", "E"}, e \in Encs, s \in {FALSE, TRUE}}
PixCases ==
  {[ds |-> <<X(<<F(0, 0), F(4, 1)>>), P(<<65532, 65532>>, "OB", 2, 3)>>,
    first |-> [tag |-> PixelTag, vr |-> "OB", len |-> UNDEF], enc |-> e, stray |-> FALSE, fam |-> "first"] : e \in Encs}
StrayCases ==
  {[c EXCEPT !.stray = TRUE] : c \in {d \in RealPrimCases : d.first.len \in {2, 4}}}

(* After an unambiguous first element the lock must hold: later elements, at the root and  *)
(* inside an item, whose length fields spell VR codes -- incompatible with their own       *)
(* dictionary entry, and compatible with it (a second probe would take them for explicit)  *)
Rest2 == <<P(<<114, 102>>, "LO", LenOf("DS"), 1),
           P(<<114, 104>>, "LT", LenOf("LT"), 2),
           S(<<114, 128>>, "U", <<I("U", <<P(<<114, 110>>, "ST", LenOf("ST"), 3)>>),
                                  I("E", <<P(<<114, 112>>, "UT", LenOf("LO"), 4)>>)>>),
           P(<<114, 131>>, "UV", 8, 5)>>
LaterFirsts == { [tag |-> <<16, 16>>, vr |-> "PN", len |-> LenOf("LO")],     \* spells an incompatible VR
                 [tag |-> <<16, 16>>, vr |-> "PN", len |-> 4],
                 [tag |-> <<40, 16>>, vr |-> "US", len |-> LenOf("DA")],
                 [tag |-> <<114, 109>>, vr |-> "UN", len |-> LenOf("DA")],
                 [tag |-> <<9, 4097>>, vr |-> "LO", len |-> 4],              \* no dictionary entry
                 [tag |-> <<8, 0>>, vr |-> "UL", len |-> 4] }
LaterCases == {[ds |-> <<P(f.tag, f.vr, f.len, 6)>> \o Rest2, first |-> f, enc |-> e, stray |-> s, fam |-> "later"] :
                 f \in LaterFirsts, e \in Encs, s \in {FALSE}}
                \cup {[ds |-> <<P(<<16, 16>>, "PN", LenOf("LO"), 6)>> \o Rest2,
                       first |-> [tag |-> <<16, 16>>, vr |-> "PN", len |-> LenOf("LO")], enc |-> e, stray |-> TRUE, fam |-> "later"] : e \in Encs}

AllCases == RealPrimCases \cup SeqCases \cup PixCases \cup StrayCases \cup LaterCases
(* the explicit length of the first sequence in SeqCases is computed, not assumed *)
FixFirst(c) == IF c.first.vr = "SQ" /\ c.first.len # UNDEF
               THEN [c EXCEPT !.first.len = ItemsSize(c.ds[1].items, c.enc, "exact")] ELSE c
Cases == {FixFirst(c) : c \in {d \in AllCases : ~Small \/ (d.fam = "first" /\ (d.first.len = UNDEF \/ d.first.len < 1000))}}

CaseBytes(c) == (IF c.stray THEN ItemDelim(c.enc) ELSE <<>>) \o Wire(c.ds, c.enc, "exact")
(* the tokens the regular decoder of the real encoding reports (positions shifted by a stray delimiter) *)
Shift(toks, k) == [i \in 1..Len(toks) |-> [toks[i] EXCEPT !.pos = @ + k]]
CaseToks(c) == Shift(Toks(c.ds, c.enc, "exact", "eager"), IF c.stray THEN 8 ELSE 0)
CaseAmbiguous(c) == Ambiguous(c.first, c.enc)
=============================================================================
