----------------------------- MODULE ReaderCases -----------------------------
(***************************************************************************)
(* The universe of small streams for C07: an odd declared length on any    *)
(* element or item, every VR (including binary VRs whose length is not a   *)
(* multiple of the value width), inside and outside sequences with         *)
(* explicit and undefined lengths, in pixel data items, crossed with the   *)
(* three strategies, the three syntaxes and both readers.                  *)
(***************************************************************************)
EXTENDS Layout

CONSTANTS DLs,       \* declared lengths of the element under test (top level)
          TailDLs,   \* declared lengths of an odd element at the very end of the stream
          SeqVRs,    \* VRs of the element under test inside a sequence item
          SeqDLs,    \* its declared lengths
          Frag0DLs,  \* declared lengths of the first pixel data item (offset table)
          Frag1DLs   \* declared lengths of the following fragments

P(tag, vr, dl, salt) == [k |-> "P", tag |-> tag, vr |-> vr, dl |-> dl, salt |-> salt]
S(tag, lm, oddc, items) == [k |-> "S", tag |-> tag, lm |-> lm, oddc |-> oddc, items |-> items]
I(lm, oddc, els) == [lm |-> lm, oddc |-> oddc, els |-> els]
X(frags) == [k |-> "X", frags |-> frags]
F(dl, salt) == [dl |-> dl, salt |-> salt]

W(o) == IF o = "NextEven" THEN "pad" ELSE "exact"
Strategies == {"Accept", "NextEven", "Fail"}
Modes == {"eager", "lazy"}

Lead == P(<<8, 96>>, "CS", 2, 0)                 \* (0008,0060) Modality
Sent == P(<<65532, 65532>>, "OB", 2, 3)          \* (FFFC,FFFC) trailing element
SeqA == <<8, 4416>>                              \* (0008,1140)
SeqB == <<64, 629>>                              \* (0040,0275)

(* length modes of a container; `oddc` only exists in the padded world *)
LMs(w) == {[lm |-> "U", oddc |-> FALSE], [lm |-> "E", oddc |-> FALSE]}
          \cup (IF w = "pad" THEN {[lm |-> "E", oddc |-> TRUE]} ELSE {})

ShapeA == {<<Lead, P(SelTag(vr), vr, dl, 1), Sent>> : vr \in PrimVR, dl \in DLs}
ShapeB == {<<Lead, P(SelTag(vr), vr, dl, 1)>> : vr \in PrimVR, dl \in TailDLs}
ShapeC(w) ==
  {<<Lead, S(SeqA, a.lm, a.oddc, <<I(b.lm, b.oddc, <<P(SelTag(vr), vr, dl, 2)>>)>>), Sent>> :
     a \in LMs(w), b \in LMs(w), vr \in SeqVRs, dl \in SeqDLs}
(* two items, a nested sequence, an empty item and an empty sequence *)
ShapeD(w) ==
  {<<S(SeqA, a.lm, a.oddc,
       <<I(b.lm, b.oddc, <<P(SelTag("US"), "US", dl, 1)>>),
         I(b.lm, FALSE, <<S(SeqB, b.lm, FALSE, <<I(a.lm, a.oddc, <<P(SelTag("OB"), "OB", dl, 4)>>)>>),
                          P(SelTag("LO"), "LO", 3, 2)>>),
         I("E", FALSE, <<>>)>>),
     S(SeqB, "E", FALSE, <<>>),
     Sent>> : a \in LMs(w), b \in LMs(w), dl \in SeqDLs}
(* mixed-length nesting: an item whose LAST element is a nested sequence (or nested       *)
(* encapsulated pixel data), every combination of explicit / undefined lengths of the outer  *)
(* sequence, the item and the nested sequence                                                *)
ShapeF(w) ==
  {<<S(SeqA, a.lm, a.oddc,
       <<I(b.lm, b.oddc, <<P(SelTag("US"), "US", dl, 1),
                          S(SelTag("SQ"), c.lm, c.oddc, <<I(a.lm, FALSE, <<P(SelTag("OB"), "OB", dl, 4)>>)>>)>>),
         I(c.lm, FALSE, <<P(SelTag("LO"), "LO", 3, 2), X(<<F(0, 0), F(dl, 1)>>)>>)>>),
     Sent>> : a \in LMs(w), b \in LMs(w), c \in LMs(w), dl \in SeqDLs}
ShapeE ==
  {<<Lead, X(<<F(d0, 0), F(d1, 1)>>)>> : d0 \in Frag0DLs, d1 \in Frag1DLs}
  \cup {<<Lead, X(<<F(d0, 0), F(d1, 1), F(1, 2)>>), Sent>> : d0 \in Frag0DLs, d1 \in Frag1DLs}
  \cup {<<X(<<>>), Sent>>, <<X(<<F(0, 0)>>)>>}

Shapes(w) == ShapeA \cup ShapeB \cup ShapeC(w) \cup ShapeD(w) \cup ShapeE \cup ShapeF(w)

Cases == {[ds |-> ds, ts |-> t, odd |-> o, mode |-> m] :
            ds \in Shapes("exact"), t \in TSs, o \in {"Accept", "Fail"}, m \in Modes}
         \cup
         {[ds |-> ds, ts |-> t, odd |-> "NextEven", mode |-> m] :
            ds \in Shapes("pad"), t \in TSs, m \in Modes}

CaseBytes(c) == Wire(c.ds, c.ts, W(c.odd))
CaseToks(c) == Toks(c.ds, c.ts, W(c.odd), c.mode)
CaseFails(c) == c.odd = "Fail" /\ HasOdd(c.ds, c.ts, W(c.odd))
(* number of tokens reported before the end (or before the error) *)
CaseN(c) == IF CaseFails(c) THEN FailCut(CaseToks(c), HdrLens(c.ds, c.ts, W(c.odd)), 0)
            ELSE Len(CaseToks(c))
=============================================================================
