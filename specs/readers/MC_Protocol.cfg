CONSTANTS
  Files <- PFiles
  Stops <- PStops
SPECIFICATION PSpec
INVARIANT Sane
PROPERTY IllegalIsNoOp
CHECK_DEADLOCK FALSE
