------------------------------ MODULE AdaptiveVR ------------------------------
(***************************************************************************)
(* The adaptive ("flexible") VR decoder for little endian data sets        *)
(* (AdaptiveVRLittleEndianDecoder): a lock in {Unknown, Explicit,          *)
(* Implicit}.  Item and delimiter headers (group FFFE) never probe.  The   *)
(* first other element header is probed: if the two bytes after the tag    *)
(* spell a VR that is compatible with the attribute's dictionary entry (or *)
(* any VR, for an attribute without entry) the lock becomes Explicit,      *)
(* otherwise Implicit; afterwards the lock never changes.                  *)
(* In DataSetReader.tla the lock is the variable `ts`: "ADAPT" = Unknown,  *)
(* "EVRLE" = Explicit, "IVRLE" = Implicit.                                 *)
(* Ambiguous(first, enc) is the premise of C08: the probe can only be      *)
(* right when the first element does not look like the other encoding.     *)
(***************************************************************************)
EXTENDS Layout

(* dictionary classes: an exact VR, or one of the multi-VR classes *)
Compatible(vr, entry) ==
  CASE entry = "Xs" -> vr \in {"US", "SS"}
    [] entry = "Ox" -> vr \in {"OB", "OW"}
    [] entry = "Px" -> vr \in {"OB", "OW"}
    [] entry = "Lt" -> vr \in {"US", "OW"}
    [] OTHER -> vr = entry

LockOf(ts) == CASE ts = "ADAPT" -> "Unknown" [] ts = "EVRLE" -> "Explicit" [] ts = "IVRLE" -> "Implicit"

(* the probe: which encoding the element header at `at` (1-based) is taken for *)
Probe(b, at) ==
  LET tag == RdTag("IVRLE", b, at)
      vr == VRofCode(<<b[at + 4], b[at + 5]>>)
      entry == DictEntry(tag) IN
  IF vr # "??" /\ (entry = "none" \/ Compatible(vr, entry)) THEN "EVRLE" ELSE "IVRLE"

(* the lock after decoding the element header at `at` *)
LockAfter(ts, b, at) ==
  IF ts # "ADAPT" THEN ts
  ELSE IF RdTag("IVRLE", b, at)[1] = 65534 THEN "ADAPT"
  ELSE Probe(b, at)

(* C08's premise.  `first` = the first element that is not an item or       *)
(* delimiter header: [tag, vr, len] with vr the VR written in an explicit   *)
(* encoding and len its length field (UNDEF allowed); enc = how the data    *)
(* set is really encoded.                                                   *)
LenCode(len) == IF len = UNDEF THEN <<255, 255>> ELSE <<len % 256, (len \div 256) % 256>>
Ambiguous(first, enc) ==
  LET entry == DictEntry(first.tag) IN
  IF enc = "IVRLE"
  THEN (* the first two length bytes spell a VR compatible with the entry *)
       LET v == VRofCode(LenCode(first.len)) IN
       v # "??" /\ (entry = "none" \/ Compatible(v, entry))
  ELSE (* the VR written is not one the dictionary allows for the attribute *)
       ~(entry = "none" \/ Compatible(first.vr, entry))
=============================================================================
