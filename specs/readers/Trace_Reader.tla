----------------------------- MODULE Trace_Reader -----------------------------
(***************************************************************************)
(* Trace validator for C07 (and the token part of C06): the token log of   *)
(* the real DataSetReader / LazyDataSetReader, recorded over a counting    *)
(* source, must be a behaviour of DataSetReader.tla on the same bytes.     *)
(* Events:                                                                 *)
(*   reset {ts, odd, mode, bytes}        a new stream is mounted           *)
(*   tok   {t, tag, vr, len, pos, cons}  one token was reported; pos is    *)
(*         position() of the decoder, cons the bytes taken from the source *)
(*   end   {res}                         "eof" (iterator ended) or "err"   *)
(* A token event is matched by the reader action that reports the same     *)
(* token AND leaves the model at the same position with pos = cons; the    *)
(* unlogged delimiter bookkeeping is a silent step.                        *)
(***************************************************************************)
EXTENDS DataSetReader, Json, IOUtils

Rec == ndJsonDeserialize(IOEnv.TRACE)
VARIABLE l
tvars == <<rvars, l>>

TInit == RInit(<<>>, "EVRLE", "Accept", "eager") /\ l = 1 /\ TLCSet(1, 1)

Ev(e) == l <= Len(Rec) /\ Rec[l].ev = e /\ l' = l + 1
R == Rec[l]

TReset == Ev("reset") /\ RReset(R.bytes, R.ts, R.odd, R.mode)

Reporting == DelimEnd \/ ItemHeaderStep \/ PixelItemValue \/ EnterPixel \/ ReadValue \/ ElemHeaderStep

(* which fields of a token the log can be compared on *)
TokMatches(x, r) ==
  /\ x.t = r.t
  /\ x.pos = r.pos
  /\ r.cons = r.pos
  /\ (x.t \in {"EH", "SS"} => (x.tag = r.tag /\ x.vr = r.vr))
  /\ (x.t \in {"EH", "SS", "IS", "IV"} => x.len = r.len)

TTok == /\ Ev("tok") /\ Reporting
        /\ tok' # Null /\ status' = "run"
        /\ TokMatches(tok', R)
        /\ cons' = R.cons

TSilent == UNCHANGED l /\ (DelimClear \/ (ElemHeaderStep /\ tok' = Null /\ status' = "run"))

TEnd == /\ Ev("end")
        /\ \/ /\ R.res = "eof" /\ (ElemHeaderStep \/ ItemHeaderStep) /\ status' = "eof"
              /\ cons' = R.cons
           \/ /\ R.res = "err" /\ (Reporting \/ DelimInconsistent) /\ status' = "err"

TNext == TReset \/ TTok \/ TSilent \/ TEnd
TSpec == TInit /\ [][TNext]_tvars

Track == TLCSet(1, IF l > TLCGet(1) THEN l ELSE TLCGet(1))
Accepted == IF TLCGet(1) = Len(Rec) + 1 THEN TRUE
            ELSE Print(<<"REJECTED", TLCGet(1), ToJson(Rec[TLCGet(1)])>>, FALSE)
=============================================================================
