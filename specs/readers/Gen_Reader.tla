------------------------------ MODULE Gen_Reader ------------------------------
(* Case generator for C07: every case of the universe with its stream bytes  *)
(* and the expected tokens / positions / outcome, one JSON line per case.    *)
EXTENDS ReaderCases, ObjectBuild, Json

VARIABLE c
GInit == c \in Cases
GNext == UNCHANGED c
GSpec == GInit /\ [][GNext]_c

CaseRec(x) ==
  [ts |-> x.ts, odd |-> x.odd, mode |-> x.mode, ds |-> x.ds,
   bytes |-> CaseBytes(x),
   toks |-> SubSeq(CaseToks(x), 1, CaseN(x)),
   end |-> IF CaseFails(x) THEN "err" ELSE "eof",
   total |-> Len(CaseBytes(x)),
   (* value read strategies to run the case with (they never change tokens or positions) *)
   vreads |-> IF x.ds \in ShapeA \cup ShapeB THEN <<"Preserved", "Interpreted", "Raw">> ELSE <<"Preserved">>,
   e2e |-> (x.mode = "eager"),
   obj |-> IF x.mode = "eager" /\ ~CaseFails(x) THEN Obj(x.ds, x.ts, W(x.odd)) ELSE <<>>]
Emit == PrintT(<<"CASE", ToJson(CaseRec(c))>>)
(* the file meta group per transfer syntax (for the end-to-end runs) *)
MetaRec == [meta |-> [t \in TSs |-> MetaBytes(t)], preamble |-> Preamble,
            (* the dictionary facts the layout relies on: <<tag, entry>> *)
            dictfacts |-> {<<t, KnownTags[t]>> : t \in DOMAIN KnownTags} \cup {<<<<9, 2>>, "none">>, <<<<114, 121>>, "none">>}]
ASSUME PrintT(<<"CASE", ToJson(MetaRec)>>)
=============================================================================
