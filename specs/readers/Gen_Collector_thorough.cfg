CONSTANTS
  HeadVariants = {1, 2, 3, 4, 5, 6, 7, 8}
  PixVariants = {1, 2, 3, 4, 5, 6, 7, 8, 9}
  WithPreamble = {TRUE, FALSE}
  Files <- AllFiles
  Stops <- AllStops
  MaxUpTo = 2
SPECIFICATION GSpec
INVARIANT Emit
CHECK_DEADLOCK FALSE
