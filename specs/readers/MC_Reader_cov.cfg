CONSTANTS
  DLs = {1, 2}
  TailDLs = {1}
  SeqVRs = {"US"}
  SeqDLs = {1}
  Frag0DLs = {0, 5}
  Frag1DLs = {3}
SPECIFICATION MCSpec
INVARIANTS PosIsConsumed StackOK Bounded TokOK EndOK ErrOK
