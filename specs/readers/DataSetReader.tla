---------------------------- MODULE DataSetReader ----------------------------
(***************************************************************************)
(* The data set token reader as a state machine over a byte stream         *)
(* (DataSetReader::next / LazyDataSetReader::advance of dicom-parser; one  *)
(* action per branch).  Properties C06/C07 speak about:                    *)
(*   - the token sequence,                                                 *)
(*   - the position accounting: `pos` is the position the reader reports,  *)
(*     `cons` the number of bytes really taken from the source,            *)
(*   - the stack of open sequences/items with explicit lengths, whose ends *)
(*     are recognised by comparing `pos` with base + length,               *)
(*   - the odd-length strategy applied to every declared length.           *)
(* The stream and the configuration are fixed in the initial state (by the *)
(* model-checking module, or by a `reset` event of a recorded trace).      *)
(***************************************************************************)
EXTENDS AdaptiveVR

VARIABLES bytes,    \* the source
          ts,       \* transfer syntax; "ADAPT" = flexible VR decoding, not yet locked (AdaptiveVR.tla)
          odd,      \* "Accept" | "NextEven" | "Fail"
          mode,     \* "eager" | "lazy"
          pos,      \* reported position
          cons,     \* bytes consumed from the source
          inSeq,    \* an item header (or sequence delimiter) is expected next
          pend,     \* a check for the end of an explicit-length container is pending
          delims,   \* stack of open containers [typ, len, pix, base]
          last,     \* last element header read whose value is still to come, or Null
          otNext,   \* eager only: the next item value is the basic offset table
          status,   \* "run" | "eof" | "err"
          tok,      \* the token reported by the last step (Null for a silent step)
          n         \* number of tokens reported so far

rvars == <<bytes, ts, odd, mode, pos, cons, inSeq, pend, delims, last, otNext, status, tok, n>>
Null == [t |-> "none"]

RInit(b, t, o, m) ==
  /\ bytes = b /\ ts = t /\ odd = o /\ mode = m
  /\ pos = 0 /\ cons = 0 /\ inSeq = FALSE /\ pend = FALSE /\ delims = <<>>
  /\ last = Null /\ otNext = FALSE /\ status = "run" /\ tok = Null /\ n = 0

(* the same, as an action: a new stream is mounted (trace validation) *)
RReset(b, t, o, m) ==
  /\ bytes' = b /\ ts' = t /\ odd' = o /\ mode' = m
  /\ pos' = 0 /\ cons' = 0 /\ inSeq' = FALSE /\ pend' = FALSE /\ delims' = <<>>
  /\ last' = Null /\ otNext' = FALSE /\ status' = "run" /\ tok' = Null /\ n' = 0

---------------------------------------------------------------------------
Rem == Len(bytes) - cons
At == cons + 1
Top == delims[Len(delims)]
Pop == SubSeq(delims, 1, Len(delims) - 1)

(* sanitize_length: what a declared length becomes under the strategy *)
Sanitize(len) ==
  IF len # UNDEF /\ Odd(len)
  THEN CASE odd = "Accept" -> len [] odd = "NextEven" -> len + 1 [] odd = "Fail" -> -2
  ELSE len
Refused(len) == Sanitize(len) = -2

(* the encoding the element header at the current offset is decoded with   *)
(* (needs Rem >= 8): the transfer syntax, or what the adaptive probe says  *)
EffTs == LockAfter(ts, bytes, At)
(* element header at the current offset: [tag, vr, len, hl] *)
DecElem ==
  LET tag == RdTag(ts, bytes, At)
      ets == EffTs IN
  IF tag[1] = 65534 THEN [tag |-> tag, vr |-> "UN", len |-> RdU32(ts, bytes, At + 4), hl |-> 8]
  ELSE IF ~Explicit(ets) THEN [tag |-> tag, vr |-> ImplicitVR(tag), len |-> RdU32(ets, bytes, At + 4), hl |-> 8]
  ELSE LET v0 == VRofCode(<<bytes[At + 4], bytes[At + 5]>>)
           vr == IF v0 = "??" THEN "UN" ELSE v0 IN
       IF vr \in ShortVR THEN [tag |-> tag, vr |-> vr, len |-> RdU16(ets, bytes, At + 6), hl |-> 8]
       ELSE [tag |-> tag, vr |-> vr, len |-> RdU32(ets, bytes, At + 8), hl |-> 12]
(* number of bytes the element header at the current offset needs *)
ElemNeed ==
  IF Rem < 8 THEN 8
  ELSE IF RdTag(ts, bytes, At)[1] = 65534 \/ ~Explicit(EffTs) THEN 8
  ELSE LET v0 == VRofCode(<<bytes[At + 4], bytes[At + 5]>>) IN IF v0 \in ShortVR THEN 8 ELSE 12

Emit(t) == tok' = t /\ n' = n + 1
Silent == tok' = Null /\ n' = n
Fail == status' = "err" /\ tok' = [t |-> "ERR"] /\ n' = n
Advance(k) == pos' = pos + k /\ cons' = cons + k
Same == UNCHANGED <<bytes, ts, odd, mode>>

---------------------------------------------------------------------------
(* explicit-length containers end where their length says *)
DelimEnd ==
  /\ status = "run" /\ pend /\ delims # <<>> /\ Top.len # UNDEF /\ Top.base + Top.len = pos
  /\ Emit(Tok(IF Top.typ = "S" THEN "SE" ELSE "IE", NoTag, "", 0, pos))
  /\ inSeq' = (Top.typ = "I")
  /\ delims' = Pop
  /\ UNCHANGED <<pos, cons, pend, last, otNext, status>> /\ Same

DelimInconsistent ==
  /\ status = "run" /\ pend /\ delims # <<>> /\ Top.len # UNDEF /\ Top.base + Top.len < pos
  /\ Fail
  /\ UNCHANGED <<pos, cons, inSeq, pend, delims, last, otNext>> /\ Same

DelimClear ==
  /\ status = "run" /\ pend
  /\ (IF delims = <<>> THEN TRUE ELSE IF Top.len = UNDEF THEN TRUE ELSE Top.base + Top.len > pos)
  /\ pend' = FALSE /\ Silent
  /\ UNCHANGED <<pos, cons, inSeq, delims, last, otNext, status>> /\ Same

(* at sequence level: item header, item delimiter or sequence delimiter *)
ItemHeaderStep ==
  /\ status = "run" /\ ~pend /\ inSeq
  /\ IF Rem < 8
     THEN /\ status' = (IF delims # <<>> /\ Top.pix THEN "eof" ELSE "err")
          /\ tok' = (IF delims # <<>> /\ Top.pix THEN Null ELSE [t |-> "ERR"]) /\ n' = n
          /\ UNCHANGED <<pos, cons, inSeq, pend, delims, last, otNext>>
     ELSE LET tag == RdTag(ts, bytes, At)
              len == RdU32(ts, bytes, At + 4) IN
          CASE tag = ItemTag ->
                 IF Refused(len) \/ delims = <<>>
                 THEN Fail /\ Advance(8) /\ UNCHANGED <<inSeq, pend, delims, last, otNext>>
                 ELSE /\ Advance(8)
                      /\ delims' = Append(delims, [typ |-> "I", len |-> Sanitize(len), pix |-> Top.pix, base |-> pos + 8])
                      /\ inSeq' = FALSE /\ pend' = (len = 0)
                      /\ Emit(Tok("IS", NoTag, "", Sanitize(len), pos + 8))
                      /\ UNCHANGED <<last, otNext, status>>
            [] tag = ItemDelimTag ->
                 /\ Advance(8) /\ delims' = Pop /\ inSeq' = TRUE /\ pend' = TRUE
                 /\ Emit(Tok("IE", NoTag, "", 0, pos + 8))
                 /\ UNCHANGED <<last, otNext, status>>
            [] tag = SeqDelimTag ->
                 /\ Advance(8) /\ delims' = Pop /\ inSeq' = FALSE /\ pend' = TRUE
                 /\ Emit(Tok("SE", NoTag, "", 0, pos + 8))
                 /\ UNCHANGED <<last, otNext, status>>
            [] OTHER -> Fail /\ UNCHANGED <<pos, cons, inSeq, pend, delims, last, otNext>>
  /\ Same

InPixelItem == delims # <<>> /\ Top.typ = "I" /\ Top.pix

(* value of a pixel data item: offset table (eager, first item) or fragment *)
PixelItemValue ==
  /\ status = "run" /\ ~pend /\ ~inSeq /\ InPixelItem
  /\ IF Top.len = UNDEF \/ Rem < Top.len
     THEN Fail /\ UNCHANGED <<pos, cons, inSeq, pend, delims, last, otNext>>
     ELSE /\ Advance(Top.len)
          /\ pend' = TRUE /\ otNext' = FALSE
          /\ LET b == SubSeq(bytes, At, cons + Top.len) IN
             Emit(IF otNext /\ mode = "eager"
                  THEN TokV("OT", Top.len, pos + Top.len, OTEntries(ts, b), Top.len % 4 = 0)
                  ELSE TokV("IV", Top.len, pos + Top.len, b, TRUE))
          /\ UNCHANGED <<inSeq, delims, last, status>>
  /\ Same

IsEncaps(h) == h.tag = PixelTag /\ h.len = UNDEF

(* after the header of encapsulated pixel data: the first item header *)
EnterPixel ==
  /\ status = "run" /\ ~pend /\ ~inSeq /\ ~InPixelItem /\ last # Null /\ IsEncaps(last)
  /\ last' = Null
  /\ IF Rem < 8
     THEN Fail /\ UNCHANGED <<pos, cons, inSeq, pend, delims, otNext>>
     ELSE LET tag == RdTag(ts, bytes, At)
              len == RdU32(ts, bytes, At + 4)
              sq == [typ |-> "S", len |-> UNDEF, pix |-> TRUE, base |-> pos] IN
          CASE tag = ItemTag ->
                 IF Refused(len)
                 THEN Fail /\ Advance(8) /\ UNCHANGED <<inSeq, pend, delims, otNext>>
                 ELSE /\ Advance(8)
                      /\ delims' = delims \o <<sq, [typ |-> "I", len |-> Sanitize(len), pix |-> TRUE, base |-> pos + 8]>>
                      /\ inSeq' = FALSE /\ pend' = (len = 0) /\ otNext' = (len # 0 /\ mode = "eager")
                      /\ Emit(Tok("IS", NoTag, "", Sanitize(len), pos + 8))
                      /\ UNCHANGED status
            [] tag = SeqDelimTag ->
                 /\ Advance(8) /\ inSeq' = FALSE
                 /\ Emit(Tok("SE", NoTag, "", 0, pos + 8))
                 /\ UNCHANGED <<pend, delims, otNext, status>>
            [] OTHER -> Fail /\ UNCHANGED <<pos, cons, inSeq, pend, delims, otNext>>
  /\ Same

(* the value of the element whose header was read last: exactly the       *)
(* (sanitized) declared number of bytes, whatever the VR                  *)
ReadValue ==
  /\ status = "run" /\ ~pend /\ ~inSeq /\ ~InPixelItem /\ last # Null /\ ~IsEncaps(last)
  /\ last' = Null
  /\ IF Rem < last.len
     THEN Fail /\ UNCHANGED <<pos, cons, inSeq, pend, delims, otNext>>
     ELSE /\ Advance(last.len) /\ pend' = TRUE
          /\ Emit(TokV("PV", last.len, pos + last.len, SubSeq(bytes, At, cons + last.len),
                       last.len % Width(last.vr) = 0))
          /\ UNCHANGED <<inSeq, delims, otNext, status>>
  /\ Same

(* a data element header (or an item delimiter closing an item) *)
ElemHeaderStep ==
  /\ status = "run" /\ ~pend /\ ~inSeq /\ ~InPixelItem /\ last = Null
  /\ IF Rem < 4
     THEN /\ status' = "eof" /\ Silent       \* end of the data set
          /\ UNCHANGED <<pos, cons, inSeq, pend, delims, last, otNext>>
     ELSE IF Rem < ElemNeed
     THEN Fail /\ UNCHANGED <<pos, cons, inSeq, pend, delims, last, otNext>>
     ELSE LET h == DecElem IN
          CASE h.vr = "SQ" ->
                 IF Refused(h.len)
                 THEN Fail /\ Advance(h.hl) /\ UNCHANGED <<inSeq, pend, delims, last, otNext>>
                 ELSE /\ Advance(h.hl) /\ inSeq' = TRUE
                      /\ delims' = Append(delims, [typ |-> "S", len |-> Sanitize(h.len), pix |-> FALSE, base |-> pos + h.hl])
                      /\ pend' = (h.len = 0)
                      /\ Emit(Tok("SS", h.tag, "", Sanitize(h.len), pos + h.hl))
                      /\ UNCHANGED <<last, otNext, status>>
            [] h.vr # "SQ" /\ h.tag = ItemDelimTag ->
                 IF delims = <<>>
                 THEN /\ Advance(8) /\ Silent    \* stray delimiter outside a sequence: ignored
                      /\ UNCHANGED <<inSeq, pend, delims, last, otNext, status>>
                 ELSE /\ Advance(8) /\ inSeq' = TRUE /\ delims' = Pop /\ pend' = TRUE
                      /\ Emit(Tok("IE", NoTag, "", 0, pos + 8))
                      /\ UNCHANGED <<last, otNext, status>>
            [] h.vr # "SQ" /\ h.tag # ItemDelimTag /\ IsEncaps(h) ->
                 /\ Advance(h.hl) /\ last' = h
                 /\ Emit(Tok("PS", NoTag, "", 0, pos + h.hl))
                 /\ UNCHANGED <<inSeq, pend, delims, otNext, status>>
            [] h.vr # "SQ" /\ h.tag # ItemDelimTag /\ ~IsEncaps(h) /\ h.len = UNDEF ->
                 /\ Advance(h.hl) /\ inSeq' = TRUE
                 /\ delims' = Append(delims, [typ |-> "S", len |-> UNDEF, pix |-> FALSE, base |-> pos + h.hl])
                 /\ Emit(Tok("SS", h.tag, "", UNDEF, pos + h.hl))
                 /\ UNCHANGED <<pend, last, otNext, status>>
            [] OTHER ->
                 IF Refused(h.len)
                 THEN Fail /\ Advance(h.hl) /\ UNCHANGED <<inSeq, pend, delims, last, otNext>>
                 ELSE /\ Advance(h.hl) /\ last' = [h EXCEPT !.len = Sanitize(h.len)]
                      /\ Emit(Tok("EH", h.tag, h.vr, Sanitize(h.len), pos + h.hl))
                      /\ UNCHANGED <<inSeq, pend, delims, otNext, status>>
  /\ UNCHANGED <<bytes, odd, mode>>
  /\ ts' = (IF Rem >= 8 /\ Rem >= ElemNeed THEN EffTs ELSE ts)     \* the adaptive decoder locks here

Done == status # "run" /\ UNCHANGED rvars

RNext == DelimEnd \/ DelimInconsistent \/ DelimClear \/ ItemHeaderStep \/ PixelItemValue
         \/ EnterPixel \/ ReadValue \/ ElemHeaderStep

---------------------------------------------------------------------------
(* the adaptive lock is taken once and never changes *)
LockStable == [][ts # "ADAPT" => ts' = ts]_rvars

(* invariants of the reader itself *)
PosIsConsumed == pos = cons
StackOK == \A i \in 1..Len(delims) :
             /\ delims[i].typ \in {"S", "I"}
             /\ delims[i].base <= pos
             /\ (i > 1 /\ delims[i].len # UNDEF /\ delims[i-1].len # UNDEF) =>
                   delims[i].base + delims[i].len <= delims[i-1].base + delims[i-1].len
Bounded == cons <= Len(bytes)
=============================================================================
