------------------------------ MODULE Gen_Adaptive ------------------------------
(* Case generator for C08: bytes in the real encoding, the tokens the regular    *)
(* decoder must report, and whether the case satisfies C08's premise.            *)
EXTENDS AdaptiveCases, Json, SequencesExt

VARIABLE c
GInit == c \in Cases
GNext == UNCHANGED c
GSpec == GInit /\ [][GNext]_c

LenClass(f) ==
  LET e == DictEntry(f.tag)
      v == VRofCode(LenCode(f.len)) IN
  IF f.len = UNDEF THEN "undefined"
  ELSE IF v = "??" THEN "plain"
  ELSE IF e = "none" THEN "spells a VR"
  ELSE IF Compatible(v, e) THEN "spells a compatible VR" ELSE "spells an incompatible VR"

(* run-length form of a byte string: <<count, byte>> pairs (long values are uniform runs) *)
Rle(b) ==
  LET starts == SetToSortSeq({i \in 1..Len(b) : i = 1 \/ b[i] # b[i - 1]}, LAMBDA p, q : p < q) IN
  [k \in 1..Len(starts) |->
     <<(IF k = Len(starts) THEN Len(b) + 1 ELSE starts[k + 1]) - starts[k], b[starts[k]]>>]
(* long values inside tokens travel in run-length form too *)
Slim(toks) == [i \in 1..Len(toks) |->
                 IF Len(toks[i].val) > 64 /\ toks[i].t # "OT"
                 THEN [toks[i] EXCEPT !.val = Rle(toks[i].val)] @@ [rle |-> TRUE]
                 ELSE toks[i] @@ [rle |-> FALSE]]

CaseRec(x) ==
  [enc |-> x.enc, stray |-> x.stray, first |-> x.first, fam |-> x.fam, amb |-> CaseAmbiguous(x),
   entry |-> DictEntry(x.first.tag), lenclass |-> LenClass(x.first),
   rlebytes |-> Rle(CaseBytes(x)), toks |-> Slim(CaseToks(x)), total |-> Len(CaseBytes(x)), ds |-> x.ds]
Emit == PrintT(<<"CASE", ToJson(CaseRec(c))>>)
MetaRec == [dictfacts |-> {<<t, KnownTags[t]>> : t \in DOMAIN KnownTags} \cup {<<<<9, 4097>>, "none">>, <<<<114, 121>>, "none">>},
            implicitvr |-> {<<t, ImplicitVR(t)>> : t \in DOMAIN KnownTags}]
ASSUME PrintT(<<"CASE", ToJson(MetaRec)>>)
=============================================================================
