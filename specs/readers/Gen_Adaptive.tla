------------------------------ MODULE Gen_Adaptive ------------------------------
(* Case generator for C08: bytes in the real encoding, the tokens the regular    *)
(* decoder must report, and whether the case satisfies C08's premise.            *)
EXTENDS AdaptiveCases, Json

VARIABLE c
GInit == c \in Cases
GNext == UNCHANGED c
GSpec == GInit /\ [][GNext]_c

LenClass(f) ==
  LET e == DictEntry(f.tag)
      v == VRofCode(LenCode(f.len)) IN
  IF f.len = UNDEF THEN "undefined"
  ELSE IF v = "??" THEN "plain"
  ELSE IF e = "none" THEN "spells a VR"
  ELSE IF Compatible(v, e) THEN "spells a compatible VR" ELSE "spells an incompatible VR"

CaseRec(x) ==
  [enc |-> x.enc, stray |-> x.stray, first |-> x.first, amb |-> CaseAmbiguous(x),
   entry |-> DictEntry(x.first.tag), lenclass |-> LenClass(x.first),
   bytes |-> CaseBytes(x), toks |-> CaseToks(x), total |-> Len(CaseBytes(x)), ds |-> x.ds]
Emit == PrintT(<<"CASE", ToJson(CaseRec(c))>>)
MetaRec == [dictfacts |-> {<<t, KnownTags[t]>> : t \in DOMAIN KnownTags} \cup {<<<<9, 4097>>, "none">>, <<<<114, 121>>, "none">>},
            implicitvr |-> {<<t, ImplicitVR(t)>> : t \in DOMAIN KnownTags}]
ASSUME PrintT(<<"CASE", ToJson(MetaRec)>>)
=============================================================================
