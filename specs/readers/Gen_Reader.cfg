CONSTANTS
  DLs = {1, 2, 3, 5, 6, 9}
  TailDLs = {1, 3}
  SeqVRs = {"US", "UL", "FD", "OB", "LO", "AT"}
  SeqDLs = {1, 6}
  Frag0DLs = {0, 1, 3, 4, 5, 8}
  Frag1DLs = {0, 1, 2, 3}
SPECIFICATION GSpec
INVARIANT Emit
CHECK_DEADLOCK FALSE
