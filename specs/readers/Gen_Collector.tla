----------------------------- MODULE Gen_Collector -----------------------------
(* Behaviour generator for C06: every file of the universe (one FILE record with *)
(* the data set bytes and everything a whole-file read must report) and every    *)
(* complete collector behaviour on it (one BEH record: the calls with what each  *)
(* must return).                                                                *)
EXTENDS Collector, CollectorFiles, Json

VARIABLE h
GInit == CInit /\ h = <<>>
GNext == CNext /\ h' = Append(h, ret')
GSpec == GInit /\ [][GNext]_<<cvars, h>>

FileRec ==
  LET x == Files[fid]
      obj == file.els IN
  [file |-> TRUE, fid |-> fid, ts |-> x.ts, pre |-> x.pre, ds |-> x.ds,
   bytes |-> Wire(x.ds, x.ts, "exact"), total |-> Len(Wire(x.ds, x.ts, "exact")),
   whole |-> obj, meta |-> MetaObj(x.ts),
   eager |-> Toks(x.ds, x.ts, "exact", "eager"), lazy |-> Toks(x.ds, x.ts, "exact", "lazy"),
   until |-> SetToSeq({[tag |-> t, res |-> Below(obj, t)] : t \in Stops}),
   to |-> SetToSeq({[tag |-> t, res |-> UpTo(obj, t)] : t \in Stops})]

Emit == /\ (h = <<>> => PrintT(<<"CASE", ToJson(FileRec)>>))
        /\ (done # "no" => PrintT(<<"CASE", ToJson([beh |-> TRUE, fid |-> fid, calls |-> h])>>))
MetaRec == [meta |-> [t \in TSs |-> MetaBytes(t)], preamble |-> Preamble,
            dictfacts |-> {<<t, KnownTags[t]>> : t \in DOMAIN KnownTags}]
ASSUME PrintT(<<"CASE", ToJson(MetaRec)>>)
=============================================================================
