---------------------------- MODULE MC_ReaderFiles ----------------------------
(* The token reader model on the data sets of the C06 file universe: both     *)
(* readers report the tokens the layout prescribes, and the lazy token stream *)
(* is the eager one with the offset table handed out as a plain item value.   *)
EXTENDS DataSetReader, CollectorFiles

VARIABLE cs
mcvars == <<rvars, cs>>
Modes == {"eager", "lazy"}

(* the lazy view of an eager token: an offset table is an item value *)
RECURSIVE Flat(_, _)
Flat(ts0, es) == IF es = <<>> THEN <<>> ELSE U32(ts0, Head(es)) \o Flat(ts0, Tail(es))
LazyView(ts0, toks) == [i \in 1..Len(toks) |->
                          IF toks[i].t = "OT" THEN [toks[i] EXCEPT !.t = "IV", !.val = Flat(ts0, toks[i].val)]
                          ELSE toks[i]]

MCInit == \E f \in FileSet, m \in Modes :
            /\ cs = [exp |-> Toks(f.ds, f.ts, "exact", m)]
            /\ RInit(Wire(f.ds, f.ts, "exact"), f.ts, "Accept", m)
MDelimEnd == DelimEnd /\ UNCHANGED cs
MDelimInconsistent == DelimInconsistent /\ UNCHANGED cs
MDelimClear == DelimClear /\ UNCHANGED cs
MItemHeaderStep == ItemHeaderStep /\ UNCHANGED cs
MPixelItemValue == PixelItemValue /\ UNCHANGED cs
MEnterPixel == EnterPixel /\ UNCHANGED cs
MReadValue == ReadValue /\ UNCHANGED cs
MElemHeaderStep == ElemHeaderStep /\ UNCHANGED cs
MDone == Done /\ UNCHANGED cs
MCNext == MDelimEnd \/ MDelimInconsistent \/ MDelimClear \/ MItemHeaderStep \/ MPixelItemValue
          \/ MEnterPixel \/ MReadValue \/ MElemHeaderStep \/ MDone
MCSpec == MCInit /\ [][MCNext]_mcvars

TokOK == (tok # Null /\ tok.t # "ERR") => (n <= Len(cs.exp) /\ tok = cs.exp[n])
EndOK == status = "eof" => (n = Len(cs.exp) /\ cons = Len(bytes) /\ delims = <<>>)
NoErr == status # "err"
(* lazy tokens ~ eager tokens, for every file of the universe (evaluated once) *)
ASSUME EagerLazy == \A f \in FileSet :
         LazyView(f.ts, Toks(f.ds, f.ts, "exact", "eager")) = Toks(f.ds, f.ts, "exact", "lazy")
=============================================================================
