---------------------------- MODULE Gen_ReaderRand ----------------------------
(* Larger, randomly sampled data sets (sampled by the check from a fixed seed,  *)
(* passed as ndjson in STRUCTS): the specification turns each abstract data set *)
(* into stream bytes and expected tokens / positions exactly as for the         *)
(* enumerated universe.  Each input line: {ds, ts, odd, mode}.                  *)
EXTENDS Layout, Json, IOUtils

In == ndJsonDeserialize(IOEnv.STRUCTS)
W(o) == IF o = "NextEven" THEN "pad" ELSE "exact"

VARIABLE i
GInit == i \in 1..Len(In)
GNext == UNCHANGED i
GSpec == GInit /\ [][GNext]_i

Fails(x) == x.odd = "Fail" /\ HasOdd(x.ds, x.ts, W(x.odd))
CaseRec(x) ==
  LET w == W(x.odd)
      toks == Toks(x.ds, x.ts, w, x.mode)
      k == IF Fails(x) THEN FailCut(toks, HdrLens(x.ds, x.ts, w), 0) ELSE Len(toks) IN
  [ts |-> x.ts, odd |-> x.odd, mode |-> x.mode, ds |-> x.ds, rand |-> TRUE,
   bytes |-> Wire(x.ds, x.ts, w), toks |-> SubSeq(toks, 1, k),
   end |-> IF Fails(x) THEN "err" ELSE "eof", total |-> Len(Wire(x.ds, x.ts, w)),
   vreads |-> <<"Preserved">>, e2e |-> FALSE, obj |-> <<>>]
Emit == PrintT(<<"CASE", ToJson(CaseRec(In[i]))>>)
=============================================================================
