CONSTANTS
  Files <- RandFiles
  Stops = {}
  MaxUpTo = 99
SPECIFICATION GSpec
INVARIANT Emit
CHECK_DEADLOCK FALSE
