------------------------------- MODULE Layout -------------------------------
(***************************************************************************)
(* PS3.5 stream layout for the three uncompressed transfer syntaxes, as    *)
(* far as the token readers (C06, C07, C08) need it: element headers, item *)
(* headers and delimiters, values as byte runs, the abstract data set      *)
(* (elements / sequences of items / pixel fragment sequences), its wire    *)
(* form Wire(..) and the token sequence Toks(..) a reader must report,     *)
(* with the stream position after every token.                             *)
(*                                                                         *)
(* Written from PS3.5 section 7.1 (data element structure), 7.5 (nesting), *)
(* A.4 (encapsulated pixel data) and from the documented contract of the   *)
(* odd-length strategies; it is the reference the real readers are         *)
(* compared with, it does not copy dicom-rs.                               *)
(*                                                                         *)
(* Numbers: lengths are small naturals; -1 stands for the undefined length *)
(* FFFFFFFF.  Tags are pairs <<group, element>>.  Bytes are 0..255.        *)
(***************************************************************************)
EXTENDS Integers, Sequences, FiniteSets, TLC

UNDEF == -1

TSs == {"IVRLE", "EVRLE", "EVRBE"}
Big(ts) == ts = "EVRBE"
Explicit(ts) == ts # "IVRLE"

---------------------------------------------------------------------------
(* value representations *)
VRCodeTab ==
  [AE |-> <<65,69>>, AS |-> <<65,83>>, AT |-> <<65,84>>, CS |-> <<67,83>>, DA |-> <<68,65>>,
   DS |-> <<68,83>>, DT |-> <<68,84>>, FL |-> <<70,76>>, FD |-> <<70,68>>, IS |-> <<73,83>>,
   LO |-> <<76,79>>, LT |-> <<76,84>>, OB |-> <<79,66>>, OD |-> <<79,68>>, OF |-> <<79,70>>,
   OL |-> <<79,76>>, OV |-> <<79,86>>, OW |-> <<79,87>>, PN |-> <<80,78>>, SH |-> <<83,72>>,
   SL |-> <<83,76>>, SQ |-> <<83,81>>, SS |-> <<83,83>>, ST |-> <<83,84>>, SV |-> <<83,86>>,
   TM |-> <<84,77>>, UC |-> <<85,67>>, UI |-> <<85,73>>, UL |-> <<85,76>>, UN |-> <<85,78>>,
   UR |-> <<85,82>>, US |-> <<85,83>>, UT |-> <<85,84>>, UV |-> <<85,86>>]
AllVR == DOMAIN VRCodeTab
PrimVR == AllVR \ {"SQ"}
(* PS3.5 7.1.2: VRs with a 16-bit length field in the explicit syntaxes *)
ShortVR == {"AE","AS","AT","CS","DA","DS","DT","FL","FD","IS","LO","LT","PN","SH","SL","SS",
            "ST","TM","UI","UL","US"}
(* width in bytes of one value of a binary VR (PS3.5 6.2); 1 for byte/text strings *)
Width(vr) == CASE vr \in {"US","SS","OW"} -> 2
               [] vr \in {"UL","SL","FL","OF","OL","AT"} -> 4
               [] vr \in {"FD","OD","UV","SV","OV"} -> 8
               [] OTHER -> 1
VRofCode(c) == IF \E v \in AllVR : VRCodeTab[v] = c THEN CHOOSE v \in AllVR : VRCodeTab[v] = c
               ELSE "??"

---------------------------------------------------------------------------
(* tags: group 0072 holds one "Selector <VR> Value" attribute per VR, so   *)
(* in Implicit VR every VR is reachable through the dictionary             *)
SelElem ==
  [AE |-> 94, AS |-> 95, AT |-> 96, DA |-> 97, CS |-> 98, DT |-> 99, IS |-> 100, OB |-> 101,
   LO |-> 102, OF |-> 103, LT |-> 104, OW |-> 105, PN |-> 106, TM |-> 107, SH |-> 108, UN |-> 109,
   ST |-> 110, UC |-> 111, UT |-> 112, UR |-> 113, DS |-> 114, OD |-> 115, FD |-> 116, OL |-> 117,
   FL |-> 118, UL |-> 120, US |-> 122, SL |-> 124, SS |-> 126, UI |-> 127, SQ |-> 128, OV |-> 129,
   SV |-> 130, UV |-> 131]
SelTag(vr) == <<114, SelElem[vr]>>
PixelTag == <<32736, 16>>          \* (7FE0,0010)
ItemTag == <<65534, 57344>>        \* (FFFE,E000)
ItemDelimTag == <<65534, 57357>>   \* (FFFE,E00D)
SeqDelimTag == <<65534, 57565>>    \* (FFFE,E0DD)

(* dictionary facts for the tags the generators use (checked against the  *)
(* real StandardDataDictionary by the driver's `dict` command).  "Px" is  *)
(* the OB-or-OW class of Pixel Data; unknown tags have no entry ("none").  *)
OtherTags ==
  [t \in {PixelTag} |-> "Px"]
  @@ [t \in {<<8,24>>, <<8,22>>} |-> "UI"]     \* SOPInstanceUID, SOPClassUID
  @@ [t \in {<<8,96>>} |-> "CS"]               \* Modality
  @@ [t \in {<<16,16>>} |-> "PN"]              \* PatientName
  @@ [t \in {<<16,32>>} |-> "LO"]              \* PatientID
  @@ [t \in {<<40,16>>, <<40,17>>} |-> "US"]   \* Rows, Columns
  @@ [t \in {<<40,262>>} |-> "Xs"]             \* SmallestImagePixelValue (US or SS)
  @@ [t \in {<<8,4416>>, <<64,629>>} |-> "SQ"] \* ReferencedImageSequence, RequestAttributesSequence
  @@ [t \in {<<136,512>>} |-> "SQ"]            \* (0088,0200) IconImageSequence
  @@ [t \in {<<65532,65532>>} |-> "OB"]        \* DataSetTrailingPadding
  @@ [t \in {<<20,12368>>} |-> "Ox"]           \* (0014,3050) DarkCurrentCounts (OB or OW)
  @@ [t \in {<<40,12294>>} |-> "Lt"]           \* (0028,3006) LUTData (US or OW)
  @@ [t \in {<<8,0>>, <<16,0>>} |-> "UL"]      \* generic group length
  @@ [t \in {<<9,16>>} |-> "LO"]               \* private creator
SelByElem == [e \in {SelElem[v] : v \in AllVR} |-> CHOOSE v \in AllVR : SelElem[v] = e]
KnownTags == [t \in {SelTag(v) : v \in AllVR} |-> SelByElem[t[2]]] @@ OtherTags
DictEntry(tag) == IF tag[1] = 114 THEN (IF tag[2] \in DOMAIN SelByElem THEN SelByElem[tag[2]] ELSE "none")
                  ELSE IF tag \in DOMAIN OtherTags THEN OtherTags[tag] ELSE "none"
(* VR an Implicit VR reader must assume (PS3.5 A.1: Pixel Data is OW;      *)
(* multi-VR classes resolve to their default; unknown attributes are UN)   *)
ImplicitVR(tag) == LET e == DictEntry(tag) IN
                   CASE e = "none" -> "UN" [] e \in {"Px", "Ox", "Lt"} -> "OW" [] e = "Xs" -> "US" [] OTHER -> e

---------------------------------------------------------------------------
(* integers on the wire *)
U16(ts, n) == IF Big(ts) THEN <<n \div 256, n % 256>> ELSE <<n % 256, n \div 256>>
U32(ts, n) == LET b0 == n % 256  b1 == (n \div 256) % 256
                  b2 == (n \div 65536) % 256  b3 == n \div 16777216
              IN IF Big(ts) THEN <<b3, b2, b1, b0>> ELSE <<b0, b1, b2, b3>>
Len32(ts, len) == IF len = UNDEF THEN <<255, 255, 255, 255>> ELSE U32(ts, len)
TagBytes(ts, tag) == U16(ts, tag[1]) \o U16(ts, tag[2])

RdU16(ts, b, at) == IF Big(ts) THEN b[at] * 256 + b[at+1] ELSE b[at] + b[at+1] * 256
RdU32(ts, b, at) ==
  IF b[at] = 255 /\ b[at+1] = 255 /\ b[at+2] = 255 /\ b[at+3] = 255 THEN UNDEF
  ELSE IF Big(ts) THEN ((b[at] * 256 + b[at+1]) * 256 + b[at+2]) * 256 + b[at+3]
       ELSE ((b[at+3] * 256 + b[at+2]) * 256 + b[at+1]) * 256 + b[at]
RdTag(ts, b, at) == <<RdU16(ts, b, at), RdU16(ts, b, at + 2)>>

---------------------------------------------------------------------------
(* headers (PS3.5 7.1.1 - 7.1.3, 7.5) *)
HeaderLen(ts, vr) == IF ~Explicit(ts) \/ vr \in ShortVR THEN 8 ELSE 12
ElemHeader(ts, tag, vr, len) ==
  IF ~Explicit(ts) THEN TagBytes(ts, tag) \o Len32(ts, len)
  ELSE IF vr \in ShortVR THEN TagBytes(ts, tag) \o VRCodeTab[vr] \o U16(ts, len)
  ELSE TagBytes(ts, tag) \o VRCodeTab[vr] \o <<0, 0>> \o Len32(ts, len)
ItemHeader(ts, len) == TagBytes(ts, ItemTag) \o Len32(ts, len)
ItemDelim(ts) == TagBytes(ts, ItemDelimTag) \o <<0, 0, 0, 0>>
SeqDelim(ts) == TagBytes(ts, SeqDelimTag) \o <<0, 0, 0, 0>>

(* The VR with which an element of attribute class `vr` travels in `ts`:   *)
(* explicit syntaxes carry it, implicit VR has the dictionary's answer     *)
SeenVR(ts, tag, vr) == IF Explicit(ts) THEN vr ELSE ImplicitVR(tag)

---------------------------------------------------------------------------
(* value bytes.  Content is chosen so that every documented way of reading *)
(* a value of that VR accepts it (digits for numeric strings, a valid      *)
(* partial date/time, letters otherwise); `n` is the number of bytes.      *)
Spaces(n) == [i \in 1..n |-> 32]
(* long values (only C08 needs them) are uniform runs, so that they travel compactly *)
Long(n) == n > 64
ValBytes(vr, n, salt) ==
  CASE vr \in {"DA", "DT"} -> IF n >= 4 THEN <<50, 48, 50, 48>> \o Spaces(n - 4) ELSE Spaces(n)
    [] vr = "TM" -> IF n >= 2 THEN <<49, 48>> \o Spaces(n - 2) ELSE Spaces(n)
    [] vr \in {"IS", "DS"} -> IF n >= 1 THEN <<49 + (salt % 9)>> \o Spaces(n - 1) ELSE <<>>
    [] vr = "UI" -> [i \in 1..n |-> IF Long(n) THEN 49 ELSE IF i % 2 = 1 THEN 49 + ((salt + i) % 9) ELSE 46]
    [] vr \in {"AE","AS","CS","LO","LT","PN","SH","ST","UC","UR","UT"} ->
         [i \in 1..n |-> IF Long(n) THEN 65 ELSE 65 + ((salt + i) % 26)]
    [] OTHER -> [i \in 1..n |-> IF Long(n) THEN 7 ELSE 1 + ((salt + i) % 9)]

---------------------------------------------------------------------------
(* Abstract data set: a sequence of nodes                                  *)
(*   [k |-> "P", tag, vr, dl, salt]       primitive element, dl = declared *)
(*                                        length in the header             *)
(*   [k |-> "S", tag, lm, oddc, items]    sequence; lm \in {"U","E"};      *)
(*        items = sequence of [lm, oddc, els]                              *)
(*   [k |-> "X", frags]                   encapsulated pixel data; frags = *)
(*        sequence of [dl, salt], the first one is the basic offset table  *)
(* "World" w says how the odd declared lengths are meant:                  *)
(*   "exact": the value occupies exactly dl bytes (strategy Accept / Fail) *)
(*   "pad"  : an odd dl is followed by dl + 1 bytes (what NextEven is for),*)
(*            an explicit-length container with oddc declares one byte     *)
(*            less than its (even) content                                 *)
(***************************************************************************)
Odd(n) == n % 2 = 1
Act(dl, w) == IF w = "pad" /\ Odd(dl) THEN dl + 1 ELSE dl

RECURSIVE NodeSize(_, _, _), NodesSize(_, _, _), ItemSize(_, _, _), ItemsSize(_, _, _), FragsSize(_, _)
NodesSize(ns, ts, w) == IF ns = <<>> THEN 0 ELSE NodeSize(Head(ns), ts, w) + NodesSize(Tail(ns), ts, w)
ItemSize(it, ts, w) == 8 + NodesSize(it.els, ts, w) + (IF it.lm = "U" THEN 8 ELSE 0)
ItemsSize(its, ts, w) == IF its = <<>> THEN 0 ELSE ItemSize(Head(its), ts, w) + ItemsSize(Tail(its), ts, w)
FragsSize(fs, w) == IF fs = <<>> THEN 0 ELSE 8 + Act(Head(fs).dl, w) + FragsSize(Tail(fs), w)
NodeSize(n, ts, w) ==
  CASE n.k = "P" -> HeaderLen(ts, n.vr) + Act(n.dl, w)
    [] n.k = "S" -> HeaderLen(ts, "SQ") + ItemsSize(n.items, ts, w) + (IF n.lm = "U" THEN 8 ELSE 0)
    [] n.k = "X" -> HeaderLen(ts, "OB") + FragsSize(n.frags, w) + 8

(* declared length of an explicit-length container with content size c *)
Decl(c, oddc, w) == IF w = "pad" /\ oddc /\ c > 0 THEN c - 1 ELSE c

RECURSIVE NodeWire(_, _, _), NodesWire(_, _, _), ItemWire(_, _, _), ItemsWire(_, _, _), FragsWire(_, _, _)
NodesWire(ns, ts, w) == IF ns = <<>> THEN <<>> ELSE NodeWire(Head(ns), ts, w) \o NodesWire(Tail(ns), ts, w)
ItemWire(it, ts, w) ==
  LET c == NodesSize(it.els, ts, w) IN
  IF it.lm = "U" THEN ItemHeader(ts, UNDEF) \o NodesWire(it.els, ts, w) \o ItemDelim(ts)
  ELSE ItemHeader(ts, Decl(c, it.oddc, w)) \o NodesWire(it.els, ts, w)
ItemsWire(its, ts, w) == IF its = <<>> THEN <<>> ELSE ItemWire(Head(its), ts, w) \o ItemsWire(Tail(its), ts, w)
FragsWire(fs, ts, w) ==
  IF fs = <<>> THEN <<>>
  ELSE ItemHeader(ts, Head(fs).dl) \o ValBytes("OB", Act(Head(fs).dl, w), Head(fs).salt)
       \o FragsWire(Tail(fs), ts, w)
NodeWire(n, ts, w) ==
  CASE n.k = "P" -> ElemHeader(ts, n.tag, n.vr, n.dl) \o ValBytes(n.vr, Act(n.dl, w), n.salt)
    [] n.k = "S" -> LET c == ItemsSize(n.items, ts, w) IN
                    IF n.lm = "U" THEN ElemHeader(ts, n.tag, "SQ", UNDEF) \o ItemsWire(n.items, ts, w) \o SeqDelim(ts)
                    ELSE ElemHeader(ts, n.tag, "SQ", Decl(c, n.oddc, w)) \o ItemsWire(n.items, ts, w)
    [] n.k = "X" -> ElemHeader(ts, PixelTag, "OB", UNDEF) \o FragsWire(n.frags, ts, w) \o SeqDelim(ts)
Wire(ds, ts, w) == NodesWire(ds, ts, w)

---------------------------------------------------------------------------
(* The tokens a reader must report for ds, with the stream position after  *)
(* each token (= bytes consumed so far).  `mode` is "eager" or "lazy": the *)
(* eager reader reports the first non-empty pixel item as an offset table  *)
(* ("OT"), the lazy reader reports every item value as "IV".               *)
(* The length reported in a header token is the length the reader will     *)
(* consume: dl, or dl + 1 for an odd dl in the "pad" world (NextEven).     *)
(* Token kinds: EH element header, PV primitive value, SS sequence start,  *)
(* SE sequence end, IS item start, IE item end, PS pixel sequence start,   *)
(* OT offset table, IV item value.                                         *)
(***************************************************************************)
(* A value token also carries the value: `val` = the bytes of the value      *)
(* field (PV, IV) or the offset table entries (OT); `cmp` says whether the   *)
(* value is defined (length a multiple of the value width).                  *)
Tok(t, tag, vr, len, pos) == [t |-> t, tag |-> tag, vr |-> vr, len |-> len, pos |-> pos, val |-> <<>>, cmp |-> TRUE]
TokV(t, len, pos, val, cmp) == [t |-> t, tag |-> <<0, 0>>, vr |-> "", len |-> len, pos |-> pos, val |-> val, cmp |-> cmp]
NoTag == <<0, 0>>
(* basic offset table entries: 32-bit unsigned values in the byte order of *)
(* the transfer syntax                                                     *)
OTEntries(ts, val) == [i \in 1..(Len(val) \div 4) |-> RdU32(ts, val, 4 * i - 3)]

RECURSIVE NodeToks(_, _, _, _, _), NodesToks(_, _, _, _, _), ItemsToks(_, _, _, _, _), FragsToks(_, _, _, _, _, _)
NodesToks(ns, ts, w, mode, o) ==
  IF ns = <<>> THEN <<>>
  ELSE NodeToks(Head(ns), ts, w, mode, o) \o NodesToks(Tail(ns), ts, w, mode, o + NodeSize(Head(ns), ts, w))
ItemsToks(its, ts, w, mode, o) ==
  IF its = <<>> THEN <<>>
  ELSE LET it == Head(its)
           c == NodesSize(it.els, ts, w)
           body == NodesToks(it.els, ts, w, mode, o + 8)
           this == IF it.lm = "U"
                   THEN <<Tok("IS", NoTag, "", UNDEF, o + 8)>> \o body \o <<Tok("IE", NoTag, "", 0, o + 8 + c + 8)>>
                   ELSE <<Tok("IS", NoTag, "", c, o + 8)>> \o body \o <<Tok("IE", NoTag, "", 0, o + 8 + c)>>
       IN this \o ItemsToks(Tail(its), ts, w, mode, o + ItemSize(it, ts, w))
FragsToks(fs, first, ts, w, mode, o) ==
  IF fs = <<>> THEN <<>>
  ELSE LET a == Act(Head(fs).dl, w)
           b == ValBytes("OB", a, Head(fs).salt)
           val == IF a = 0 THEN <<>>
                  ELSE IF first /\ mode = "eager" THEN <<TokV("OT", a, o + 8 + a, OTEntries(ts, b), a % 4 = 0)>>
                  ELSE <<TokV("IV", a, o + 8 + a, b, TRUE)>>
       IN <<Tok("IS", NoTag, "", a, o + 8)>> \o val \o <<Tok("IE", NoTag, "", 0, o + 8 + a)>>
          \o FragsToks(Tail(fs), FALSE, ts, w, mode, o + 8 + a)
NodeToks(n, ts, w, mode, o) ==
  CASE n.k = "P" ->
         LET h == HeaderLen(ts, n.vr)  a == Act(n.dl, w) IN
         <<Tok("EH", n.tag, SeenVR(ts, n.tag, n.vr), a, o + h),
           TokV("PV", a, o + h + a, ValBytes(n.vr, a, n.salt), a % Width(SeenVR(ts, n.tag, n.vr)) = 0)>>
    [] n.k = "S" ->
         LET h == HeaderLen(ts, "SQ")  c == ItemsSize(n.items, ts, w) IN
         IF n.lm = "U"
         THEN <<Tok("SS", n.tag, "", UNDEF, o + h)>> \o ItemsToks(n.items, ts, w, mode, o + h)
              \o <<Tok("SE", NoTag, "", 0, o + h + c + 8)>>
         ELSE <<Tok("SS", n.tag, "", c, o + h)>> \o ItemsToks(n.items, ts, w, mode, o + h)
              \o <<Tok("SE", NoTag, "", 0, o + h + c)>>
    [] n.k = "X" ->
         LET h == HeaderLen(ts, "OB")  c == FragsSize(n.frags, w) IN
         <<Tok("PS", NoTag, "", 0, o + h)>> \o FragsToks(n.frags, TRUE, ts, w, mode, o + h)
         \o <<Tok("SE", NoTag, "", 0, o + h + c + 8)>>
Toks(ds, ts, w, mode) == NodesToks(ds, ts, w, mode, 0)

(* Is there an odd declared length in the header a token stands for?       *)
(* (under strategy Fail the reader must report an error at the first one)  *)
RECURSIVE NodeHdrLens(_, _, _), NodesHdrLens(_, _, _), ItemsHdrLens(_, _, _)
NodesHdrLens(ns, ts, w) == IF ns = <<>> THEN <<>> ELSE NodeHdrLens(Head(ns), ts, w) \o NodesHdrLens(Tail(ns), ts, w)
ItemsHdrLens(its, ts, w) ==
  IF its = <<>> THEN <<>>
  ELSE LET it == Head(its)  c == NodesSize(it.els, ts, w) IN
       <<IF it.lm = "U" THEN UNDEF ELSE Decl(c, it.oddc, w)>> \o NodesHdrLens(it.els, ts, w)
       \o ItemsHdrLens(Tail(its), ts, w)
NodeHdrLens(n, ts, w) ==
  CASE n.k = "P" -> <<n.dl>>
    [] n.k = "S" -> <<IF n.lm = "U" THEN UNDEF ELSE Decl(ItemsSize(n.items, ts, w), n.oddc, w)>>
                    \o ItemsHdrLens(n.items, ts, w)
    [] n.k = "X" -> <<UNDEF>> \o [i \in 1..Len(n.frags) |-> n.frags[i].dl]
(* declared lengths of all headers of ds in stream order *)
HdrLens(ds, ts, w) == NodesHdrLens(ds, ts, w)
HasOdd(ds, ts, w) == \E i \in 1..Len(HdrLens(ds, ts, w)) : HdrLens(ds, ts, w)[i] # UNDEF /\ Odd(HdrLens(ds, ts, w)[i])

(* header tokens are exactly the tokens of these kinds, in stream order *)
IsHdrTok(t) == t.t \in {"EH", "SS", "IS", "PS"}
RECURSIVE CountHdr(_)
CountHdr(toks) == IF toks = <<>> THEN 0 ELSE (IF IsHdrTok(Head(toks)) THEN 1 ELSE 0) + CountHdr(Tail(toks))
(* number of tokens reported before the error under strategy Fail: all    *)
(* tokens that precede the header token of the first odd declared length  *)
RECURSIVE FailCut(_, _, _)
FailCut(toks, lens, n) ==
  IF toks = <<>> THEN n
  ELSE IF IsHdrTok(Head(toks))
       THEN IF Head(lens) # UNDEF /\ Odd(Head(lens)) THEN n
            ELSE FailCut(Tail(toks), Tail(lens), n + 1)
       ELSE FailCut(Tail(toks), lens, n + 1)
=============================================================================
