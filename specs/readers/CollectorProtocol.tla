--------------------------- MODULE CollectorProtocol ---------------------------
(***************************************************************************)
(* GROWTH beyond C06: the whole call protocol of DicomCollector -- every   *)
(* public call in every state, the calls the API documents as illegal in a *)
(* state included.  For each call the model says whether it is legal and   *)
(* what it must return; an illegal call must return an error and leave the *)
(* collector as it was (so that the following calls behave as if it had    *)
(* not been made).  Legality follows the documentation of                  *)
(* object/src/collector.rs:                                                *)
(*   read_preamble         only in the initial state                       *)
(*   read_file_meta        any time; returns the saved table; an error     *)
(*                         once the table was taken                        *)
(*   take_file_meta        any time; Some iff read and not yet taken       *)
(*   read_dataset_up_to /  need the transfer syntax (file meta read, or    *)
(*   read_dataset_to_end   resolved by an earlier data set call); not      *)
(*                         while inside the pixel data                     *)
(*   read_basic_offset_table  error once the collector "has read too far"  *)
(*                         (inside or past encapsulated pixel data); None  *)
(*                         for native / absent pixel data                  *)
(*   read_next_fragment    any time (reads the meta group if needed); None *)
(*                         when there is no (more) pixel data              *)
(* Deviations of the real collector from this model on ILLEGAL calls are   *)
(* observations, not violations of a listed property.                      *)
(***************************************************************************)
EXTENDS ObjectBuild

CONSTANTS Files,    \* sequence of [ts, pre, ds]
          Stops     \* stop tags for read_dataset_up_to

VARIABLES fid, file, cstate, idx, entered, pitem, pdone, metaRead, metaTaken, tsKnown, ret
pvars == <<fid, file, cstate, idx, entered, pitem, pdone, metaRead, metaTaken, tsKnown, ret>>

Infinity == <<65536, 0>>
RECURSIVE PixIdx(_, _)
PixIdx(els, i) == IF i > Len(els) THEN 0 ELSE IF els[i].tag = PixelTag THEN i ELSE PixIdx(els, i + 1)
InfoOf(f) == LET els == Obj(Files[f].ds, Files[f].ts, "exact") IN
             [els |-> els, pix |-> PixIdx(els, 1), ts |-> Files[f].ts, pre |-> Files[f].pre]
E == file.els
P == file.pix
Items(e) == IF e.nitems = 0 THEN <<>> ELSE <<e.otraw>> \o e.frags
Encaps == P # 0 /\ E[P].k = "X"
Native == P # 0 /\ E[P].k = "P"
PixItems == IF P = 0 THEN <<>> ELSE IF Encaps THEN Items(E[P]) ELSE <<E[P].val>>
(* inside the pixel data element: entered and not yet handed out completely *)
MidPixel == entered /\ P # 0 /\ idx = P /\ ~pdone /\ ~(Native /\ pitem = 1)

PInit == /\ fid \in 1..Len(Files) /\ file = InfoOf(fid)
         /\ cstate = "Start" /\ idx = 1 /\ entered = FALSE /\ pitem = 0 /\ pdone = FALSE
         /\ metaRead = FALSE /\ metaTaken = FALSE /\ tsKnown = FALSE /\ ret = [call |-> "none"]

(* a label of the abstract state, for the classes of observations *)
St == cstate \o (IF MidPixel THEN "+insidePixelData" ELSE IF entered THEN "+enteredPixelData" ELSE "")
      \o (IF ~entered /\ P # 0 /\ idx > P THEN "+pixelDataCollected" ELSE "")
      \o (IF metaTaken THEN "+metaTaken" ELSE "") \o (IF tsKnown THEN "" ELSE "+tsUnresolved")

Err(call) == /\ ret' = [call |-> call, ok |-> FALSE, st |-> St]
             /\ UNCHANGED <<fid, file, cstate, idx, entered, pitem, pdone, metaRead, metaTaken, tsKnown>>
Tags(part) == [i \in 1..Len(part) |-> part[i].tag]

Pre == IF cstate = "Start"
       THEN /\ cstate' = "Preamble"
            /\ ret' = [call |-> "pre", ok |-> TRUE, st |-> St, some |-> file.pre]
            /\ UNCHANGED <<fid, file, idx, entered, pitem, pdone, metaRead, metaTaken, tsKnown>>
       ELSE Err("pre")

AutoMeta == cstate \in {"Start", "Preamble"}
Meta == IF metaTaken THEN Err("meta")
        ELSE /\ cstate' = (IF AutoMeta THEN "FileMeta" ELSE cstate) /\ metaRead' = TRUE
             /\ ret' = [call |-> "meta", ok |-> TRUE, st |-> St, res |-> MetaObj(file.ts)]
             /\ UNCHANGED <<fid, file, idx, entered, pitem, pdone, metaTaken, tsKnown>>

Take == /\ ret' = [call |-> "take", ok |-> TRUE, st |-> St, some |-> (metaRead /\ ~metaTaken)]
        /\ metaTaken' = (metaTaken \/ metaRead)
        /\ UNCHANGED <<fid, file, cstate, idx, entered, pitem, pdone, metaRead, tsKnown>>

(* the transfer syntax is available to a data set call *)
DsReady == tsKnown \/ (metaRead /\ ~metaTaken)
RECURSIVE TakeN(_, _, _)
TakeN(els, i, t) == IF i > Len(els) \/ ~TagLess(els[i].tag, t) THEN 0 ELSE 1 + TakeN(els, i + 1, t)

Portion(call, t) ==
  IF ~DsReady \/ MidPixel THEN Err(call)
  ELSE LET from == IF entered /\ P # 0 /\ idx = P THEN P + 1 ELSE idx   \* the pixel data was handed out as fragments
           k == TakeN(E, from, t)
           part == SubSeq(E, from, from + k - 1) IN
       /\ idx' = (IF k = 0 THEN idx ELSE from + k) /\ tsKnown' = TRUE
       /\ cstate' = (IF k = 0 THEN cstate ELSE IF part[k].k = "X" THEN "InPixelData" ELSE "InDataset")
       /\ ret' = [call |-> call, ok |-> TRUE, st |-> St, tag |-> t, res |-> Tags(part)]
       /\ UNCHANGED <<fid, file, entered, pitem, pdone, metaRead, metaTaken>>
CallUpTo(t) == Portion("upto", t)
ToEnd == Portion("toend", Infinity)

(* fragment and offset table calls read the meta group themselves when needed *)
FragReady == tsKnown \/ ~metaTaken
Skip == /\ idx' = (IF entered THEN idx ELSE IF P # 0 /\ idx <= P THEN P ELSE Len(E) + 1)
        /\ entered' = TRUE /\ cstate' = "InPixelData" /\ tsKnown' = TRUE
        /\ metaRead' = (metaRead \/ AutoMeta)

(* the offset table can be asked for once, before any fragment, and not after the        *)
(* encapsulated pixel data was collected as an element ("has already read too far")      *)
Bot == IF ~FragReady \/ entered \/ (Encaps /\ idx > P) THEN Err("bot")
       ELSE /\ Skip
            /\ IF Encaps /\ idx <= P /\ E[P].nitems > 0
               THEN /\ ret' = [call |-> "bot", ok |-> TRUE, st |-> St, some |-> TRUE, len |-> Len(E[P].otraw), ot |-> E[P].ot]
                    /\ pitem' = 1
               ELSE /\ ret' = [call |-> "bot", ok |-> TRUE, st |-> St, some |-> FALSE, len |-> 0, ot |-> <<>>]
                    /\ UNCHANGED pitem
            /\ UNCHANGED <<fid, file, pdone, metaTaken>>

Frag == IF ~FragReady THEN Err("frag")
        ELSE /\ Skip
             /\ LET here == IF entered THEN (P # 0 /\ idx = P) ELSE (P # 0 /\ idx <= P)
                    items == IF here THEN PixItems ELSE <<>> IN
                IF pitem < Len(items) /\ ~pdone
                THEN /\ ret' = [call |-> "frag", ok |-> TRUE, st |-> St, some |-> TRUE,
                                len |-> Len(items[pitem + 1]), bytes |-> items[pitem + 1]]
                     /\ pitem' = pitem + 1 /\ UNCHANGED pdone
                ELSE /\ ret' = [call |-> "frag", ok |-> TRUE, st |-> St, some |-> FALSE, len |-> 0, bytes |-> <<>>]
                     /\ pdone' = TRUE /\ UNCHANGED pitem
             /\ UNCHANGED <<fid, file, metaTaken>>

PNext == Pre \/ Meta \/ Take \/ (\E t \in Stops : CallUpTo(t)) \/ ToEnd \/ Bot \/ Frag
PSpec == PInit /\ [][PNext]_pvars

---------------------------------------------------------------------------
Sane == /\ idx \in 1..(Len(E) + 1)
        /\ pitem \in 0..Len(PixItems)
        /\ (metaTaken => metaRead)
        /\ (entered => tsKnown)
        /\ (MidPixel => cstate = "InPixelData")
(* an illegal call changes nothing but the return value *)
IllegalIsNoOp == [][(ret'.call # "none" /\ "ok" \in DOMAIN ret' /\ ~ret'.ok) =>
                      UNCHANGED <<cstate, idx, entered, pitem, pdone, metaRead, metaTaken, tsKnown>>]_pvars
=============================================================================
