CONSTANTS
  HeadVariants = {4}
  PixVariants = {5}
  WithPreamble = {FALSE}
SPECIFICATION MCSpec
INVARIANTS PosIsConsumed StackOK Bounded TokOK EndOK NoErr
