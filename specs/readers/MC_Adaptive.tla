------------------------------ MODULE MC_Adaptive ------------------------------
(* C08 in the model: on every unambiguous case the reader with the adaptive   *)
(* decoder reports exactly the tokens of the regular decoder of the real      *)
(* encoding (= Layout!Toks, which MC_Reader ties to the regular reader), the  *)
(* lock is the real encoding and never changes once taken.                    *)
EXTENDS DataSetReader, AdaptiveCases

VARIABLE cs
mcvars == <<rvars, cs>>
Deco == {"adaptive", "regular"}

MCInit == \E c \in Cases, d \in Deco :
            /\ cs = [exp |-> CaseToks(c), amb |-> CaseAmbiguous(c), enc |-> c.enc, deco |-> d]
            /\ RInit(CaseBytes(c), IF d = "adaptive" THEN "ADAPT" ELSE c.enc, "Accept", "eager")
MDelimEnd == DelimEnd /\ UNCHANGED cs
MDelimInconsistent == DelimInconsistent /\ UNCHANGED cs
MDelimClear == DelimClear /\ UNCHANGED cs
MItemHeaderStep == ItemHeaderStep /\ UNCHANGED cs
MPixelItemValue == PixelItemValue /\ UNCHANGED cs
MEnterPixel == EnterPixel /\ UNCHANGED cs
MReadValue == ReadValue /\ UNCHANGED cs
MElemHeaderStep == ElemHeaderStep /\ UNCHANGED cs
MDone == Done /\ UNCHANGED cs
MCNext == MDelimEnd \/ MDelimInconsistent \/ MDelimClear \/ MItemHeaderStep \/ MPixelItemValue
          \/ MEnterPixel \/ MReadValue \/ MElemHeaderStep \/ MDone
MCSpec == MCInit /\ [][MCNext]_mcvars

Must == ~cs.amb \/ cs.deco = "regular"
TokOK == (Must /\ tok # Null /\ tok.t # "ERR") => (n <= Len(cs.exp) /\ tok = cs.exp[n])
EndOK == (Must /\ status = "eof") => (n = Len(cs.exp) /\ cons = Len(bytes) /\ delims = <<>>)
NoErr == Must => status # "err"
(* once taken, the lock is the real encoding *)
LockRight == (~cs.amb /\ cs.deco = "adaptive" /\ ts # "ADAPT") => ts = cs.enc
LockOnce == [][ts # "ADAPT" => ts' = ts]_mcvars
=============================================================================
