------------------------------ MODULE Gen_Protocol ------------------------------
(* Every call sequence of length MaxCalls over the protocol model, with what each *)
(* call must return; FILE records carry the data set bytes.                       *)
EXTENDS CollectorProtocol, ProtocolFiles, Json
CONSTANT MaxCalls
VARIABLE h
GInit == PInit /\ h = <<>>
GNext == Len(h) < MaxCalls /\ PNext /\ h' = Append(h, ret')
GSpec == GInit /\ [][GNext]_<<pvars, h>>
FileRec == [pfile |-> TRUE, fid |-> fid, ts |-> Files[fid].ts, pre |-> Files[fid].pre,
            bytes |-> Wire(Files[fid].ds, Files[fid].ts, "exact"), tags |-> Tags(file.els)]
Emit == /\ (h = <<>> => PrintT(<<"CASE", ToJson(FileRec)>>))
        /\ (Len(h) = MaxCalls => PrintT(<<"CASE", ToJson([proto |-> TRUE, fid |-> fid, calls |-> h])>>))
MetaRec == [meta |-> [t \in TSs |-> MetaBytes(t)], preamble |-> Preamble]
ASSUME PrintT(<<"CASE", ToJson(MetaRec)>>)
=============================================================================
