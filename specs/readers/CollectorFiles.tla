---------------------------- MODULE CollectorFiles ----------------------------
(***************************************************************************)
(* Small files as a conforming writer produces them (even lengths, unique  *)
(* ascending tags, padded values): plain elements, a sequence with         *)
(* explicit or undefined lengths, native pixel data or encapsulated pixel  *)
(* data with empty / non-empty offset table and zero-length fragments,     *)
(* optionally an element after the pixel data; three transfer syntaxes;    *)
(* with and without preamble.                                              *)
(***************************************************************************)
EXTENDS Layout

CONSTANTS PixVariants,   \* subset of 1..9, see Pix below
          HeadVariants,  \* subset of 1..8, see HeadOf below
          WithPreamble   \* set of BOOLEAN

P(tag, vr, dl, salt) == [k |-> "P", tag |-> tag, vr |-> vr, dl |-> dl, salt |-> salt]
S(tag, lm, items) == [k |-> "S", tag |-> tag, lm |-> lm, oddc |-> FALSE, items |-> items]
I(lm, els) == [lm |-> lm, oddc |-> FALSE, els |-> els]
X(frags) == [k |-> "X", frags |-> frags]
F(dl, salt) == [dl |-> dl, salt |-> salt]

Modality == P(<<8, 96>>, "CS", 2, 0)
PatName == P(<<16, 16>>, "PN", 4, 1)
PatId == P(<<16, 32>>, "LO", 0, 1)             \* an empty value
Rows == P(<<40, 16>>, "US", 2, 2)
Trail == P(<<65532, 65532>>, "OB", 2, 3)
SeqEl(lm) == S(<<8, 4416>>, lm,
             <<I(lm, <<P(<<8, 24>>, "UI", 4, 5), S(<<64, 629>>, lm, <<I("E", <<>>)>>)>>),
               I("U", <<Rows>>)>>)

(* mixed-length nesting: an explicit-length item whose last element is an undefined-length   *)
(* sequence or nested encapsulated pixel data, an undefined-length item ending with an        *)
(* explicit-length sequence, an explicit-length sequence whose last item is undefined-length  *)
UidEl(s) == P(<<8, 24>>, "UI", 4, s)
Mixed(lm) ==
  S(<<8, 4416>>, lm,
    <<I("E", <<UidEl(5), S(<<64, 629>>, "U", <<I("U", <<Rows>>)>>)>>),
      I("U", <<UidEl(6), S(<<64, 629>>, "E", <<I("E", <<Rows>>)>>)>>),
      I("E", <<Rows, X(<<F(0, 0), F(2, 1)>>)>>),
      I("E", <<UidEl(7), S(<<64, 629>>, "U", <<I("E", <<Rows, S(<<114, 128>>, "U", <<>>)>>)>>)>>)>>)
LastItemU == S(<<114, 128>>, "E", <<I("E", <<Rows>>), I("U", <<Rows>>)>>)
(* icon images: a sequence right before the root Pixel Data whose items each end with pixel  *)
(* data of their own (encapsulated "X" or native "N")                                        *)
IconX(s) == I("U", <<Rows, X(<<F(4, s), F(2, s + 1)>>)>>)
IconN(s) == I("E", <<Rows, P(PixelTag, "OW", 4, s)>>)
Icons(items) == S(<<136, 512>>, "U", items)
HeadOf(v) == CASE v = 1 -> <<Modality, PatName, PatId, Rows>>
               [] v = 2 -> <<Modality, SeqEl("U"), PatName>>
               [] v = 3 -> <<Modality, SeqEl("E"), PatName>>
               [] v = 4 -> <<Modality, Mixed("E"), PatName, LastItemU>>
               [] v = 5 -> <<Modality, Mixed("U"), PatName, LastItemU>>
               [] v = 6 -> <<Modality, PatName, Icons(<<IconX(11), IconN(13), IconX(15)>>)>>
               [] v = 7 -> <<Modality, PatName, Icons(<<IconX(11), IconX(15)>>)>>
               [] v = 8 -> <<Modality, PatName, Icons(<<IconN(13), IconX(15)>>)>>
Heads == {HeadOf(v) : v \in HeadVariants}

Pix(v) == CASE v = 1 -> <<>>                                     \* no pixel data
            [] v = 2 -> <<P(PixelTag, "OW", 4, 7)>>              \* native
            [] v = 3 -> <<X(<<F(0, 0)>>)>>                       \* empty offset table, no fragment
            [] v = 4 -> <<X(<<F(0, 0), F(4, 1)>>)>>              \* empty offset table, one fragment
            [] v = 5 -> <<X(<<F(0, 0), F(2, 1), F(0, 2)>>)>>     \* ... and a zero-length fragment
            [] v = 6 -> <<X(<<F(4, 0), F(4, 1)>>)>>              \* one offset, one fragment
            [] v = 7 -> <<X(<<F(8, 0), F(2, 1), F(6, 2)>>)>>     \* two offsets, two fragments
            [] v = 8 -> <<X(<<F(4, 0), F(0, 1), F(2, 2)>>)>>     \* zero-length fragment first
            [] v = 9 -> <<X(<<F(0, 0), F(0, 1)>>)>>              \* empty table, only a zero-length fragment
Tails(v) == IF v = 1 THEN {<<>>} ELSE {<<>>, <<Trail>>}

DataSets == {h \o Pix(v) \o t : h \in Heads, v \in PixVariants, t \in UNION {Tails(u) : u \in PixVariants}}
            \ {h \o Pix(1) \o <<Trail>> : h \in Heads}
FileSet == {[ts |-> t, pre |-> p, ds |-> d] : t \in TSs, p \in WithPreamble, d \in DataSets}

RECURSIVE SetToSeq(_)
SetToSeq(s) == IF s = {} THEN <<>> ELSE LET x == CHOOSE y \in s : TRUE IN <<x>> \o SetToSeq(s \ {x})
AllFiles == SetToSeq(FileSet)
(* stop tags: every attribute of the root data set, tags between and beyond *)
AllStops == {<<8, 24>>, <<64, 629>>, <<8, 96>>, <<8, 4416>>, <<16, 0>>, <<16, 32>>, <<40, 16>>, <<114, 128>>, <<136, 512>>, PixelTag, <<65532, 65532>>}
QuickStops == {<<8, 4416>>, <<16, 0>>, PixelTag, <<65532, 65532>>}
=============================================================================
