----------------------------- MODULE ObjectBuild -----------------------------
(***************************************************************************)
(* From an abstract data set to the object a whole-file read must produce  *)
(* (elements in tag order with VR, length and value bytes; sequences with  *)
(* their items; encapsulated pixel data with offset table and fragments),  *)
(* the stop rules read_until (exclusive) / read_to (inclusive), and the    *)
(* PS3.10 file layout (preamble, DICM, file meta group in Explicit VR LE). *)
(***************************************************************************)
EXTENDS Layout

TagLess(a, b) == a[1] < b[1] \/ (a[1] = b[1] /\ a[2] < b[2])
TagLeq(a, b) == a = b \/ TagLess(a, b)

RECURSIVE NodeObj(_, _, _), NodesObj(_, _, _), ItemsObj(_, _, _)
NodesObj(ns, ts, w) == IF ns = <<>> THEN <<>> ELSE <<NodeObj(Head(ns), ts, w)>> \o NodesObj(Tail(ns), ts, w)
ItemsObj(its, ts, w) ==
  IF its = <<>> THEN <<>>
  ELSE <<[len |-> IF Head(its).lm = "U" THEN UNDEF ELSE NodesSize(Head(its).els, ts, w),
          els |-> NodesObj(Head(its).els, ts, w)]>> \o ItemsObj(Tail(its), ts, w)
NodeObj(n, ts, w) ==
  CASE n.k = "P" ->
         LET vr == SeenVR(ts, n.tag, n.vr)  a == Act(n.dl, w) IN
         [k |-> "P", tag |-> n.tag, vr |-> vr, len |-> a, val |-> ValBytes(n.vr, a, n.salt),
          (* the value is only defined when the length is a multiple of the value width *)
          cmp |-> (a % Width(vr) = 0)]
    [] n.k = "S" ->
         [k |-> "S", tag |-> n.tag, vr |-> "SQ",
          len |-> IF n.lm = "U" THEN UNDEF ELSE ItemsSize(n.items, ts, w),
          items |-> ItemsObj(n.items, ts, w)]
    [] n.k = "X" ->
         LET f == n.frags
             v(i) == ValBytes("OB", Act(f[i].dl, w), f[i].salt) IN
         [k |-> "X", tag |-> PixelTag, vr |-> "OB",
          nitems |-> Len(f), otraw |-> IF f = <<>> THEN <<>> ELSE v(1),
          ot |-> IF f = <<>> THEN <<>> ELSE OTEntries(ts, v(1)),
          cmp |-> (f = <<>> \/ Act(f[1].dl, w) % 4 = 0),
          frags |-> [i \in 1..(IF f = <<>> THEN 0 ELSE Len(f) - 1) |-> v(i + 1)]]
Obj(ds, ts, w) == NodesObj(ds, ts, w)

(* stop rules on the root data set *)
RECURSIVE Below(_, _), UpTo(_, _)
Below(obj, tag) == IF obj = <<>> \/ ~TagLess(Head(obj).tag, tag) THEN <<>> ELSE <<Head(obj)>> \o Below(Tail(obj), tag)
UpTo(obj, tag) == IF obj = <<>> \/ ~TagLeq(Head(obj).tag, tag) THEN <<>> ELSE <<Head(obj)>> \o UpTo(Tail(obj), tag)

---------------------------------------------------------------------------
(* PS3.10 file: [preamble] DICM, group 0002 in Explicit VR Little Endian *)
UidIVRLE == <<49,46,50,46,56,52,48,46,49,48,48,48,56,46,49,46,50>>                 \* "1.2.840.10008.1.2"
UidEVRLE == <<49,46,50,46,56,52,48,46,49,48,48,48,56,46,49,46,50,46,49>>           \* "1.2.840.10008.1.2.1"
UidEVRBE == <<49,46,50,46,56,52,48,46,49,48,48,48,56,46,49,46,50,46,50>>           \* "1.2.840.10008.1.2.2"
SopClassUid == <<49,46,50,46,56,52,48,46,49,48,48,48,56,46,53,46,49,46,52,46,49,46,49,46,55>>
                                                                                   \* "1.2.840.10008.5.1.4.1.1.7"
SopInstUid == <<49,46,50,46,56,50,54,46,48,46,49,46,51,54,56,48,48,52,51,46,57,46,55,46,49>>
                                                                                   \* "1.2.826.0.1.3680043.9.7.1"
ImplClassUid == <<49,46,50,46,56,50,54,46,48,46,49,46,51,54,56,48,48,52,51,46,57,46,55,46,50>>
                                                                                   \* "1.2.826.0.1.3680043.9.7.2"
TsUid(ts) == CASE ts = "IVRLE" -> UidIVRLE [] ts = "EVRLE" -> UidEVRLE [] ts = "EVRBE" -> UidEVRBE
PadUid(u) == IF Odd(Len(u)) THEN u \o <<0>> ELSE u
MetaElem(tag, vr, val) == ElemHeader("EVRLE", tag, vr, Len(val)) \o val
MetaBody(ts) == MetaElem(<<2, 1>>, "OB", <<0, 1>>)
                \o MetaElem(<<2, 2>>, "UI", PadUid(SopClassUid))
                \o MetaElem(<<2, 3>>, "UI", PadUid(SopInstUid))
                \o MetaElem(<<2, 16>>, "UI", PadUid(TsUid(ts)))
                \o MetaElem(<<2, 18>>, "UI", PadUid(ImplClassUid))
MetaBytes(ts) == <<68, 73, 67, 77>> \o MetaElem(<<2, 0>>, "UL", U32("EVRLE", Len(MetaBody(ts)))) \o MetaBody(ts)
Preamble == [i \in 1..128 |-> 0]
(* the meta table a reader must report *)
MetaObj(ts) == [ts |-> TsUid(ts), sop_class |-> SopClassUid, sop_instance |-> SopInstUid,
                impl_class |-> ImplClassUid, version |-> <<0, 1>>, group_length |-> Len(MetaBody(ts))]
=============================================================================
