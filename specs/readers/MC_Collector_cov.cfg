CONSTANTS
  HeadVariants = {4}
  PixVariants = {2, 5}
  WithPreamble = {TRUE}
  Files <- AllFiles
  Stops <- QuickStops
  MaxUpTo = 1
SPECIFICATION CSpec
INVARIANTS WholeByElements WholeByFragments Progress
CHECK_DEADLOCK FALSE
