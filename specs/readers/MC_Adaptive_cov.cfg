CONSTANT Small = TRUE
SPECIFICATION MCSpec
INVARIANTS PosIsConsumed Bounded TokOK EndOK NoErr LockRight
PROPERTY LockOnce
