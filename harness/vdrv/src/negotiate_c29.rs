// C29 part of drv_negotiate (included)
fn run_c29(_args: &std::collections::HashMap<String, String>) {
    let mut rep = Report::new();
    rep.print();
}
