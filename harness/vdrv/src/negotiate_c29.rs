// C29 part of drv_negotiate (included by bin/drv_negotiate.rs): a real requestor against a
// real acceptor over loopback TCP through the recording proxy.

enum AcCmd {
    /// send(&Pdu::PData) whose encoding is `n` bytes long, payload bytes = marker;
    /// fragment lengths of the PDVs (empty: one PDV with everything)
    Send(usize, u8, Vec<usize>),
    /// send_pdata: write `n` payload bytes (= marker) and finish
    Pdata(usize, u8),
    /// receive one PDU
    Recv1,
    /// receive P-DATA PDUs until a PDV flagged last
    RecvLast,
    Done,
}

fn pdata_pdu(ctx: u8, total: usize, marker: u8, pdvs: &[usize]) -> Pdu {
    if pdvs.is_empty() {
        // 6 bytes PDU header + 6 bytes PDV header + data
        return Pdu::PData {
            data: vec![PDataValue { presentation_context_id: ctx, value_type: PDataValueType::Data, is_last: true, data: vec![marker; total.saturating_sub(12)] }],
        };
    }
    // several PDVs in one PDU: command and data fragments alternate, as in DIMSE traffic
    Pdu::PData {
        data: pdvs
            .iter()
            .enumerate()
            .map(|(i, &len)| PDataValue {
                presentation_context_id: ctx,
                value_type: if i % 2 == 0 { PDataValueType::Command } else { PDataValueType::Data },
                is_last: true,
                data: vec![marker; len],
            })
            .collect(),
    }
}

fn send_result(r: Result<(), dicom_ul::association::Error>) -> String {
    match r {
        Ok(()) => "ok".into(),
        Err(dicom_ul::association::Error::SendTooLongPdu { .. }) => "toolong".into(),
        Err(e) => format!("err:{e}"),
    }
}

fn do_send<A: SyncAssociation<TcpStream>>(a: &mut A, ctx: u8, n: usize, marker: u8, pdvs: &[usize]) -> String {
    match catch(|| SyncAssociation::send(a, &pdata_pdu(ctx, n, marker, pdvs))) {
        Ok(r) => send_result(r),
        Err(p) => format!("panic:{p}"),
    }
}

fn do_pdata<A: SyncAssociation<TcpStream>>(a: &mut A, ctx: u8, n: usize, marker: u8) -> String {
    let r = catch(|| {
        let mut w = a.send_pdata(ctx);
        let data = vec![marker; n];
        w.write_all(&data)?;
        w.finish()
    });
    match r {
        Ok(Ok(())) => "ok".into(),
        Ok(Err(e)) => format!("err:{e}"),
        Err(p) => format!("panic:{p}"),
    }
}

fn do_recv1<A: SyncAssociation<TcpStream>>(a: &mut A) -> String {
    match SyncAssociation::receive(a) {
        Ok(Pdu::PData { .. }) => "ok".into(),
        Ok(p) => format!("other:{}", p.short_description()),
        Err(e) => format!("err:{e}"),
    }
}

fn do_recv_last<A: SyncAssociation<TcpStream>>(a: &mut A) -> String {
    loop {
        match SyncAssociation::receive(a) {
            Ok(Pdu::PData { data }) => {
                if data.iter().any(|v| v.is_last) {
                    return "ok".into();
                }
            }
            Ok(p) => return format!("other:{}", p.short_description()),
            Err(e) => return format!("err:{e}"),
        }
    }
}


/// One end of an established association, sync or async API behind the same calls.
trait Endpoint {
    fn send(&mut self, ctx: u8, n: usize, marker: u8, pdvs: &[usize]) -> String;
    fn pdata(&mut self, ctx: u8, n: usize, marker: u8) -> String;
    fn recv1(&mut self) -> String;
    fn recv_last(&mut self) -> String;
    fn abort(self: Box<Self>);
}

struct SyncEp<A>(A);
impl<A: SyncAssociation<TcpStream>> Endpoint for SyncEp<A> {
    fn send(&mut self, ctx: u8, n: usize, marker: u8, pdvs: &[usize]) -> String {
        do_send(&mut self.0, ctx, n, marker, pdvs)
    }
    fn pdata(&mut self, ctx: u8, n: usize, marker: u8) -> String {
        do_pdata(&mut self.0, ctx, n, marker)
    }
    fn recv1(&mut self) -> String {
        do_recv1(&mut self.0)
    }
    fn recv_last(&mut self) -> String {
        do_recv_last(&mut self.0)
    }
    fn abort(self: Box<Self>) {
        let _ = self.0.abort();
    }
}

struct AsyncEp<A> {
    rt: tokio::runtime::Runtime,
    a: Option<A>,
}
impl<A: dicom_ul::association::AsyncAssociation<tokio::net::TcpStream> + Send> Endpoint for AsyncEp<A> {
    fn send(&mut self, ctx: u8, n: usize, marker: u8, pdvs: &[usize]) -> String {
        use dicom_ul::association::AsyncAssociation as AA;
        let a = self.a.as_mut().unwrap();
        let pdu = pdata_pdu(ctx, n, marker, pdvs);
        match catch(|| self.rt.block_on(AA::send(a, &pdu))) {
            Ok(r) => send_result(r),
            Err(p) => format!("panic:{p}"),
        }
    }
    fn pdata(&mut self, ctx: u8, n: usize, marker: u8) -> String {
        use dicom_ul::association::AsyncAssociation as AA;
        use tokio::io::AsyncWriteExt;
        let a = self.a.as_mut().unwrap();
        let r = catch(|| {
            self.rt.block_on(async {
                let mut w = AA::send_pdata(a, ctx);
                let data = vec![marker; n];
                w.write_all(&data).await?;
                w.finish().await
            })
        });
        match r {
            Ok(Ok(())) => "ok".into(),
            Ok(Err(e)) => format!("err:{e}"),
            Err(p) => format!("panic:{p}"),
        }
    }
    fn recv1(&mut self) -> String {
        use dicom_ul::association::AsyncAssociation as AA;
        let a = self.a.as_mut().unwrap();
        match self.rt.block_on(AA::receive(a)) {
            Ok(Pdu::PData { .. }) => "ok".into(),
            Ok(p) => format!("other:{}", p.short_description()),
            Err(e) => format!("err:{e}"),
        }
    }
    fn recv_last(&mut self) -> String {
        use dicom_ul::association::AsyncAssociation as AA;
        let a = self.a.as_mut().unwrap();
        loop {
            match self.rt.block_on(AA::receive(a)) {
                Ok(Pdu::PData { data }) => {
                    if data.iter().any(|v| v.is_last) {
                        return "ok".into();
                    }
                }
                Ok(p) => return format!("other:{}", p.short_description()),
                Err(e) => return format!("err:{e}"),
            }
        }
    }
    fn abort(mut self: Box<Self>) {
        use dicom_ul::association::AsyncAssociation as AA;
        let a = self.a.take().unwrap();
        let _ = self.rt.block_on(AA::abort(a));
    }
}
impl<A> Drop for AsyncEp<A> {
    fn drop(&mut self) {
        // the tokio stream is released inside its runtime
        let a = self.a.take();
        self.rt.block_on(async move { drop(a) });
    }
}

fn new_rt() -> tokio::runtime::Runtime {
    // AsyncPDataWriter's Drop needs a multi-thread runtime (block_in_place)
    tokio::runtime::Builder::new_multi_thread().worker_threads(1).enable_all().build().expect("runtime")
}

fn accepted_json(pcs: &[PresentationContextNegotiated]) -> Value {
    Value::Array(
        pcs.iter()
            .filter(|p| p.reason == PresentationContextResultReason::Acceptance)
            .map(|p| json!({"id": p.id, "abs": uid_json(&p.abstract_syntax), "ts": uid_json(&p.transfer_syntax)}))
            .collect(),
    )
}

fn acceptor_case<A: AccessControl>(opts: ServerAssociationOptions<'static, A, DefaultNegotiation>, listener: TcpListener, view_tx: Sender<Value>, cmd_rx: Receiver<AcCmd>, res_tx: Sender<String>, is_async: bool) {
    let (stream, _) = match listener.accept() {
        Ok(x) => x,
        Err(e) => {
            let _ = view_tx.send(json!({"est": false, "err": format!("accept: {e}")}));
            return;
        }
    };
    let _ = stream.set_nodelay(true);
    let view_of = |pcs: &[PresentationContextNegotiated], local: u32, peer: u32| {
        json!({"est": true, "pcs": accepted_json(pcs), "local": halves(local), "peer": halves(peer)})
    };
    let first_ctx = |pcs: &[PresentationContextNegotiated]| pcs.iter().find(|p| p.reason == PresentationContextResultReason::Acceptance).map(|p| p.id).unwrap_or(1);
    let (mut ep, ctx): (Box<dyn Endpoint>, u8) = if is_async {
        let rt = new_rt();
        let r = catch(|| {
            rt.block_on(async {
                stream.set_nonblocking(true).map_err(|e| e.to_string())?;
                let ts = tokio::net::TcpStream::from_std(stream).map_err(|e| e.to_string())?;
                opts.establish_async(ts).await.map_err(|e| format!("{e}"))
            })
        });
        match r {
            Ok(Ok(assoc)) => {
                let ctx = first_ctx(assoc.presentation_contexts());
                let _ = view_tx.send(view_of(assoc.presentation_contexts(), assoc.acceptor_max_pdu_length(), assoc.requestor_max_pdu_length()));
                (Box::new(AsyncEp { rt, a: Some(assoc) }), ctx)
            }
            Ok(Err(e)) => {
                let _ = view_tx.send(json!({"est": false, "err": e}));
                return;
            }
            Err(p) => {
                let _ = view_tx.send(json!({"est": false, "panic": p}));
                return;
            }
        }
    } else {
        match catch(|| opts.establish(stream)) {
            Ok(Ok(assoc)) => {
                let ctx = first_ctx(assoc.presentation_contexts());
                let _ = view_tx.send(view_of(assoc.presentation_contexts(), assoc.acceptor_max_pdu_length(), assoc.requestor_max_pdu_length()));
                (Box::new(SyncEp(assoc)), ctx)
            }
            Ok(Err(e)) => {
                let _ = view_tx.send(json!({"est": false, "err": format!("{e}")}));
                return;
            }
            Err(p) => {
                let _ = view_tx.send(json!({"est": false, "panic": p}));
                return;
            }
        }
    };
    while let Ok(c) = cmd_rx.recv() {
        let r = match c {
            AcCmd::Send(n, m, pdvs) => ep.send(ctx, n, m, &pdvs),
            AcCmd::Pdata(n, m) => ep.pdata(ctx, n, m),
            AcCmd::Recv1 => ep.recv1(),
            AcCmd::RecvLast => ep.recv_last(),
            AcCmd::Done => break,
        };
        if res_tx.send(r).is_err() {
            break;
        }
    }
}

fn parse_pdu(bytes: &[u8]) -> Option<Pdu> {
    dicom_ul::read_pdu(bytes, MAXIMUM_PDU_SIZE, false).ok().flatten()
}

fn rq_json(pdu: &Pdu) -> Option<Value> {
    if let Pdu::AssociationRQ(rq) = pdu {
        Some(json!({
            "pv": rq.protocol_version, "appctx": rq.application_context_name, "called": rq.called_ae_title,
            "pcs": rq.presentation_contexts.iter().map(|p| json!({"id": p.id, "abs": uid_json(&p.abstract_syntax),
                      "tss": p.transfer_syntaxes.iter().map(|t| uid_json(t)).collect::<Vec<_>>()})).collect::<Vec<_>>(),
            "maxlen": rq.user_variables.iter().find_map(|u| match u { UserVariableItem::MaxLength(l) => Some(halves(*l)), _ => None }).unwrap_or(json!([])),
            "items": rq.user_variables.len(),
        }))
    } else {
        None
    }
}

/// run one case; returns (trace events, mismatches against the TLC-expected outcome)
fn run_c29_case(c: &Value, selftest: bool, is_async: bool) -> (Vec<Value>, Vec<Value>, Vec<Value>) {
    let (opts_j, cfg, exp) = (&c["opts"], &c["cfg"], &c["exp"]);
    let mut ev = vec![json!({"ev": "c29", "opts": opts_j, "cfg": cfg, "kind": c["kind"], "api": if is_async { "async" } else { "sync" }})];
    let mut mism = Vec::new();
    // acceptor
    let listener = TcpListener::bind("127.0.0.1:0").expect("bind");
    let saddr = listener.local_addr().unwrap();
    let (view_tx, view_rx) = channel();
    let (cmd_tx, cmd_rx) = channel();
    let (res_tx, res_rx) = channel();
    let mut so = ServerAssociationOptions::new()
        .ae_title(j_str(&cfg["aet"]).to_string())
        .promiscuous(cfg["promiscuous"].as_bool().unwrap())
        .max_pdu_length(u32_of(&cfg["maxpdu"]).unwrap())
        .read_timeout(Duration::from_secs(20));
    for a in j_arr(&cfg["abs"]) {
        so = so.with_abstract_syntax(j_str(a).to_string());
    }
    for t in j_arr(&cfg["tss"]) {
        so = so.with_transfer_syntax(j_str(t).to_string());
    }
    let called = j_str(&cfg["access"]) == "called";
    let ac_thread = std::thread::spawn(move || {
        if called {
            acceptor_case(so.accept_called_ae_title(), listener, view_tx, cmd_rx, res_tx, is_async)
        } else {
            acceptor_case(so, listener, view_tx, cmd_rx, res_tx, is_async)
        }
    });
    let proxy = Proxy::start(saddr, 8192);
    // requestor
    let mut co = ClientAssociationOptions::new()
        .called_ae_title(j_str(&opts_j["called"]).to_string())
        .max_pdu_length(u32_of(&opts_j["maxpdu"]).unwrap())
        .read_timeout(Duration::from_secs(20));
    for pc in j_arr(&opts_j["pcs"]) {
        co = co.with_presentation_context(uid_text(&pc["abs"]), j_arr(&pc["tss"]).iter().map(uid_text).collect());
    }
    if opts_j["ext"].as_bool().unwrap_or(false) {
        co = co.with_extended_negotiation("1.2.840.10008.5.1.4.1.2.2.1".to_string(), vec![1u8, 1, 0]);
    }
    if opts_j["role"].as_bool().unwrap_or(false) {
        co = co.with_role_selection("1.2.840.10008.1.1".to_string(), true, true);
    }
    let view_rq = |pcs: &[PresentationContextNegotiated], local: u32, peer: u32| {
        json!({"est": true,
            "pcs": pcs.iter().map(|p| json!({"id": p.id, "abs": uid_json(&p.abstract_syntax), "ts": uid_json(&p.transfer_syntax)})).collect::<Vec<_>>(),
            "local": halves(local), "peer": halves(peer)})
    };
    let fail_rq = |k: &str, e: String| json!({"est": false, k: e, "pcs": [], "local": [0, 0], "peer": [0, 0]});
    let mut rq_assoc: Option<(Box<dyn Endpoint>, u8)> = None;
    let rq_view = if is_async {
        let rt = new_rt();
        let paddr = proxy.addr;
        match catch(|| rt.block_on(co.establish_async(paddr))) {
            Ok(Ok(mut a)) => {
                let _ = a.inner_stream().set_nodelay(true);
                let v = view_rq(a.presentation_contexts(), a.requestor_max_pdu_length(), a.acceptor_max_pdu_length());
                let ctx = a.presentation_contexts()[0].id;
                rq_assoc = Some((Box::new(AsyncEp { rt, a: Some(a) }), ctx));
                v
            }
            Ok(Err(e)) => fail_rq("err", format!("{e}")),
            Err(p) => fail_rq("panic", p),
        }
    } else {
        match catch(|| co.establish(proxy.addr)) {
            Ok(Ok(mut a)) => {
                let _ = a.inner_stream().set_nodelay(true);
                let v = view_rq(a.presentation_contexts(), a.requestor_max_pdu_length(), a.acceptor_max_pdu_length());
                let ctx = a.presentation_contexts()[0].id;
                rq_assoc = Some((Box::new(SyncEp(a)), ctx));
                v
            }
            Ok(Err(e)) => fail_rq("err", format!("{e}")),
            Err(p) => fail_rq("panic", p),
        }
    };
    let ac_view = view_rx.recv_timeout(Duration::from_secs(30)).unwrap_or(json!({"est": false, "err": "acceptor silent"}));
    let mut ac_view = ac_view;
    if ac_view.get("pcs").is_none() {
        ac_view["pcs"] = json!([]);
        ac_view["local"] = json!([0, 0]);
        ac_view["peer"] = json!([0, 0]);
    }
    // binding A: compare with the outcome demanded by TLC
    let mut exp_est = exp["est"].as_bool().unwrap();
    if selftest {
        exp_est = !exp_est;
    }
    if rq_view["est"].as_bool().unwrap() != exp_est {
        mism.push(json!({"what": if exp_est { "requestor fails to establish although contexts were accepted" } else if exp["refused"].as_bool().unwrap() { "requestor establishes with an unusable maximum PDU length" } else { "requestor establishes although nothing was accepted / rejected" },
                         "case": c, "rq": rq_view, "ac": ac_view}));
    }
    // data exchange
    let mut step_events = Vec::new();
    if let Some((a, ctx)) = rq_assoc.as_mut() {
        let ctx = *ctx;
        if ac_view["est"].as_bool().unwrap() {
            for (k, st) in j_arr(&c["steps"]).iter().enumerate() {
                let marker = (k + 1) as u8;
                let n = u32_of(&st["n"]).unwrap() as usize;
                let rq_side = j_str(&st["side"]) == "rq";
                let is_send = j_str(&st["via"]) == "send";
                let pdvs: Vec<usize> = st.get("pdvs").map(|v| j_arr(v).iter().map(j_usize).collect()).unwrap_or_default();
                let (ret, recv) = if is_send {
                    // a single PDU fits the socket buffers: send first, receive only if it went out
                    let ret = if rq_side {
                        a.send(ctx, n, marker, &pdvs)
                    } else {
                        let _ = cmd_tx.send(AcCmd::Send(n, marker, pdvs.clone()));
                        res_rx.recv_timeout(Duration::from_secs(30)).unwrap_or("err:acceptor silent".into())
                    };
                    let recv = if ret == "ok" {
                        if rq_side {
                            let _ = cmd_tx.send(AcCmd::Recv1);
                            res_rx.recv_timeout(Duration::from_secs(30)).unwrap_or("err:acceptor silent".into())
                        } else {
                            a.recv1()
                        }
                    } else {
                        "none".to_string()
                    };
                    (ret, recv)
                } else if rq_side {
                    let _ = cmd_tx.send(AcCmd::RecvLast);
                    let ret = a.pdata(ctx, n, marker);
                    let recv = res_rx.recv_timeout(Duration::from_secs(30)).unwrap_or("err:acceptor silent".into());
                    (ret, recv)
                } else {
                    let _ = cmd_tx.send(AcCmd::Pdata(n, marker));
                    let recv = a.recv_last();
                    let ret = res_rx.recv_timeout(Duration::from_secs(30)).unwrap_or("err:acceptor silent".into());
                    (ret, recv)
                };
                let allowed = st["allowed"].as_bool().unwrap();
                if (ret == "ok") != allowed {
                    mism.push(json!({"what": if allowed { format!("{} of a PDU within the peer's maximum fails", j_str(&st["via"])) } else if pdvs.len() > 1 { "over-long send of a PDU with several PDVs is not rejected locally".to_string() } else { "over-long send is not rejected locally".to_string() },
                                     "case": c, "step": st, "ret": ret}));
                }
                step_events.push((marker, json!({"ev": "send", "side": st["side"], "via": st["via"], "n": st["n"], "pdvs": pdvs, "ret": ret, "recv": recv})));
            }
        }
    }
    let _ = cmd_tx.send(AcCmd::Done);
    drop(cmd_tx);
    if let Some((a, _)) = rq_assoc.take() {
        a.abort();
    }
    let _ = ac_thread.join();
    let log = proxy.finish();
    // wire observations
    let mut wire: BTreeMap<(String, u8), Vec<Value>> = BTreeMap::new();
    let mut unattributed = 0usize;
    for e in &log {
        if e.what != "pdu" {
            continue;
        }
        match e.pdu_type {
            1 => {
                if let Some(j) = parse_pdu(&e.bytes).as_ref().and_then(rq_json) {
                    ev.push(json!({"ev": "rqpdu", "req": j}));
                }
            }
            2 | 3 => {
                if let Some(p) = parse_pdu(&e.bytes) {
                    ev.push(json!({"ev": "anspdu", "obs": answer_json(&p)}));
                }
            }
            4 => {
                if e.bytes.len() >= 13 {
                    wire.entry((e.from.to_string(), e.bytes[12])).or_default().push(halves(e.len));
                } else {
                    unattributed += 1;
                }
            }
            _ => {}
        }
    }
    ev.push(json!({"ev": "est", "rq": rq_view, "ac": ac_view}));
    for (marker, mut se) in step_events {
        let side = j_str(&se["side"]).to_string();
        se["wire"] = Value::Array(wire.remove(&(side, marker)).unwrap_or_default());
        ev.push(se);
    }
    if !wire.is_empty() || unattributed > 0 {
        // P-DATA on the wire that belongs to no recorded call: shown to the validator as a
        // call that reported nothing
        for ((side, _m), lens) in wire {
            ev.push(json!({"ev": "send", "side": side, "via": "send", "n": [65535, 65535], "pdvs": [], "ret": "unattributed", "recv": "none", "wire": lens}));
        }
    }
    // the same connection as a whole-life-cycle trace (TCP connect to close) for Trace_AssocLife
    let mut life = vec![json!({"ev": "reset", "scripted": [], "source": "c29", "kind": c["kind"], "api": if is_async { "async" } else { "sync" }})];
    for e in &log {
        match e.what {
            "pdu" => life.push(json!({"ev": "pdu", "from": e.from, "len": e.len, "kind": match e.pdu_type {
                1 => "AssocRQ", 2 => "AssocAC", 3 => "AssocRJ", 4 => "PData", 5 => "ReleaseRQ", 6 => "ReleaseRP", 7 => "Abort", _ => "Other" }})),
            "closed" if e.how == "WouldBlock" || e.how == "TimedOut" => life.push(json!({"ev": "stuck", "by": e.from})),
            "closed" => life.push(json!({"ev": "closed", "by": e.from, "how": e.how})),
            "garbage" => life.push(json!({"ev": "pdu", "from": e.from, "kind": "Other", "len": e.len})),
            _ => {}
        }
    }
    (ev, mism, life)
}

fn run_c29(args: &std::collections::HashMap<String, String>) {
    let cases = read_ndjson(&args["cases"]);
    let selftest = args.contains_key("selftest");
    let is_async = args.contains_key("async");
    let jobs: usize = args.get("jobs").map(|s| s.parse().unwrap()).unwrap_or(6);
    let next = std::sync::atomic::AtomicUsize::new(0);
    let results: std::sync::Mutex<Vec<Option<(Vec<Value>, Vec<Value>, Vec<Value>)>>> = std::sync::Mutex::new((0..cases.len()).map(|_| None).collect());
    std::thread::scope(|sc| {
        for _ in 0..jobs {
            sc.spawn(|| loop {
                let i = next.fetch_add(1, std::sync::atomic::Ordering::SeqCst);
                if i >= cases.len() {
                    break;
                }
                let r = run_c29_case(&cases[i], selftest && i % 9 == 0, is_async);
                results.lock().unwrap()[i] = Some(r);
            });
        }
    });
    let mut w = NdjsonWriter::create(&args["out"]);
    let mut lw = args.get("life-out").map(|p| NdjsonWriter::create(p));
    let mut rep = Report::new();
    let (mut est, mut sends) = (0usize, 0usize);
    let mut distinct = std::collections::BTreeSet::new();
    for (i, slot) in results.into_inner().unwrap().into_iter().enumerate() {
        let (ev, mism, life) = slot.expect("case result");
        rep.cases += 1;
        if let Some(lw) = lw.as_mut() {
            for e in &life {
                lw.emit(e);
            }
        }
        for e in &ev {
            if e["ev"] == "est" && e["rq"]["est"] == true {
                est += 1;
            }
            if e["ev"] == "send" {
                sends += 1;
            }
            w.emit(e);
        }
        distinct.insert(format!("{}|{}", cases[i]["opts"], cases[i]["cfg"]));
        for m in mism {
            rep.mismatch(m);
        }
    }
    let lines = w.finish();
    if let Some(lw) = lw {
        rep.extra.insert("life_events".into(), json!(lw.finish()));
    }
    rep.extra.insert("events".into(), json!(lines));
    rep.extra.insert("established".into(), json!(est));
    rep.extra.insert("send_calls".into(), json!(sends));
    rep.extra.insert("distinct".into(), json!(distinct.len()));
    rep.print();
}
