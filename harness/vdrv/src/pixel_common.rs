//! Shared by the pixel-area drivers (drv_rle, drv_native, drv_encaps, drv_lut):
//! building small in-memory image objects and a few projections.
//! Included with `#[path = "../pixel_common.rs"] mod pixel_common;`.
#![allow(dead_code)]

use dicom_core::value::{PixelFragmentSequence, Value};
use dicom_core::{DataElement, PrimitiveValue, VR};
use dicom_dictionary_std::tags;
use dicom_object::{FileDicomObject, FileMetaTableBuilder, InMemDicomObject};
use serde_json::Value as J;

pub const IVRLE: &str = "1.2.840.10008.1.2";
pub const EVRLE: &str = "1.2.840.10008.1.2.1";
pub const EVRBE: &str = "1.2.840.10008.1.2.2";
pub const ENCAPS_UNCOMPRESSED: &str = "1.2.840.10008.1.2.1.98";
pub const DEFLATED_FRAME: &str = "1.2.840.10008.1.2.8.1";
pub const RLE: &str = "1.2.840.10008.1.2.5";

#[derive(Clone, Debug)]
pub struct ImgSpec {
    pub rows: u16,
    pub cols: u16,
    pub spp: u16,
    pub bits_alloc: u16,
    pub bits_stored: u16,
    pub high_bit: u16,
    pub pixel_rep: u16,
    pub frames: u32,
}

impl ImgSpec {
    pub fn simple(rows: u16, cols: u16, spp: u16, bits: u16, frames: u32) -> Self {
        ImgSpec {
            rows,
            cols,
            spp,
            bits_alloc: bits,
            bits_stored: bits,
            high_bit: bits - 1,
            pixel_rep: 0,
            frames,
        }
    }
    pub fn from_json(c: &J) -> Self {
        let g = |k: &str| c[k].as_u64().unwrap_or_else(|| panic!("case field {k} missing in {c}"));
        ImgSpec::simple(g("rows") as u16, g("cols") as u16, g("spp") as u16, g("bits") as u16, g("frames") as u32)
    }
    pub fn frame_bytes(&self) -> usize {
        self.rows as usize * self.cols as usize * self.spp as usize * (self.bits_alloc as usize).div_ceil(8)
    }
}

pub type Obj = FileDicomObject<InMemDicomObject>;

/// image module attributes, no pixel data
pub fn base_object(s: &ImgSpec) -> InMemDicomObject {
    let mut o = InMemDicomObject::new_empty();
    o.put(DataElement::new(tags::SOP_CLASS_UID, VR::UI, "1.2.840.10008.5.1.4.1.1.7"));
    o.put(DataElement::new(tags::SOP_INSTANCE_UID, VR::UI, "1.2.826.0.1.3680043.8.498.1"));
    o.put(DataElement::new(tags::SAMPLES_PER_PIXEL, VR::US, PrimitiveValue::from(s.spp)));
    o.put(DataElement::new(
        tags::PHOTOMETRIC_INTERPRETATION,
        VR::CS,
        if s.spp == 3 { "RGB" } else { "MONOCHROME2" },
    ));
    if s.spp == 3 {
        o.put(DataElement::new(tags::PLANAR_CONFIGURATION, VR::US, PrimitiveValue::from(0u16)));
    }
    o.put(DataElement::new(tags::NUMBER_OF_FRAMES, VR::IS, s.frames.to_string()));
    o.put(DataElement::new(tags::ROWS, VR::US, PrimitiveValue::from(s.rows)));
    o.put(DataElement::new(tags::COLUMNS, VR::US, PrimitiveValue::from(s.cols)));
    o.put(DataElement::new(tags::BITS_ALLOCATED, VR::US, PrimitiveValue::from(s.bits_alloc)));
    o.put(DataElement::new(tags::BITS_STORED, VR::US, PrimitiveValue::from(s.bits_stored)));
    o.put(DataElement::new(tags::HIGH_BIT, VR::US, PrimitiveValue::from(s.high_bit)));
    o.put(DataElement::new(tags::PIXEL_REPRESENTATION, VR::US, PrimitiveValue::from(s.pixel_rep)));
    o
}

pub fn file_obj(o: InMemDicomObject, ts: &str) -> Obj {
    o.with_meta(
        FileMetaTableBuilder::new()
            .transfer_syntax(ts)
            .media_storage_sop_class_uid("1.2.840.10008.5.1.4.1.1.7")
            .media_storage_sop_instance_uid("1.2.826.0.1.3680043.8.498.1"),
    )
    .expect("file meta")
}

/// native object; `as_words` stores 16-bit data as a U16 value (OW), else bytes
pub fn native_object(s: &ImgSpec, data: &[u8], ts: &str, as_words: bool) -> Obj {
    let mut o = base_object(s);
    if as_words && data.len() % 2 == 0 {
        let w: Vec<u16> = data.chunks(2).map(|c| u16::from(c[0]) | (u16::from(c[1]) << 8)).collect();
        o.put(DataElement::new(tags::PIXEL_DATA, VR::OW, PrimitiveValue::U16(w.into())));
    } else {
        o.put(DataElement::new(
            tags::PIXEL_DATA,
            if s.bits_alloc > 8 { VR::OW } else { VR::OB },
            PrimitiveValue::from(data.to_vec()),
        ));
    }
    file_obj(o, ts)
}

pub fn encapsulated_object(s: &ImgSpec, bot: Vec<u32>, frags: Vec<Vec<u8>>, ts: &str) -> Obj {
    let mut o = base_object(s);
    let v: Value<InMemDicomObject, Vec<u8>> = PixelFragmentSequence::new(bot, frags).into();
    o.put(DataElement::new(tags::PIXEL_DATA, VR::OB, v));
    file_obj(o, ts)
}

pub fn jb(b: &[u8]) -> J {
    J::Array(b.iter().map(|x| J::from(*x as u64)).collect())
}
pub fn jbb(b: &[Vec<u8>]) -> J {
    J::Array(b.iter().map(|x| jb(x)).collect())
}
pub fn ju32(b: &[u32]) -> J {
    J::Array(b.iter().map(|x| J::from(*x as u64)).collect())
}
pub fn bytes_of(v: &J) -> Vec<u8> {
    v.as_array()
        .unwrap_or_else(|| panic!("expected array, got {v}"))
        .iter()
        .map(|x| x.as_u64().expect("byte") as u8)
        .collect()
}
pub fn bytes_list_of(v: &J) -> Vec<Vec<u8>> {
    v.as_array().unwrap_or_else(|| panic!("expected array, got {v}")).iter().map(bytes_of).collect()
}

/// serialise an object to a complete file image (preamble + meta + data set) and read it back
pub fn write_bytes(o: &Obj) -> Result<Vec<u8>, String> {
    let mut out = Vec::new();
    o.write_all(&mut out).map_err(|e| format!("{e:?}"))?;
    Ok(out)
}
pub fn read_bytes(b: &[u8]) -> Result<Obj, String> {
    // from_reader expects the stream positioned after the preamble
    let body = if b.len() > 132 && &b[128..132] == b"DICM" { &b[128..] } else { b };
    dicom_object::from_reader(body).map_err(|e| format!("{e:?}"))
}
