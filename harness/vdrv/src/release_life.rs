// Whole-life-cycle runs of drv_release (included by bin/drv_release.rs), validated by
// specs/assoc/Trace_AssocLife.tla:
//
//   drv_release est --n N --out <trace>
//       establishment variants: rejection, nothing accepted, and scripted peers that put the
//       wrong PDU first / answer the request with the wrong PDU / close early
//   drv_release tools --echoscu <bin> --storescu <bin> --findscu <bin> --out <trace>
//       the real tools as requestors against a scripted acceptor that serves, rejects, aborts
//       mid-way, closes early or never answers the release

use dicom_ul::association::read_pdu_from_wire;
use dicom_ul::pdu::{
    AbortRQSource, AssociationAC, AssociationRJ, AssociationRJResult, AssociationRJServiceUserReason, AssociationRJSource,
    AssociationRQ, PresentationContextProposed, PresentationContextResult, PresentationContextResultReason, UserVariableItem,
    MAXIMUM_PDU_SIZE,
};
use std::io::Write as _;

fn raw_write(s: &mut TcpStream, pdu: &Pdu) -> bool {
    let mut b = Vec::new();
    if dicom_ul::write_pdu(&mut b, pdu).is_err() {
        return false;
    }
    s.write_all(&b).is_ok()
}

/// read PDUs until the stream ends (or the guard fires); returns their kinds.  A script is
/// not an SCP, but it does not leave the other side waiting: an A-ASSOCIATE-AC is followed
/// by an A-RELEASE-RQ, and after an A-RELEASE-RQ / A-ABORT it stops reading (and closes).
fn raw_drain(s: &mut TcpStream) -> Vec<String> {
    let mut got = Vec::new();
    let mut buf = bytes::BytesMut::new();
    let _ = s.set_read_timeout(Some(GUARD));
    loop {
        match read_pdu_from_wire(s, &mut buf, MAXIMUM_PDU_SIZE, false) {
            Ok(p) => {
                got.push(p.short_description().to_string());
                match p {
                    Pdu::AssociationAC(_) => {
                        raw_write(s, &Pdu::ReleaseRQ);
                    }
                    Pdu::ReleaseRQ | Pdu::AbortRQ { .. } => return got,
                    _ => {}
                }
            }
            Err(e) => {
                got.push(format!("end:{}", err_class(&e)));
                return got;
            }
        }
    }
}

fn some_rq(pv: u16) -> Pdu {
    Pdu::AssociationRQ(AssociationRQ {
        protocol_version: pv,
        calling_ae_title: "SCRIPT".into(),
        called_ae_title: "ANY-SCP".into(),
        application_context_name: "1.2.840.10008.3.1.1.1".into(),
        presentation_contexts: vec![PresentationContextProposed { id: 1, abstract_syntax: VERIFICATION.into(), transfer_syntaxes: vec!["1.2.840.10008.1.2".into()] }],
        user_variables: vec![UserVariableItem::MaxLength(16384), UserVariableItem::ImplementationClassUID("1.2.826.0.1.3680043.9.9999.1".into())],
    })
}

fn some_ac(accept: bool) -> Pdu {
    Pdu::AssociationAC(AssociationAC {
        protocol_version: 1,
        calling_ae_title: "THIS-SCU".into(),
        called_ae_title: "ANY-SCP".into(),
        application_context_name: "1.2.840.10008.3.1.1.1".into(),
        presentation_contexts: vec![PresentationContextResult {
            id: 1,
            reason: if accept { PresentationContextResultReason::Acceptance } else { PresentationContextResultReason::AbstractSyntaxNotSupported },
            transfer_syntax: "1.2.840.10008.1.2".into(),
        }],
        user_variables: vec![UserVariableItem::MaxLength(16384), UserVariableItem::ImplementationClassUID("1.2.826.0.1.3680043.9.9999.1".into())],
    })
}

fn some_rj() -> Pdu {
    Pdu::AssociationRJ(AssociationRJ { result: AssociationRJResult::Permanent, source: AssociationRJSource::ServiceUser(AssociationRJServiceUserReason::NoReasonGiven) })
}

/// PDUs a script may put where an A-ASSOCIATE-RQ (requestor) or an AC/RJ (acceptor) belongs
fn odd_pdu(k: usize) -> (&'static str, Option<Pdu>) {
    match k {
        0 => ("ReleaseRQ", Some(Pdu::ReleaseRQ)),
        1 => ("ReleaseRP", Some(Pdu::ReleaseRP)),
        2 => ("PData", Some(data_pdu(1))),
        3 => ("Abort", Some(Pdu::AbortRQ { source: AbortRQSource::ServiceUser })),
        4 => ("AssocAC", Some(some_ac(true))),
        5 => ("AssocRJ", Some(some_rj())),
        6 => ("Unknown", Some(Pdu::Unknown { pdu_type: 0x55, data: vec![1, 2, 3, 4] })),
        7 => ("AssocRQ", Some(some_rq(1))),
        _ => ("nothing", None),
    }
}

fn est_state_rq(e: &AssocError) -> &'static str {
    match e {
        // processing errors: the requestor writes an A-ABORT and drops the socket
        AssocError::Rejected { .. } | AssocError::NoAcceptedPresentationContexts { .. } | AssocError::UnexpectedPdu { .. }
        | AssocError::UnknownPdu { .. } | AssocError::ProtocolVersionMismatch { .. } => "Aborted",
        // read errors: the socket is just dropped
        _ => "EstFailed",
    }
}

fn est_state_ac(e: &AssocError) -> &'static str {
    match e {
        AssocError::Rejected { .. } => "RejectedPeer",
        // wrong first PDU: answered (A-ABORT, or A-RELEASE-RP for an early A-RELEASE-RQ), then dropped
        AssocError::UnexpectedPdu { .. } | AssocError::UnknownPdu { .. } | AssocError::Aborted { .. } => "Aborted",
        _ => "EstFailed",
    }
}

/// one establishment case; returns the trace events
fn run_est_case(variant: usize, sub: usize) -> Vec<serde_json::Value> {
    let mut ev: Vec<serde_json::Value> = Vec::new();
    let listener = TcpListener::bind("127.0.0.1:0").expect("bind");
    let saddr = listener.local_addr().unwrap();
    let proxy = Proxy::start(saddr, 64);
    let paddr = proxy.addr;
    let mut ends: Vec<serde_json::Value> = Vec::new();
    let label;
    let scripted: Vec<&str>;
    match variant {
        // ---- both ends are the library
        0 | 1 | 2 => {
            scripted = vec![];
            label = ["called AE title not recognised -> RJ", "no common abstract syntax -> AC without accepted context", "accepted, requestor aborts"][variant].to_string();
            let v = variant;
            let ac = std::thread::spawn(move || {
                let (stream, _) = listener.accept().expect("accept");
                let _ = stream.set_nodelay(true);
                let base = ServerAssociationOptions::new().read_timeout(GUARD).ae_title("THIS-SCP");
                let r = match v {
                    0 => base.with_abstract_syntax(VERIFICATION).accept_called_ae_title().establish(stream),
                    1 => base.with_abstract_syntax(CT_STORAGE).establish(stream),
                    _ => base.with_abstract_syntax(VERIFICATION).establish(stream),
                };
                match r {
                    Ok(mut a) => {
                        // application loop until the peer is gone
                        let st = loop {
                            match SyncAssociation::receive(&mut a) {
                                Ok(Pdu::AbortRQ { .. }) => break "PeerAborted",
                                Ok(Pdu::ReleaseRQ) => {
                                    let _ = SyncAssociation::send(&mut a, &Pdu::ReleaseRP);
                                    break "ReleasedByPeer";
                                }
                                Ok(_) => {}
                                Err(_) => break "PeerClosed",
                            }
                        };
                        (st, "established".to_string())
                    }
                    Err(e) => (est_state_ac(&e), format!("err:{}", err_class(&e))),
                }
            });
            let opts = ClientAssociationOptions::new().with_abstract_syntax(VERIFICATION).called_ae_title("OTHER-SCP").read_timeout(GUARD);
            let (rq_state, rq_ret) = match opts.establish(paddr) {
                Ok(a) => {
                    let r = a.abort();
                    ("Aborted", format!("established, abort {}", if r.is_ok() { "ok" } else { "err" }))
                }
                Err(e) => (est_state_rq(&e), format!("err:{}", err_class(&e))),
            };
            let (ac_state, ac_ret) = ac.join().unwrap_or(("EstFailed", "panic".into()));
            ends.push(json!({"ev": "end", "peer": "rq", "state": rq_state, "api": rq_ret}));
            ends.push(json!({"ev": "end", "peer": "ac", "state": ac_state, "api": ac_ret}));
        }
        // ---- scripted requestor against the library acceptor
        3 => {
            scripted = vec!["rq"];
            let (name, first) = odd_pdu(sub % 9);
            let second = sub / 9 % 3; // 0: wait for the answer, 1: close at once, 2: send a request with another protocol version
            label = format!("script sends {name} first{}", ["", ", closes at once", " (as A-ASSOCIATE-RQ with protocol version 2)"][if name == "AssocRQ" { second } else { second.min(1) }]);
            let ac = std::thread::spawn(move || {
                let (stream, _) = listener.accept().expect("accept");
                let _ = stream.set_nodelay(true);
                match ServerAssociationOptions::new().with_abstract_syntax(VERIFICATION).read_timeout(GUARD).establish(stream) {
                    Ok(mut a) => {
                        let st = loop {
                            match SyncAssociation::receive(&mut a) {
                                Ok(Pdu::AbortRQ { .. }) => break "PeerAborted",
                                Ok(Pdu::ReleaseRQ) => {
                                    let _ = SyncAssociation::send(&mut a, &Pdu::ReleaseRP);
                                    break "ReleasedByPeer";
                                }
                                Ok(_) => {}
                                Err(_) => break "PeerClosed",
                            }
                        };
                        (st, "established".to_string())
                    }
                    Err(e) => (est_state_ac(&e), format!("err:{}", err_class(&e))),
                }
            });
            let mut s = TcpStream::connect(paddr).expect("connect");
            let _ = s.set_nodelay(true);
            let first = if name == "AssocRQ" && second == 2 { Some(some_rq(2)) } else { first };
            if let Some(p) = &first {
                raw_write(&mut s, p);
            }
            let got = if second == 1 { vec!["closed at once".to_string()] } else { raw_drain(&mut s) };
            drop(s);
            let (ac_state, ac_ret) = ac.join().unwrap_or(("EstFailed", "panic".into()));
            ends.push(json!({"ev": "end", "peer": "ac", "state": ac_state, "api": ac_ret, "script_saw": got}));
        }
        // ---- library requestor against a scripted acceptor
        _ => {
            scripted = vec!["ac"];
            let (name, reply) = odd_pdu(sub % 9);
            let reply = if name == "AssocAC" && sub / 9 % 2 == 1 { Some(some_ac(false)) } else { reply };
            let read_first = sub / 18 % 2 == 0; // answer after reading the request, or without reading it
            label = format!("script answers the request with {name}{}{}", if name == "AssocAC" && sub / 9 % 2 == 1 { " (nothing accepted)" } else { "" }, if read_first { "" } else { " without reading it" });
            let ac = std::thread::spawn(move || {
                let (mut stream, _) = listener.accept().expect("accept");
                let _ = stream.set_nodelay(true);
                let _ = stream.set_read_timeout(Some(GUARD));
                let mut saw = Vec::new();
                if read_first {
                    let mut buf = bytes::BytesMut::new();
                    match read_pdu_from_wire(&mut stream, &mut buf, MAXIMUM_PDU_SIZE, false) {
                        Ok(p) => saw.push(p.short_description().to_string()),
                        Err(e) => saw.push(format!("end:{}", err_class(&e))),
                    }
                }
                if let Some(p) = &reply {
                    raw_write(&mut stream, p);
                }
                if reply.is_some() {
                    saw.extend(raw_drain(&mut stream));
                }
                saw
            });
            let opts = ClientAssociationOptions::new().with_abstract_syntax(VERIFICATION).read_timeout(GUARD);
            let (rq_state, rq_ret) = match opts.establish(paddr) {
                Ok(a) => {
                    // the script is not an SCP: release ends in an error or a reply, either is recorded
                    match a.release() {
                        Ok(()) => ("Released", "established, release ok".to_string()),
                        Err(e) => ("Failed", format!("established, release err:{}", err_class(&e))),
                    }
                }
                Err(e) => (est_state_rq(&e), format!("err:{}", err_class(&e))),
            };
            let saw = ac.join().unwrap_or_default();
            ends.push(json!({"ev": "end", "peer": "rq", "state": rq_state, "api": rq_ret, "script_saw": saw}));
        }
    }
    let log = proxy.finish();
    ev.push(json!({"ev": "reset", "scripted": scripted, "variant": label}));
    wire_to_trace(&log, &mut ev, false);
    ev.extend(ends);
    ev
}

fn run_est(args: &std::collections::HashMap<String, String>) {
    LIFE.store(true, std::sync::atomic::Ordering::Relaxed);
    let mut cases: Vec<(usize, usize)> = vec![(0, 0), (1, 0), (2, 0)];
    for sub in 0..27 {
        cases.push((3, sub));
    }
    for sub in 0..36 {
        cases.push((4, sub));
    }
    let reps: usize = args.get("n").map(|s| s.parse().unwrap()).unwrap_or(1);
    let mut w = NdjsonWriter::create(&args["out"]);
    let mut rep = Report::new();
    let mut events = 0usize;
    let mut patterns: std::collections::BTreeMap<String, usize> = std::collections::BTreeMap::new();
    for _ in 0..reps {
        for &(v, sub) in &cases {
            let ev = run_est_case(v, sub);
            // observations for the report (not a verdict): what the dicom-rs side put on the wire
            let lib = |e: &serde_json::Value| !ev[0]["scripted"].as_array().unwrap().iter().any(|s| s == &e["from"]);
            let wire: Vec<String> = ev.iter().filter(|e| e["ev"] == "pdu").map(|e| format!("{}{}", if lib(e) { "" } else { "script:" }, e["kind"].as_str().unwrap())).collect();
            *patterns.entry(wire.join(",")).or_default() += 1;
            for e in &ev {
                w.emit(e);
            }
            events += ev.len();
            rep.cases += 1;
        }
    }
    w.finish();
    rep.extra.insert("events".into(), json!(events));
    rep.extra.insert("wire_patterns".into(), json!(patterns));
    rep.print();
}

// ------------------------------------------------------------------------------------------ tools

fn parse_cmd(b: &[u8]) -> std::collections::BTreeMap<(u16, u16), Vec<u8>> {
    let mut m = std::collections::BTreeMap::new();
    let mut i = 0;
    while i + 8 <= b.len() {
        let g = u16::from_le_bytes([b[i], b[i + 1]]);
        let e = u16::from_le_bytes([b[i + 2], b[i + 3]]);
        let l = u32::from_le_bytes([b[i + 4], b[i + 5], b[i + 6], b[i + 7]]) as usize;
        if i + 8 + l > b.len() {
            break;
        }
        m.insert((g, e), b[i + 8..i + 8 + l].to_vec());
        i += 8 + l;
    }
    m
}

fn us_of(v: Option<&Vec<u8>>) -> u16 {
    v.filter(|v| v.len() >= 2).map(|v| u16::from_le_bytes([v[0], v[1]])).unwrap_or(0)
}

/// success response to a DIMSE request command
fn dimse_rsp(cmd: &std::collections::BTreeMap<(u16, u16), Vec<u8>>) -> Vec<u8> {
    let field = us_of(cmd.get(&(0, 0x100)));
    let mut els = Vec::new();
    if let Some(c) = cmd.get(&(0, 2)) {
        els.push(ivr_el(0, 2, c.clone(), 0));
    }
    els.push(ivr_us(0, 0x100, field | 0x8000));
    els.push(ivr_us(0, 0x120, us_of(cmd.get(&(0, 0x110)))));
    els.push(ivr_us(0, 0x800, 0x0101));
    els.push(ivr_us(0, 0x900, 0));
    if let Some(i) = cmd.get(&(0, 0x1000)) {
        els.push(ivr_el(0, 0x1000, i.clone(), 0));
    }
    command_set(els)
}

#[derive(Clone, Copy, Debug, PartialEq)]
enum Behave {
    Serve,
    Reject,
    CloseAfterAc,
    AbortMid,
    CloseMid,
    AbortInsteadOfRp,
    CloseInsteadOfRp,
}

/// scripted acceptor for one connection; returns what it saw
fn scripted_scp(listener: TcpListener, how: Behave) -> Vec<String> {
    let mut saw = Vec::new();
    let (mut stream, _) = match listener.accept() {
        Ok(x) => x,
        Err(e) => return vec![format!("accept: {e}")],
    };
    let _ = stream.set_nodelay(true);
    if how == Behave::Reject {
        let _ = stream.set_read_timeout(Some(GUARD));
        let mut buf = bytes::BytesMut::new();
        if let Ok(p) = read_pdu_from_wire(&mut stream, &mut buf, MAXIMUM_PDU_SIZE, false) {
            saw.push(p.short_description().to_string());
        }
        raw_write(&mut stream, &some_rj());
        saw.extend(raw_drain(&mut stream));
        return saw;
    }
    let mut a = match ServerAssociationOptions::new().promiscuous(true).read_timeout(GUARD).establish(stream) {
        Ok(a) => a,
        Err(e) => return vec![format!("establish: {e}")],
    };
    saw.push("established".into());
    if how == Behave::CloseAfterAc {
        return saw;
    }
    let mut pending: Option<(u8, std::collections::BTreeMap<(u16, u16), Vec<u8>>)> = None;
    loop {
        match SyncAssociation::receive(&mut a) {
            Ok(Pdu::PData { data }) => {
                saw.push("PData".into());
                match how {
                    Behave::AbortMid => {
                        let _ = a.abort();
                        return saw;
                    }
                    Behave::CloseMid => return saw,
                    _ => {}
                }
                for v in data {
                    if v.value_type == PDataValueType::Command && v.is_last {
                        let cmd = parse_cmd(&v.data);
                        if us_of(cmd.get(&(0, 0x800))) == 0x0101 {
                            let _ = SyncAssociation::send(&mut a, &pdv(v.presentation_context_id, true, dimse_rsp(&cmd)));
                        } else {
                            pending = Some((v.presentation_context_id, cmd));
                        }
                    } else if v.value_type == PDataValueType::Data && v.is_last {
                        if let Some((ctx, cmd)) = pending.take() {
                            let _ = SyncAssociation::send(&mut a, &pdv(ctx, true, dimse_rsp(&cmd)));
                        }
                    }
                }
            }
            Ok(Pdu::ReleaseRQ) => {
                saw.push("ReleaseRQ".into());
                match how {
                    Behave::AbortInsteadOfRp => {
                        let _ = a.abort();
                    }
                    Behave::CloseInsteadOfRp => {}
                    _ => {
                        let _ = SyncAssociation::send(&mut a, &Pdu::ReleaseRP);
                    }
                }
                return saw;
            }
            Ok(p) => {
                saw.push(p.short_description().to_string());
                if matches!(p, Pdu::AbortRQ { .. }) {
                    return saw;
                }
            }
            Err(e) => {
                saw.push(format!("end:{}", err_class(&e)));
                return saw;
            }
        }
    }
}

fn make_dicom_file(path: &str) -> Result<(), String> {
    use dicom_core::{DataElement, PrimitiveValue, VR};
    use dicom_dictionary_std::tags;
    use dicom_object::{FileMetaTableBuilder, InMemDicomObject};
    let uid = "1.2.826.0.1.3680043.9.9999.30.2";
    let obj = InMemDicomObject::from_element_iter([
        DataElement::new(tags::SOP_CLASS_UID, VR::UI, PrimitiveValue::from(CT_STORAGE)),
        DataElement::new(tags::SOP_INSTANCE_UID, VR::UI, PrimitiveValue::from(uid)),
        DataElement::new(tags::PATIENT_NAME, VR::PN, PrimitiveValue::from("LIFE^CYCLE")),
        DataElement::new(tags::PATIENT_ID, VR::LO, PrimitiveValue::from("C30")),
    ]);
    let file = obj
        .with_meta(FileMetaTableBuilder::new().transfer_syntax("1.2.840.10008.1.2.1").media_storage_sop_class_uid(CT_STORAGE).media_storage_sop_instance_uid(uid))
        .map_err(|e| e.to_string())?;
    file.write_to_file(path).map_err(|e| e.to_string())
}

fn run_tools(args: &std::collections::HashMap<String, String>) {
    LIFE.store(true, std::sync::atomic::Ordering::Relaxed);
    let mut rep = Report::new();
    let mut w = NdjsonWriter::create(&args["out"]);
    let file = format!("{}.dcm", args["out"]);
    if let Err(e) = make_dicom_file(&file) {
        rep.extra.insert("fatal".into(), json!(format!("cannot write test file: {e}")));
        rep.print();
        return;
    }
    let reps: usize = args.get("n").map(|s| s.parse().unwrap()).unwrap_or(1);
    let tools: Vec<(&str, Vec<String>)> = vec![
        ("echoscu", vec![]),
        ("storescu", vec![file.clone()]),
        ("findscu", vec!["-S".into(), "-q".into(), "PatientName=LIFE*".into()]),
    ];
    let behaviours = [Behave::Serve, Behave::Reject, Behave::CloseAfterAc, Behave::AbortMid, Behave::CloseMid, Behave::AbortInsteadOfRp, Behave::CloseInsteadOfRp];
    let mut events = 0usize;
    let mut patterns: std::collections::BTreeMap<String, usize> = std::collections::BTreeMap::new();
    let mut hung = Vec::new();
    for _ in 0..reps {
        for (tool, extra) in &tools {
            let Some(bin) = args.get(*tool) else { continue };
            for how in behaviours {
                let listener = TcpListener::bind("127.0.0.1:0").expect("bind");
                let saddr = listener.local_addr().unwrap();
                let proxy = Proxy::start(saddr, 64);
                let scp = std::thread::spawn(move || scripted_scp(listener, how));
                let mut cmd = Command::new(bin);
                cmd.arg(proxy.addr.to_string());
                for a in extra {
                    cmd.arg(a);
                }
                cmd.stdout(Stdio::null()).stderr(Stdio::null());
                let mut child = match cmd.spawn() {
                    Ok(c) => c,
                    Err(e) => {
                        hung.push(format!("{tool}: spawn: {e}"));
                        continue;
                    }
                };
                // wait for the tool to exit (hang guard: kill)
                let t0 = Instant::now();
                let status = loop {
                    match child.try_wait() {
                        Ok(Some(st)) => break st.code().map(|c| c.to_string()).unwrap_or("signal".into()),
                        Ok(None) if t0.elapsed() > Duration::from_secs(30) => {
                            let _ = child.kill();
                            let _ = child.wait();
                            hung.push(format!("{tool} against {how:?}: killed after 30 s"));
                            break "killed".to_string();
                        }
                        Ok(None) => std::thread::sleep(Duration::from_millis(2)),
                        Err(e) => break format!("wait: {e}"),
                    }
                };
                let saw = scp.join().unwrap_or_default();
                let log = proxy.finish();
                let mut ev = vec![json!({"ev": "reset", "scripted": ["ac"], "tool": tool, "acceptor": format!("{how:?}"), "exit": status, "script_saw": saw})];
                wire_to_trace(&log, &mut ev, false);
                let wire: Vec<String> = ev.iter().filter(|e| e["ev"] == "pdu" && e["from"] == "rq").map(|e| e["kind"].as_str().unwrap().to_string()).collect();
                // collapse runs of P-DATA for the pattern summary
                let mut pat: Vec<String> = Vec::new();
                for k in wire {
                    if k == "PData" && pat.last().map(|l| l.starts_with("PData")).unwrap_or(false) {
                        *pat.last_mut().unwrap() = "PData+".into();
                    } else {
                        pat.push(k);
                    }
                }
                *patterns.entry(format!("{tool} vs {how:?} (exit {status}): {}", pat.join(","))).or_default() += 1;
                for e in &ev {
                    w.emit(e);
                }
                events += ev.len();
                rep.cases += 1;
            }
        }
    }
    w.finish();
    let _ = std::fs::remove_file(&file);
    rep.extra.insert("events".into(), json!(events));
    rep.extra.insert("tool_wire_patterns".into(), json!(patterns));
    rep.extra.insert("hung".into(), json!(hung));
    rep.print();
}
