//! Shared helpers of the association drivers (drv_negotiate, drv_release):
//! JSON projections of PDUs and a recording TCP proxy.
//!
//! The proxy sits between a requestor and an acceptor.  Each direction is
//! pumped by its own thread; both threads append to one log under a mutex and
//! log a PDU *before* forwarding it, so a reply is always logged after its
//! cause.  Only the thread that reads from a peer logs that peer's close.
#![allow(dead_code)]

use serde_json::{json, Value};
use std::io::{Read, Write};
use std::net::{Shutdown, SocketAddr, TcpListener, TcpStream};
use std::sync::{Arc, Mutex};
use std::thread::JoinHandle;
use std::time::Duration;

pub fn halves(x: u32) -> Value {
    json!([(x >> 16) as u64, (x & 0xFFFF) as u64])
}

/// [] -> None, [hi, lo] -> Some(u32)
pub fn u32_of(v: &Value) -> Option<u32> {
    let a = v.as_array().expect("halves array");
    if a.is_empty() {
        None
    } else {
        Some(((a[0].as_u64().unwrap() as u32) << 16) | a[1].as_u64().unwrap() as u32)
    }
}

/// {u, pad} -> text with `pad` trailing NUL bytes
pub fn uid_text(v: &Value) -> String {
    let mut s = v["u"].as_str().expect("uid.u").to_string();
    for _ in 0..v["pad"].as_u64().unwrap_or(0) {
        s.push('\0');
    }
    s
}

/// text -> {u, pad}: trailing NUL bytes counted as padding (PS3.5: not significant)
pub fn uid_json(s: &str) -> Value {
    let t = s.trim_end_matches('\0');
    json!({"u": t, "pad": (s.len() - t.len()) as u64})
}

pub fn pdu_kind(t: u8) -> &'static str {
    match t {
        1 => "AssociateRQ",
        2 => "AssociateAC",
        3 => "AssociateRJ",
        4 => "PData",
        5 => "ReleaseRQ",
        6 => "ReleaseRP",
        7 => "Abort",
        _ => "Unknown",
    }
}

#[derive(Clone, Debug)]
pub struct WireEvent {
    /// "rq" (requestor -> acceptor) or "ac"
    pub from: &'static str,
    /// "pdu" | "closed" | "undeliverable" | "garbage"
    pub what: &'static str,
    pub pdu_type: u8,
    /// value of the PDU-length field
    pub len: u32,
    /// complete PDU bytes (only kept when short, or when keep_bytes)
    pub bytes: Vec<u8>,
    /// how the read side ended: "eof" | "reset" | other error kind
    pub how: String,
}

pub struct Proxy {
    pub addr: SocketAddr,
    pub log: Arc<Mutex<Vec<WireEvent>>>,
    handle: Option<JoinHandle<()>>,
}

fn pump(mut src: TcpStream, mut dst: TcpStream, from: &'static str, log: Arc<Mutex<Vec<WireEvent>>>, keep: usize) {
    let mut buf: Vec<u8> = Vec::new();
    let mut chunk = vec![0u8; 65536];
    let mut dst_ok = true;
    let how;
    loop {
        // complete PDUs in buf?
        loop {
            if buf.len() < 6 {
                break;
            }
            let len = u32::from_be_bytes([buf[2], buf[3], buf[4], buf[5]]) as usize;
            if buf.len() < 6 + len {
                break;
            }
            let pdu: Vec<u8> = buf.drain(..6 + len).collect();
            {
                let mut l = log.lock().unwrap();
                l.push(WireEvent {
                    from,
                    what: "pdu",
                    pdu_type: pdu[0],
                    len: len as u32,
                    bytes: if pdu.len() <= keep { pdu.clone() } else { pdu[..16.min(pdu.len())].to_vec() },
                    how: String::new(),
                });
            }
            if dst_ok && dst.write_all(&pdu).is_err() {
                dst_ok = false;
                log.lock().unwrap().push(WireEvent {
                    from,
                    what: "undeliverable",
                    pdu_type: pdu[0],
                    len: len as u32,
                    bytes: vec![],
                    how: String::new(),
                });
            }
        }
        match src.read(&mut chunk) {
            Ok(0) => {
                how = "eof".to_string();
                break;
            }
            Ok(n) => buf.extend_from_slice(&chunk[..n]),
            Err(e) => {
                how = format!("{:?}", e.kind());
                break;
            }
        }
    }
    {
        let mut l = log.lock().unwrap();
        if !buf.is_empty() {
            l.push(WireEvent { from, what: "garbage", pdu_type: buf[0], len: buf.len() as u32, bytes: vec![], how: String::new() });
        }
        l.push(WireEvent { from, what: "closed", pdu_type: 0, len: 0, bytes: vec![], how });
    }
    // the peer closed (or reset): pass the end of stream on
    let _ = dst.shutdown(Shutdown::Write);
}

impl Proxy {
    /// Accept ONE connection on an ephemeral port and relay it to `target`.
    pub fn start(target: SocketAddr, keep_bytes: usize) -> Proxy {
        let listener = TcpListener::bind("127.0.0.1:0").expect("proxy bind");
        let addr = listener.local_addr().unwrap();
        let log = Arc::new(Mutex::new(Vec::new()));
        let log2 = log.clone();
        let handle = std::thread::spawn(move || {
            let (c, _) = match listener.accept() {
                Ok(x) => x,
                Err(_) => return,
            };
            let s = match TcpStream::connect(target) {
                Ok(s) => s,
                Err(_) => return,
            };
            let _ = c.set_nodelay(true);
            let _ = s.set_nodelay(true);
            // hang guard only: a pump gives up after a long silence
            let _ = c.set_read_timeout(Some(Duration::from_secs(30)));
            let _ = s.set_read_timeout(Some(Duration::from_secs(30)));
            let (c2, s2) = (c.try_clone().unwrap(), s.try_clone().unwrap());
            let l1 = log2.clone();
            let t = std::thread::spawn(move || pump(c2, s2, "rq", l1, keep_bytes));
            pump(s, c, "ac", log2, keep_bytes);
            let _ = t.join();
        });
        Proxy { addr, log, handle: Some(handle) }
    }

    /// Wait for both directions to end; returns the log.
    pub fn finish(mut self) -> Vec<WireEvent> {
        if let Some(h) = self.handle.take() {
            let _ = h.join();
        }
        let l = self.log.lock().unwrap();
        l.clone()
    }

    /// Number of events logged so far.
    pub fn len(&self) -> usize {
        self.log.lock().unwrap().len()
    }
}
